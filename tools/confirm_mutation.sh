#!/bin/bash
# confirm_mutation.sh <PROP> <worktree> <name>
# Confirms in the scratch worktree that (a) with the change the workspace builds and the existing tests pass,
# (b) the demo fails with the change, (c) the demo passes without it. Then stores patch+demo under /verif/seeded/<name>/,
# applies the patch to /repo, runs the property's quick check, and reverts /repo.
set -u
PROP=$1; WT=$2; NAME=$3; DEMOFLAGS=${4:-}   # 4th argument: e.g. --release for a demo that only fails in release
export CARGO_NET_OFFLINE=true
cd "$WT" || exit 2
DEMO=$(git status --porcelain | grep '^??' | awk '{print $2}' | grep -v '^target' | head -5)
git diff > /tmp/$NAME.patch
[ -s /tmp/$NAME.patch ] || { echo "no source change"; exit 2; }
demo_file=$(find . -path ./target -prune -o -name 'seeded_demo*.rs' -print | head -1)
crate=$(echo "$demo_file" | cut -d/ -f2)
echo "== demo: $demo_file (crate $crate)"
# existing tests with change (exclude the demo target)
mv "$demo_file" /tmp/$NAME.demo.rs
if cargo test --workspace --no-fail-fast --offline >/tmp/$NAME.tests.log 2>&1; then T_WITH=pass; else T_WITH=FAIL; fi
cp /tmp/$NAME.demo.rs "$demo_file"
if cargo test -p "$crate" --test "$(basename "$demo_file" .rs)" --offline $DEMOFLAGS >/tmp/$NAME.demo_with.log 2>&1; then D_WITH=pass; else D_WITH=fail; fi
git apply -R /tmp/$NAME.patch
if cargo test -p "$crate" --test "$(basename "$demo_file" .rs)" --offline $DEMOFLAGS >/tmp/$NAME.demo_without.log 2>&1; then D_WITHOUT=pass; else D_WITHOUT=fail; fi
git apply /tmp/$NAME.patch
echo "existing tests with change: $T_WITH ; demo with change: $D_WITH ; demo without change: $D_WITHOUT"
if [ "$T_WITH" != pass ] || [ "$D_WITH" != fail ] || [ "$D_WITHOUT" != pass ]; then echo "NOT CONFIRMED"; exit 3; fi
mkdir -p /verif/seeded/$NAME
cp /tmp/$NAME.patch /verif/seeded/$NAME/patch.diff
cp "$demo_file" /verif/seeded/$NAME/$(basename "$demo_file")
echo "$demo_file" > /verif/seeded/$NAME/demo_path.txt
# run the check against the mutated /repo
cd /repo && git apply /verif/seeded/$NAME/patch.diff || { echo "patch does not apply to /repo"; exit 4; }
cd /verif && python3 check.py $PROP --tier quick > /tmp/$NAME.check.log 2>&1; RC=$?
cd /repo && git checkout -- . 
echo "check rc=$RC"; grep -E "VIOLATION|OK prop|KNOWN" /tmp/$NAME.check.log | head -3; grep "case=" /tmp/$NAME.check.log | head -2
echo "$RC" > /verif/seeded/$NAME/check_rc.txt
