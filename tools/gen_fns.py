#!/usr/bin/env python3
"""gen_fns.py - TRANSLATOR of Rust function bodies (working tree of /repo) into the IR of `lean/Mb2/Rir.lean`.

For every request (file, enclosing `impl` header pattern, function name, list of input names) the function's body is
parsed with a small hand-written Rust parser (expressions with full operator precedence, `let`, `if` / `else`, `match`,
blocks, `return`, `?`, `assert!` family, compound assignment, method calls, casts, paths, turbofish) and lowered to a
closed `Rir.E` term:

  * early `return`s, `assert!`, `debug_assert!`, `match`, `x += e` are desugared into `ite` / `letIn` / `panic`;
  * a sub-expression the translator has no meaning for (`bytes.len()`, `hdr.payload_len()`, `self.size`,
    `bytes.as_ptr().align_offset(ALIGNMENT)`, a generic `size_of::<H>()`) becomes a FREE VARIABLE named by its source text;
    the requested inputs get the indices 0..n-1 in the order given, any further free variable is appended (the theorem
    that quantifies over the inputs then fails: the function now depends on something the model does not know);
  * named constants (`ALIGNMENT`, `MAGIC`, `Self::BASE_SIZE`) and `size_of::<T>()` of concrete `repr(C)` types are
    evaluated with the layout calculator of gen_source.py;
  * calls to functions that are themselves requested (e.g. `increase_to_alignment`, `Self::calc_checksum`) are inlined.

Output: `lean/Mb2/Gen/Fns.lean` with `def <name> : Option Rir.E` (+ `<name>_vars : List String`). A function the
translator cannot parse or lower is emitted as `none` (reported in the JSON report); the theorems in `Mb2/Props/Fns.lean`
are stated for `some` translations only, so an unintelligible rewrite reduces coverage instead of raising an alarm, while
an intelligible rewrite that changes the meaning breaks a proof obligation.
"""
import json
import os
import re
import sys

sys.path.insert(0, os.path.dirname(os.path.abspath(__file__)))
import gen_source  # noqa: E402  (layout calculator, comment stripping)

REPO = os.environ.get("VERIF_REPO", "/repo")

# name -> (file, regex that must match the header of the enclosing impl ("" = free function), fn name, inputs)
REQUESTS = [
    ("increase_to_alignment", "multiboot2-common/src/lib.rs", "", "increase_to_alignment", ["size"]),
    ("bytes_ref_try_from", "multiboot2-common/src/bytes_ref.rs", r"TryFrom<.*>\s+for\s+BytesRef", "try_from",
     ["bytes.len()", "size_of::<H>()", "bytes.as_ptr().align_offset(ALIGNMENT)", "bytes"]),
    ("ref_from_bytes", "multiboot2-common/src/lib.rs", r"DynSizedStructure<H>", "ref_from_bytes",
     ["hdr.payload_len()", "bytes.len()", "size_of::<H>()", "ptr_meta::from_raw_parts(ptr.cast(),dst_size)"]),
    ("ref_from_ptr", "multiboot2-common/src/lib.rs", r"DynSizedStructure<H>", "ref_from_ptr", ["Self::ref_from_slice(slice)"]),
    ("ref_from_slice", "multiboot2-common/src/lib.rs", r"DynSizedStructure<H>", "ref_from_slice",
     ["BytesRef::<H>::try_from(bytes)", "Self::ref_from_bytes(bytes)"]),
    ("new_boxed", "multiboot2-common/src/boxed.rs", "", "new_boxed",
     ["size_of::<T::Header>()", "additional_bytes_slices.iter().map(|b|b.len()).sum::<usize>()", "heap_ptr.is_null()",
      "size_of_val(reference.deref())", "Layout::from_size_align(alloc_size,ALIGNMENT)", "Box::from_raw(ptr)", "write_offset", "bytes.len()"]),
    # heap-built constructors: the header handed to new_boxed and the content slices in order
    ("cmdline_new", "multiboot2/src/command_line.rs", r"impl\s+CommandLineTag\b", "new", ["bytes.ends_with(&[0])", "command_line.as_bytes()", "[0]"]),
    ("loader_new", "multiboot2/src/boot_loader_name.rs", r"impl\s+BootLoaderNameTag\b", "new", ["bytes.ends_with(&[0])", "name.as_bytes()", "[0]"]),
    ("module_new", "multiboot2/src/module.rs", r"impl\s+ModuleTag\b", "new",
     ["end", "start", "cmdline.ends_with(&[0])", "start.to_ne_bytes()", "end.to_ne_bytes()", "cmdline.as_bytes()", "[0]"]),
    ("smbios_new", "multiboot2/src/smbios.rs", r"impl\s+SmbiosTag\b", "new", ["[major,minor]", "[0,0,0,0,0,0]", "tables"]),
    ("network_new", "multiboot2/src/network.rs", r"impl\s+NetworkTag\b", "new", ["dhcp_pack"]),
    ("inforeq_new", "multiboot2-header/src/information_request.rs", r"impl\s+InformationRequestHeaderTag\b", "new",
     ["flags", "slice::from_raw_parts(ptr.cast::<u8>(),size_of_val(requests))"]),
    ("cast", "multiboot2-common/src/lib.rs", r"DynSizedStructure<H>", "cast",
     ["T::BASE_SIZE", "size_of::<H>()", "size_of_val(self)", "size_of_val(t_ref)", "ptr_meta::from_raw_parts(base_ptr.cast(),t_dst_size)"]),
    ("tag_iter_new", "multiboot2-common/src/iter.rs", r"impl<'a,\s*H:\s*Header>\s+TagIter<'a,\s*H>", "new",
     ["mem.as_ptr().align_offset(ALIGNMENT)", "mem"]),
    ("tag_header_set_size", "multiboot2/src/tag.rs", r"Header\s+for\s+TagHeader", "set_size", ["total_size"]),
    ("bi_header_set_size", "multiboot2/src/boot_information.rs", r"Header\s+for\s+BootInformationHeader", "set_size", ["total_size"]),
    ("ht_header_set_size", "multiboot2-header/src/tags.rs", r"Header\s+for\s+HeaderTagHeader", "set_size", ["total_size"]),
    ("hb_header_set_size", "multiboot2-header/src/header.rs", r"Header\s+for\s+Multiboot2BasicHeader", "set_size",
     ["total_size", "self.header_magic", "self.arch"]),
    ("header_total_size_default", "multiboot2-common/src/lib.rs", r"trait\s+Header", "total_size",
     ["size_of::<Self>()", "self.payload_len()"]),
    ("tag_iter_next", "multiboot2-common/src/iter.rs", r"Iterator\s+for\s+TagIter", "next",
     ["self.next_tag_offset", "self.buffer.len()", "size_of::<H>()", "tag_hdr.payload_len()", "self.buffer[from..to]",
      "DynSizedStructure::ref_from_slice(slice)"]),
    ("tag_header_payload_len", "multiboot2/src/tag.rs", r"Header\s+for\s+TagHeader", "payload_len", ["self.size"]),
    ("bi_header_payload_len", "multiboot2/src/boot_information.rs", r"Header\s+for\s+BootInformationHeader", "payload_len", ["self.total_size"]),
    ("bi_header_total_size", "multiboot2/src/boot_information.rs", r"Header\s+for\s+BootInformationHeader", "total_size", ["self.total_size"]),
    ("hb_header_payload_len", "multiboot2-header/src/header.rs", r"Header\s+for\s+Multiboot2BasicHeader", "payload_len", ["self.length"]),
    ("hb_header_total_size", "multiboot2-header/src/header.rs", r"Header\s+for\s+Multiboot2BasicHeader", "total_size", ["self.length"]),
    ("ht_header_payload_len", "multiboot2-header/src/tags.rs", r"Header\s+for\s+HeaderTagHeader", "payload_len", ["self.size"]),
    ("calc_checksum", "multiboot2-header/src/header.rs", r"impl\s+Multiboot2BasicHeader", "calc_checksum", ["magic", "arch", "length"]),
    ("verify_checksum", "multiboot2-header/src/header.rs", r"impl\s+Multiboot2BasicHeader", "verify_checksum",
     ["self.header_magic", "self.arch", "self.length", "self.checksum"]),
    ("mbi_load", "multiboot2/src/boot_information.rs", r"impl<'a>\s+BootInformation<'a>", "load",
     ["NonNull::new(ptr.cast_mut())", "DynSizedStructure::ref_from_ptr(ptr)", "this.has_valid_end_tag()"]),
    ("find_header", "multiboot2-header/src/header.rs", r"impl<'a>\s+Multiboot2Header<'a>", "find_header",
     ["buffer.as_ptr().align_offset(ALIGNMENT)", "buffer.len()", "buffer[..buffer.len().min(8192)]",
      "windows.position(|vals|{u32::from_le_bytes(vals.try_into().unwrap())==MAGIC})#0",
      "buffer.get(magic_index+8..magic_index+12)",
      "u32::from_le_bytes(buffer.get(magic_index+8..magic_index+12).ok_or(LoadError::Memory(MemoryError::MissingPadding))?.try_into().unwrap(),).try_into()",
      "magic_index.checked_add(header_length).and_then(|end|buffer.get(magic_index..end))"]),
    ("has_valid_end_tag", "multiboot2/src/boot_information.rs", r"impl<'a>\s+BootInformation<'a>", "has_valid_end_tag",
     ["end_tag.typ", "end_tag.size"]),
    ("hdr_load", "multiboot2-header/src/header.rs", r"impl<'a>\s+Multiboot2Header<'a>", "load",
     ["NonNull::new(ptr.cast_mut())", "DynSizedStructure::ref_from_ptr(ptr)", "header.header_magic", "header.verify_checksum()"]),
    # dst_len of every dynamically sized tag
    ("dst_len_boot_loader_name", "multiboot2/src/boot_loader_name.rs", r"MaybeDynSized\s+for\s+BootLoaderNameTag", "dst_len", ["header.size"]),
    ("dst_len_command_line", "multiboot2/src/command_line.rs", r"MaybeDynSized\s+for\s+CommandLineTag", "dst_len", ["header.size"]),
    ("dst_len_module", "multiboot2/src/module.rs", r"MaybeDynSized\s+for\s+ModuleTag", "dst_len", ["header.size"]),
    ("dst_len_memory_map", "multiboot2/src/memory_map.rs", r"MaybeDynSized\s+for\s+MemoryMapTag", "dst_len", ["header.size"]),
    ("dst_len_efi_memory_map", "multiboot2/src/memory_map.rs", r"MaybeDynSized\s+for\s+EFIMemoryMapTag", "dst_len", ["header.size"]),
    ("dst_len_framebuffer", "multiboot2/src/framebuffer.rs", r"MaybeDynSized\s+for\s+FramebufferTag", "dst_len", ["header.size"]),
    ("dst_len_elf_sections", "multiboot2/src/elf_sections.rs", r"MaybeDynSized\s+for\s+ElfSectionsTag", "dst_len", ["header.size"]),
    ("dst_len_smbios", "multiboot2/src/smbios.rs", r"MaybeDynSized\s+for\s+SmbiosTag", "dst_len", ["header.size"]),
    ("dst_len_network", "multiboot2/src/network.rs", r"MaybeDynSized\s+for\s+NetworkTag", "dst_len", ["header.size"]),
    ("dst_len_information_request", "multiboot2-header/src/information_request.rs", r"MaybeDynSized\s+for\s+InformationRequestHeaderTag", "dst_len", ["header.size()"]),
    # identifier conversions
    ("tag_type_from_u32", "multiboot2/src/tag_type.rs", r"From<u32>\s+for\s+TagType\b", "from", ["value"]),
    ("u32_from_tag_type", "multiboot2/src/tag_type.rs", r"From<TagType>\s+for\s+u32", "from", ["value"]),
    ("tag_type_val", "multiboot2/src/tag_type.rs", r"impl\s+TagType\b", "val", ["u32::from(*self)"]),
    ("mem_type_from_id", "multiboot2/src/memory_map.rs", r"From<MemoryAreaTypeId>\s+for\s+MemoryAreaType", "from", ["value.0"]),
    ("id_from_mem_type", "multiboot2/src/memory_map.rs", r"From<MemoryAreaType>\s+for\s+MemoryAreaTypeId", "from", ["value"]),
    ("elf_iter_next", "multiboot2/src/elf_sections.rs", r"Iterator\s+for\s+ElfSectionIter", "next",
     ["self.remaining_sections", "section.section_type()", "self.current_section", "self.string_section", "self.entry_size",
      "self.current_section.offset(self.entry_size as isize)"]),
    ("elf_section_get", "multiboot2/src/elf_sections.rs", r"impl\s+ElfSection\b", "get",
     ["self.entry_size", "self.inner"]),
    ("elf_end_address", "multiboot2/src/elf_sections.rs", r"impl\s+ElfSection\b", "end_address",
     ["self.get().addr()", "self.get().size()"]),
    ("elf_section_type", "multiboot2/src/elf_sections.rs", r"impl\s+ElfSection\b", "section_type", ["self.get().typ()"]),
    ("fb_type_try_from", "multiboot2/src/framebuffer.rs", r"TryFrom<u8>\s+for\s+FramebufferTypeId", "try_from", ["value"]),
    # arithmetic helpers on stored values
    ("fb_buffer_type", "multiboot2/src/framebuffer.rs", r"impl\s+FramebufferTag\b", "buffer_type",
     ["FramebufferTypeId::try_from(self.framebuffer_type)", "reader.read_next_u16()#0", "reader.off", "self.buffer.len()",
      "slice::from_raw_parts(reader.current_ptr().cast::<FramebufferColor>(),num_colors as usize,)",
      "reader.read_next_u8()#0", "reader.read_next_u8()#1", "reader.read_next_u8()#2", "reader.read_next_u8()#3",
      "reader.read_next_u8()#4", "reader.read_next_u8()#5"]),
    ("reader_read_next_u8", "multiboot2/src/framebuffer.rs", r"impl<'a>\s+Reader<'a>", "read_next_u8", ["self.buffer.get(self.off).cloned()", "self.off"]),
    ("reader_read_next_u16", "multiboot2/src/framebuffer.rs", r"impl<'a>\s+Reader<'a>", "read_next_u16",
     ["self.read_next_u8()#0", "self.read_next_u8()#1"]),
    ("module_size", "multiboot2/src/module.rs", r"impl\s+ModuleTag", "module_size", ["self.mod_end", "self.mod_start"]),
    ("memory_area_end_address", "multiboot2/src/memory_map.rs", r"impl\s+MemoryArea\b", "end_address", ["self.base_addr", "self.length"]),
    ("efi_iter_next", "multiboot2/src/memory_map.rs", r"Iterator\s+for\s+EFIMemoryAreaIter", "next",
     ["self.i", "self.entries", r"re:self\.mmap_tag\.memory_map\.as_ptr\(\)\.add\(.*\)\.cast::<EFIMemoryDesc>\(\)\.as_ref\(\)"]),
    ("efi_iter_new", "multiboot2/src/memory_map.rs", r"impl<'a>\s+EFIMemoryAreaIter<'a>", "new",
     ["mmap_tag.desc_size", "mmap_tag.memory_map.len()", "size_of::<EFIMemoryDesc>()", "mem::align_of::<EFIMemoryDesc>()", "mmap_tag"]),
    ("efi_memory_areas", "multiboot2/src/memory_map.rs", r"impl\s+EFIMemoryMapTag", "memory_areas",
     ["self.desc_version", "EFIMemoryDesc::VERSION", "self.memory_map.as_ptr().align_offset(mem::align_of::<EFIMemoryDesc>())",
      "EFIMemoryAreaIter::new(self)"]),
    ("mmap_memory_areas", "multiboot2/src/memory_map.rs", r"impl\s+MemoryMapTag", "memory_areas", ["self.entry_size", "self.areas"]),
    ("elf_sections_open", "multiboot2/src/elf_sections.rs", r"impl\s+ElfSectionsTag", "sections",
     ["self.sections.len()", "self.entry_size", "self.number_of_sections", "self.shndx", "self.sections.as_ptr()",
      "self.sections.as_ptr().offset(string_section_offset)"]),
    ("rsdp2_checksum", "multiboot2/src/rsdp.rs", r"impl\s+RsdpV2Tag", "checksum_is_valid",
     ["self.length", r"re:bytes\[8\.\.\]\.iter\(\)\.fold\(.*\)"]),
    # constructors of the fixed-size tags: header constants and the field each argument is stored in (struct order)
    ("ctor_apm", "multiboot2/src/apm.rs", r"impl\s+ApmTag\b", "new",
     ["version", "cseg", "offset", "cset_16", "dset", "flags", "cseg_len", "cseg_16_len", "dseg_len"]),
    ("ctor_meminfo", "multiboot2/src/memory_map.rs", r"impl\s+BasicMemoryInfoTag\b", "new", ["memory_lower", "memory_upper"]),
    ("ctor_bootdev", "multiboot2/src/bootdev.rs", r"impl\s+BootdevTag\b", "new", ["biosdev", "slice", "part"]),
    ("ctor_efi32", "multiboot2/src/efi.rs", r"impl\s+EFISdt32Tag\b", "new", ["pointer"]),
    ("ctor_efi64", "multiboot2/src/efi.rs", r"impl\s+EFISdt64Tag\b", "new", ["pointer"]),
    ("ctor_ih32", "multiboot2/src/efi.rs", r"impl\s+EFIImageHandle32Tag\b", "new", ["pointer"]),
    ("ctor_ih64", "multiboot2/src/efi.rs", r"impl\s+EFIImageHandle64Tag\b", "new", ["pointer"]),
    ("ctor_efibs", "multiboot2/src/efi.rs", r"Default\s+for\s+EFIBootServicesNotExitedTag", "default", []),
    ("ctor_loadbase", "multiboot2/src/image_load_addr.rs", r"impl\s+ImageLoadPhysAddrTag\b", "new", ["load_base_addr"]),
    ("ctor_end", "multiboot2/src/end.rs", r"Default\s+for\s+EndTag", "default", []),
    ("ctor_rsdp1", "multiboot2/src/rsdp.rs", r"impl\s+RsdpV1Tag\b", "new", ["Self::SIGNATURE", "checksum", "oem_id", "revision", "rsdt_address"]),
    ("ctor_rsdp2", "multiboot2/src/rsdp.rs", r"impl\s+RsdpV2Tag\b", "new",
     ["Self::SIGNATURE", "checksum", "oem_id", "revision", "rsdt_address", "length", "xsdt_address", "ext_checksum", "[0;3]"]),
    ("ctor_vbe", "multiboot2/src/vbe_info.rs", r"impl\s+VBEInfoTag\b", "new",
     ["mode", "interface_segment", "interface_offset", "interface_length", "control_info", "mode_info"]),
    ("ctor_h_address", "multiboot2-header/src/address.rs", r"impl\s+AddressHeaderTag\b", "new",
     ["flags", "header_addr", "load_addr", "load_end_addr", "bss_end_addr"]),
    ("ctor_h_console", "multiboot2-header/src/console.rs", r"impl\s+ConsoleHeaderTag\b", "new", ["flags", "console_flags"]),
    ("ctor_h_end", "multiboot2-header/src/end.rs", r"impl\s+EndHeaderTag\b", "new", []),
    ("ctor_h_entry", "multiboot2-header/src/entry_address.rs", r"impl\s+EntryAddressHeaderTag\b", "new", ["flags", "entry_addr"]),
    ("ctor_h_efi32", "multiboot2-header/src/entry_efi_32.rs", r"impl\s+EntryEfi32HeaderTag\b", "new", ["flags", "entry_addr"]),
    ("ctor_h_efi64", "multiboot2-header/src/entry_efi_64.rs", r"impl\s+EntryEfi64HeaderTag\b", "new", ["flags", "entry_addr"]),
    ("ctor_h_fb", "multiboot2-header/src/framebuffer.rs", r"impl\s+FramebufferHeaderTag\b", "new", ["flags", "width", "height", "depth"]),
    ("ctor_h_modalign", "multiboot2-header/src/module_align.rs", r"impl\s+ModuleAlignHeaderTag\b", "new", ["flags"]),
    ("ctor_h_efibs", "multiboot2-header/src/uefi_bs.rs", r"impl\s+EfiBootServiceHeaderTag\b", "new", ["flags"]),
    ("ctor_h_reloc", "multiboot2-header/src/relocatable.rs", r"impl\s+RelocatableHeaderTag\b", "new",
     ["flags", "min_addr", "max_addr", "align", "preference"]),
    ("efi_iter_len", "multiboot2/src/memory_map.rs", r"ExactSizeIterator\s+for\s+EFIMemoryAreaIter", "len", ["self.i", "self.entries"]),
]

# functions whose bodies are closure pipelines (`find` / `map` / `map_or_else`): the normalised token text of the body is
# emitted (`<name>_text`) and pinned by a theorem - the selection logic of the getters lives in these few lines
PINNED = [
    ("mbi_get_tag", "multiboot2/src/boot_information.rs", r"impl<'a>\s+BootInformation<'a>", "get_tag"),
    ("mbi_tags", "multiboot2/src/boot_information.rs", r"impl<'a>\s+BootInformation<'a>", "tags"),
    ("mbi_module_tags", "multiboot2/src/boot_information.rs", r"impl<'a>\s+BootInformation<'a>", "module_tags"),
    ("mbi_framebuffer_tag", "multiboot2/src/boot_information.rs", r"impl<'a>\s+BootInformation<'a>", "framebuffer_tag"),
    ("mbi_efi_memory_map_tag", "multiboot2/src/boot_information.rs", r"impl<'a>\s+BootInformation<'a>", "efi_memory_map_tag"),
    ("module_iter_next", "multiboot2/src/module.rs", r"Iterator\s+for\s+ModuleIter", "next"),
    ("hdr_get_tag", "multiboot2-header/src/header.rs", r"impl<'a>\s+Multiboot2Header<'a>", "get_tag"),
    ("hdr_iter", "multiboot2-header/src/header.rs", r"impl<'a>\s+Multiboot2Header<'a>", "iter"),
    ("mbi_elf_sections", "multiboot2/src/boot_information.rs", r"impl<'a>\s+BootInformation<'a>", "elf_sections"),
    ("parse_slice_as_string", "multiboot2/src/util.rs", "", "parse_slice_as_string"),
    ("cmdline_get", "multiboot2/src/command_line.rs", r"impl\s+CommandLineTag\b", "cmdline"),
    ("loader_name_get", "multiboot2/src/boot_loader_name.rs", r"impl\s+BootLoaderNameTag\b", "name"),
    ("module_cmdline_get", "multiboot2/src/module.rs", r"impl\s+ModuleTag\b", "cmdline"),
    ("rsdp1_checksum", "multiboot2/src/rsdp.rs", r"impl\s+RsdpV1Tag\b", "checksum_is_valid"),
    ("clone_dyn", "multiboot2-common/src/boxed.rs", "", "clone_dyn"),
    ("dyn_as_bytes", "multiboot2-common/src/tag.rs", r"trait\s+MaybeDynSized", "as_bytes"),
    ("dyn_payload", "multiboot2-common/src/tag.rs", r"trait\s+MaybeDynSized", "payload"),
    ("dyn_header", "multiboot2-common/src/tag.rs", r"trait\s+MaybeDynSized", "header"),
]

# whole impl blocks as TABLES: every function of the block (source order) with its translated body and the inputs it
# depends on. Used for the many one-line forwarders / accessors (`self.get_tag::<T>()`, `self.header.typ()`, ...): a theorem
# compares the whole table with the expected one, so a forwarder that names another tag type / field, and any function ADDED
# to or REMOVED from the block, breaks it. Functions already covered by REQUESTS / PINNED appear by name only.
IMPL_TABLES = [
    ("tbl_mbi", "multiboot2/src/boot_information.rs", r"impl<'a>\s+BootInformation<'a>"),
    ("tbl_bih", "multiboot2/src/boot_information.rs", r"impl\s+BootInformationHeader\b"),
    ("tbl_tag_header", "multiboot2/src/tag.rs", r"impl\s+TagHeader\b"),
    ("tbl_hdr", "multiboot2-header/src/header.rs", r"impl<'a>\s+Multiboot2Header<'a>"),
    ("tbl_hb", "multiboot2-header/src/header.rs", r"impl\s+Multiboot2BasicHeader\b"),
    ("tbl_hth", "multiboot2-header/src/tags.rs", r"impl\s+HeaderTagHeader\b"),
    ("tbl_htt", "multiboot2-header/src/tags.rs", r"impl\s+HeaderTagType\b"),
    ("tbl_h_address", "multiboot2-header/src/address.rs", r"impl\s+AddressHeaderTag\b"),
    ("tbl_h_console", "multiboot2-header/src/console.rs", r"impl\s+ConsoleHeaderTag\b"),
    ("tbl_h_end", "multiboot2-header/src/end.rs", r"impl\s+EndHeaderTag\b"),
    ("tbl_h_entry", "multiboot2-header/src/entry_address.rs", r"impl\s+EntryAddressHeaderTag\b"),
    ("tbl_h_efi32", "multiboot2-header/src/entry_efi_32.rs", r"impl\s+EntryEfi32HeaderTag\b"),
    ("tbl_h_efi64", "multiboot2-header/src/entry_efi_64.rs", r"impl\s+EntryEfi64HeaderTag\b"),
    ("tbl_h_fb", "multiboot2-header/src/framebuffer.rs", r"impl\s+FramebufferHeaderTag\b"),
    ("tbl_h_modalign", "multiboot2-header/src/module_align.rs", r"impl\s+ModuleAlignHeaderTag\b"),
    ("tbl_h_efibs", "multiboot2-header/src/uefi_bs.rs", r"impl\s+EfiBootServiceHeaderTag\b"),
    ("tbl_h_reloc", "multiboot2-header/src/relocatable.rs", r"impl\s+RelocatableHeaderTag\b"),
    ("tbl_h_inforeq", "multiboot2-header/src/information_request.rs", r"impl\s+InformationRequestHeaderTag\b"),
    ("tbl_elf_section", "multiboot2/src/elf_sections.rs", r"impl\s+ElfSection<'_>"),
    ("tbl_elf32", "multiboot2/src/elf_sections.rs", r"ElfSectionInner\s+for\s+ElfSectionInner32"),
    ("tbl_elf64", "multiboot2/src/elf_sections.rs", r"ElfSectionInner\s+for\s+ElfSectionInner64"),
    ("tbl_elf_iter", "multiboot2/src/elf_sections.rs", r"\bIterator\s+for\s+ElfSectionIter"),
    ("tbl_elf_iter_len", "multiboot2/src/elf_sections.rs", r"ExactSizeIterator\s+for\s+ElfSectionIter"),
    ("tbl_elf_tag", "multiboot2/src/elf_sections.rs", r"impl\s+ElfSectionsTag\b"),
    ("tbl_efi_iter", "multiboot2/src/memory_map.rs", r"\bIterator\s+for\s+EFIMemoryAreaIter"),
    ("tbl_efi_tag", "multiboot2/src/memory_map.rs", r"impl\s+EFIMemoryMapTag\b"),
    ("tbl_mmap_tag", "multiboot2/src/memory_map.rs", r"impl\s+MemoryMapTag\b"),
    ("tbl_smbios", "multiboot2/src/smbios.rs", r"impl\s+SmbiosTag\b"),
    ("tbl_loader", "multiboot2/src/boot_loader_name.rs", r"impl\s+BootLoaderNameTag\b"),
    ("tbl_rsdp1", "multiboot2/src/rsdp.rs", r"impl\s+RsdpV1Tag\b"),
    ("tbl_rsdp2", "multiboot2/src/rsdp.rs", r"impl\s+RsdpV2Tag\b"),
    ("tbl_fb_tag", "multiboot2/src/framebuffer.rs", r"impl\s+FramebufferTag\b"),
    ("tbl_fb_type", "multiboot2/src/framebuffer.rs", r"impl\s+FramebufferType<'_>"),
    ("tbl_fb_eq", "multiboot2/src/framebuffer.rs", r"PartialEq\s+for\s+FramebufferTag"),
    ("tbl_tag_type_id", "multiboot2/src/tag_type.rs", r"impl\s+TagTypeId\b"),
    ("tbl_id_from_u32", "multiboot2/src/tag_type.rs", r"From<u32>\s+for\s+TagTypeId"),
    ("tbl_u32_from_id", "multiboot2/src/tag_type.rs", r"From<TagTypeId>\s+for\s+u32"),
    ("tbl_type_from_id", "multiboot2/src/tag_type.rs", r"From<TagTypeId>\s+for\s+TagType\b"),
    ("tbl_id_from_type", "multiboot2/src/tag_type.rs", r"From<TagType>\s+for\s+TagTypeId"),
    ("tbl_type_eq_id", "multiboot2/src/tag_type.rs", r"PartialEq<TagTypeId>\s+for\s+TagType\b"),
    ("tbl_id_eq_type", "multiboot2/src/tag_type.rs", r"PartialEq<TagType>\s+for\s+TagTypeId"),
    ("tbl_id_eq_u32", "multiboot2/src/tag_type.rs", r"PartialEq<u32>\s+for\s+TagTypeId"),
    ("tbl_u32_eq_id", "multiboot2/src/tag_type.rs", r"PartialEq<TagTypeId>\s+for\s+u32"),
    ("tbl_type_eq_u32", "multiboot2/src/tag_type.rs", r"PartialEq<u32>\s+for\s+TagType\b"),
    ("tbl_u32_eq_type", "multiboot2/src/tag_type.rs", r"PartialEq<TagType>\s+for\s+u32"),
    ("tbl_elf_inner_trait", "multiboot2/src/elf_sections.rs", r"trait\s+ElfSectionInner\b"),
    ("tbl_header_trait", "multiboot2-common/src/lib.rs", r"trait\s+Header\b"),
    ("tbl_mid_from_u32", "multiboot2/src/memory_map.rs", r"From<u32>\s+for\s+MemoryAreaTypeId"),
    ("tbl_u32_from_mid", "multiboot2/src/memory_map.rs", r"From<MemoryAreaTypeId>\s+for\s+u32"),
    ("tbl_mid_eq_mtype", "multiboot2/src/memory_map.rs", r"PartialEq<MemoryAreaType>\s+for\s+MemoryAreaTypeId"),
    ("tbl_mtype_eq_mid", "multiboot2/src/memory_map.rs", r"PartialEq<MemoryAreaTypeId>\s+for\s+MemoryAreaType\b"),
    ("tbl_memory_area", "multiboot2/src/memory_map.rs", r"impl\s+MemoryArea\b"),
    ("tbl_module", "multiboot2/src/module.rs", r"impl\s+ModuleTag\b"),
    ("tbl_fbid_from_type", "multiboot2/src/framebuffer.rs", r"From<FramebufferType<'_>>\s+for\s+FramebufferTypeId"),
    ("tbl_bytes_ref_deref", "multiboot2-common/src/bytes_ref.rs", r"Deref\s+for\s+BytesRef"),
    ("tbl_efibs", "multiboot2/src/efi.rs", r"impl\s+EFIBootServicesNotExitedTag\b"),
    ("tbl_fb_reader", "multiboot2/src/framebuffer.rs", r"impl<'a>\s+Reader<'a>"),
    ("tbl_module_free", "multiboot2/src/module.rs", r"^$"),
    ("tbl_maybe_dyn_sized", "multiboot2-common/src/tag.rs", r"trait\s+MaybeDynSized\b"),
    ("tbl_tag_iter", "multiboot2-common/src/iter.rs", r"impl<'a,\s*H:\s*Header>\s+TagIter<'a,\s*H>"),
    ("tbl_apm", "multiboot2/src/apm.rs", r"impl\s+ApmTag\b"),
    ("tbl_bootdev", "multiboot2/src/bootdev.rs", r"impl\s+BootdevTag\b"),
    ("tbl_cmdline", "multiboot2/src/command_line.rs", r"impl\s+CommandLineTag\b"),
    ("tbl_efi_sdt32", "multiboot2/src/efi.rs", r"impl\s+EFISdt32Tag\b"),
    ("tbl_efi_sdt64", "multiboot2/src/efi.rs", r"impl\s+EFISdt64Tag\b"),
    ("tbl_efi_ih32", "multiboot2/src/efi.rs", r"impl\s+EFIImageHandle32Tag\b"),
    ("tbl_efi_ih64", "multiboot2/src/efi.rs", r"impl\s+EFIImageHandle64Tag\b"),
    ("tbl_load_base", "multiboot2/src/image_load_addr.rs", r"impl\s+ImageLoadPhysAddrTag\b"),
    ("tbl_meminfo", "multiboot2/src/memory_map.rs", r"impl\s+BasicMemoryInfoTag\b"),
    ("tbl_efi_iter_inherent", "multiboot2/src/memory_map.rs", r"impl<'a>\s+EFIMemoryAreaIter<'a>"),
    ("tbl_network", "multiboot2/src/network.rs", r"impl\s+NetworkTag\b"),
    ("tbl_tag_type", "multiboot2/src/tag_type.rs", r"impl\s+TagType\b"),
    ("tbl_vbe", "multiboot2/src/vbe_info.rs", r"impl\s+VBEInfoTag\b"),
    ("tbl_dyn", "multiboot2-common/src/lib.rs", r"impl<H:\s*Header>\s+DynSizedStructure<H>"),
]

INT_TYS = {"u8": ".u8", "u16": ".u16", "u32": ".u32", "u64": ".u64", "usize": ".usize"}


class Unsupported(Exception):
    pass


# ------------------------------------------------------------------------------------------------ tokenizer
TOK = re.compile(r"""
    (?P<ws>\s+)
  | (?P<num>0x[0-9a-fA-F_]+(?:_?(?:u8|u16|u32|u64|usize|i8|i16|i32|i64|isize))?
          |0b[01_]+(?:_?(?:u8|u16|u32|u64|usize))?
          |\d[\d_]*(?:_?(?:u8|u16|u32|u64|usize|i8|i16|i32|i64|isize))?)
  | (?P<str>b?"(?:[^"\\]|\\.)*")
  | (?P<chr>b?'(?:[^'\\]|\\.)')
  | (?P<life>'[A-Za-z_]\w*)
  | (?P<id>[A-Za-z_]\w*)
  | (?P<op><<=|>>=|\.\.=|\.\.\.|::|->|=>|==|!=|<=|>=|&&|\|\||\+=|-=|\*=|/=|%=|&=|\|=|\^=|<<|>>|\.\.|[-+*/%&|^!<>=.,;:(){}\[\]#?@$~])
""", re.X)


def tokenize(src):
    out = []
    pos = 0
    while pos < len(src):
        m = TOK.match(src, pos)
        if not m:
            raise Unsupported("token at %r" % src[pos:pos + 20])
        pos = m.end()
        k = m.lastgroup
        if k == "ws":
            continue
        out.append((k, m.group(k)))
    return out


def untok(toks):
    """canonical text of a token span"""
    s = ""
    prev = None
    for k, t in toks:
        if prev and prev[0] in ("id", "num") and k in ("id", "num"):
            s += " "
        s += t
        prev = (k, t)
    s = s.replace("mem::size_of", "size_of").replace("core::size_of", "size_of")
    return s


# ------------------------------------------------------------------------------------------------ parser
BINPREC = [
    ("||",), ("&&",), ("==", "!=", "<", ">", "<=", ">="), ("|",), ("^",), ("&",), ("<<", ">>"), ("+", "-"), ("*", "/", "%"),
]
ASSIGN_OPS = ("=", "+=", "-=", "*=", "/=", "%=", "&=", "|=", "^=", "<<=", ">>=")


class Parser:
    def __init__(self, toks):
        self.t = toks
        self.i = 0

    def peek(self, k=0):
        return self.t[self.i + k] if self.i + k < len(self.t) else ("eof", "")

    def at(self, s, k=0):
        return self.peek(k)[1] == s and self.peek(k)[0] in ("op", "id")

    def eat(self, s):
        if not self.at(s):
            raise Unsupported("expected %r at %r" % (s, untok(self.t[self.i:self.i + 6])))
        self.i += 1

    def span(self, a):
        return untok(self.t[a:self.i])

    # ---- generic argument list after `::` or in types: skip balanced <...>, splitting `>>`
    def skip_angles(self):
        assert self.at("<")
        a = self.i
        depth = 0
        while True:
            k, s = self.peek()
            if k == "eof":
                raise Unsupported("unbalanced <")
            if s == "<":
                depth += 1
            elif s == ">":
                depth -= 1
            elif s == ">>":
                depth -= 2
            elif s == "<<":
                depth += 2
            self.i += 1
            if depth <= 0:
                break
        return untok(self.t[a + 1:self.i - 1])

    def parse_type_text(self):
        """consume a type after `as` / `:` (only the simple forms used in function bodies)"""
        a = self.i
        while self.at("&") or self.at("*") or self.at("mut") or self.at("const"):
            self.i += 1
        if self.at("("):
            self.skip_balanced("(", ")")
            return self.span(a)
        if self.at("["):
            self.skip_balanced("[", "]")
            return self.span(a)
        if self.peek()[0] not in ("id",):
            raise Unsupported("type at %r" % untok(self.t[self.i:self.i + 4]))
        self.i += 1
        while True:
            if self.at("::"):
                self.i += 1
                if self.at("<"):
                    self.skip_angles()
                else:
                    self.i += 1
            elif self.at("<"):
                self.skip_angles()
            else:
                break
        return self.span(a)

    def skip_balanced(self, o, c):
        depth = 0
        while True:
            k, s = self.peek()
            if k == "eof":
                raise Unsupported("unbalanced")
            if s == o and k == "op":
                depth += 1
            elif s == c and k == "op":
                depth -= 1
            self.i += 1
            if depth == 0:
                return

    # ---- blocks / statements
    def block(self):
        self.eat("{")
        stmts = []
        tail = None
        while not self.at("}"):
            if self.at(";"):
                self.i += 1
                continue
            if self.at("let"):
                self.i += 1
                is_mut = False
                if self.at("mut"):
                    self.i += 1
                    is_mut = True
                k, name = self.peek()
                if k != "id" or self.at("(", 1):
                    raise Unsupported("let pattern")
                self.i += 1
                ty = None
                if self.at(":"):
                    self.i += 1
                    ty = self.parse_type_text()
                self.eat("=")
                e = self.expr()
                self.eat(";")
                stmts.append(("let", name, ty, e, is_mut))
                continue
            a = self.i
            e = self.expr(stmt=True)
            if self.peek()[1] in ASSIGN_OPS and self.peek()[0] == "op":
                op = self.peek()[1]
                target = untok(self.t[a:self.i])
                self.i += 1
                rhs = self.expr()
                if self.at(";"):
                    self.i += 1
                stmts.append(("assign", target, op, rhs, e))
                continue
            if self.at(";"):
                self.i += 1
                stmts.append(("expr", e))
            elif self.at("}"):
                tail = e
            elif e[0] in ("if", "match", "block", "unsafe", "for", "while"):
                stmts.append(("expr", e))
            else:
                raise Unsupported("statement end at %r" % untok(self.t[self.i:self.i + 6]))
        self.eat("}")
        return ("block", stmts, tail)

    # ---- expressions
    def expr(self, stmt=False, nostruct=False):
        if self.at("return"):
            self.i += 1
            if self.at(";") or self.at("}") or self.at(","):
                return ("return", None)
            return ("return", self.expr(nostruct=nostruct))
        if self.at("|") or self.at("||") or self.at("move"):
            a = self.i
            if self.at("move"):
                self.i += 1
            if self.at("||"):
                self.i += 1
            else:
                self.eat("|")
                while not self.at("|"):
                    if self.peek()[0] == "eof":
                        raise Unsupported("closure parameters")
                    self.i += 1
                self.eat("|")
            self.expr()
            return ("opaque", self.span(a))
        return self.range_expr(nostruct)

    def range_expr(self, nostruct):
        if self.at("..") or self.at("..="):
            inc = self.at("..=")
            self.i += 1
            hi = None
            if not (self.at("]") or self.at(")") or self.at(",") or self.at(";")):
                hi = self.binary(0, nostruct)
            return ("range", None, hi, inc)
        lo = self.binary(0, nostruct)
        if self.at("..") or self.at("..="):
            inc = self.at("..=")
            self.i += 1
            hi = None
            if not (self.at("]") or self.at(")") or self.at(",") or self.at(";") or self.at("{") or self.at("=>")):
                hi = self.binary(0, nostruct)
            return ("range", lo, hi, inc)
        return lo

    def binary(self, level, nostruct):
        if level == len(BINPREC):
            return self.cast(nostruct)
        lhs = self.binary(level + 1, nostruct)
        while self.peek()[0] == "op" and self.peek()[1] in BINPREC[level]:
            op = self.peek()[1]
            self.i += 1
            rhs = self.binary(level + 1, nostruct)
            lhs = ("bin", op, lhs, rhs)
        return lhs

    def cast(self, nostruct):
        e = self.unary(nostruct)
        while self.at("as"):
            self.i += 1
            ty = self.parse_type_text()
            e = ("cast", e, ty)
        return e

    def unary(self, nostruct):
        a = self.i
        if self.at("!") or self.at("-") or self.at("*"):
            op = self.peek()[1]
            self.i += 1
            e = self.unary(nostruct)
            return ("un", op, e, None)
        if self.at("&") or self.at("&&"):
            n = 2 if self.at("&&") else 1
            self.i += 1
            if self.at("mut"):
                self.i += 1
            e = self.unary(nostruct)
            for _ in range(n):
                e = ("un", "&", e, None)
            return e
        e = self.postfix(nostruct)
        _ = a
        return e

    def args(self):
        self.eat("(")
        out = []
        while not self.at(")"):
            out.append(self.expr())
            if self.at(","):
                self.i += 1
        self.eat(")")
        return out

    def postfix(self, nostruct):
        a = self.i
        e = self.primary(nostruct)
        while True:
            if self.at("?"):
                self.i += 1
                e = ("try", e, self.span(a))
            elif self.at("."):
                self.i += 1
                k, name = self.peek()
                if k == "num":
                    self.i += 1
                    e = ("field", e, name, self.span(a))
                    continue
                if k != "id":
                    raise Unsupported("after .")
                self.i += 1
                turbo = None
                if self.at("::"):
                    self.i += 1
                    turbo = self.skip_angles()
                if self.at("("):
                    args = self.args()
                    e = ("mcall", e, name, turbo, args, self.span(a))
                else:
                    e = ("field", e, name, self.span(a))
            elif self.at("("):
                args = self.args()
                e = ("call", e, args, self.span(a))
            elif self.at("["):
                self.i += 1
                idx = self.expr()
                self.eat("]")
                e = ("index", e, idx, self.span(a))
            else:
                return e

    def primary(self, nostruct):
        a = self.i
        k, s = self.peek()
        if k == "num":
            self.i += 1
            m = re.match(r"^(0x[0-9a-fA-F_]+?|0b[01_]+?|\d[\d_]*?)_?(u8|u16|u32|u64|usize|i8|i16|i32|i64|isize)?$", s)
            if not m:
                raise Unsupported("number " + s)
            return ("num", int(m.group(1).replace("_", ""), 0), m.group(2))
        if k in ("str", "chr"):
            self.i += 1
            return ("opaque", s)
        if self.at("("):
            self.i += 1
            if self.at(")"):
                self.i += 1
                return ("unit",)
            e = self.expr()
            if self.at(","):
                items = [e]
                while self.at(","):
                    self.i += 1
                    if self.at(")"):
                        break
                    items.append(self.expr())
                self.eat(")")
                return ("tuple", items, self.span(a))
            self.eat(")")
            return ("paren", e)
        if self.at("["):
            save = self.i
            try:
                self.i += 1
                elems = []
                while not self.at("]"):
                    elems.append(self.expr())
                    if self.at(";"):
                        raise Unsupported("repeat array")
                    if self.at(","):
                        self.i += 1
                self.eat("]")
                return ("array", elems, self.span(a))
            except Unsupported:
                self.i = save
                self.skip_balanced("[", "]")
                return ("opaque", self.span(a))
        if self.at("{"):
            return self.block()
        if self.at("unsafe"):
            self.i += 1
            return self.block()
        if self.at("if"):
            self.i += 1
            if self.at("let"):
                raise Unsupported("if let")
            c = self.expr(nostruct=True)
            th = self.block()
            el = None
            if self.at("else"):
                self.i += 1
                el = self.primary(nostruct) if self.at("if") else self.block()
            return ("if", c, th, el)
        if self.at("match"):
            self.i += 1
            scrut = self.expr(nostruct=True)
            self.eat("{")
            arms = []
            while not self.at("}"):
                pat = self.pattern()
                guard = None
                if self.at("if"):
                    self.i += 1
                    guard = self.expr(nostruct=True)
                self.eat("=>")
                body = self.expr()
                if self.at(","):
                    self.i += 1
                arms.append((pat, guard, body))
            self.eat("}")
            return ("match", scrut, arms)
        if self.at("while"):
            self.i += 1
            if self.at("let"):
                raise Unsupported("while let")
            c = self.expr(nostruct=True)
            body = self.block()
            return ("while", c, body)
        if self.at("for"):
            self.i += 1
            a0 = self.i
            depth = 0
            while not (self.at("in") and depth == 0):
                if self.peek()[0] == "eof":
                    raise Unsupported("for pattern")
                if self.peek()[1] in ("(", "["):
                    depth += 1
                if self.peek()[1] in (")", "]"):
                    depth -= 1
                self.i += 1
            pat = untok(self.t[a0:self.i])
            self.eat("in")
            it = self.expr(nostruct=True)
            body = self.block()
            return ("for", pat, it, body)
        if self.at("loop"):
            raise Unsupported("loop")
        if k == "id":
            # path, optional generics, macro, struct literal
            segs = []
            generics = []
            lead = False
            while True:
                kk, ss = self.peek()
                if kk != "id":
                    raise Unsupported("path")
                self.i += 1
                segs.append(ss)
                if self.at("::"):
                    self.i += 1
                    if self.at("<"):
                        generics.append(self.skip_angles())
                        if self.at("::"):
                            self.i += 1
                            continue
                        break
                    continue
                break
            _ = lead
            if self.at("!") and not self.at("=", 1) and self.peek(1)[1] in ("(", "[", "{"):
                self.i += 1
                o = self.peek()[1]
                c = {"(": ")", "[": "]", "{": "}"}[o]
                self.i += 1
                margs = []
                name = "::".join(segs)
                if name == "matches":
                    e = self.expr()
                    self.eat(",")
                    pat = self.pattern()
                    self.eat(c)
                    return ("matches", e, pat)
                while not self.at(c):
                    if self.peek()[0] == "str":
                        # format string and the rest of the arguments: irrelevant for the meaning
                        depth = 0
                        while not (self.at(c) and depth == 0):
                            if self.peek()[1] in ("(", "[", "{"):
                                depth += 1
                            if self.peek()[1] in (")", "]", "}"):
                                depth -= 1
                            self.i += 1
                        break
                    margs.append(self.expr())
                    if self.at(","):
                        self.i += 1
                self.eat(c)
                return ("macro", name, margs)
            if self.at("{") and not nostruct and segs[-1][0].isupper():
                self.eat("{")
                fields = []
                while not self.at("}"):
                    if self.at(".."):
                        raise Unsupported("struct update syntax")
                    kk, fname = self.peek()
                    if kk != "id":
                        raise Unsupported("struct literal field")
                    self.i += 1
                    if self.at(":"):
                        self.i += 1
                        fields.append((fname, self.expr()))
                    else:
                        fields.append((fname, ("path", [fname], [], fname)))
                    if self.at(","):
                        self.i += 1
                self.eat("}")
                return ("structlit", self.span(a), fields)
            return ("path", segs, generics, self.span(a))
        raise Unsupported("primary at %r" % untok(self.t[self.i:self.i + 6]))

    def pattern(self):
        alts = [self.pattern1()]
        while self.at("|"):
            self.i += 1
            alts.append(self.pattern1())
        return alts[0] if len(alts) == 1 else ("p_or", alts)

    def pattern1(self):
        k, s = self.peek()
        if s == "_" and k == "id":
            self.i += 1
            return ("p_wild",)
        if k == "num":
            lo = self.primary(False)
            if self.at("..=") or self.at(".."):
                inc = self.at("..=")
                self.i += 1
                hi = self.primary(False)
                return ("p_range", lo[1], hi[1], inc)
            return ("p_num", lo[1])
        if k == "id":
            segs = []
            while True:
                kk, ss = self.peek()
                if kk != "id":
                    raise Unsupported("pattern path")
                self.i += 1
                segs.append(ss)
                if self.at("::"):
                    self.i += 1
                    continue
                break
            if self.at("("):
                self.i += 1
                sub = self.pattern()
                self.eat(")")
                return ("p_ctor1", segs, sub)
            if self.at("@"):
                self.i += 1
                sub = self.pattern()
                return ("p_at", segs[0], sub)
            if len(segs) == 1 and (segs[0][0].islower() or segs[0][0] == "_") and segs[0] not in ("None",):
                return ("p_bind", segs[0])
            return ("p_path", segs)
        raise Unsupported("pattern at %r" % untok(self.t[self.i:self.i + 4]))


# ------------------------------------------------------------------------------------------------ lowering
def strip_parens(e):
    while e[0] == "paren":
        e = e[1]
    return e


class Lowerer:
    def __init__(self, ctx, inputs, self_ty, registry, depth=0):
        self.ctx = ctx                 # Context (crate knowledge)
        self.free = list(inputs)       # free variable names, index = position
        self.next_local = 100 + 50 * depth
        self.self_ty = self_ty
        self.registry = registry
        self.depth = depth
        self.mutated = []
        self.computed_keys = {}
        self.aliases = []
        self.loops = []
        self.effects = []
        self.mut_receivers = set()     # `let mut x` / `&mut self`: calls on them may return a different value each time
        self.call_count = {}

    # scope: name -> ("v", idx) | ("o", text)
    def fresh(self):
        self.next_local += 1
        return self.next_local

    def freevar(self, text):
        text = text.replace("mem::size_of", "size_of")
        for i, f in enumerate(self.free):
            if f.startswith("re:") and re.fullmatch(f[3:], text):
                return "(.var %d)" % i
        if text not in self.free:
            self.free.append(text)
        return "(.var %d)" % self.free.index(text)

    def subst_text(self, text, scope):
        """source text of an opaque expression with opaque aliases expanded"""
        def rep(m):
            n = m.group(0)
            b = scope.get(n)
            if b and b[0] == "o":
                return b[1]
            return n
        return re.sub(r"(?<![\w.:])[A-Za-z_]\w*(?![\w(:])", rep, text)

    def mentions_computed(self, text, scope):
        for n in re.findall(r"(?<![\w.:])[A-Za-z_]\w*", text):
            if scope.get(n, ("", ""))[0] == "v":
                return True
        return False

    def opaque(self, text, scope):
        """free variable named by the text - only if it does not depend on a computed local"""
        t = text
        if self.mentions_computed(text, scope):
            key = tuple(sorted((n, scope[n][1]) for n in set(re.findall(r"(?<![\w.:])[A-Za-z_]\w*", text)) if scope.get(n, ("", ""))[0] == "v"))
            if self.computed_keys.setdefault(t, key) != key:
                raise Unsupported("the same opaque expression over different computed values: " + text)
        return ("o", t)

    def use(self, r):
        """IR text of a lowered expression result"""
        if r[0] == "o":
            return self.freevar(r[1])
        return r[1]

    def const_value(self, segs):
        """a named constant -> (value, ty) or None"""
        name = segs[-1]
        owner = segs[-2] if len(segs) > 1 else None
        if owner == "Self":
            owner = self.self_ty
        return self.ctx.const(owner, name)

    def size_of(self, ty):
        ty = ty.strip()
        if ty == "Self":
            ty = self.self_ty or "Self"
        sa = self.ctx.size_align(ty)
        return sa[0] if sa else None

    def lower(self, e, scope, pre):
        """-> ("i", irtext) or ("o", text).  `pre` collects `?` binders of the enclosing statement."""
        e = strip_parens(e)
        k = e[0]
        if k == "num":
            if e[2] in INT_TYS:
                return ("i", "(.tlit %d %s)" % (e[1], INT_TYS[e[2]]))
            if e[2]:
                raise Unsupported("signed literal")
            return ("i", "(.lit %d)" % e[1])
        if k == "unit":
            return ("i", ".unit")
        if k == "opaque":
            return ("o", e[1])
        if k == "array":
            return self.opaque(e[2], scope)
        if k == "structlit":
            # the computed fields (source order) as right-nested pairs; opaque fields carry no decision
            vals = []
            fields = list(e[2])
            st = self.ctx.cr.structs.get(self.self_ty or "")
            if st and not st.get("tuple"):
                order = [f for (f, _t) in st["fields"]]
                if all(fn in order for (fn, _fe) in fields):
                    fields.sort(key=lambda x: order.index(x[0]))
            for (_fn, fe) in fields:
                r = self.lower(fe, scope, pre)
                v = self.use(r)
                if v != '(.c0 "PhantomData")' and not (r[0] == "o" and r[1] == "PhantomData"):
                    vals.append(v)
            if not vals:
                return ("i", ".unit")
            ir = vals[-1]
            for v in reversed(vals[:-1]):
                ir = "(.pair %s %s)" % (v, ir)
            return ("i", ir)
        if k == "tuple":
            if len(e[1]) != 2:
                raise Unsupported("tuple arity")
            a = self.use(self.lower(e[1][0], scope, pre))
            b = self.use(self.lower(e[1][1], scope, pre))
            return ("i", "(.pair %s %s)" % (a, b))
        if k == "path":
            segs, generics, text = e[1], e[2], e[3]
            if len(segs) == 1:
                n = segs[0]
                if n in ("true", "false"):
                    return ("i", "(.blit %s)" % n)
                if n in scope:
                    b = scope[n]
                    return ("i", "(.var %d)" % b[1]) if b[0] == "v" else ("o", b[1])
                if n == "None":
                    return ("i", '(.c0 "None")')
                if n == "self":
                    return ("o", "self")
            c = self.const_value(segs)
            if c is not None:
                v, ty = c
                return ("i", "(.tlit %d %s)" % (v, INT_TYS[ty])) if ty in INT_TYS else ("i", "(.lit %d)" % v)
            if segs[-1][0].isupper() and not generics:
                nm = "::".join(segs[-2:]) if len(segs) > 1 else segs[0]
                if segs[0] == "Self" and self.self_ty:
                    nm = self.self_ty + "::" + segs[-1]
                # an associated const we cannot evaluate (e.g. `EndTag::ID`) is an opaque input, a variant is a constructor
                owner = segs[-2] if len(segs) > 1 else None
                if owner == "Self":
                    owner = self.self_ty
                is_variant = owner in self.ctx.cr.enums and segs[-1] in self.ctx.cr.enums[owner]["variants"]
                if segs[-1].isupper() and len(segs[-1]) > 1 and not is_variant:
                    return self.opaque(text, scope)
                return ("i", '(.c0 "%s")' % nm)
            return self.opaque(text, scope)
        if k == "field":
            text = e[3]
            if text in scope:          # a re-bound `self.field`
                b = scope[text]
                return ("i", "(.var %d)" % b[1]) if b[0] == "v" else ("o", b[1])
            base = self.lower(e[1], scope, pre)
            if base[0] == "o":
                return self.opaque(text, scope)
            if e[2] == "0":
                return ("i", "(.prim1 .fst %s)" % base[1])
            if e[2] == "1":
                return ("i", "(.prim1 .snd %s)" % base[1])
            return self.opaque(text, scope)
        if k == "un":
            op = e[1]
            r = self.lower(e[2], scope, pre)
            if op in ("&", "*"):
                return r
            if op == "!":
                return ("i", "(.un .not %s)" % self.use(r))
            raise Unsupported("unary " + op)
        if k == "bin":
            ops = {"+": ".add", "-": ".sub", "*": ".mul", "/": ".div", "%": ".rem", "&": ".band", "|": ".bor", "^": ".bxor",
                   "<<": ".shl", ">>": ".shr", "==": ".eq", "!=": ".ne", "<": ".lt", "<=": ".le", ">": ".gt", ">=": ".ge",
                   "&&": ".land", "||": ".lor"}
            a = self.use(self.lower(e[2], scope, pre))
            if e[1] in ("&&", "||"):
                pre2 = []
                b = self.use(self.lower(e[3], scope, pre2))
                if pre2:
                    raise Unsupported("? under short-circuit")
            else:
                b = self.use(self.lower(e[3], scope, pre))
            return ("i", "(.bin %s %s %s)" % (ops[e[1]], a, b))
        if k == "cast":
            ty = e[2].replace(" ", "")
            r = self.lower(e[1], scope, pre)
            if ty in INT_TYS:
                return ("i", "(.cast %s %s)" % (self.use(r), INT_TYS[ty]))
            if ty in ("isize", "i64"):
                return ("i", "(.cast %s .usize)" % self.use(r))
            if r[0] == "o":
                return r      # pointer casts of opaque things
            raise Unsupported("cast to " + ty)
        if k == "try":
            inner = self.use(self.lower(e[1], scope, pre))
            idx = self.fresh()
            pre.append(("try", idx, inner))
            return ("i", "(.var %d)" % idx)
        if k == "if":
            c = self.use(self.lower(e[1], scope, pre))
            if e[3] is None:
                raise Unsupported("if without else as a value")
            t = self.lower_block_value(e[2], scope)
            el = self.lower_block_value(e[3], scope) if e[3][0] == "block" else self.use(self.lower(e[3], scope, []))
            return ("i", "(.ite %s %s %s)" % (c, t, el))
        if k == "block":
            if not e[1] and e[2] is not None and strip_parens(e[2])[0] not in ("return", "if", "match"):
                return self.lower(e[2], scope, pre)
            return ("i", self.lower_block_value(e, scope))
        if k == "match":
            return ("i", self.lower_match(e, scope, pre, lambda body, sc: self.lower_value_or_return(body, sc)))
        if k == "matches":
            s = self.use(self.lower(e[1], scope, pre))
            idx = self.fresh()
            test, _ = self.pat_test(e[2], "(.var %d)" % idx, dict(scope))
            return ("i", "(.letIn %d %s %s)" % (idx, s, test))
        if k == "macro":
            if e[1] in ("unreachable", "panic", "unimplemented", "todo"):
                return ("i", ".panic")
            if e[1] == "cfg" and len(e[2]) == 1 and e[2][0][0] == "path" and e[2][0][1] == ["debug_assertions"]:
                return ("i", ".isDev")
            if e[1].split("::")[-1] in ("addr_of", "addr_of_mut"):
                return ("o", "addr_of!(..)")
            raise Unsupported("macro " + e[1])
        if k == "return":
            raise Unsupported("return in expression position")
        if k == "call":
            return self.lower_call(e, scope, pre)
        if k == "mcall":
            return self.lower_mcall(e, scope, pre)
        if k == "index":
            text = e[3]
            idx = strip_parens(e[2])
            base = self.lower(e[1], scope, [])
            if idx[0] == "range" and base[0] == "o":
                # `recv[a..b]`: panics unless a <= b <= recv.len()
                ln = self.freevar(base[1] + ".len()")
                lo = self.use(self.lower(idx[1], scope, pre)) if idx[1] is not None else "(.tlit 0 .usize)"
                hi = self.use(self.lower(idx[2], scope, pre)) if idx[2] is not None else ln
                if idx[3]:
                    raise Unsupported("inclusive range index")
                sl = self.use(self.opaque(text, scope))
                return ("i", "(.ite (.bin .land (.bin .le %s %s) (.bin .le %s %s)) %s .panic)" % (lo, hi, hi, ln, sl))
            return self.opaque(text, scope)
        if k == "range":
            raise Unsupported("range value")
        raise Unsupported("expression kind " + k)

    def lower_value_or_return(self, body, scope):
        body = strip_parens(body)
        if body[0] == "return":
            return self.ret(body[1], scope)
        if body[0] == "block":
            return self.lower_block_value(body, scope)
        pre = []
        v = self.use(self.lower(body, scope, pre))
        return self.wrap_pre(pre, v)

    def wrap_pre(self, pre, ir):
        for (kind, idx, e) in reversed(pre):
            ir = "(.%s %d %s %s)" % ("tryE" if kind == "try" else "letIn", idx, e, ir)
        return ir

    def lower_call(self, e, scope, pre):
        f, args, text = strip_parens(e[1]), e[2], e[3]
        if f[0] == "path":
            segs, generics = f[1], f[2]
            last = segs[-1]
            if last in ("Ok", "Err", "Some") and len(args) == 1:
                return ("i", '(.c1 "%s" %s)' % (last, self.use(self.lower(args[0], scope, pre))))
            if last == "size_of" and generics and not args:
                n = self.size_of(generics[-1])
                if n is not None:
                    return ("i", "(.tlit %d .usize)" % n)
                return ("o", "size_of::<%s>()" % generics[-1].replace(" ", ""))
            if last == "new" and len(segs) >= 2 and segs[-2] in ("TagHeader", "HeaderTagHeader") and 2 <= len(args) <= 3:
                vs = [self.use(self.lower(a, scope, pre)) for a in args]
                vs[-1] = "(.cast %s .u32)" % vs[-1]       # the size parameter of both constructors is a `u32`
                ir = vs[-1]
                for v in reversed(vs[:-1]):
                    ir = "(.pair %s %s)" % (v, ir)
                return ("i", ir)
            if last == "new_boxed" and len(args) == 2:
                # `new_boxed(header, &[s0, s1, ..])`: the header value and the content slices IN ORDER
                arr = strip_parens(args[1])
                while arr[0] == "un" and arr[1] == "&":
                    arr = strip_parens(arr[2])
                if arr[0] == "array":
                    h = self.use(self.lower(args[0], scope, pre))
                    vs = [self.use(self.lower(x, scope, pre)) for x in arr[1]]
                    ir = ".unit"
                    if vs:
                        ir = vs[-1]
                        for v in reversed(vs[:-1]):
                            ir = "(.pair %s %s)" % (v, ir)
                        if len(vs) == 1:
                            ir = "(.pair %s .unit)" % vs[0]
                    return ("i", '(.c1 "new_boxed" (.pair %s %s))' % (h, ir))
            # inlining of requested functions
            key = None
            if len(segs) == 1 and ("", last) in self.registry:
                key = ("", last)
            elif len(segs) == 2 and segs[0] in ("Self", self.self_ty) and (self.self_ty, last) in self.registry:
                key = (self.self_ty, last)
            if key and self.depth < 3:
                argv = [self.use(self.lower(a, scope, pre)) for a in args]
                return ("i", self.registry[key](self, argv))
            if last[0].isupper() and len(args) == 1 and not generics:
                nm = "::".join(segs[-2:]) if len(segs) > 1 else last
                if segs[0] == "Self" and self.self_ty:
                    nm = self.self_ty + "::" + last
                return ("i", '(.c1 "%s" %s)' % (nm, self.use(self.lower(args[0], scope, pre))))
        # an unknown function: an uninterpreted input named by its text - but `?` inside its arguments still returns early
        for a in args:
            if "?" in (a[-1] if isinstance(a[-1], str) else ""):
                self.lower(a, scope, pre)
        return self.opaque(text, scope)

    PRIM2 = {"wrapping_add": ".wrappingAdd", "wrapping_sub": ".wrappingSub", "wrapping_mul": ".wrappingMul",
             "saturating_sub": ".saturatingSub", "saturating_add": ".saturatingAdd", "checked_add": ".checkedAdd",
             "checked_sub": ".checkedSub", "checked_mul": ".checkedMul", "min": ".min", "max": ".max"}

    def lower_mcall(self, e, scope, pre):
        recv, name, turbo, args, text = e[1], e[2], e[3], e[4], e[5]
        if name in self.PRIM2 and len(args) == 1:
            a = self.use(self.lower(recv, scope, pre))
            b = self.use(self.lower(args[0], scope, pre))
            return ("i", "(.prim2 %s %s %s)" % (self.PRIM2[name], a, b))
        if name in ("unwrap", "expect"):
            return ("i", "(.prim1 .unwrap %s)" % self.use(self.lower(recv, scope, pre)))
        if name == "ok_or" and len(args) == 1:
            a = self.use(self.lower(recv, scope, pre))
            b = self.use(self.lower(args[0], scope, pre))
            return ("i", "(.prim2 .okOr %s %s)" % (a, b))
        if name == "map_err" and len(args) == 1 and strip_parens(args[0])[0] == "path":
            a = self.use(self.lower(recv, scope, pre))
            segs = strip_parens(args[0])[1]
            return ("i", '(.prim2 .mapErr %s (.c0 "%s"))' % (a, "::".join(segs[-2:])))
        if name in ("into", "clone", "to_owned", "borrow") and not args:
            r = self.lower(recv, scope, pre)
            if r[0] == "i":
                return r
        if name == "try_into" and not args:
            r = self.lower(recv, scope, pre)
            if r[0] == "i":
                return ("i", '(.c1 "Ok" %s)' % r[1])
        # anything else is an uninterpreted input named by its source text; a call on a MUTABLE receiver may return a
        # different value each time: every occurrence is its own input (`text#k`)
        root = re.match(r"([A-Za-z_]\w*)\.\w+\s*(?:::<[^>]*>)?\(", text)     # `x.method(` directly on the mutable binding
        if root and root.group(1) in self.mut_receivers:
            k = self.call_count.get(text, 0)
            self.call_count[text] = k + 1
            return self.opaque("%s#%d" % (text, k), scope)
        return self.opaque(text, scope)

    # ---- patterns: -> (test ir, scope with bindings); `m` = IR of the scrutinee variable
    def pat_test(self, pat, m, scope):
        k = pat[0]
        if k == "p_wild":
            return "(.blit true)", scope
        if k == "p_bind":
            scope[pat[1]] = ("v", int(re.match(r"\(\.var (\d+)\)", m).group(1)))
            return "(.blit true)", scope
        if k == "p_num":
            return "(.bin .eq %s (.lit %d))" % (m, pat[1]), scope
        if k == "p_range":
            hi = "(.bin .le %s (.lit %d))" % (m, pat[2]) if pat[3] else "(.bin .lt %s (.lit %d))" % (m, pat[2])
            return "(.bin .land (.bin .ge %s (.lit %d)) %s)" % (m, pat[1], hi), scope
        if k == "p_or":
            tests = [self.pat_test(p, m, scope)[0] for p in pat[1]]
            ir = tests[-1]
            for t in reversed(tests[:-1]):
                ir = "(.bin .lor %s %s)" % (t, ir)
            return ir, scope
        if k == "p_path":
            segs = pat[1]
            c = self.const_value(segs)
            if c is not None:
                return "(.bin .eq %s (.lit %d))" % (m, c[0]), scope
            nm = "::".join(segs[-2:]) if len(segs) > 1 else segs[0]
            if segs[0] == "Self" and self.self_ty:
                nm = self.self_ty + "::" + segs[-1]
            return '(.prim2 .isC %s (.c0 "%s"))' % (m, nm), scope
        if k == "p_ctor1":
            segs, sub = pat[1], pat[2]
            nm = "::".join(segs[-2:]) if len(segs) > 1 else segs[0]
            if segs[0] == "Self" and self.self_ty:
                nm = self.self_ty + "::" + segs[-1]
            test = '(.prim2 .isC %s (.c0 "%s"))' % (m, nm)
            if sub[0] == "p_wild":
                return test, scope
            if sub[0] == "p_bind":
                scope[sub[1]] = ("arg", m)
                return test, scope
            raise Unsupported("nested pattern")
        if k == "p_at":
            t, scope = self.pat_test(pat[2], m, scope)
            scope[pat[1]] = ("v", int(re.match(r"\(\.var (\d+)\)", m).group(1)))
            return t, scope
        raise Unsupported("pattern " + k)

    def lower_match(self, e, scope, pre, lower_body):
        s = self.use(self.lower(e[1], scope, pre))
        idx = self.fresh()
        m = "(.var %d)" % idx
        ir = ".panic"      # no arm matches: unreachable for exhaustive matches
        for (pat, guard, body) in reversed(e[2]):
            sc = dict(scope)
            test, sc = self.pat_test(pat, m, sc)
            binds = []
            for n, b in list(sc.items()):
                if b[0] == "arg":
                    j = self.fresh()
                    binds.append((j, "(.prim1 .arg %s)" % b[1]))
                    sc[n] = ("v", j)
            if guard is not None:
                g = self.use(self.lower(guard, sc, []))
                for (j, be) in reversed(binds):
                    g = "(.letIn %d %s %s)" % (j, be, g)
                test = "(.bin .land %s %s)" % (test, g)
            b = lower_body(body, sc)
            for (j, be) in reversed(binds):
                b = "(.letIn %d %s %s)" % (j, be, b)
            if test == "(.blit true)":
                ir = b
            else:
                ir = "(.ite %s %s %s)" % (test, b, ir)
        return "(.letIn %d %s %s)" % (idx, s, ir)

    # ---- blocks
    def ret(self, e, scope):
        if e is None:
            v = ".unit"
        else:
            pre = []
            v = self.wrap_pre(pre, self.use(self.lower(e, scope, pre))) if True else None
        return self.ret_wrap(v, scope)

    def ret_wrap(self, v, scope):
        for f in self.mutated:
            b = scope.get(f)
            cur = "(.var %d)" % b[1] if b and b[0] == "v" else self.freevar(f)
            v = "(.pair %s %s)" % (v, cur)
        return v

    def lower_block_value(self, blk, scope):
        """a block used as a value inside an expression (no state threading beyond its own scope)"""
        return self.lower_stmts(blk[1], blk[2], dict(scope), lambda v, sc: v)

    def lower_stmts(self, stmts, tail, scope, k):
        """k(value_ir, scope) = IR of everything that follows the block"""
        if not stmts:
            if tail is None:
                return k(".unit", scope)
            t = strip_parens(tail)
            if t[0] == "return":
                return self.ret(t[1], scope)
            if t[0] == "if":
                return self.lower_if(t, scope, k)
            if t[0] == "match":
                pre = []
                ir = self.lower_match(t, scope, pre, lambda body, sc: self.lower_branch(body, sc, k))
                return self.wrap_pre(pre, ir)
            if t[0] == "block":
                return self.lower_stmts(t[1], t[2], dict(scope), k)
            if t[0] in ("for", "while"):
                return self.lower_stmts([("expr", t)], None, scope, k)
            pre = []
            v = self.use(self.lower(t, scope, pre))
            return self.wrap_pre(pre, k(v, scope))
        s, rest = stmts[0], stmts[1:]
        cont = lambda sc: self.lower_stmts(rest, tail, sc, k)    # noqa: E731
        if s[0] == "let":
            _, name, ty, e, is_mut = s
            if is_mut:
                self.mut_receivers.add(name)
            e = strip_parens(e)
            if e[0] == "match":
                idx = self.fresh()
                pre = []

                def body_k(body, sc, idx=idx, name=name):
                    return self.lower_branch(body, sc, lambda v, sc2: self.bind(name, idx, v, sc2, cont))
                return self.wrap_pre(pre, self.lower_match(e, scope, pre, body_k))
            if e[0] == "if" and e[3] is not None:
                idx = self.fresh()
                return self.lower_if(e, scope, lambda v, sc2: self.bind(name, idx, v, sc2, cont))
            if e[0] == "block" and (e[1] or e[2] is None or strip_parens(e[2])[0] in ("return", "if", "match")):
                idx = self.fresh()
                return self.lower_stmts(e[1], e[2], dict(scope), lambda v, sc2: self.bind(name, idx, v, self.merge(scope, sc2), cont))
            pre = []
            r = self.lower(e, scope, pre)
            sc = dict(scope)
            if r[0] == "o" and not pre:
                sc[name] = ("o", r[1])
                self.aliases.append((name, self.subst_text(r[1], scope)))
                return cont(sc)
            v = self.use(r)
            if ty and ty.replace(" ", "") in INT_TYS and re.fullmatch(r"\(\.lit \d+\)", v):
                v = "(.tlit %s %s)" % (v[6:-1], INT_TYS[ty.replace(" ", "")])
            idx = self.fresh()
            sc[name] = ("v", idx)
            return self.wrap_pre(pre, "(.letIn %d %s %s)" % (idx, v, cont(sc)))
        if s[0] == "assign":
            _, target, op, rhs, lhs_e = s
            pre = []
            r = self.use(self.lower(rhs, scope, pre))
            if op != "=":
                cur = self.use(self.lower(lhs_e, scope, pre))
                ops = {"+=": ".add", "-=": ".sub", "*=": ".mul", "/=": ".div", "%=": ".rem", "&=": ".band", "|=": ".bor",
                       "^=": ".bxor", "<<=": ".shl", ">>=": ".shr"}
                r = "(.bin %s %s %s)" % (ops[op], cur, r)
            idx = self.fresh()
            sc = dict(scope)
            sc[target] = ("v", idx)
            return self.wrap_pre(pre, "(.letIn %d %s %s)" % (idx, r, cont(sc)))
        if s[0] == "expr":
            e = strip_parens(s[1])
            if e[0] == "return":
                return self.ret(e[1], scope)
            if e[0] == "if":
                return self.lower_if(e, scope, lambda v, sc: cont(sc))
            if e[0] == "match":
                pre = []
                ir = self.lower_match(e, scope, pre, lambda body, sc: self.lower_branch(body, sc, lambda v, sc2: cont(sc2)))
                return self.wrap_pre(pre, ir)
            if e[0] == "block":
                return self.lower_stmts(e[1], e[2], dict(scope), lambda v, sc2: cont(self.merge(scope, sc2)))
            if e[0] == "while":
                # ONE iteration as a step function: condition false -> what follows the loop; otherwise the body, which
                # either returns or reaches its end = `continue` (reported with the state like a return value)
                pre = []
                c = self.use(self.lower(e[1], scope, pre))
                body = self.lower_stmts(e[2][1], e[2][2], dict(scope),
                                        lambda v, sc2: self.ret_wrap('(.c0 "continue")', self.merge(scope, sc2)))
                return self.wrap_pre(pre, "(.ite %s %s %s)" % (c, body, cont(scope)))
            if e[0] == "for":
                # ONE iteration as a step function over the variables assigned in the body (emitted as `<name>_loop<k>`); after
                # the loop those variables are unknown (fresh inputs `x@after-loop`)
                assigned = []
                collect_assigned(e[3], assigned)
                sc = dict(scope)
                for n in re.findall(r"[A-Za-z_]\w*", e[1]):
                    if n not in ("mut", "ref"):
                        sc[n] = ("o", n)
                for a in assigned:          # the loop state at the START of an iteration is an input of the step
                    sc[a] = ("o", a)

                def endk(v, sc2, assigned=assigned):
                    vals = []
                    for a in assigned:
                        b = sc2.get(a)
                        vals.append("(.var %d)" % b[1] if b and b[0] == "v" else self.freevar(a))
                    if not vals:
                        return ".unit"
                    ir = vals[-1]
                    for v2 in reversed(vals[:-1]):
                        ir = "(.pair %s %s)" % (v2, ir)
                    return ir
                body = self.lower_stmts(e[3][1], e[3][2], sc, endk)
                self.loops.append((body, list(assigned), e[1], self.subst_text(untok_expr(e[2]), scope)))
                sc3 = dict(scope)
                for a in assigned:
                    sc3[a] = ("o", a + "@after-loop")
                return cont(sc3)
            if e[0] == "macro":
                nm = e[1].split("::")[-1]
                if nm in ("assert", "debug_assert"):
                    c = self.use(self.lower(e[2][0], scope, []))
                    body = "(.ite %s %s .panic)" % (c, cont(scope))
                    return body if nm == "assert" else "(.ite .isDev %s %s)" % (body, cont(scope))
                if nm in ("assert_eq", "assert_ne", "debug_assert_eq", "debug_assert_ne"):
                    a = self.use(self.lower(e[2][0], scope, []))
                    b = self.use(self.lower(e[2][1], scope, []))
                    c = "(.bin %s %s %s)" % (".eq" if nm.endswith("eq") else ".ne", a, b)
                    body = "(.ite %s %s .panic)" % (c, cont(scope))
                    return body if not nm.startswith("debug") else "(.ite .isDev %s %s)" % (body, cont(scope))
                if nm in ("trace", "debug", "info", "warn", "error", "println", "eprintln"):
                    return cont(scope)
                if nm in ("unreachable", "panic", "unimplemented", "todo"):
                    return ".panic"
                raise Unsupported("macro statement " + e[1])
            # an expression evaluated for its effect: only opaque, effect-free calls are skipped
            pre = []
            r = self.lower(e, scope, pre)
            if pre:
                return self.wrap_pre(pre, cont(scope))
            if r[0] == "o":
                self.effects.append(self.subst_text(r[1], scope))     # an opaque call evaluated for its effect
                return cont(scope)
            raise Unsupported("expression statement")
        raise Unsupported("statement " + s[0])

    def merge(self, outer, inner):
        """names (re)bound in an inner block that are state (`self.x`) or pre-existing stay visible"""
        sc = dict(outer)
        for n, b in inner.items():
            if n in outer or "." in n:
                sc[n] = b
        return sc

    def bind(self, name, idx, v, scope, cont):
        sc = dict(scope)
        sc[name] = ("v", idx)
        return "(.letIn %d %s %s)" % (idx, v, cont(sc))

    def lower_branch(self, body, scope, k):
        body = strip_parens(body)
        if body[0] == "return":
            return self.ret(body[1], scope)
        if body[0] == "block":
            return self.lower_stmts(body[1], body[2], dict(scope), k)
        if body[0] == "if":
            return self.lower_if(body, scope, k)
        pre = []
        v = self.use(self.lower(body, scope, pre))
        return self.wrap_pre(pre, k(v, scope))

    def lower_if(self, e, scope, k):
        pre = []
        c = self.use(self.lower(e[1], scope, pre))
        t = self.lower_stmts(e[2][1], e[2][2], dict(scope), lambda v, sc: k(v, self.merge(scope, sc)))
        if e[3] is None:
            el = k(".unit", scope)
        elif e[3][0] == "block":
            el = self.lower_stmts(e[3][1], e[3][2], dict(scope), lambda v, sc: k(v, self.merge(scope, sc)))
        else:
            el = self.lower_if(e[3], scope, k)
        return self.wrap_pre(pre, "(.ite %s %s %s)" % (c, t, el))


def collect_assigned(node, out):
    if isinstance(node, tuple):
        if node and node[0] == "assign" and isinstance(node[1], str):
            if node[1] not in out:
                out.append(node[1])
        for x in node:
            collect_assigned(x, out)
    elif isinstance(node, list):
        for x in node:
            collect_assigned(x, out)


def untok_expr(e):
    """source text of an expression node (the last string component of call / path nodes)"""
    e = strip_parens(e)
    if e[0] in ("path", "call", "index", "try") and isinstance(e[-1], str):
        return e[-1]
    if e[0] in ("mcall", "field") and isinstance(e[-1], str):
        return e[-1]
    if e[0] == "un":
        return e[1] + untok_expr(e[2])
    return "?"


def assigned_self_fields(node, out):
    if isinstance(node, tuple):
        if node and node[0] == "assign" and isinstance(node[1], str) and node[1].startswith("self."):
            if node[1] not in out:
                out.append(node[1])
        for x in node:
            assigned_self_fields(x, out)
    elif isinstance(node, list):
        for x in node:
            assigned_self_fields(x, out)


# ------------------------------------------------------------------------------------------------ crate knowledge
class Context:
    def __init__(self):
        self.cr = gen_source.Crate()
        self.crate = ""
        self.tag_numbers = {}
        self.last_mut_self = False
        self.all_text = {}
        for crate in ("multiboot2-common", "multiboot2", "multiboot2-header"):
            d = os.path.join(REPO, crate, "src")
            for fn in sorted(os.listdir(d)) if os.path.isdir(d) else []:
                if fn.endswith(".rs"):
                    p = os.path.join(crate, "src", fn)
                    try:
                        self.all_text[p] = self.cr.load(p)
                    except Exception:
                        pass
        self.tag_numbers = gen_source.tag_type_numbers(self.cr)

    def size_align(self, ty):
        ty = ty.replace(" ", "")
        if len(ty) == 1 and ty.isupper():
            return None      # a generic parameter
        try:
            return self.cr.size_align(ty)
        except Exception:
            return None

    def const(self, owner, name):
        """value and type of `const NAME: ty = expr;` (free, or associated to `owner`); the requesting crate first"""
        if name == "ID" and owner:
            for txt in self.all_text.values():
                for body in self.cr.impl_bodies(txt, owner, "Tag"):
                    m = re.search(r"const\s+ID\s*:\s*[\w:]+\s*=\s*([\w:]+)\s*;", body)
                    if m:
                        key = "::".join(m.group(1).split("::")[-2:])
                        n = self.tag_numbers.get(key)
                        if n is not None and key.startswith("TagType::"):
                            return (n, None)
            return None
        if not (name.isupper() or "_" in name) or not name[0].isupper():
            return None
        if owner is None:
            order = sorted(self.all_text, key=lambda p: (not p.startswith(self.crate + "/"), not p.startswith("multiboot2-common/"), p))
            for txt in (self.all_text[p] for p in order):
                for m in re.finditer(r"(?:pub(?:\([^)]*\))?\s+)?const\s+" + re.escape(name) + r"\s*:\s*(\w+)\s*=\s*([^;]+);", txt):
                    ty = m.group(1)
                    if ty not in INT_TYS:
                        continue
                    try:
                        return (int(self.cr.eval_const(m.group(2), "", txt)), ty)
                    except Exception:
                        try:
                            return (int(m.group(2).replace("_", "").strip(), 0), ty)
                        except Exception:
                            continue
            return None
        for txt in self.all_text.values():
            for body in self.cr.impl_bodies(txt, owner):
                m = re.search(r"const\s+" + re.escape(name) + r"\s*:\s*(\w+)\s*=\s*([^;]+);", body)
                if m and m.group(1) in INT_TYS:
                    try:
                        return (int(self.cr.eval_const(m.group(2), owner, txt)), m.group(1))
                    except Exception:
                        return None
            for tr in ("MaybeDynSized", "Tag", "Header"):
                for body in self.cr.impl_bodies(txt, owner, tr):
                    m = re.search(r"const\s+" + re.escape(name) + r"\s*:\s*(\w+)\s*=\s*([^;]+);", body)
                    if m and m.group(1) in INT_TYS:
                        try:
                            return (int(self.cr.eval_const(m.group(2), owner, txt)), m.group(1))
                        except Exception:
                            return None
        return None

    def list_fns(self, path, impl_pat):
        """names of the functions defined at the top level of the matching impl block(s), in source order"""
        txt = self.all_text.get(path)
        if txt is None:
            raise Unsupported("no file " + path)
        t = re.search(r"#\[cfg\((?:all\()?test[^\]]*\]\s*(?:pub\s+)?mod\s+\w+\s*\{", txt)
        txt = txt[:t.start()] if t else txt
        names = []
        found = False
        if impl_pat == "^$":
            depth = 0
            top = ""
            for ch in txt:
                if ch == "{":
                    depth += 1
                elif ch == "}":
                    depth -= 1
                elif depth == 0:
                    top += ch
            for fm in re.finditer(r"\bfn\s+(\w+)", top):
                rest = top[fm.end():]
                nxt = re.search(r"\bfn\s+\w+", rest)
                sig = rest[:nxt.start()] if nxt else rest
                rm = re.search(r"->\s*([^;]*?)\s*(?:where\b|#\[|pub\b|const\b|unsafe\b|impl\b|struct\b|$)", sig, re.S)
                names.append(("", fm.group(1), re.sub(r"\s+", "", rm.group(1)) if rm else "()"))
            return names
        for m in re.finditer(r"(?:impl|trait)\b[^{;]*\{", txt):
            if re.search(impl_pat, m.group(0)):
                found = True
                end = gen_source.matching(txt, m.end() - 1)
                blk = txt[m.end():end - 1]
                depth = 0
                top = ""
                for ch in blk:
                    if ch == "{":
                        depth += 1
                    elif ch == "}":
                        depth -= 1
                    elif depth == 0:
                        top += ch
                for fm in re.finditer(r"\bfn\s+(\w+)", top):
                    rest = top[fm.end():]
                    # the signature ends where the (removed) body stood: at the next `fn` item or the end of the block
                    nxt = re.search(r"\bfn\s+\w+", rest)
                    sig = rest[:nxt.start()] if nxt else rest
                    rm = re.search(r"->\s*([^;]*?)\s*(?:;|where\b|#\[|pub\b|(?<!\*)const\b|unsafe\b|$)", sig, re.S)
                    ret = re.sub(r"\s+", "", rm.group(1)) if rm else "()"
                    names.append((m.group(0), fm.group(1), ret))
        if not found:
            raise Unsupported("no impl block matching " + impl_pat)
        return names

    def find_fn(self, path, impl_pat, fname):
        """-> (self type name, parameter names, body text)"""
        txt = self.all_text.get(path)
        if txt is None:
            raise Unsupported("no file " + path)
        regions = []
        if impl_pat:
            for m in re.finditer(r"(?:impl|trait)\b[^{;]*\{", txt):
                head = m.group(0)
                if re.search(impl_pat, head):
                    end = gen_source.matching(txt, m.end() - 1)
                    regions.append((head, txt[m.end():end - 1]))
        else:
            regions.append(("", txt))
        for head, body in regions:
            # skip nested `mod tests`
            for m0 in re.finditer(r"\bfn\s+" + re.escape(fname) + r"\s*(?=[<(])", body):
                j = m0.end()
                if body[j] == "<":          # generic parameters, possibly nested
                    depth = 0
                    while j < len(body):
                        if body[j] == "<":
                            depth += 1
                        elif body[j] == ">" and body[j - 1] != "-":
                            depth -= 1
                            if depth == 0:
                                j += 1
                                break
                        j += 1
                    while j < len(body) and body[j].isspace():
                        j += 1
                if j >= len(body) or body[j] != "(":
                    continue

                class _M:
                    def __init__(self, e):
                        self._e = e

                    def end(self):
                        return self._e
                m = _M(j + 1)
                pe = gen_source.matching(body, m.end() - 1, "(", ")")
                params = body[m.end():pe - 1]
                b0 = body.find("{", pe)
                semi = body.find(";", pe)
                if b0 < 0 or (0 <= semi < b0):
                    continue
                be = gen_source.matching(body, b0)
                self_ty = None
                hm = re.search(r"for\s+([A-Za-z_]\w*)", head) or re.search(r"impl(?:<[^>]*>)?\s+([A-Za-z_]\w*)", head) or re.search(r"trait\s+(\w+)", head)
                if hm:
                    self_ty = hm.group(1)
                self.last_mut_self = bool(re.match(r"\s*&\s*(?:'\w+\s+)?mut\s+self\b", params))
                pnames = []
                for prm in re.split(r",(?![^<(]*[>)])", params):
                    pm = re.match(r"\s*(?:mut\s+)?(\w+)\s*:", prm)
                    if pm:
                        pnames.append(pm.group(1))
                return self_ty, pnames, body[b0:be]
        raise Unsupported("function %s not found" % fname)


def translate(ctx, req, registry):
    name, path, impl_pat, fname, inputs = req
    ctx.crate = path.split("/")[0]
    self_ty, params, body = ctx.find_fn(path, impl_pat, fname)
    mut_self = ctx.last_mut_self
    toks = tokenize(body)
    ps = Parser(toks)
    blk = ps.block()
    if ps.i != len(toks):
        raise Unsupported("trailing tokens")
    lw = Lowerer(ctx, inputs, self_ty, registry)
    if mut_self:
        lw.mut_receivers.add("self")
    assigned_self_fields(blk, lw.mutated)
    scope = {}
    ir = lw.lower_stmts(blk[1], blk[2], scope, lambda v, sc: lw.ret_wrap(v, sc))
    translate.last = lw
    return ir, lw.free, lw.mutated, lw.aliases


def make_inliner(ctx, req, registry):
    """callable(lowerer, [arg ir]) -> IR text of the callee body with its parameters bound to the arguments"""
    name, path, impl_pat, fname, inputs = req

    def inline(caller, argv):
        self_ty, params, body = ctx.find_fn(path, impl_pat, fname)
        toks = tokenize(body)
        ps = Parser(toks)
        blk = ps.block()
        lw = Lowerer(ctx, caller.free, self_ty, registry, depth=caller.depth + 1)
        lw.free = caller.free                      # share the free-variable table
        lw.next_local = caller.next_local + 20
        scope = {}
        binds = []
        if len(params) != len(argv):
            raise Unsupported("arity of " + fname)
        for pn, a in zip(params, argv):
            idx = lw.fresh()
            scope[pn] = ("v", idx)
            binds.append((idx, a))
        ir = lw.lower_stmts(blk[1], blk[2], scope, lambda v, sc: v)
        caller.next_local = lw.next_local + 1
        for idx, a in reversed(binds):
            ir = "(.letIn %d %s %s)" % (idx, a, ir)
        return ir
    return inline


def main(out_path, report_path=None):
    ctx = Context()
    registry = {}
    for req in REQUESTS:
        if req[0] == "increase_to_alignment":
            registry[("", "increase_to_alignment")] = make_inliner(ctx, req, registry)
        if req[0] == "calc_checksum":
            registry[("Multiboot2BasicHeader", "calc_checksum")] = make_inliner(ctx, req, registry)
    lines = ["/-", "  GENERATED by tools/gen_fns.py from the Rust sources of /repo - do not edit.",
             "  One closed `Rir.E` term per translated function body; `none` = not translatable (see the JSON report).",
             "  `<name>_vars` lists the free variables: the requested inputs first, then anything else the body depends on.", "-/",
             "import Mb2.Rir", "namespace Mb2.Gen.Fns", "open Mb2.Rir", ""]
    report = {"translated": [], "not_translated": {}, "extra_inputs": {}}
    for req in REQUESTS:
        name = req[0]
        try:
            ir, free, mutated, aliases = translate(ctx, req, registry)
            lines.append("def %s : Option E := some\n  %s" % (name, ir))
            lines.append("def %s_vars : List String := [%s]" % (name, ", ".join(json.dumps(f) for f in free)))
            lines.append("def %s_state : List String := [%s]" % (name, ", ".join(json.dumps(f) for f in mutated)))
            lines.append("def %s_aliases : List (String × String) := [%s]" % (name, ", ".join("(%s, %s)" % (json.dumps(a), json.dumps(b)) for a, b in aliases)))
            lw = translate.last
            if lw.loops or lw.effects:
                for k, (body, assigned, pat, it) in enumerate(lw.loops):
                    lines.append("def %s_loop%d : Option E := some\n  %s" % (name, k, body))
                    lines.append("def %s_loop%d_state : List String := [%s]" % (name, k, ", ".join(json.dumps(a) for a in assigned)))
                    lines.append("def %s_loop%d_over : String × String := (%s, %s)" % (name, k, json.dumps(pat), json.dumps(it)))
                lines.append("def %s_effects : List String := [%s]" % (name, ", ".join(json.dumps(x) for x in lw.effects)))
                lines.append("def %s_vars_all : List String := [%s]" % (name, ", ".join(json.dumps(f) for f in lw.free)))
            report["translated"].append(name)
            if len(free) > len(req[4]):
                report["extra_inputs"][name] = free[len(req[4]):]
        except (Unsupported, RecursionError, AssertionError, IndexError, KeyError, ValueError, AttributeError) as ex:
            lines.append("def %s : Option E := none" % name)
            lines.append("def %s_vars : List String := []" % name)
            lines.append("def %s_state : List String := []" % name)
            lines.append("def %s_aliases : List (String × String) := []" % name)
            report["not_translated"][name] = "%s: %s" % (type(ex).__name__, ex)
        lines.append("")
    report["pinned"] = []
    for (name, path, impl_pat, fname) in PINNED:
        try:
            ctx.crate = path.split("/")[0]
            _self_ty, _params, body = ctx.find_fn(path, impl_pat, fname)
            body = re.sub(r'"(?:[^"\\\\]|\\\\.)*"', '"..."', body)     # log / panic messages carry no meaning
            text = untok(tokenize(body))
            lines.append("def %s_text : Option String := some %s" % (name, json.dumps(text)))
            report["pinned"].append(name)
        except Exception as ex:      # noqa: BLE001
            lines.append("def %s_text : Option String := none" % name)
            report["not_translated"][name + "_text"] = "%s: %s" % (type(ex).__name__, ex)
    # LINKED composites: the IR of a root function with some of its opaque inputs replaced by the IR of the function they call
    # (monomorphised per header kind) - the seams between separately translated functions are closed
    done = {}
    for ln in lines:
        pass
    irs = {}
    cur = None
    for ln in lines:
        m = re.match(r"def (\w+) : Option E := some$", ln.split("\n")[0]) if ln.startswith("def ") else None
        if ln.startswith("def ") and " : Option E := some\n" in ln:
            nm = ln.split(" ")[1]
            irs[nm] = ln.split("\n", 1)[1].strip()
    varsof = {}
    for ln in lines:
        m = re.match(r"def (\w+)_vars : List String := \[(.*)\]$", ln)
        if m:
            varsof[m.group(1)] = json.loads("[" + m.group(2) + "]")

    def renumber(ir, off):
        def rep(mm):
            n = int(mm.group(2))
            return "%s%d" % (mm.group(1), n + off if n >= 100 else n)
        return re.sub(r"(\(\.var |\(\.letIn |\(\.tryE )(\d+)", rep, ir)

    def subst(ir, mapping):
        def rep(mm):
            n = int(mm.group(1))
            return mapping.get(n, mm.group(0))
        return re.sub(r"\(\.var (\d+)\)", rep, ir)

    counter = [0]

    def build(spec, inputs):
        """spec = (function name, {input text: ('in', name) | ('lit', ir) | ('call', spec)}) -> IR text over `inputs`"""
        fname, binds = spec
        if fname not in irs:
            raise Unsupported("link: %s not translated" % fname)
        counter[0] += 1
        ir = renumber(irs[fname], 1000 * counter[0])
        mapping = {}
        for i, v in enumerate(varsof[fname]):
            b = binds.get(v)
            if b is None:
                raise Unsupported("link: input %s of %s is not bound" % (v, fname))
            if b[0] == "in":
                if b[1] not in inputs:
                    inputs.append(b[1])
                mapping[i] = "(.var %d)" % inputs.index(b[1])
            elif b[0] == "lit":
                mapping[i] = b[1]
            else:
                mapping[i] = build(b[1], inputs)
        return subst(ir, mapping)

    for kind, hs, plfn, szfield in (("tag", 8, "tag_header_payload_len", "self.size"), ("ht", 8, "ht_header_payload_len", "self.size"),
                                    ("bi", 8, "bi_header_payload_len", "self.total_size"), ("hb", 16, "hb_header_payload_len", "self.length")):
        nm = "ref_from_slice_" + kind
        try:
            inputs = ["len", "ao", "bytes", "d", "result"]
            hsl = "(.tlit %d .usize)" % hs
            spec = ("ref_from_slice", {
                "BytesRef::<H>::try_from(bytes)": ("call", ("bytes_ref_try_from", {
                    "bytes.len()": ("in", "len"), "size_of::<H>()": ("lit", hsl),
                    "bytes.as_ptr().align_offset(ALIGNMENT)": ("in", "ao"), "bytes": ("in", "bytes")})),
                "Self::ref_from_bytes(bytes)": ("call", ("ref_from_bytes", {
                    "hdr.payload_len()": ("call", (plfn, {szfield: ("in", "d")})),
                    "bytes.len()": ("in", "len"), "size_of::<H>()": ("lit", hsl),
                    "ptr_meta::from_raw_parts(ptr.cast(),dst_size)": ("in", "result")})),
            })
            ir = build(spec, inputs)
            lines.append("def %s : Option E := some\n  %s" % (nm, ir))
            lines.append("def %s_vars : List String := [%s]" % (nm, ", ".join(json.dumps(x) for x in inputs)))
            report["translated"].append(nm)
        except (Unsupported, KeyError) as ex:
            lines.append("def %s : Option E := none" % nm)
            report["not_translated"][nm] = "%s: %s" % (type(ex).__name__, ex)
    # the two `load` functions, linked down to the size arithmetic
    def rfs(kind_hs, plfn, tsfn, szfield):
        hsl = "(.tlit %d .usize)" % kind_hs
        ts = ("call", (tsfn, {szfield: ("in", "d")}))
        return ("call", ("ref_from_ptr", {"Self::ref_from_slice(slice)": ("call", ("ref_from_slice", {
            "BytesRef::<H>::try_from(bytes)": ("call", ("bytes_ref_try_from", {
                "bytes.len()": ts, "size_of::<H>()": ("lit", hsl),
                "bytes.as_ptr().align_offset(ALIGNMENT)": ("in", "ao"), "bytes": ("in", "bytes")})),
            "Self::ref_from_bytes(bytes)": ("call", ("ref_from_bytes", {
                "hdr.payload_len()": ("call", (plfn, {szfield: ("in", "d")})),
                "bytes.len()": ts, "size_of::<H>()": ("lit", hsl),
                "ptr_meta::from_raw_parts(ptr.cast(),dst_size)": ("in", "result")}))}))}))
    for nm, spec, inputs in (
        ("mbi_load_linked", ("mbi_load", {
            "NonNull::new(ptr.cast_mut())": ("in", "nonnull"),
            "DynSizedStructure::ref_from_ptr(ptr)": rfs(8, "bi_header_payload_len", "bi_header_total_size", "self.total_size"),
            "this.has_valid_end_tag()": ("call", ("has_valid_end_tag", {"end_tag.typ": ("in", "end_typ"), "end_tag.size": ("in", "end_size")}))}),
         ["nonnull", "ao", "bytes", "d", "result", "end_typ", "end_size"]),
        ("hdr_load_linked", ("hdr_load", {
            "NonNull::new(ptr.cast_mut())": ("in", "nonnull"),
            "DynSizedStructure::ref_from_ptr(ptr)": rfs(16, "hb_header_payload_len", "hb_header_total_size", "self.length"),
            "header.header_magic": ("in", "magic"),
            "header.verify_checksum()": ("call", ("verify_checksum", {"self.header_magic": ("in", "magic"), "self.arch": ("in", "arch"),
                                                                     "self.length": ("in", "d"), "self.checksum": ("in", "checksum")}))}),
         ["nonnull", "ao", "bytes", "d", "result", "magic", "arch", "checksum"])):
        try:
            ins = list(inputs)
            ir = build(spec, ins)
            lines.append("def %s : Option E := some\n  %s" % (nm, ir))
            lines.append("def %s_vars : List String := [%s]" % (nm, ", ".join(json.dumps(x) for x in ins)))
            report["translated"].append(nm)
        except (Unsupported, KeyError) as ex:
            lines.append("def %s : Option E := none" % nm)
            report["not_translated"][nm] = "%s: %s" % (type(ex).__name__, ex)
    lines.append("")
    # whole impl blocks as tables (see IMPL_TABLES)
    cov_reqs = [(r[1], r[2], r[3]) for r in REQUESTS] + [(r[1], r[2], r[3]) for r in PINNED]

    def is_covered(path, head, fn):
        return any(p == path and f == fn and (not ip or re.search(ip, head)) for (p, ip, f) in cov_reqs)
    report["tables"] = {}
    for (tname, path, impl_pat) in IMPL_TABLES:
        try:
            ctx.crate = path.split("/")[0]
            names = ctx.list_fns(path, impl_pat)
            rows = []
            for (head, fn, ret) in names:
                fn_ret = fn + "->" + ret
                if is_covered(path, head, fn):
                    rows.append('(%s, "covered", none, [], [])' % json.dumps(fn_ret))
                    continue
                try:
                    ir, free, mutated, aliases = translate(ctx, (tname + "." + fn, path, "" if impl_pat == "^$" else impl_pat, fn, []), registry)
                    lw = translate.last
                    if lw.loops or lw.effects or mutated:
                        raise Unsupported("loops / effects / state")
                    rows.append('(%s, "ir", some %s, [%s], [%s])' % (json.dumps(fn_ret), ir, ", ".join(json.dumps(f) for f in free),
                                                                     ", ".join(json.dumps("let %s=%s" % (a, b)) for a, b in aliases)))
                except (Unsupported, RecursionError, AssertionError, IndexError, KeyError, ValueError, AttributeError) as ex:
                    try:
                        _s, _p, body = ctx.find_fn(path, "" if impl_pat == "^$" else impl_pat, fn)
                    except Unsupported:       # a declaration without a body (required trait method)
                        rows.append('(%s, "decl", none, [], [])' % json.dumps(fn_ret))
                        continue
                    body = re.sub(r'"(?:[^"\\\\]|\\\\.)*"', '"..."', body)
                    rows.append('(%s, "text", none, [%s], [])' % (json.dumps(fn_ret), json.dumps(untok(tokenize(body)))))
            lines.append("def %s : Option (List (String × String × Option E × List String × List String)) := some [\n  %s]" % (tname, ",\n  ".join(rows)))
            report["tables"][tname] = len(rows)
        except Exception as ex:      # noqa: BLE001
            lines.append("def %s : Option (List (String × String × Option E × List String × List String)) := none" % tname)
            report["not_translated"][tname] = "%s: %s" % (type(ex).__name__, ex)
    lines.append("")
    # bitflags! blocks: (struct, representation, [(constant, value)]) - `from_bits_truncate` keeps exactly these bits
    try:
        flags = []
        for path in sorted(ctx.all_text):
            txt = ctx.all_text[path]
            for m in re.finditer(r"bitflags!\s*\{", txt):
                end = gen_source.matching(txt, m.end() - 1)
                blk = txt[m.end():end - 1]
                sm = re.search(r"struct\s+(\w+)\s*:\s*(\w+)\s*\{", blk)
                if not sm:
                    raise Unsupported("bitflags block without struct in " + path)
                consts = [(c, int(v.replace("_", ""), 0)) for c, v in re.findall(r"const\s+(\w+)\s*=\s*(0x[0-9a-fA-F_]+|0b[01_]+|\d[\d_]*)\s*;", blk)]
                n_all = len(re.findall(r"\bconst\s+\w+\s*=", blk))
                if n_all != len(consts):
                    raise Unsupported("bitflags constant that is not a literal in " + path)
                flags.append((sm.group(1), sm.group(2), consts))
        flags.sort()
        lines.append("def bitflags : Option (List (String × String × List (String × Nat))) := some [" + ", ".join(
            "(%s, %s, [%s])" % (json.dumps(a), json.dumps(b), ", ".join("(%s, %d)" % (json.dumps(c), v) for c, v in cs)) for a, b, cs in flags) + "]")
        report["bitflags"] = len(flags)
    except Exception as ex:      # noqa: BLE001
        lines.append("def bitflags : Option (List (String × String × List (String × Nat))) := none")
        report["not_translated"]["bitflags"] = repr(ex)
    lines.append("")
    # INVENTORY: every non-test function of the three crates and the way it is tied to the model (reported in the evidence)
    try:
        tabled = set()
        for (tname, path, impl_pat) in IMPL_TABLES:
            try:
                for (h, fn, _r) in ctx.list_fns(path, impl_pat):
                    tabled.add((path, h, fn))
            except Unsupported:
                pass
        acc = set()
        for _st, (f, accs) in gen_source.REQUESTS.items():
            for a in accs:
                acc.add((f, a))
        inv = {"translated": 0, "pinned-text": 0, "impl-table": 0, "accessor-layout": 0, "builder-translator": 0, "method-set": 0,
               "formatting/error-traits (not tied)": 0, "test-utilities (not tied)": 0, "not tied": []}
        for path in sorted(ctx.all_text):
            txt = ctx.all_text[path]
            t = re.search(r"#\[cfg\((?:all\()?test[^\]]*\]\s*(?:pub\s+)?mod\s+\w+\s*\{", txt)
            txt = txt[:t.start()] if t else txt
            heads = [(m.start(), gen_source.matching(txt, m.end() - 1), m.group(0)) for m in re.finditer(r"(?:impl|trait)\b[^{;]*\{", txt)]
            for fm in re.finditer(r"\bfn\s+(\w+)\s*(?=[<(])", txt):
                fn = fm.group(1)
                head = ""
                for (a, b, h) in heads:
                    if a < fm.start() < b:
                        head = h
                if any(r[1] == path and r[3] == fn and (not r[2] or re.search(r[2], head)) for r in REQUESTS):
                    inv["translated"] += 1
                elif any(r[1] == path and r[3] == fn and (not r[2] or re.search(r[2], head)) for r in PINNED):
                    inv["pinned-text"] += 1
                elif (path, head, fn) in tabled:
                    inv["impl-table"] += 1
                elif (path, fn) in acc:
                    inv["accessor-layout"] += 1
                elif path.endswith("builder.rs"):
                    inv["builder-translator"] += 1
                elif re.search(r"\b(MaybeDynSized|Default|Header)\b[^{]*\bfor\b", head):
                    inv["method-set"] += 1
                elif re.search(r"\b(Debug|Display|Error)\b[^{]*\bfor\b", head):
                    inv["formatting/error-traits (not tied)"] += 1
                elif path.endswith("test_utils.rs"):
                    inv["test-utilities (not tied)"] += 1
                else:
                    inv["not tied"].append("%s: %s" % (path, fn))
        report["inventory"] = inv
    except Exception as ex:      # noqa: BLE001
        report["inventory"] = {"error": repr(ex)}
    # the METHOD SETS of the trait impls the model depends on: an added override (`nth`, `last`, `count`, `size_hint`, a second
    # `total_size`) or a removed one changes behaviour without touching any translated body
    impls = []
    try:
        for path in sorted(ctx.all_text):
            txt = ctx.all_text[path]
            t = re.search(r"#\[cfg\((?:all\()?test[^\]]*\]\s*(?:pub\s+)?mod\s+\w+\s*\{", txt)
            body_txt = txt[:t.start()] if t else txt
            for m in re.finditer(r"\bimpl\b([^{;]*?)\b(Iterator|ExactSizeIterator|DoubleEndedIterator|FusedIterator|Header|MaybeDynSized|Default|Deref)\b(?:<[^{]*?>)?\s+for\s+([A-Za-z_]\w*)[^{]*\{", body_txt):
                end = gen_source.matching(body_txt, m.end() - 1)
                blk = body_txt[m.end():end - 1]
                # top-level items of the impl only
                depth = 0
                top = ""
                for ch in blk:
                    if ch == "{":
                        depth += 1
                    elif ch == "}":
                        depth -= 1
                    elif depth == 0:
                        top += ch
                names = sorted(set(re.findall(r"\bfn\s+(\w+)", top)) | set("const " + c for c in re.findall(r"\bconst\s+(\w+)", top)))
                impls.append((m.group(2), m.group(3), names))
        impls.sort()
        lines.append("def trait_impls : Option (List (String × String × List String)) := some [" + ", ".join(
            "(%s, %s, [%s])" % (json.dumps(a), json.dumps(b), ", ".join(json.dumps(n) for n in ns)) for a, b, ns in impls) + "]")
        report["trait_impls"] = len(impls)
    except Exception as ex:      # noqa: BLE001
        lines.append("def trait_impls : Option (List (String × String × List String)) := none")
        report["not_translated"]["trait_impls"] = repr(ex)
    lines.append("")
    lines.append("end Mb2.Gen.Fns")
    new = "\n".join(lines) + "\n"
    os.makedirs(os.path.dirname(out_path), exist_ok=True)
    old = open(out_path).read() if os.path.exists(out_path) else None
    if old != new:
        with open(out_path, "w") as f:
            f.write(new)
    if report_path:
        json.dump(report, open(report_path, "w"), indent=1)
    return report


if __name__ == "__main__":
    out = sys.argv[1] if len(sys.argv) > 1 else "/verif/lean/Mb2/Gen/Fns.lean"
    rep = main(out, sys.argv[2] if len(sys.argv) > 2 else None)
    print("generated %s: %d functions translated, %d not: %s" % (out, len(rep["translated"]), len(rep["not_translated"]),
                                                                 json.dumps(rep["not_translated"])))
    if rep["extra_inputs"]:
        print("extra inputs: " + json.dumps(rep["extra_inputs"]))
