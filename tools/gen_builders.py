#!/usr/bin/env python3
"""gen_builders.py - TRANSLATOR of the two `Builder` impls (multiboot2/src/builder.rs, multiboot2-header/src/builder.rs)
into Lean data (`lean/Mb2/Gen/Builders.lean`, regenerated from /repo's working tree on every run):

  * `<b>_steps : Option (List (String × String))` - the statements of `build()` in source order, each classified as
      ("header", <constructor text>)   `let header = ...;`
      ("opt", <field>)                 `if let Some(t) = self.<field>.as_ref() { byte_refs.push(t.as_bytes().as_ref()); }`
      ("vec", <field>)                 `for t in &self.<field> { byte_refs.push(t.as_bytes().as_ref()); }`
      ("end", <constructor text>)      `let end_tag = <ctor>; byte_refs.push(end_tag.as_bytes().as_ref());`
      ("boxed", "")                    `new_boxed(header, byte_refs.as_slice())`  (the tail expression)
      ("other", <text>)                anything else (a filter, a sort, a condition, a second push ...)
  * `<b>_setters : Option (List (String × String × String))` - every `pub fn name(mut self, arg: T) -> Self`:
      (name, "set", field)             `self.<field> = Some(arg); self`
      (name, "push", field)            `self.<field>.push(arg); self`      (leading `assert!`s allowed: "guarded-push")
      (name, "other", <text>)          anything else (get_or_insert, retain, replace-in-place ...)
  * `<b>_fields : Option (List (String × String))` - the struct's fields with "opt" / "vec" / "other"

The theorems of `Mb2/Props/Builders.lean` compare this with the model (`mbiSlots` / `hdrSlots`, one assignment-or-push setter
per slot, end tag last): `build()` IS the straight-line emission the model's `buildMbi` / `buildHdr` fold over.
`none` = the impl / function was not found (lost coverage, reported).
"""
import json
import os
import re
import sys

sys.path.insert(0, os.path.dirname(os.path.abspath(__file__)))
import gen_source  # noqa: E402

REPO = os.environ.get("VERIF_REPO", "/repo")

BUILDERS = [("mbi", "multiboot2/src/builder.rs"), ("hdr", "multiboot2-header/src/builder.rs")]


def norm(s):
    return re.sub(r"\s+", " ", s).strip()


def lean_str(s):
    return json.dumps(s, ensure_ascii=True)


def impl_body(txt, name):
    for m in re.finditer(r"impl\s+" + re.escape(name) + r"\s*\{", txt):
        end = gen_source.matching(txt, m.end() - 1)
        return txt[m.end():end - 1]
    return None


def struct_fields(txt, name):
    m = re.search(r"struct\s+" + re.escape(name) + r"\s*\{", txt)
    if not m:
        return None
    end = gen_source.matching(txt, m.end() - 1)
    body = re.sub(r"#\[[^\]]*\]", "", txt[m.end():end - 1])
    out = []
    depth = 0
    cur = ""
    for ch in body:
        if ch in "<([":
            depth += 1
        elif ch in ">)]":
            depth -= 1
        if ch == "," and depth == 0:
            out.append(cur)
            cur = ""
        else:
            cur += ch
    if cur.strip():
        out.append(cur)
    res = []
    for f in out:
        fm = re.match(r"\s*(?:pub(?:\([^)]*\))?\s+)?(\w+)\s*:\s*(.+?)\s*$", f, re.S)
        if not fm:
            continue
        ty = norm(fm.group(2))
        kind = "opt" if ty.startswith("Option<") else "vec" if ty.startswith("Vec<") else "other"
        res.append((fm.group(1), kind))
    return res


def split_statements(body):
    """top-level statements of a block body (text), `;`-terminated or brace blocks, plus the tail expression"""
    out = []
    i = 0
    n = len(body)
    cur = ""
    depth = 0
    while i < n:
        ch = body[i]
        cur += ch
        if ch in "({[":
            depth += 1
        elif ch in ")}]":
            depth -= 1
            if ch == "}" and depth == 0:
                # a block statement ends here unless followed by `else` / `.` / `;`
                rest = body[i + 1:].lstrip()
                if not (rest.startswith("else") or rest.startswith(".") or rest.startswith(";") or rest.startswith("?")):
                    s = norm(cur)
                    if re.match(r"^(if|for|while|loop|match|unsafe)\b", s):
                        out.append(s)
                        cur = ""
        elif ch == ";" and depth == 0:
            out.append(norm(cur))
            cur = ""
        i += 1
    if norm(cur):
        out.append(norm(cur))
    return out


R_OPT = re.compile(r"^if let Some\((\w+)\) = self\.(\w+)\.as_ref\(\) \{ byte_refs\.push\(\1\.as_bytes\(\)\.as_ref\(\)\); \}$")
R_FOR = re.compile(r"^for (\w+) in &self\.(\w+) \{ byte_refs\.push\(\1\.as_bytes\(\)\.as_ref\(\)\); \}$")


def classify_build(body):
    steps = []
    stmts = split_statements(body)
    i = 0
    while i < len(stmts):
        s = stmts[i]
        m = re.match(r"^let header = (.+);$", s)
        if m:
            steps.append(("header", m.group(1)))
        elif s == "let mut byte_refs = Vec::new();":
            pass
        elif R_OPT.match(s):
            steps.append(("opt", R_OPT.match(s).group(2)))
        elif R_FOR.match(s):
            steps.append(("vec", R_FOR.match(s).group(2)))
        elif re.match(r"^let end_tag = (.+);$", s) and i + 1 < len(stmts) and stmts[i + 1] == "byte_refs.push(end_tag.as_bytes().as_ref());":
            steps.append(("end", re.match(r"^let end_tag = (.+);$", s).group(1)))
            i += 1
        elif s == "new_boxed(header, byte_refs.as_slice())":
            steps.append(("boxed", ""))
        else:
            steps.append(("other", s[:120]))
        i += 1
    return steps


def classify_setters(ib):
    out = []
    for m in re.finditer(r"pub\s+(?:const\s+)?fn\s+(\w+)\s*\(\s*mut\s+self\s*,\s*(\w+)\s*:\s*([^)]+?)\s*,?\s*\)\s*->\s*Self\s*\{", ib):
        name, arg = m.group(1), m.group(2)
        end = gen_source.matching(ib, m.end() - 1)
        stmts = split_statements(ib[m.end():end - 1])
        guards = 0
        while stmts and re.match(r"^(debug_)?assert(_eq|_ne)?!\(", stmts[0]):
            guards += 1
            stmts = stmts[1:]
        kind, what = "other", " ".join(stmts)[:120]
        if len(stmts) == 2 and stmts[1] == "self":
            m1 = re.match(r"^self\.(\w+) = Some\(" + re.escape(arg) + r"\);$", stmts[0])
            m2 = re.match(r"^self\.(\w+)\.push\(" + re.escape(arg) + r"\);$", stmts[0])
            if m1 and guards == 0:
                kind, what = "set", m1.group(1)
            elif m2:
                kind, what = ("push" if guards == 0 else "guarded-push"), m2.group(1)
            else:
                # `if let TagType::Custom(_) = arg.header().typ.into() { self.F.push(arg); } else { panic!(..); }`
                m3 = re.match(r"^if let TagType::Custom\(\w+\) = " + re.escape(arg) + r"\.header\(\)\.typ\.into\(\) \{ self\.(\w+)\.push\(" +
                              re.escape(arg) + r"\); \} else \{ panic!\(.*\); \}$", stmts[0])
                if m3 and guards == 0:
                    kind, what = "custom-push", m3.group(1)
        out.append((name, kind, what))
    return out


def main(out_path, report_path=None):
    lines = ["/-", "  GENERATED by tools/gen_builders.py from the Rust sources of /repo - do not edit.", "-/",
             "namespace Mb2.Gen.Builders", ""]
    report = {}
    for (b, path) in BUILDERS:
        steps = setters = fields = None
        try:
            txt = gen_source.strip_comments(open(os.path.join(REPO, path)).read())
            # cut the test module
            t = re.search(r"#\[cfg\(test\)\]\s*mod\s+tests", txt)
            if t:
                txt = txt[:t.start()]
            ib = impl_body(txt, "Builder")
            fields = struct_fields(txt, "Builder")
            if ib is not None:
                setters = classify_setters(ib)
                m = re.search(r"pub\s+fn\s+build\s*\(\s*self\s*\)\s*->\s*[^{]+\{", ib)
                if m:
                    end = gen_source.matching(ib, m.end() - 1)
                    steps = classify_build(ib[m.end():end - 1])
        except Exception as e:       # noqa: BLE001
            report[b + "_error"] = repr(e)
        lines.append("def %s_steps : Option (List (String × String)) := %s" % (
            b, "none" if steps is None else "some [" + ", ".join("(%s, %s)" % (lean_str(k), lean_str(v)) for k, v in steps) + "]"))
        lines.append("def %s_setters : Option (List (String × String × String)) := %s" % (
            b, "none" if setters is None else "some [" + ", ".join("(%s, %s, %s)" % (lean_str(a), lean_str(k), lean_str(v)) for a, k, v in setters) + "]"))
        lines.append("def %s_fields : Option (List (String × String)) := %s" % (
            b, "none" if fields is None else "some [" + ", ".join("(%s, %s)" % (lean_str(k), lean_str(v)) for k, v in fields) + "]"))
        lines.append("")
        report[b] = {"steps": steps, "setters": setters, "fields": fields}
    lines.append("end Mb2.Gen.Builders")
    new = "\n".join(lines) + "\n"
    os.makedirs(os.path.dirname(out_path), exist_ok=True)
    old = open(out_path).read() if os.path.exists(out_path) else None
    if old != new:
        with open(out_path, "w") as f:
            f.write(new)
    if report_path:
        json.dump(report, open(report_path, "w"), indent=1)
    return report


if __name__ == "__main__":
    out = sys.argv[1] if len(sys.argv) > 1 else "/verif/lean/Mb2/Gen/Builders.lean"
    rep = main(out, sys.argv[2] if len(sys.argv) > 2 else None)
    for b, _ in BUILDERS:
        r = rep.get(b, {})
        print(b, "steps:", None if r.get("steps") is None else len(r["steps"]), "setters:", None if r.get("setters") is None else len(r["setters"]),
              "other:", [s for s in (r.get("steps") or []) if s[0] == "other"] + [s for s in (r.get("setters") or []) if s[1] == "other"])
