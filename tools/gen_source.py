#!/usr/bin/env python3
"""gen_source.py - a small TRANSLATOR from the Rust sources of /repo to Lean facts.

Reads the struct definitions (`#[repr(C ...)] struct`), the `impl Tag` ID constants, the `BASE_SIZE` constants and the
one-line field accessors of the three crates and writes `lean/Mb2/Gen/Source.lean`:

    def ApmTag_fields   : Option (List (Nat × Nat))  -- (offset, width) of every field, source order, repr(C) layout
    def ApmTag_size     : Option (Nat × Nat)         -- (size_of, align_of) (sized structs)
    def ApmTag_tail     : Option (Nat × Nat)         -- (offset of the unsized tail, element size) (DSTs)
    def ApmTag_id       : Option Nat                 -- the number behind `const ID`
    def ApmTag_base     : Option Nat                 -- BASE_SIZE (MaybeDynSized impl)
    def ApmTag_acc_version : Option (Nat × Nat)      -- (offset, width) of the field `fn version(&self)` returns

The file is regenerated from the working tree on EVERY run of a check (check.py proof stage), so the theorems of
`Mb2/Props/Layout.lean` - which compare these facts with the hand-written model tables and with the specification tables -
are re-checked against what the code says now. Anything the translator cannot parse is emitted as `none` and listed in the
JSON report; the theorems hold vacuously for `none` (a refactor the translator does not understand is not an alarm), and
the report shows how much of the tie is live.

Everything requested is listed in REQUESTS below (the theorems refer to exactly these names).
"""
import json
import os
import re
import sys

REPO = os.environ.get("VERIF_REPO", "/repo")

# struct -> (file, list of accessor names whose (offset,width) is requested)
REQUESTS = {
    # multiboot2 (boot information)
    "VBEField": ("multiboot2/src/vbe_info.rs", []),
    "TagHeader": ("multiboot2/src/tag.rs", []),
    "EndTag": ("multiboot2/src/end.rs", []),
    "ApmTag": ("multiboot2/src/apm.rs", ["version", "cseg", "offset", "cset_16", "dseg", "flags", "cseg_len", "cseg_16_len", "dseg_len"]),
    "BasicMemoryInfoTag": ("multiboot2/src/memory_map.rs", ["memory_lower", "memory_upper"]),
    "BootdevTag": ("multiboot2/src/bootdev.rs", ["biosdev", "slice", "part"]),
    "BootLoaderNameTag": ("multiboot2/src/boot_loader_name.rs", []),
    "CommandLineTag": ("multiboot2/src/command_line.rs", []),
    "ModuleTag": ("multiboot2/src/module.rs", ["start_address", "end_address"]),
    "MemoryMapTag": ("multiboot2/src/memory_map.rs", ["entry_size", "entry_version"]),
    "MemoryArea": ("multiboot2/src/memory_map.rs", ["start_address", "size", "typ"]),
    "EFIMemoryMapTag": ("multiboot2/src/memory_map.rs", []),
    "VBEInfoTag": ("multiboot2/src/vbe_info.rs", ["mode", "interface_segment", "interface_offset", "interface_length", "control_info", "mode_info"]),
    "VBEControlInfo": ("multiboot2/src/vbe_info.rs", []),
    "VBEModeInfo": ("multiboot2/src/vbe_info.rs", []),
    "FramebufferTag": ("multiboot2/src/framebuffer.rs", ["address", "pitch", "width", "height", "bpp"]),
    "ElfSectionsTag": ("multiboot2/src/elf_sections.rs", ["number_of_sections", "entry_size", "shndx"]),
    "ElfSectionInner32": ("multiboot2/src/elf_sections.rs", []),
    "ElfSectionInner64": ("multiboot2/src/elf_sections.rs", []),
    "EFISdt32Tag": ("multiboot2/src/efi.rs", ["sdt_address"]),
    "EFISdt64Tag": ("multiboot2/src/efi.rs", ["sdt_address"]),
    "EFIImageHandle32Tag": ("multiboot2/src/efi.rs", ["image_handle"]),
    "EFIImageHandle64Tag": ("multiboot2/src/efi.rs", ["image_handle"]),
    "EFIBootServicesNotExitedTag": ("multiboot2/src/efi.rs", []),
    "SmbiosTag": ("multiboot2/src/smbios.rs", ["major", "minor"]),
    "RsdpV1Tag": ("multiboot2/src/rsdp.rs", ["revision", "rsdt_address"]),
    "RsdpV2Tag": ("multiboot2/src/rsdp.rs", ["revision", "xsdt_address", "ext_checksum"]),
    "NetworkTag": ("multiboot2/src/network.rs", []),
    "ImageLoadPhysAddrTag": ("multiboot2/src/image_load_addr.rs", ["load_base_addr"]),
    "BootInformationHeader": ("multiboot2/src/boot_information.rs", []),
    # multiboot2-header
    "HeaderTagHeader": ("multiboot2-header/src/tags.rs", []),
    "Multiboot2BasicHeader": ("multiboot2-header/src/header.rs", []),
    "AddressHeaderTag": ("multiboot2-header/src/address.rs", ["header_addr", "load_addr", "load_end_addr", "bss_end_addr"]),
    "ConsoleHeaderTag": ("multiboot2-header/src/console.rs", ["console_flags"]),
    "EndHeaderTag": ("multiboot2-header/src/end.rs", []),
    "EntryAddressHeaderTag": ("multiboot2-header/src/entry_address.rs", ["entry_addr"]),
    "EntryEfi32HeaderTag": ("multiboot2-header/src/entry_efi_32.rs", ["entry_addr"]),
    "EntryEfi64HeaderTag": ("multiboot2-header/src/entry_efi_64.rs", ["entry_addr"]),
    "FramebufferHeaderTag": ("multiboot2-header/src/framebuffer.rs", ["width", "height", "depth"]),
    "InformationRequestHeaderTag": ("multiboot2-header/src/information_request.rs", []),
    "ModuleAlignHeaderTag": ("multiboot2-header/src/module_align.rs", []),
    "RelocatableHeaderTag": ("multiboot2-header/src/relocatable.rs", ["min_addr", "max_addr", "align", "preference"]),
    "EfiBootServiceHeaderTag": ("multiboot2-header/src/uefi_bs.rs", []),
}

# struct -> field names whose (offset, width) is requested by NAME (public fields read directly, or private ones the model
# reads at a fixed offset); a tuple field `f: (u16, u16)` is requested as `f.0`, `f.1`
FIELD_REQUESTS = {
    "TagHeader": ["typ", "size"],
    "HeaderTagHeader": ["typ", "flags", "size"],
    "BootInformationHeader": ["total_size", "_reserved"],
    "Multiboot2BasicHeader": ["header_magic", "arch", "length", "checksum"],
    "VBEControlInfo": ["signature", "version", "oem_string_ptr", "capabilities", "mode_list_ptr", "total_memory",
                       "oem_software_revision", "oem_vendor_name_ptr", "oem_product_name_ptr", "oem_product_revision_ptr"],
    "VBEModeInfo": ["mode_attributes", "window_a_attributes", "window_b_attributes", "window_granularity", "window_size",
                    "window_a_segment", "window_b_segment", "window_function_ptr", "pitch", "resolution.0", "resolution.1",
                    "character_size.0", "character_size.1", "number_of_planes", "bpp", "number_of_banks", "memory_model",
                    "bank_size", "number_of_image_pages", "red_field", "green_field", "blue_field", "reserved_field",
                    "direct_color_attributes", "framebuffer_base_ptr", "offscreen_memory_offset", "offscreen_memory_size"],
    "VBEField": ["position", "size"],
    "EFIMemoryMapTag": ["desc_size", "desc_version"],
    "FramebufferTag": ["framebuffer_type"],
    "RsdpV1Tag": ["signature", "checksum", "oem_id", "revision", "rsdt_address"],
    "RsdpV2Tag": ["signature", "checksum", "oem_id", "revision", "rsdt_address", "length", "xsdt_address", "ext_checksum"],
    "MemoryArea": ["base_addr", "length", "typ"],
    "ModuleTag": ["mod_start", "mod_end"],
    "ElfSectionInner32": ["name_index", "typ", "flags", "addr", "offset", "size", "link", "info", "addralign", "entry_size"],
    "ElfSectionInner64": ["name_index", "typ", "flags", "addr", "offset", "size", "link", "info", "addralign", "entry_size"],
}

PRIM = {"u8": (1, 1), "i8": (1, 1), "u16": (2, 2), "i16": (2, 2), "u32": (4, 4), "i32": (4, 4), "u64": (8, 8), "i64": (8, 8),
        "usize": (8, 8), "isize": (8, 8), "bool": (1, 1)}


def strip_comments(src):
    src = re.sub(r"/\*.*?\*/", "", src, flags=re.S)
    return re.sub(r"//[^\n]*", "", src)


def matching(src, i, open_c="{", close_c="}"):
    """index just behind the bracket matching src[i]"""
    depth = 0
    for j in range(i, len(src)):
        if src[j] == open_c:
            depth += 1
        elif src[j] == close_c:
            depth -= 1
            if depth == 0:
                return j + 1
    raise ValueError("unbalanced")


class Crate:
    def __init__(self):
        self.structs = {}   # name -> dict(repr, fields=[(name, type)]) or tuple struct
        self.enums = {}     # name -> dict(repr, variants={name: value})
        self.sources = {}   # file -> stripped text
        self.layout_cache = {}
        self.aliases = {}   # `use X as Y`

    def load(self, path):
        if path in self.sources:
            return self.sources[path]
        with open(os.path.join(REPO, path)) as f:
            txt = strip_comments(f.read())
        self.sources[path] = txt
        self.scan(txt)
        return txt

    def scan(self, txt):
        # structs with named fields
        for m in re.finditer(r"((?:#\[[^\]]*\]\s*)*)(?:pub(?:\([^)]*\))?\s+)?struct\s+(\w+)\s*(?:<[^>{]*>)?\s*\{", txt):
            attrs, name = m.group(1), m.group(2)
            end = matching(txt, m.end() - 1)
            body = txt[m.end():end - 1]
            body = re.sub(r"#\[[^\]]*\]", "", body)
            fields = []
            depth = 0
            cur = ""
            for ch in body:
                if ch in "<([":
                    depth += 1
                elif ch in ">)]":
                    depth -= 1
                if ch == "," and depth == 0:
                    fields.append(cur)
                    cur = ""
                else:
                    cur += ch
            if cur.strip():
                fields.append(cur)
            parsed = []
            for f in fields:
                fm = re.match(r"\s*(?:pub(?:\([^)]*\))?\s+)?(\w+)\s*:\s*(.+?)\s*$", f, re.S)
                if fm:
                    parsed.append((fm.group(1), re.sub(r"\s+", "", fm.group(2))))
            self.structs.setdefault(name, {"attrs": attrs, "fields": parsed, "tuple": None})
        # tuple structs
        for m in re.finditer(r"((?:#\[[^\]]*\]\s*)*)(?:pub(?:\([^)]*\))?\s+)?struct\s+(\w+)\s*\(\s*(?:pub(?:\([^)]*\))?\s+)?([\w:<>\[\]; ]+?)\s*\)\s*;", txt):
            self.structs.setdefault(m.group(2), {"attrs": m.group(1), "fields": [("0", re.sub(r"\s+", "", m.group(3)))], "tuple": True})
        # bitflags! { struct X: u32 { .. } }  =  a transparent wrapper around the integer
        for m in re.finditer(r"struct\s+(\w+)\s*:\s*(u8|u16|u32|u64)\s*\{", txt):
            self.structs.setdefault(m.group(1), {"attrs": "#[repr(transparent)]", "fields": [("bits", m.group(2))], "tuple": True})
        # use a::b::X as Y  /  use a::{X as Y, ..}
        for m in re.finditer(r"\b(\w+)\s+as\s+(\w+)\s*[,;}]", txt):
            if m.group(1) not in PRIM and m.group(1) != "self":
                self.aliases.setdefault(m.group(2), m.group(1))
        # enums with an integer repr
        for m in re.finditer(r"((?:#\[[^\]]*\]\s*)*)(?:pub(?:\([^)]*\))?\s+)?enum\s+(\w+)\s*\{", txt):
            attrs, name = m.group(1), m.group(2)
            end = matching(txt, m.end() - 1)
            body = re.sub(r"#\[[^\]]*\]", "", txt[m.end():end - 1])
            variants = {}
            nxt = 0
            ok = True
            for v in body.split(","):
                v = v.strip()
                if not v:
                    continue
                vm = re.match(r"^(\w+)\s*(?:=\s*(0x[0-9a-fA-F_]+|\d[\d_]*))?$", v)
                if not vm:
                    ok = False      # a variant with data: no plain discriminants
                    continue
                if vm.group(2):
                    nxt = int(vm.group(2).replace("_", ""), 0)
                variants[vm.group(1)] = nxt
                nxt += 1
            self.enums.setdefault(name, {"attrs": attrs, "variants": variants, "plain": ok})

    # ------------------------------------------------------------------ layout
    def reprs(self, attrs):
        r = {"C": False, "packed": False, "align": None, "transparent": False, "int": None}
        for m in re.finditer(r"repr\(", attrs):
            inner = attrs[m.end():matching(attrs, m.end() - 1, "(", ")") - 1]
            for part in re.split(r",(?![^(]*\))", inner):
                part = part.strip()
                if part == "C":
                    r["C"] = True
                elif part == "packed":
                    r["packed"] = True
                elif part == "transparent":
                    r["transparent"] = True
                elif part.startswith("align("):
                    r["align"] = int(part[6:-1])
                elif part in PRIM:
                    r["int"] = part
        return r

    def size_align(self, ty):
        """(size, align) of a sized type, or None"""
        ty = ty.replace("crate::", "").replace("self::", "")
        if ty in PRIM:
            return PRIM[ty]
        m = re.match(r"^\[(.+);(\d+)\]$", ty)
        if m:
            sa = self.size_align(m.group(1))
            return (sa[0] * int(m.group(2)), sa[1]) if sa else None
        if ty.startswith("PhantomData<"):
            return (0, 1)
        name = ty.split("::")[-1]
        if name not in self.enums and name not in self.structs and name in self.aliases:
            name = self.aliases[name]
        if name in self.enums:
            r = self.reprs(self.enums[name]["attrs"])
            return PRIM[r["int"]] if r["int"] else None
        if name in self.structs:
            lay = self.layout(name)
            return (lay["size"], lay["align"]) if lay and lay["size"] is not None else None
        return None

    def layout(self, name):
        """repr(C) layout: fields [(name, offset, width)], size/align, or the unsized tail (offset, element size)"""
        if name in self.layout_cache:
            return self.layout_cache[name]
        self.layout_cache[name] = None
        st = self.structs.get(name)
        if not st:
            return None
        r = self.reprs(st["attrs"])
        if not (r["C"] or r["transparent"] or st["tuple"]):
            return None       # repr(Rust): layout unspecified
        off, align, out, tail = 0, 1, [], None
        for i, (fname, fty) in enumerate(st["fields"]):
            m = re.match(r"^\[([^;\]]+)\]$", fty)
            if m or fty == "str":
                if i != len(st["fields"]) - 1:
                    return None
                esa = (1, 1) if fty == "str" else self.size_align(m.group(1))
                if not esa:
                    return None
                ea = 1 if r["packed"] else esa[1]
                off = (off + ea - 1) // ea * ea
                align = max(align, ea)
                tail = (off, esa[0])
                break
            tm = re.match(r"^\((\w+)(?:,(\w+))+,?\)$", fty)
            if tm and len(set(fty.strip("()").rstrip(",").split(","))) == 1 and tm.group(1) in PRIM:
                esz, eal = PRIM[tm.group(1)]
                cnt = len(fty.strip("()").rstrip(",").split(","))
                fa = 1 if r["packed"] else eal
                off = (off + fa - 1) // fa * fa
                for j in range(cnt):
                    out.append(("%s.%d" % (fname, j), off, esz))
                    off += esz
                align = max(align, fa)
                continue
            sa = self.size_align(fty)
            if not sa:
                return None
            fa = 1 if r["packed"] else sa[1]
            off = (off + fa - 1) // fa * fa
            out.append((fname, off, sa[0]))
            off += sa[0]
            align = max(align, fa)
        if r["align"]:
            align = max(align, r["align"])
        lay = {"fields": out, "align": align, "tail": tail, "end": off,
               "size": None if tail else (off + align - 1) // align * align}
        self.layout_cache[name] = lay
        return lay

    # ------------------------------------------------------------------ constants
    def impl_bodies(self, txt, name, trait=None):
        pat = r"impl\s*(?:<[^>]*>\s*)?" + (re.escape(trait) + r"\s+for\s+" if trait else "") + re.escape(name) + r"\s*(?:<[^>{]*>)?\s*\{"
        for m in re.finditer(pat, txt):
            if not trait and re.search(r"\bfor\s+$", txt[max(0, m.start() - 40):m.start()]):
                continue
            end = matching(txt, m.end() - 1)
            yield txt[m.end():end - 1]

    def eval_const(self, expr, name, txt):
        expr = expr.strip()

        def sz(m):
            t = re.sub(r"\s+", "", m.group(1))
            if t == "Self":
                t = name
            sa = self.size_align(t)
            if not sa:
                raise ValueError("size_of " + t)
            return str(sa[0])
        expr = re.sub(r"(?:core::)?(?:mem::)?size_of::<([^>]+)>\(\)", sz, expr)

        def selfconst(m):
            for body in self.impl_bodies(txt, name):
                cm = re.search(r"const\s+" + m.group(1) + r"\s*:\s*usize\s*=\s*([^;]+);", body)
                if cm:
                    return "(" + str(self.eval_const(cm.group(1), name, txt)) + ")"
            raise ValueError("Self::" + m.group(1))
        expr = re.sub(r"Self::(\w+)", selfconst, expr)
        expr = re.sub(r"\s+", " ", expr)
        expr = re.sub(r"(\d)_(?=\d)", r"\1", expr)
        expr = re.sub(r"\bas\s+usize\b", "", expr)
        if not re.fullmatch(r"[\d\s+*()\-]+", expr):
            raise ValueError("expression " + expr)
        return int(eval(expr))   # digits and + - * ( ) only


def tag_type_numbers(cr):
    """TagType::<Variant> -> number (from `impl From<TagType> for TagTypeId`), HeaderTagType::<Variant> -> discriminant"""
    nums = {}
    try:
        txt = cr.load("multiboot2/src/tag_type.rs")
        for m in re.finditer(r"TagType::(\w+)\s*=>\s*(\d+)\s*,", txt):
            nums.setdefault("TagType::" + m.group(1), int(m.group(2)))
    except Exception:
        pass
    try:
        cr.load("multiboot2-header/src/tags.rs")
        for v, n in cr.enums.get("HeaderTagType", {}).get("variants", {}).items():
            nums["HeaderTagType::" + v] = n
    except Exception:
        pass
    return nums


def main(out_path, report_path=None):
    cr = Crate()
    lines = ["/-", "  GENERATED by tools/gen_source.py from the Rust sources of /repo - do not edit.",
             "  `none` = the translator could not derive the fact from the source text (see the JSON report).", "-/",
             "namespace Mb2.Gen", ""]
    report = {"some": 0, "none": [], "structs": {}}
    # all source files first: types are used across files
    for crate in ("multiboot2-common", "multiboot2", "multiboot2-header"):
        d = os.path.join(REPO, crate, "src")
        for fn in sorted(os.listdir(d)) if os.path.isdir(d) else []:
            if fn.endswith(".rs"):
                try:
                    cr.load(os.path.join(crate, "src", fn))
                except Exception:
                    pass
    nums = tag_type_numbers(cr)

    def emit(name, ty, val):
        if val is None:
            report["none"].append(name)
            lines.append("def %s : Option (%s) := none" % (name, ty))
        else:
            report["some"] += 1
            lines.append("def %s : Option (%s) := some %s" % (name, ty, val))

    for sname, (path, accs) in REQUESTS.items():
        try:
            txt = cr.load(path)
        except Exception:
            txt = ""
        lay = None
        try:
            lay = cr.layout(sname)
        except Exception:
            lay = None
        emit(sname + "_fields", "List (Nat × Nat)", None if not lay else "[" + ", ".join("(%d, %d)" % (o, w) for (_, o, w) in lay["fields"]) + "]")
        emit(sname + "_size", "Nat × Nat", None if not lay or lay["size"] is None else "(%d, %d)" % (lay["size"], lay["align"]))
        emit(sname + "_tail", "Nat × Nat", None if not lay or not lay["tail"] else "(%d, %d)" % lay["tail"])
        # ID constant
        idv = None
        for body in list(cr.impl_bodies(txt, sname, "Tag")):
            m = re.search(r"const\s+ID\s*:\s*[\w:]+\s*=\s*([\w:]+)\s*;", body)
            if m:
                key = "::".join(m.group(1).split("::")[-2:])
                idv = nums.get(key)
        emit(sname + "_id", "Nat", idv)
        # BASE_SIZE of the MaybeDynSized impl
        base = None
        for body in list(cr.impl_bodies(txt, sname, "MaybeDynSized")):
            m = re.search(r"const\s+BASE_SIZE\s*:\s*usize\s*=\s*([^;]+);", body)
            if m:
                try:
                    base = cr.eval_const(m.group(1), sname, txt)
                except Exception:
                    base = None
        emit(sname + "_base", "Nat", base)
        # accessors
        fmap = {f: (o, w) for (f, o, w) in lay["fields"]} if lay else {}
        for a in accs:
            val = None
            for body in cr.impl_bodies(txt, sname):
                m = re.search(r"fn\s+" + re.escape(a) + r"\s*\(\s*&self\s*\)\s*->\s*[^{]+\{\s*&?self\.(\w+)\s*(?:as\s+\w+\s*)?\}", body)
                if m and m.group(1) in fmap:
                    val = "(%d, %d)" % fmap[m.group(1)]
                    break
            emit("%s_acc_%s" % (sname, a), "Nat × Nat", val)
        for fld in FIELD_REQUESTS.get(sname, []):
            emit("%s_fld_%s" % (sname, fld.replace(".", "_")), "Nat × Nat", "(%d, %d)" % fmap[fld] if fld in fmap else None)
        report["structs"][sname] = None if not lay else {"fields": lay["fields"], "size": lay["size"], "align": lay["align"], "tail": lay["tail"]}
        lines.append("")
    lines.append("end Mb2.Gen")
    os.makedirs(os.path.dirname(out_path), exist_ok=True)
    new = "\n".join(lines) + "\n"
    old = open(out_path).read() if os.path.exists(out_path) else None
    if old != new:
        with open(out_path, "w") as f:
            f.write(new)
    if report_path:
        json.dump(report, open(report_path, "w"), indent=1, default=str)
    return report


if __name__ == "__main__":
    out = sys.argv[1] if len(sys.argv) > 1 else "/verif/lean/Mb2/Gen/Source.lean"
    rep = main(out, sys.argv[2] if len(sys.argv) > 2 else None)
    print("generated %s: %d facts derived, %d not derivable: %s" % (out, rep["some"], len(rep["none"]), ", ".join(rep["none"][:12])))
