#!/bin/bash
# selftest_seeded.sh [name-glob]
# Regression test of the checks themselves: applies every seeded change under /verif/seeded/<name>/patch.diff to /repo in
# turn, runs the quick check of the property it targets (meta.json "property"), expects exit code 1 with a VIOLATION line,
# and reverts /repo. Must not run concurrently with any other check (it edits /repo's working tree temporarily).
# Not a registered check: a maintenance tool. Output: one line per seeded change, summary at the end.
set -u
GLOB=${1:-*}
cd /verif || exit 2
if [ -n "$(git -C /repo status --porcelain)" ]; then echo "/repo working tree not clean"; exit 2; fi
pass=0; fail=0
for d in seeded/$GLOB/; do
  n=$(basename "$d")
  [ -f "$d/patch.diff" ] || continue
  prop=$(python3 -c "import json,sys;print(json.load(open('$d/meta.json'))['property'])")
  if ! git -C /repo apply "/verif/$d/patch.diff" 2>/tmp/selftest_apply.err; then
    echo "$n: patch no longer applies: $(head -1 /tmp/selftest_apply.err)"; fail=$((fail+1)); continue
  fi
  t0=$(date +%s)
  python3 check.py "$prop" --tier quick > "/tmp/selftest_$n.log" 2>&1; rc=$?
  git -C /repo checkout -- .
  v=$(grep -m1 '^VIOLATION' "/tmp/selftest_$n.log" | cut -c1-160)
  if [ "$rc" = 1 ] && [ -n "$v" ]; then pass=$((pass+1)); st=detected; else fail=$((fail+1)); st=MISSED; fi
  echo "$n: $st rc=$rc $(( $(date +%s) - t0 ))s $v"
done
# leave evidence files in the state of the unchanged tree
echo "seeded changes detected: $pass, missed: $fail"
[ "$fail" = 0 ]
