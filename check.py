#!/usr/bin/env python3
"""check.py <Cnn> [--tier quick|thorough] [--replay FILE]   |   check.py --setup

Decides one property: proof stage (Lean build + axiom audit + statement hashes), correspondence stage
(real code vs Lean model on generated cases, rebuilt from /repo's working tree), oracle stage (real code vs
Spec), verdict, evidence.  See DESIGN.md section 5.
"""
import json
import os
import random
import shutil
import sys
import time

sys.path.insert(0, os.path.dirname(os.path.abspath(__file__)))
from vlib import core  # noqa: E402
from vlib import props  # noqa: E402

TRUSTED = [
    "Lean 4.33.0 kernel (thorough tier: re-checked with leanchecker)",
    "axioms allowed: propext, Classical.choice, Quot.sound (checked per theorem with #print axioms on every run)",
    "hand-written Lean model Mb2.* of the Rust code: tied to /repo's working tree by the correspondence run of this check (harness vs compiled Lean driver on the same case file), fidelity outside the generated cases is trusted",
    "Spec layer Mb2.Spec: transcription of the property text / Multiboot2 specification",
    "rustc layout and code generation, core::str / CStr, Box, ptr_meta (modelled, compared on generated inputs only)",
    "harness (Rust), check.py, FNV-1a-64 hashing of observations",
    "tools/gen_source.py (translator: Rust struct definitions / ID and BASE_SIZE constants / one-line accessors -> lean/Mb2/Gen/Source.lean, regenerated on every run; the repr(C) layout algorithm it implements is the documented one; facts it cannot derive are `none` and counted below)",
    "tools/gen_fns.py (translator: bodies of 65 functions / constructors -> closed terms of the IR lean/Mb2/Rir.lean in lean/Mb2/Gen/Fns.lean, regenerated on every run; trusted: its parser and lowering for the Rust fragment used, and the evaluator's reading of Rust integer semantics - dev panics / release wraps on overflow, `as` truncates; sub-expressions it has no meaning for are universally quantified inputs of the theorems; untranslatable functions are `none` and listed below)",
    "tools/gen_builders.py (translator: the statements of build() and the setters of the two Builder impls -> lean/Mb2/Gen/Builders.lean, regenerated on every run; anything that is not the expected push / assignment form is reported as `other` and fails the agreement theorem)",
]


def setup():
    t0 = time.time()
    print("source facts:", core.gen_source())
    ok, out = core.lake_build(["Mb2", "mb2drv"] + ["Mb2.Props." + p for p in sorted(core.load_index().keys())])
    if not ok:
        print(out[-4000:])
        sys.exit(1)
    ok, out = core.build_harnesses(["dev", "release", "dev-nodef", "release-nodef"])
    if not ok:
        print(out)
        sys.exit(1)
    print("setup ok in %.0fs" % (time.time() - t0))


def main():
    args = sys.argv[1:]
    if args and args[0] == "--setup":
        return setup()
    prop = args[0]
    tier = os.environ.get("VERIF_TIER", "quick")
    replay = None
    i = 1
    while i < len(args):
        if args[i] == "--tier":
            tier = args[i + 1]
            i += 2
        elif args[i] == "--replay":
            replay = args[i + 1]
            i += 2
        else:
            i += 1
    seed = int(os.environ.get("VERIF_SEED", "1"))
    pd = props.PROPS[prop]
    t0 = time.time()
    workdir = os.path.join(core.BUILD, "run", "%s-%s-%d" % (prop, tier, os.getpid()))
    os.makedirs(workdir, exist_ok=True)
    known = [k for k in core.load_known().get("known", []) if k["property"] == prop]
    violations = []   # (what, replay body)
    nofail = []       # broken theorem / correspondence without failing input
    known_hits = {}
    timing = {}

    # ---------------------------------------------------------------- replay mode
    if replay:
        body = json.load(open(replay))
        cases = [body["case"]] if "case" in body else body.get("cases", [])
        configs = pd.configs("thorough")
        ok, out = core.build_harnesses(configs)
        if not ok:
            print(out)
            sys.exit(2)
        core.lake_build(["mb2drv"])
        spec = core.run_driver(["spec"], cases, workdir, "spec")
        for c in configs:
            impl = core.run_harness(c, cases, workdir)
            model = core.run_driver(["run", core.CONFIGS[c][2]], cases, workdir, "model." + c)
            for cs, a, b, s in zip(cases, impl, model, spec):
                print("case  :", cs[:300])
                print(" impl[%s] : %s" % (c, a))
                print(" model[%s]: %s" % (core.CONFIGS[c][2], b))
                print(" spec     : %s   -> %s" % (s, "admitted" if core.admits(s, a) else "VIOLATED"))
        shutil.rmtree(workdir, ignore_errors=True)
        return

    # ---------------------------------------------------------------- 1. proof stage
    proof = core.proof_stage(prop, tier)
    timing["proof_s"] = round(proof["wall_s"], 1)
    if proof["failed"]:
        nofail.append({"kind": "theorem", "theorems": proof["failed"], "notes": proof["notes"]})
    if not os.path.exists(core.DRV):
        print("driver did not build:\n" + "\n".join(proof["notes"]))
        path = core.write_replay(prop, "nobuild", {"property": prop, "broken": "Lean build", "notes": proof["notes"]})
        print("VIOLATION property=%s replay=%s no-failing-input-found" % (prop, path))
        sys.exit(1)

    # ---------------------------------------------------------------- 2. correspondence + 3. oracle
    t1 = time.time()
    configs = pd.configs(tier)
    ok, out = core.build_harnesses(configs)
    timing["harness_build_s"] = round(time.time() - t1, 1)
    if not ok:
        # /repo does not compile in a configuration the property quantifies over
        print(out)
        path = core.write_replay(prop, "nobuild", {"property": prop, "broken": "harness build against /repo", "log": out[-3000:]})
        print("VIOLATION property=%s replay=%s no-failing-input-found" % (prop, path))
        sys.exit(1)

    rng = random.Random(seed)
    t2 = time.time()
    cases = pd.corpus() + pd.gen(tier, rng)
    # de-duplicate, keep order
    seen = set()
    cases = [c for c in cases if not (c in seen or seen.add(c))]
    timing["gen_s"] = round(time.time() - t2, 1)

    t3 = time.time()
    st = {"impl_vs_spec": 0, "model_vs_impl": 0, "model_vs_spec": 0, "out_of_hypothesis": 0, "first_div": None, "classes": {}}

    def compare(cases, tag=""):
        """runs Spec, model and the real code on `cases`, accumulates verdict data; returns (spec, models, impls)"""
        spec = core.run_driver_par(["spec"], cases, workdir, "spec" + tag, jobs=8)
        models = {}
        for prof in sorted(set(core.CONFIGS[c][2] for c in configs)):
            models[prof] = core.run_driver_par(["run", prof], cases, workdir, "model." + prof + tag, jobs=8)
        impls = {}
        for c in configs:
            impls[c] = core.run_harness_par(c, cases, workdir, jobs=4)
        classes = st["classes"]
        for i, cs in enumerate(cases):
            for prof, m in models.items():
                if pd.skip_model_ub and "UB" in m[i] and "OOB" not in m[i]:
                    continue
                if not core.admits(spec[i], m[i]) or "OOB" in m[i] or (("UB" in m[i]) and not pd.ub_is_known):
                    st["model_vs_spec"] += 1
                    if len(nofail) < 5:
                        nofail.append({"kind": "model-violates-spec", "case": cs, "model": m[i], "spec": spec[i], "profile": prof})
            for c in configs:
                a = impls[c][i]
                b = models[core.CONFIGS[c][2]][i]
                cls = core.outcome_class(a)
                classes[cls] = classes.get(cls, 0) + 1
                bad = (not core.admits(spec[i], a)) or a.startswith("crash") or a == "harness-panic"
                extra = pd.oracle(cs, a, c)
                if extra:
                    bad = True
                if pd.ub_is_known and "UB" in b:
                    bad = False      # handled below as (known) undefined-behaviour finding
                if pd.skip_model_ub and "UB" in b and "OOB" not in b:
                    bad = False      # input outside the property's hypothesis (an enum-typed field holds an undeclared value)
                if bad:
                    kf = pd.match_known(known, cs, a, c)
                    if kf:
                        known_hits[kf["id"]] = kf
                        continue
                    st["impl_vs_spec"] += 1
                    if len(violations) < 20:
                        violations.append({"property": prop, "case": cs, "config": c, "impl": a, "model": b, "spec": spec[i],
                                           "why": extra or "the real code's outcome is not admitted by the specification"})
                elif pd.ub_is_known and "UB" in b:
                    kf = next((k for k in known if k.get("model_ub")), None)
                    if kf:
                        known_hits[kf["id"]] = kf
                        st["out_of_hypothesis"] += 1
                    else:
                        st["impl_vs_spec"] += 1
                        if len(violations) < 20:
                            violations.append({"property": prop, "case": cs, "config": c, "impl": a, "model": b,
                                               "why": "the code reads an enum-typed field holding an undeclared value (undefined behaviour: results depend on the optimiser)"})
                elif pd.skip_model_ub and "UB" in b:
                    st["out_of_hypothesis"] += 1
                elif pd.canon(a) != pd.canon(b):
                    st["model_vs_impl"] += 1
                    if st["first_div"] is None:
                        st["first_div"] = {"case": cs, "config": c, "impl": a, "model": b, "spec": spec[i]}

        # poison: a second run with different poison must give identical observations
        if pd.poison:
            for c in configs:
                again = core.run_harness_par(c, cases, workdir, poison=0x3C, jobs=4)
                for i, (a, b) in enumerate(zip(impls[c], again)):
                    if a != b:
                        kf = pd.match_known(known, cases[i], a, c)
                        if kf:
                            known_hits[kf["id"]] = kf
                            continue
                        st["impl_vs_spec"] += 1
                        if len(violations) < 20:
                            violations.append({"property": prop, "case": cases[i], "config": c, "impl": a, "impl_other_poison": b,
                                               "why": "observation depends on bytes outside the permitted extent (poison changed the output)"})

        # cross-configuration equality (C08 and wherever the property says so)
        if pd.cross_config:
            base = configs[0]
            for c in configs[1:]:
                for i, (a, b) in enumerate(zip(impls[base], impls[c])):
                    if pd.ub_is_known and any("UB" in m[i] for m in models.values()):
                        continue
                    if pd.canon(a) != pd.canon(b):
                        kf = pd.match_known(known, cases[i], a, c)
                        if kf:
                            known_hits[kf["id"]] = kf
                            continue
                        st["impl_vs_spec"] += 1
                        if len(violations) < 20:
                            violations.append({"property": prop, "case": cases[i], "config": c, "impl": b, "impl_" + base: a,
                                               "why": "outcome differs between build configurations %s and %s" % (base, c)})
        return spec, models, impls

    spec, models, impls = compare(cases)
    timing["run_s"] = round(time.time() - t3, 1)

    # exhaustive finite domains that are too large to hold in memory: streamed in chunks through the same comparison
    t35 = time.time()
    streamed = 0
    streamed_nontrivial = 0
    for chunk in pd.stream(tier, random.Random(seed + 1)):
        _, ms, _ = compare(chunk, tag=".stream")
        streamed += len(chunk)
        m0 = next(iter(ms.values()))
        streamed_nontrivial += sum(1 for x in m0 if not pd.trivial(x))
        if len(violations) >= 20:
            break
    timing["stream_s"] = round(time.time() - t35, 1)

    # exhaustive 2^32 domains by block hashes
    t4 = time.time()
    blk = {"functions": {}, "blocks": 0, "values": 0}
    for fn, blist in pd.block_plan(tier, rng):
        mh = core.blocks([core.DRV], fn, blist)
        blk["functions"][fn] = len(blist)
        for c in [x for x in configs if x in ("dev", "release")]:
            ih = core.blocks([core.harness_bin(c)], fn, blist)
            blk["blocks"] += len(blist)
            blk["values"] += len(blist) << 20
            diff = [b for b in blist if ih.get(b) != mh.get(b)]
            if diff:
                b0 = diff[0]
                found = pd.expand_block(fn, b0, c, workdir)
                if found:
                    st["impl_vs_spec"] += 1
                    violations.append(dict(found, property=prop, config=c, why="exhaustive block %d of %s differs; value-level expansion found a spec violation" % (b0, fn)))
                else:
                    st["model_vs_impl"] += 1
                    if st["first_div"] is None:
                        st["first_div"] = {"case": "blocks %s %d" % (fn, b0), "config": c, "impl": ih.get(b0), "model": mh.get(b0)}
    timing["blocks_s"] = round(time.time() - t4, 1)

    if st["model_vs_impl"] and not violations:
        nofail.append({"kind": "correspondence", "family_first_divergence": st["first_div"], "count": st["model_vs_impl"]})

    # ---------------------------------------------------------------- 4. verdict
    rc = 0
    for kf in known_hits.values():
        print("KNOWN-FINDING: property=%s %s" % (prop, kf["what"]))
    if violations:
        v = violations[0]
        path = core.write_replay(prop, "violation", v)
        print("VIOLATION property=%s replay=%s" % (prop, path))
        for v in violations[:5]:
            core.log("  case=%s config=%s impl=%s spec=%s why=%s" % (v.get("case", "")[:160], v.get("config"), v.get("impl"), v.get("spec"), v.get("why")))
        rc = 1
    elif nofail:
        body = {"property": prop, "broken": nofail, "note": "no input was found on which the real code violates the Spec; the property is no longer SHOWN to hold"}
        path = core.write_replay(prop, "unproved", body)
        print("VIOLATION property=%s replay=%s no-failing-input-found" % (prop, path))
        for nf in nofail[:5]:
            core.log("  " + json.dumps(nf)[:600])
        rc = 1

    # ---------------------------------------------------------------- 5. evidence
    nontrivial = set()
    for i, cs in enumerate(cases):
        if not pd.trivial(next(iter(models.values()))[i]):
            nontrivial.add(cs)
    samples = [{"case": cases[i][:400], "impl": impls[configs[0]][i][:300], "spec": spec[i][:300]} for i in pd.sample_idx(cases, rng)]
    ev = {
        "property_id": prop,
        "tier": tier,
        "seed": seed,
        "level": "proof",
        "coverage": {
            "obligations": proof["obligations"],
            "discharged": proof["discharged"],
            "checker_cmd": "cd /verif/lean && lake build Mb2.Props.%s && lake env lean <generated #print axioms file>%s" % (prop, " && lake env leanchecker Mb2.Props.%s" % prop if tier == "thorough" else ""),
            "trusted_base": TRUSTED,
            "theorems": proof.get("axioms", {}),
            "source_translation": proof.get("source_facts", {}),
            "evaluations": (len(cases) + streamed) * len(configs) + blk["values"],
            "distinct_nontrivial": len(nontrivial) + streamed_nontrivial,
            "rule": pd.rule,
            "samples": samples,
            "exhaustive": (bool(blk["blocks"]) or bool(streamed)) and tier == "thorough" and pd.blocks_exhaustive,
            "correspondence": {
                "cases": len(cases), "streamed_cases": streamed, "configs": configs, "impl_vs_spec_failures": st["impl_vs_spec"],
                "model_vs_impl_divergences": st["model_vs_impl"], "model_vs_spec_failures": st["model_vs_spec"],
                "out_of_hypothesis_cases": st["out_of_hypothesis"], "impl_outcome_classes": st["classes"], "block_hashing": blk, "poison_rerun": pd.poison,
            },
            "known_findings_hit": sorted(known_hits.keys()),
            "timing": timing,
        },
        "assumptions": pd.assumptions,
        "wall_s": round(time.time() - t0, 1),
        "violations": len(violations) + (1 if (nofail and not violations) else 0),
    }
    core.write_evidence(prop, ev)
    if rc == 0:
        shutil.rmtree(workdir, ignore_errors=True)
        print("OK property=%s tier=%s theorems=%d/%d cases=%d configs=%s blocks=%d wall=%.0fs" % (
            prop, tier, proof["discharged"], proof["obligations"], len(cases) + streamed, ",".join(configs), blk["blocks"], time.time() - t0))
    sys.exit(rc)


if __name__ == "__main__":
    main()
