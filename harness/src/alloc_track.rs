//! Tracking global allocator: records (size, align) of allocations and deallocations while recording is switched on.
use std::alloc::{GlobalAlloc, Layout, System};
use std::cell::RefCell;

pub struct Tracking;

thread_local! {
    static ON: RefCell<bool> = const { RefCell::new(false) };
    static EVENTS: RefCell<Vec<(char, usize, usize, usize)>> = const { RefCell::new(Vec::new()) };
}

unsafe impl GlobalAlloc for Tracking {
    unsafe fn alloc(&self, layout: Layout) -> *mut u8 {
        let p = System.alloc(layout);
        record('a', p as usize, layout);
        p
    }
    unsafe fn dealloc(&self, ptr: *mut u8, layout: Layout) {
        record('d', ptr as usize, layout);
        System.dealloc(ptr, layout)
    }
}

fn record(kind: char, ptr: usize, layout: Layout) {
    let on = ON.try_with(|o| o.try_borrow().map(|b| *b).unwrap_or(false)).unwrap_or(false);
    if on {
        // switch off while pushing (the Vec itself allocates)
        let _ = ON.try_with(|o| *o.borrow_mut() = false);
        let _ = EVENTS.try_with(|e| e.borrow_mut().push((kind, ptr, layout.size(), layout.align())));
        let _ = ON.try_with(|o| *o.borrow_mut() = true);
    }
}

pub fn start() {
    EVENTS.with(|e| e.borrow_mut().clear());
    ON.with(|o| *o.borrow_mut() = true);
}

pub fn stop() -> Vec<(char, usize, usize, usize)> {
    ON.with(|o| *o.borrow_mut() = false);
    EVENTS.with(|e| e.borrow().clone())
}
