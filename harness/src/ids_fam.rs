//! C20: identifier conversions. Exhaustive block signatures + the 256 framebuffer type bytes + magics.
use crate::util::*;
use crate::Ctx;
use multiboot2::{
    DynSizedStructure, ElfSectionsTag, FramebufferTag, MemoryAreaType, MemoryAreaTypeId, TagHeader, TagType, TagTypeId,
};

fn tt_index(t: TagType) -> u64 {
    match t {
        TagType::End => 0,
        TagType::Cmdline => 1,
        TagType::BootLoaderName => 2,
        TagType::Module => 3,
        TagType::BasicMeminfo => 4,
        TagType::Bootdev => 5,
        TagType::Mmap => 6,
        TagType::Vbe => 7,
        TagType::Framebuffer => 8,
        TagType::ElfSections => 9,
        TagType::Apm => 10,
        TagType::Efi32 => 11,
        TagType::Efi64 => 12,
        TagType::Smbios => 13,
        TagType::AcpiV1 => 14,
        TagType::AcpiV2 => 15,
        TagType::Network => 16,
        TagType::EfiMmap => 17,
        TagType::EfiBs => 18,
        TagType::Efi32Ih => 19,
        TagType::Efi64Ih => 20,
        TagType::LoadBaseAddr => 21,
        TagType::Custom(_) => 22,
    }
}

#[inline(never)]
pub fn sig_tt(v: u32) -> u64 {
    let v = std::hint::black_box(v);
    let t = TagType::from(v);
    let i = TagTypeId::from(v);
    let w = v ^ 1;
    let mut bits: u64 = 0;
    if t == i { bits |= 1; }
    if i == t { bits |= 2; }
    if i == v { bits |= 4; }
    if v == i { bits |= 8; }
    if t == v { bits |= 16; }
    if v == t { bits |= 32; }
    if t == w { bits |= 64; }
    if i == TagType::from(w) { bits |= 128; }
    if i == w { bits |= 256; }
    if TagType::from(i) == t { bits |= 512; }
    if TagTypeId::from(t) == i { bits |= 1024; }
    // a manually constructed Custom(v) - also for the specified numbers - still compares numerically
    let c = TagType::Custom(v);
    if c == i { bits |= 2048; }
    if i == c { bits |= 4096; }
    if c == v { bits |= 8192; }
    if v == c { bits |= 16384; }
    if u32::from(c) == v { bits |= 32768; }
    if TagTypeId::from(c) == i { bits |= 65536; }
    // the remaining public routes to / from the number
    if t.val() == v { bits |= 131072; }
    if c.val() == v { bits |= 262144; }
    if TagTypeId::new(v) == i { bits |= 524288; }
    let back: u32 = t.into();
    let via: u32 = TagTypeId::from(TagType::from(i)).into();
    (tt_index(t) << 48) ^ (bits << 32) ^ (back as u64) ^ ((via as u64) << 7)
}

#[inline(never)]
pub fn sig_mat(v: u32) -> u64 {
    let v = std::hint::black_box(v);
    let id = MemoryAreaTypeId::from(v);
    let t = MemoryAreaType::from(id);
    let w = v ^ 1;
    let idx: u64 = match t {
        MemoryAreaType::Available => 1,
        MemoryAreaType::Reserved => 2,
        MemoryAreaType::AcpiAvailable => 3,
        MemoryAreaType::ReservedHibernate => 4,
        MemoryAreaType::Defective => 5,
        MemoryAreaType::Custom(_) => 0,
    };
    let mut bits: u64 = 0;
    if id == t { bits |= 1; }
    if t == id { bits |= 2; }
    if MemoryAreaTypeId::from(w) == t { bits |= 4; }
    if MemoryAreaType::from(MemoryAreaTypeId::from(w)) == id { bits |= 8; }
    let c = MemoryAreaType::Custom(v);
    if id == c { bits |= 16; }
    if c == id { bits |= 32; }
    if u32::from(MemoryAreaTypeId::from(c)) == v { bits |= 64; }
    let back: u32 = MemoryAreaTypeId::from(t).into();
    (idx << 48) ^ (bits << 32) ^ (back as u64)
}

/// An ELF-sections tag with one 64-byte entry living in memory we own; the raw type word is rewritten per value.
pub struct ElfProbe {
    buf: Vec<u64>,
}
impl ElfProbe {
    pub fn new() -> Self {
        let mut bytes = Vec::new();
        bytes.extend_from_slice(&9u32.to_le_bytes());
        bytes.extend_from_slice(&(20u32 + 64).to_le_bytes());
        bytes.extend_from_slice(&1u32.to_le_bytes()); // number of sections
        bytes.extend_from_slice(&64u32.to_le_bytes()); // entry size
        bytes.extend_from_slice(&0u32.to_le_bytes()); // shndx
        bytes.extend_from_slice(&[0u8; 64]);
        while bytes.len() % 8 != 0 {
            bytes.push(0);
        }
        let mut buf = vec![0u64; bytes.len() / 8];
        unsafe { std::ptr::copy_nonoverlapping(bytes.as_ptr(), buf.as_mut_ptr() as *mut u8, bytes.len()) };
        Self { buf }
    }
    #[inline(never)]
    pub fn sig(&mut self, v: u32) -> u64 {
        let p = self.buf.as_mut_ptr() as *mut u8;
        unsafe { std::ptr::write_volatile(p.add(20 + 4) as *mut u32, v) };
        let slice = unsafe { std::slice::from_raw_parts(p as *const u8, self.buf.len() * 8) };
        let tag = DynSizedStructure::<TagHeader>::ref_from_slice(slice).unwrap().cast::<ElfSectionsTag>();
        match tag.sections().next() {
            None => 0,
            Some(s) => s.section_type() as u32 as u64,
        }
    }
}

/// FBT <byte> [<hex colour info>]: a framebuffer tag with that type byte and that colour-info field (default: the 6 bytes
/// 01 00 03 04 05 06; `-` = none, i.e. a tag of exactly the 32 fixed bytes)
pub fn fbt_case(ctx: &Ctx, t: &[&str]) -> String {
    let b: u8 = t[1].parse().unwrap();
    let info: Vec<u8> = if t.len() > 2 { crate::util::unhex(t[2]) } else { vec![1, 0, 3, 4, 5, 6] };
    let mut bytes = Vec::new();
    bytes.extend_from_slice(&8u32.to_le_bytes());
    bytes.extend_from_slice(&((32 + info.len()) as u32).to_le_bytes());
    bytes.extend_from_slice(&[0u8; 20]);
    bytes.push(32);
    bytes.push(b);
    bytes.extend_from_slice(&[0u8; 2]);
    bytes.extend_from_slice(&info);
    while bytes.len() % 8 != 0 {
        bytes.push(ctx.arena.poison);
    }
    let p = ctx.arena.place_end(&bytes, 0);
    let slice = unsafe { std::slice::from_raw_parts(p as *const u8, bytes.len()) };
    let r = guarded(|| {
        let tag = DynSizedStructure::<TagHeader>::ref_from_slice(slice).unwrap().cast::<FramebufferTag>();
        match tag.buffer_type() {
            Ok(multiboot2::FramebufferType::Indexed { palette }) => format!("known:0 palette={}", palette.len()),
            Ok(multiboot2::FramebufferType::RGB { .. }) => "known:1".to_string(),
            Ok(multiboot2::FramebufferType::Text) => "known:2".to_string(),
            Err(e) => {
                let s = format!("{}", e);
                format!("unknown:{}", s.rsplit(' ').next().unwrap_or("?"))
            }
        }
    });
    r.unwrap_or_else(|_| "panic".into())
}

pub fn magic_case() -> String {
    format!("{:08x} {:08x}", multiboot2::MAGIC, multiboot2_header::MAGIC)
}
