//! BUILD / HBUILD families (C06, C12): builder call sequences. Each op is `<slot>:<hex blob>` with the blob layout of the
//! CTOR family; the typed tag is made by the real constructor and handed to the real builder method, in call order.
#![cfg(feature = "builder")]
use crate::common_fam::load_err;
use crate::header_fam::hload_err;
use crate::util::*;
use multiboot2::*;
use multiboot2_header as h;

fn rd32(b: &[u8], o: usize) -> u32 {
    u32::from_le_bytes(b[o..o + 4].try_into().unwrap())
}
fn rd16(b: &[u8], o: usize) -> u16 {
    u16::from_le_bytes(b[o..o + 2].try_into().unwrap())
}
fn rd64(b: &[u8], o: usize) -> u64 {
    u64::from_le_bytes(b[o..o + 8].try_into().unwrap())
}

fn apply(b: Builder, name: &str, x: &[u8]) -> Builder {
    match name {
        "cmdline" => b.cmdline(CommandLineTag::new(std::str::from_utf8(x).unwrap())),
        "loader" => b.bootloader(BootLoaderNameTag::new(std::str::from_utf8(x).unwrap())),
        "module" => b.add_module(ModuleTag::new(rd32(x, 0) as _, rd32(x, 4) as _, std::str::from_utf8(&x[8..]).unwrap())),
        "meminfo" => b.meminfo(BasicMemoryInfoTag::new(rd32(x, 0) as _, rd32(x, 4) as _)),
        "bootdev" => b.bootdev(BootdevTag::new(rd32(x, 0) as _, rd32(x, 4) as _, rd32(x, 8) as _)),
        "mmap" => {
            let areas: Vec<MemoryArea> = x.chunks_exact(24).map(|c| MemoryArea::new(rd64(c, 0) as _, rd64(c, 8) as _, MemoryAreaTypeId::from(rd32(c, 16)))).collect();
            b.mmap(MemoryMapTag::new(&areas))
        }
        "vbe" => {
            let mut c = VBEControlInfo::default();
            c.signature = x[8..12].try_into().unwrap();
            c.version = rd16(x, 12);
            let mut m = VBEModeInfo::default();
            m.pitch = rd16(x, 536);
            m.bpp = x[545];
            b.vbe(VBEInfoTag::new(rd16(x, 0) as _, rd16(x, 2) as _, rd16(x, 4) as _, rd16(x, 6) as _, c, m))
        }
        "fb" => {
            let rest = &x[24..];
            let pal: Vec<FramebufferColor>;
            let bt = match x[21] {
                0 => {
                    pal = rest[2.min(rest.len())..].chunks_exact(3).map(|c| FramebufferColor { red: c[0], green: c[1], blue: c[2] }).collect();
                    FramebufferType::Indexed { palette: &pal }
                }
                1 => FramebufferType::RGB {
                    red: FramebufferField { position: rest[0], size: rest[1] },
                    green: FramebufferField { position: rest[2], size: rest[3] },
                    blue: FramebufferField { position: rest[4], size: rest[5] },
                },
                _ => FramebufferType::Text,
            };
            b.framebuffer(FramebufferTag::new(rd64(x, 0) as _, rd32(x, 8) as _, rd32(x, 12) as _, rd32(x, 16) as _, x[20], bt))
        }
        "elf" => b.elf_sections(ElfSectionsTag::new(rd32(x, 0) as _, rd32(x, 4) as _, rd32(x, 8) as _, &x[12..])),
        "apm" => b.apm(ApmTag::new(rd16(x, 0) as _, rd16(x, 2) as _, rd32(x, 4) as _, rd16(x, 8) as _, rd16(x, 10) as _, rd16(x, 12) as _, rd16(x, 14) as _, rd16(x, 16) as _, rd16(x, 18) as _)),
        "efi32" => b.efi32(EFISdt32Tag::new(rd32(x, 0) as _)),
        "efi64" => b.efi64(EFISdt64Tag::new(rd64(x, 0) as _)),
        "smbios" => b.add_smbios(SmbiosTag::new(x[0], x[1], &x[8..])),
        "rsdp1" => b.rsdpv1(RsdpV1Tag::new(x[8], x[9..15].try_into().unwrap(), x[15], rd32(x, 16) as _)),
        "rsdp2" => b.rsdpv2(RsdpV2Tag::new(x[8], x[9..15].try_into().unwrap(), x[15], rd32(x, 16) as _, rd32(x, 20) as _, rd64(x, 24) as _, x[32])),
        "network" => b.network(NetworkTag::new(x)),
        "efimmap" => b.efi_mmap(EFIMemoryMapTag::new_from_map(rd32(x, 0), rd32(x, 4), &x[8..])),
        "efibs" => b.efi_bs(EFIBootServicesNotExitedTag::new()),
        "ih32" => b.efi32_ih(EFIImageHandle32Tag::new(rd32(x, 0) as _)),
        "ih64" => b.efi64_ih(EFIImageHandle64Tag::new(rd64(x, 0) as _)),
        "loadbase" => b.image_load_addr(ImageLoadPhysAddrTag::new(rd32(x, 0) as _)),
        "custom" => {
            let t = multiboot2_common::new_boxed::<DynSizedStructure<TagHeader>>(TagHeader::new(TagTypeId::new(rd32(x, 0) as _), 0), &[&x[4..]]);
            b.add_custom_tag(t)
        }
        n => panic!("unknown slot {}", n),
    }
}

/// "is the built structure 8-aligned": the address the (16-byte aligning) system allocator happened to return says little -
/// what counts is the alignment and size the structure was REQUESTED with (an allocator that honours the request exactly
/// would place it there). `0` = address 8-aligned and requested with alignment >= 8 and the rounded size.
fn align_obs(ev: &[(char, usize, usize, usize)], p: usize, len: usize) -> String {
    match ev.iter().rev().find(|e| e.0 == 'a' && e.1 == p) {
        Some(e) if e.3 >= 8 && e.2 == len => format!("{}", p % 8),
        Some(e) => format!("requested:{}/{}", e.2, e.3),
        None => format!("{}", p % 8),
    }
}

/// BUILD <op,op,...>
pub fn build_case(t: &[&str]) -> String {
    let ops = t.get(1).copied().unwrap_or("-").to_string();
    guarded(move || {
        let mut b = Builder::new();
        for op in ops.split(',').filter(|s| !s.is_empty() && *s != "-") {
            let (name, hx) = op.split_once(':').unwrap();
            b = apply(b, name, &unhex(hx));
        }
        crate::alloc_track::start();
        let built = b.build();
        let ev = crate::alloc_track::stop();
        let p = &*built as *const DynSizedStructure<BootInformationHeader> as *const u8;
        let len = std::mem::size_of_val(&*built);
        let total = built.header().total_size();
        let mut out = format!("len={} total={} align8={} ", len, total, align_obs(&ev, p as usize, len));
        match unsafe { BootInformation::load(p.cast()) } {
            Err(e) => out.push_str(&format!("load={} ", load_err(e))),
            Ok(bi) => {
                out.push_str("load=ok tags=");
                let mut it = bi.tags();
                loop {
                    match guarded(|| it.next()) {
                        Err(()) => {
                            out.push_str("|panic");
                            break;
                        }
                        Ok(None) => {
                            out.push_str("|done");
                            break;
                        }
                        Ok(Some(tag)) => {
                            let o = off(tag as *const _ as *const u8, p) as usize;
                            let size = tag.header().size as usize;
                            let bytes = unsafe { std::slice::from_raw_parts(p.add(o), size) };
                            let typ: u32 = tag.header().typ.into();
                            out.push_str(&format!("{}:{}:{}:{},", o, typ, size, hex(bytes)));
                        }
                    }
                }
                let last = unsafe { std::slice::from_raw_parts(p.add(len - 8), 8) };
                out.push_str(&format!(" last8={}", hex(last)));
            }
        }
        out
    })
    .unwrap_or_else(|_| "panic".into())
}

fn hflag(v: u16) -> h::HeaderTagFlag {
    if v & 1 == 1 {
        h::HeaderTagFlag::Optional
    } else {
        h::HeaderTagFlag::Required
    }
}

fn happly(b: h::Builder, name: &str, x: &[u8]) -> h::Builder {
    let f = hflag(rd16(x, 0));
    match name {
        "h_inforeq" => {
            let ids: Vec<h::MbiTagTypeId> = x[2..].chunks_exact(4).map(|c| h::MbiTagTypeId::new(rd32(c, 0))).collect();
            b.information_request_tag(h::InformationRequestHeaderTag::new(f, &ids))
        }
        "h_address" => b.address_tag(h::AddressHeaderTag::new(f, rd32(x, 2) as _, rd32(x, 6) as _, rd32(x, 10) as _, rd32(x, 14) as _)),
        "h_entry" => b.entry_tag(h::EntryAddressHeaderTag::new(f, rd32(x, 2) as _)),
        "h_console" => b.console_tag(h::ConsoleHeaderTag::new(
            f,
            if rd32(x, 2) & 1 == 1 { h::ConsoleHeaderTagFlags::EgaTextSupported } else { h::ConsoleHeaderTagFlags::ConsoleRequired },
        )),
        "h_fb" => b.framebuffer_tag(h::FramebufferHeaderTag::new(f, rd32(x, 2) as _, rd32(x, 6) as _, rd32(x, 10) as _)),
        "h_modalign" => b.module_align_tag(h::ModuleAlignHeaderTag::new(f)),
        "h_efibs" => b.efi_bs_tag(h::EfiBootServiceHeaderTag::new(f)),
        "h_efi32" => b.efi_32_tag(h::EntryEfi32HeaderTag::new(f, rd32(x, 2) as _)),
        "h_efi64" => b.efi_64_tag(h::EntryEfi64HeaderTag::new(f, rd32(x, 2) as _)),
        "h_reloc" => b.relocatable_tag(h::RelocatableHeaderTag::new(
            f,
            rd32(x, 2),
            rd32(x, 6),
            rd32(x, 10),
            match rd32(x, 14) % 3 {
                0 => h::RelocatableHeaderTagPreference::None,
                1 => h::RelocatableHeaderTagPreference::Low,
                _ => h::RelocatableHeaderTagPreference::High,
            },
        )),
        n => panic!("unknown slot {}", n),
    }
}

/// HBUILD <arch 0|4> <op,op,...>
pub fn hbuild_case(t: &[&str]) -> String {
    let arch = if t[1] == "4" { h::HeaderTagISA::MIPS32 } else { h::HeaderTagISA::I386 };
    let ops = t.get(2).copied().unwrap_or("-").to_string();
    guarded(move || {
        let mut b = h::Builder::new(arch);
        for op in ops.split(',').filter(|s| !s.is_empty() && *s != "-") {
            let (name, hx) = op.split_once(':').unwrap();
            b = happly(b, name, &unhex(hx));
        }
        crate::alloc_track::start();
        let built = b.build();
        let ev = crate::alloc_track::stop();
        let p = &*built as *const DynSizedStructure<h::Multiboot2BasicHeader> as *const u8;
        let len = std::mem::size_of_val(&*built);
        let hdr = unsafe { std::slice::from_raw_parts(p, 16) };
        let mut out = format!("len={} align8={} hdr={} ", len, align_obs(&ev, p as usize, len), hex(hdr));
        match unsafe { h::Multiboot2Header::load(p.cast()) } {
            Err(e) => out.push_str(&format!("load={} ", hload_err(e))),
            Ok(hd) => {
                out.push_str("load=ok tags=");
                let mut it = hd.iter();
                loop {
                    match guarded(|| it.next()) {
                        Err(()) => {
                            out.push_str("|panic");
                            break;
                        }
                        Ok(None) => {
                            out.push_str("|done");
                            break;
                        }
                        Ok(Some(tag)) => {
                            let o = off(tag as *const _ as *const u8, p) as usize;
                            let size = tag.header().size() as usize;
                            let bytes = unsafe { std::slice::from_raw_parts(p.add(o), size) };
                            out.push_str(&format!("{}:{}:{},", o, size, hex(bytes)));
                        }
                    }
                }
                let last = unsafe { std::slice::from_raw_parts(p.add(len - 8), 8) };
                out.push_str(&format!(" last8={}", hex(last)));
            }
        }
        out
    })
    .unwrap_or_else(|_| "panic".into())
}
