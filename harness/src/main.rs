//! mb2h — correspondence harness. Reads one case per line on stdin, calls the real
//! multiboot2 / multiboot2-common / multiboot2-header API in-process, writes one canonical
//! observation line per case on stdout (flushed per line so that a crash pinpoints the case).
mod alloc_track;
#[cfg(feature = "builder")]
mod build_fam;
mod cast_fam;
mod common_fam;
#[cfg(feature = "builder")]
mod ctor_fam;
mod header_fam;
mod ids_fam;
mod sweep;
mod util;

use std::io::{BufRead, Write};

#[global_allocator]
static GLOBAL: alloc_track::Tracking = alloc_track::Tracking;

pub struct Ctx {
    pub arena: util::Arena,
    pub arena2: util::Arena,
    pub low: *mut u8,
}

fn handle(ctx: &Ctx, line: &str) -> String {
    let t: Vec<&str> = line.split_whitespace().collect();
    if t.is_empty() {
        return "empty".into();
    }
    match t[0] {
        "REF" => common_fam::ref_case(ctx, &t),
        "LOAD" => common_fam::load_case(ctx, &t),
        "LOADBIG" => common_fam::loadbig_case(&t),
        "DEPTH" => common_fam::depth_case(&t),
        "WALK" => common_fam::walk_case(ctx, &t),
        "RND" => common_fam::rnd_case(&t),
        "FBT" => ids_fam::fbt_case(ctx, &t),
        "MAGIC" => ids_fam::magic_case(),
        "HLOAD" => header_fam::hload_case(ctx, &t),
        "CKS" => header_fam::cks_case(&t),
        "FIND" => header_fam::find_case(ctx, &t),
        "HSWEEP" => header_fam::hsweep_case(ctx, &t),
        "SWEEP" => sweep::sweep_case(ctx, &t),
        "CAST" => cast_fam::cast_case(ctx, &t),
        "ELFNAME" => sweep::elfname_case(ctx, &t),
        #[cfg(feature = "builder")]
        "CTOR" => ctor_fam::ctor_case(&t),
        #[cfg(feature = "builder")]
        "BUILD" => build_fam::build_case(&t),
        #[cfg(feature = "builder")]
        "HBUILD" => build_fam::hbuild_case(&t),
        #[cfg(feature = "builder")]
        "BOXED" => ctor_fam::boxed_case(&t),
        #[cfg(feature = "builder")]
        "CLONE" => ctor_fam::clone_case(ctx, &t),
        f => format!("unknown-family:{}", f),
    }
}

struct FormattingLogger;
impl log::Log for FormattingLogger {
    fn enabled(&self, _: &log::Metadata) -> bool {
        true
    }
    fn log(&self, record: &log::Record) {
        // format into a sink: evaluating the arguments is the point
        use std::fmt::Write as _;
        let mut sink = util::Sink(0);
        let _ = write!(sink, "{}", record.args());
    }
    fn flush(&self) {}
}
static LOGGER: FormattingLogger = FormattingLogger;

fn main() {
    std::panic::set_hook(Box::new(|_| {}));
    let _ = log::set_logger(&LOGGER);
    log::set_max_level(log::LevelFilter::Trace);
    let args: Vec<String> = std::env::args().collect();
    let mode = args.get(1).map(|s| s.as_str()).unwrap_or("run");
    match mode {
        "run" => {
            let ctx = Ctx { arena: util::Arena::new(260), arena2: util::Arena::new(260), low: util::low_buffer() };
            let stdin = std::io::stdin();
            let stdout = std::io::stdout();
            let mut out = stdout.lock();
            for line in stdin.lock().lines() {
                let line = line.unwrap();
                let r = match util::guarded(|| handle(&ctx, &line)) {
                    Ok(s) => s,
                    Err(()) => "harness-panic".to_string(),
                };
                writeln!(out, "{}", r).unwrap();
                out.flush().unwrap();
            }
        }
        "blocks" => {
            // blocks <fn> <first-block> <count>: one hash per block of 2^20 consecutive arguments
            let f = &args[2];
            let first: u64 = args[3].parse().unwrap();
            let count: u64 = args[4].parse().unwrap();
            for b in first..first + count {
                println!("{} {} {:016x}", f, b, common_fam::block_hash(f, b));
            }
        }
        "sigs" => {
            // sigs <fn> <first-value> <count>: per-value signatures (used to expand a differing block)
            let f = &args[2];
            let first: u64 = args[3].parse().unwrap();
            let count: u64 = args[4].parse().unwrap();
            let mut probe = ids_fam::ElfProbe::new();
            let stdout = std::io::stdout();
            let mut out = std::io::BufWriter::new(stdout.lock());
            for v in first..first + count {
                let s = match f.as_str() {
                    "tt" => ids_fam::sig_tt(v as u32),
                    "mat" => ids_fam::sig_mat(v as u32),
                    "elf" => probe.sig(v as u32),
                    "rnd" => multiboot2_common::increase_to_alignment(v as usize) as u64,
                    "cks0" => header_fam::sig_cks(v as u32, false),
                    "cks4" => header_fam::sig_cks(v as u32, true),
                    _ => panic!("unknown fn"),
                };
                writeln!(out, "{} {:016x}", v, s).unwrap();
            }
        }
        "info" => {
            println!("features builder={}", cfg!(feature = "builder"));
            println!("debug_assertions={}", cfg!(debug_assertions));
        }
        m => panic!("unknown mode {}", m),
    }
}
