//! CAST family (C15): user-defined sized and dynamically sized tag types x tag sizes.
use crate::util::*;
use crate::Ctx;
use multiboot2::{DynSizedStructure, MaybeDynSized, Pointee, TagHeader};
use std::mem::size_of;

macro_rules! sized_ty {
    ($name:ident, $k:expr) => {
        #[repr(C, align(8))]
        #[allow(dead_code)]
        pub struct $name {
            header: TagHeader,
            words: [u32; $k],
        }
        impl MaybeDynSized for $name {
            type Header = TagHeader;
            const BASE_SIZE: usize = size_of::<Self>();
            fn dst_len(_: &TagHeader) {}
        }
    };
}
sized_ty!(S0, 0);
sized_ty!(S1, 1);
sized_ty!(S2, 2);
sized_ty!(S3, 3);
sized_ty!(S4, 4);
sized_ty!(S5, 5);
sized_ty!(S6, 6);

macro_rules! dst_ty {
    ($name:ident, $k:expr, $e:ty) => {
        #[repr(C, align(8))]
        #[allow(dead_code)]
        pub struct $name {
            header: TagHeader,
            pre: [u32; $k],
            tail: [$e],
        }
        impl Pointee for $name {
            type Metadata = usize;
        }
        impl $name {
            /// offset of the tail: what a truthful author writes down as the fixed size
            const TAIL: usize = {
                let a = std::mem::align_of::<$e>();
                (8 + 4 * $k + a - 1) / a * a
            };
        }
        impl MaybeDynSized for $name {
            type Header = TagHeader;
            const BASE_SIZE: usize = Self::TAIL;
            fn dst_len(h: &TagHeader) -> usize {
                assert!(h.size as usize >= Self::TAIL);
                let n = h.size as usize - Self::TAIL;
                assert_eq!(n % size_of::<$e>(), 0);
                n / size_of::<$e>()
            }
        }
    };
}
type E1 = u8;
type E2 = [u8; 2];
type E3 = [u8; 3];
type E4 = u32;
type E8 = u64;
type E24 = [u64; 3];
dst_ty!(D0E1, 0, E1);
dst_ty!(D0E2, 0, E2);
dst_ty!(D0E3, 0, E3);
dst_ty!(D0E4, 0, E4);
dst_ty!(D0E8, 0, E8);
dst_ty!(D0E24, 0, E24);
dst_ty!(D1E1, 1, E1);
dst_ty!(D1E3, 1, E3);
dst_ty!(D1E4, 1, E4);
dst_ty!(D1E8, 1, E8);
dst_ty!(D2E1, 2, E1);
dst_ty!(D2E2, 2, E2);
dst_ty!(D2E8, 2, E8);
dst_ty!(D2E24, 2, E24);
dst_ty!(D3E3, 3, E3);
dst_ty!(D3E4, 3, E4);
dst_ty!(D3E8, 3, E8);
dst_ty!(D4E1, 4, E1);
dst_ty!(D4E4, 4, E4);
dst_ty!(D4E24, 4, E24);

/// user-defined types whose alignment is LARGER than the 8 bytes of the tag area
#[repr(C, align(16))]
#[allow(dead_code)]
pub struct A16S {
    header: TagHeader,
    v: [u64; 3],
}
impl MaybeDynSized for A16S {
    type Header = TagHeader;
    const BASE_SIZE: usize = size_of::<Self>();
    fn dst_len(_: &TagHeader) {}
}
#[repr(C)]
#[allow(dead_code)]
pub struct A16D {
    header: TagHeader,
    tail: [u128],
}
impl Pointee for A16D {
    type Metadata = usize;
}
impl MaybeDynSized for A16D {
    type Header = TagHeader;
    const BASE_SIZE: usize = 16;
    fn dst_len(h: &TagHeader) -> usize {
        assert!(h.size as usize >= 16);
        let n = h.size as usize - 16;
        assert_eq!(n % 16, 0);
        n / 16
    }
}

fn cast_one<T: MaybeDynSized<Header = TagHeader> + ?Sized>(ctx: &Ctx, size: u32, extra: usize, tail_len: impl Fn(&T) -> usize) -> String {
    let occ = ((size as usize).max(8) + 7) / 8 * 8 + 8 * extra;
    let mut bytes = vec![0xEEu8; occ];
    bytes[0..4].copy_from_slice(&0x1234u32.to_le_bytes());
    bytes[4..8].copy_from_slice(&size.to_le_bytes());
    let p = ctx.arena.place_end(&bytes, 0);
    let slice = unsafe { std::slice::from_raw_parts(p as *const u8, occ) };
    let r = guarded(|| {
        let tag = DynSizedStructure::<TagHeader>::ref_from_slice(slice).unwrap();
        let t = tag.cast::<T>();
        format!("ok off={} sov={} n={}", off(t as *const T as *const u8, p), std::mem::size_of_val(t), tail_len(t))
    });
    r.unwrap_or_else(|_| "panic".into())
}

/// CAST <type code> <tag size>
pub fn cast_case(ctx: &Ctx, t: &[&str]) -> String {
    let size: u32 = t[2].parse().unwrap();
    let extra: usize = t.get(3).map(|x| x.parse().unwrap()).unwrap_or(0);
    macro_rules! s {
        ($ty:ty) => {
            cast_one::<$ty>(ctx, size, extra, |_| 0)
        };
    }
    macro_rules! d {
        ($ty:ty) => {
            cast_one::<$ty>(ctx, size, extra, |x| x.tail.len())
        };
    }
    match t[1] {
        "s0" => s!(S0),
        "s1" => s!(S1),
        "s2" => s!(S2),
        "s3" => s!(S3),
        "s4" => s!(S4),
        "s5" => s!(S5),
        "s6" => s!(S6),
        "d0e1" => d!(D0E1),
        "d0e2" => d!(D0E2),
        "d0e3" => d!(D0E3),
        "d0e4" => d!(D0E4),
        "d0e8" => d!(D0E8),
        "d0e24" => d!(D0E24),
        "d1e1" => d!(D1E1),
        "d1e3" => d!(D1E3),
        "d1e4" => d!(D1E4),
        "d1e8" => d!(D1E8),
        "d2e1" => d!(D2E1),
        "d2e2" => d!(D2E2),
        "d2e8" => d!(D2E8),
        "d2e24" => d!(D2E24),
        "d3e3" => d!(D3E3),
        "d3e4" => d!(D3E4),
        "d3e8" => d!(D3E8),
        "d4e1" => d!(D4E1),
        "d4e4" => d!(D4E4),
        "d4e24" => d!(D4E24),
        "a16s" => s!(A16S),
        "a16d" => d!(A16D),
        c => format!("unknown-type:{}", c),
    }
}
