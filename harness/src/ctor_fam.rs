//! CTOR family (C07, C17): every public tag constructor of both crates. The argument blob is the specification's
//! little-endian encoding of the arguments; the harness decodes it, calls the real constructor, and prints the
//! image the constructor produced: type, size, bytes[..size], alignment, as_bytes() outcome, accessor read-back.
//! BOXED / CLONE families (C16) live here too.
#![cfg(feature = "builder")]
use crate::util::*;
use multiboot2::*;
use multiboot2_header as h;
use std::mem::{align_of_val, size_of_val};

struct Rd<'a> {
    b: &'a [u8],
    o: usize,
}
impl<'a> Rd<'a> {
    fn u8(&mut self) -> u8 {
        let v = self.b[self.o];
        self.o += 1;
        v
    }
    fn u16(&mut self) -> u16 {
        let v = u16::from_le_bytes(self.b[self.o..self.o + 2].try_into().unwrap());
        self.o += 2;
        v
    }
    fn u32(&mut self) -> u32 {
        let v = u32::from_le_bytes(self.b[self.o..self.o + 4].try_into().unwrap());
        self.o += 4;
        v
    }
    fn u64(&mut self) -> u64 {
        let v = u64::from_le_bytes(self.b[self.o..self.o + 8].try_into().unwrap());
        self.o += 8;
        v
    }
    fn rest(&mut self) -> &'a [u8] {
        let r = &self.b[self.o..];
        self.o = self.b.len();
        r
    }
    fn arr<const N: usize>(&mut self) -> [u8; N] {
        let v: [u8; N] = self.b[self.o..self.o + N].try_into().unwrap();
        self.o += N;
        v
    }
}

/// image of an MBI-crate tag
fn img<T: MaybeDynSized<Header = TagHeader> + ?Sized>(t: &T, rb: String) -> String {
    let hdr = t.header();
    let typ: u32 = hdr.typ.into();
    let size = hdr.size as usize;
    let p = t as *const T as *const u8;
    let sov = size_of_val(t);
    let bytes = unsafe { std::slice::from_raw_parts(p, size.min(sov)) };
    let asb = match guarded(|| t.as_bytes().len()) {
        Ok(n) => format!("ok:{}", n),
        Err(()) => "P".into(),
    };
    format!("typ={} size={} bytes={} sov={} align={} asbytes={} rb={}", typ, size, hex(bytes), sov, align_of_val(t), asb, rb)
}

/// image of a header-crate tag (type u16, flags u16 read raw)
fn himg<T: MaybeDynSized<Header = h::HeaderTagHeader> + ?Sized>(t: &T, rb: String) -> String {
    let p = t as *const T as *const u8;
    let typ = unsafe { (p as *const u16).read() };
    let flags = unsafe { (p as *const u16).add(1).read() };
    let size = t.header().size() as usize;
    let sov = size_of_val(t);
    let bytes = unsafe { std::slice::from_raw_parts(p, size.min(sov)) };
    let asb = match guarded(|| t.as_bytes().len()) {
        Ok(n) => format!("ok:{}", n),
        Err(()) => "P".into(),
    };
    format!("typ={} flags={} size={} bytes={} sov={} align={} asbytes={} rb={}", typ, flags, size, hex(bytes), sov, align_of_val(t), asb, rb)
}

fn mask_efi_padding(s: &str, n: usize) -> String {
    let mut out = String::new();
    for part in s.split(' ') {
        if let Some(hx) = part.strip_prefix("bytes=") {
            let mut b = unhex(hx);
            for i in 0..n {
                for k in 0..4 {
                    let o = 16 + 40 * i + 4 + k;
                    if o < b.len() {
                        b[o] = 0;
                    }
                }
            }
            out.push_str(&format!("bytes={} ", hex(&b)));
        } else {
            out.push_str(part);
            out.push(' ');
        }
    }
    out.trim_end().to_string()
}

fn sres(r: Result<&str, StringError>) -> String {
    match r {
        Ok(s) => format!("s:{}", hex(s.as_bytes())),
        Err(StringError::MissingNul(_)) => "e:MissingNul".into(),
        Err(StringError::Utf8(_)) => "e:Utf8".into(),
    }
}

fn hflag(v: u16) -> h::HeaderTagFlag {
    if v & 1 == 1 {
        h::HeaderTagFlag::Optional
    } else {
        h::HeaderTagFlag::Required
    }
}

pub fn ctor(name: &str, blob: &[u8]) -> String {
    let mut r = Rd { b: blob, o: 0 };
    match name {
        "cmdline" => {
            let s = std::str::from_utf8(blob).unwrap();
            let t = CommandLineTag::new(s);
            img(&*t, sres(t.cmdline()))
        }
        "loader" => {
            let s = std::str::from_utf8(blob).unwrap();
            let t = BootLoaderNameTag::new(s);
            img(&*t, sres(t.name()))
        }
        "module" => {
            let (a, b) = (r.u32(), r.u32());
            let s = std::str::from_utf8(r.rest()).unwrap();
            let t = ModuleTag::new(a, b, s);
            img(&*t, format!("{}:{}:{}", t.start_address(), t.end_address(), sres(t.cmdline())))
        }
        "meminfo" => {
            let t = BasicMemoryInfoTag::new(r.u32() as _, r.u32() as _);
            img(&t, format!("{}:{}", t.memory_lower(), t.memory_upper()))
        }
        "bootdev" => {
            let t = BootdevTag::new(r.u32() as _, r.u32() as _, r.u32() as _);
            img(&t, format!("{}:{}:{}", t.biosdev(), t.slice(), t.part()))
        }
        "mmap" => {
            let mut areas = Vec::new();
            while r.o + 24 <= blob.len() {
                let (b, l, ty, _res) = (r.u64(), r.u64(), r.u32(), r.u32());
                areas.push(MemoryArea::new(b, l, MemoryAreaTypeId::from(ty)));
            }
            let t = MemoryMapTag::new(&areas);
            let rb: Vec<String> = t.memory_areas().iter().map(|a| format!("{}/{}/{}", a.start_address(), a.size(), u32::from(a.typ()))).collect();
            img(&*t, format!("{}:{}:{}", t.entry_size(), t.entry_version(), rb.join(":")))
        }
        "vbe" => {
            let (mode, iseg, ioff, ilen) = (r.u16(), r.u16(), r.u16(), r.u16());
            let mut c = VBEControlInfo::default();
            c.signature = r.arr::<4>();
            c.version = r.u16();
            c.oem_string_ptr = r.u32();
            c.capabilities = VBECapabilities::from_bits_retain(r.u32());
            c.mode_list_ptr = r.u32();
            c.total_memory = r.u16();
            c.oem_software_revision = r.u16();
            c.oem_vendor_name_ptr = r.u32();
            c.oem_product_name_ptr = r.u32();
            c.oem_product_revision_ptr = r.u32();
            r.o = 8 + 512;
            let mut m = VBEModeInfo::default();
            m.mode_attributes = VBEModeAttributes::from_bits_retain(r.u16());
            m.window_a_attributes = VBEWindowAttributes::from_bits_retain(r.u8());
            m.window_b_attributes = VBEWindowAttributes::from_bits_retain(r.u8());
            m.window_granularity = r.u16();
            m.window_size = r.u16();
            m.window_a_segment = r.u16();
            m.window_b_segment = r.u16();
            m.window_function_ptr = r.u32();
            m.pitch = r.u16();
            m.resolution = (r.u16(), r.u16());
            m.character_size = (r.u8(), r.u8());
            m.number_of_planes = r.u8();
            m.bpp = r.u8();
            m.number_of_banks = r.u8();
            m.memory_model = match r.u8() % 8 {
                0 => VBEMemoryModel::Text,
                1 => VBEMemoryModel::CGAGraphics,
                2 => VBEMemoryModel::HerculesGraphics,
                3 => VBEMemoryModel::Planar,
                4 => VBEMemoryModel::PackedPixel,
                5 => VBEMemoryModel::Unchained,
                6 => VBEMemoryModel::DirectColor,
                _ => VBEMemoryModel::YUV,
            };
            m.bank_size = r.u8();
            m.number_of_image_pages = r.u8();
            r.u8();
            m.red_field = VBEField { size: r.u8(), position: r.u8() };
            m.green_field = VBEField { size: r.u8(), position: r.u8() };
            m.blue_field = VBEField { size: r.u8(), position: r.u8() };
            m.reserved_field = VBEField { size: r.u8(), position: r.u8() };
            m.direct_color_attributes = VBEDirectColorAttributes::from_bits_retain(r.u8());
            m.framebuffer_base_ptr = r.u32();
            m.offscreen_memory_offset = r.u32();
            m.offscreen_memory_size = r.u16();
            let t = VBEInfoTag::new(mode, iseg, ioff, ilen, c, m);
            img(&t, format!("{}:{}:{}:{}", t.mode(), t.interface_segment(), t.interface_offset(), t.interface_length()))
        }
        "fb" => {
            let (addr, pitch, w, hh, bpp, ty) = (r.u64(), r.u32(), r.u32(), r.u32(), r.u8(), r.u8());
            r.u16();
            let rest = r.rest();
            let pal: Vec<FramebufferColor>;
            let bt = match ty {
                0 => {
                    pal = rest[2.min(rest.len())..].chunks_exact(3).map(|c| FramebufferColor { red: c[0], green: c[1], blue: c[2] }).collect();
                    FramebufferType::Indexed { palette: &pal }
                }
                1 => FramebufferType::RGB {
                    red: FramebufferField { position: rest[0], size: rest[1] },
                    green: FramebufferField { position: rest[2], size: rest[3] },
                    blue: FramebufferField { position: rest[4], size: rest[5] },
                },
                _ => FramebufferType::Text,
            };
            let t = FramebufferTag::new(addr, pitch, w, hh, bpp, bt);
            img(&*t, format!("{}:{}:{}:{}:{}", t.address(), t.pitch(), t.width(), t.height(), t.bpp()))
        }
        "elf" => {
            let (n, es, sh) = (r.u32(), r.u32(), r.u32());
            let t = ElfSectionsTag::new(n, es, sh, r.rest());
            img(&*t, format!("{}:{}:{}", t.number_of_sections(), t.entry_size(), t.shndx()))
        }
        "apm" => {
            let t = ApmTag::new(r.u16() as _, r.u16() as _, r.u32() as _, r.u16() as _, r.u16() as _, r.u16() as _, r.u16() as _, r.u16() as _, r.u16() as _);
            img(&t, format!("{}:{}:{}:{}:{}:{}:{}:{}:{}", t.version(), t.cseg(), t.offset(), t.cset_16(), t.dseg(), t.flags(), t.cseg_len(), t.cseg_16_len(), t.dseg_len()))
        }
        "efi32" => {
            let t = EFISdt32Tag::new(r.u32() as _);
            img(&t, format!("{}", t.sdt_address()))
        }
        "efi64" => {
            let t = EFISdt64Tag::new(r.u64() as _);
            img(&t, format!("{}", t.sdt_address()))
        }
        "smbios" => {
            let (ma, mi) = (r.u8(), r.u8());
            r.o = 8;
            let t = SmbiosTag::new(ma, mi, r.rest());
            img(&*t, format!("{}:{}:{}", t.major(), t.minor(), hex(t.tables())))
        }
        "rsdp1" => {
            r.o = 8;
            let t = RsdpV1Tag::new(r.u8() as _, r.arr::<6>(), r.u8() as _, r.u32() as _);
            img(&t, format!("{}:{}", t.revision(), t.rsdt_address()))
        }
        "rsdp2" => {
            r.o = 8;
            let t = RsdpV2Tag::new(r.u8() as _, r.arr::<6>(), r.u8() as _, r.u32() as _, r.u32() as _, r.u64() as _, r.u8() as _);
            img(&t, format!("{}:{}:{}", t.revision(), t.xsdt_address(), t.ext_checksum()))
        }
        "network" => {
            let t = NetworkTag::new(blob);
            img(&*t, String::new())
        }
        "efimmap" => {
            let (ds, ver) = (r.u32(), r.u32());
            let t = EFIMemoryMapTag::new_from_map(ds, ver, r.rest());
            img(&*t, String::new())
        }
        "efidescs" => {
            let mut descs = Vec::new();
            while r.o + 40 <= blob.len() {
                let ty = r.u32();
                r.u32();
                descs.push(EFIMemoryDesc {
                    ty: EFIMemoryAreaType(ty),
                    phys_start: r.u64(),
                    virt_start: r.u64(),
                    page_count: r.u64(),
                    att: EFIMemoryAttribute::from_bits_retain(r.u64()),
                });
            }
            let t = EFIMemoryMapTag::new_from_descs(&descs);
            // the 4 padding bytes inside each EFIMemoryDesc are uninitialised: mask them in the printed image
            let s = img(&*t, String::new());
            mask_efi_padding(&s, descs.len())
        }
        "efibs" => {
            // `new()` and `Default::default()` are both public constructors: the image of the one that deviates is reported
            let t = EFIBootServicesNotExitedTag::new();
            let d = EFIBootServicesNotExitedTag::default();
            let (a, b) = (img(&t, String::new()), img(&d, String::new()));
            if a == b { a } else { b }
        }
        "ih32" => {
            let t = EFIImageHandle32Tag::new(r.u32() as _);
            img(&t, format!("{}", t.image_handle()))
        }
        "ih64" => {
            let t = EFIImageHandle64Tag::new(r.u64() as _);
            img(&t, format!("{}", t.image_handle()))
        }
        "loadbase" => {
            let t = ImageLoadPhysAddrTag::new(r.u32() as _);
            img(&t, format!("{}", t.load_base_addr()))
        }
        "end" => {
            let t = EndTag::default();
            img(&t, String::new())
        }
        // ---------------------------------------------------------------- header crate
        "h_address" => {
            let t = h::AddressHeaderTag::new(hflag(r.u16() as _), r.u32() as _, r.u32() as _, r.u32() as _, r.u32() as _);
            himg(&t, format!("{}:{}:{}:{}", t.header_addr(), t.load_addr(), t.load_end_addr(), t.bss_end_addr()))
        }
        "h_console" => {
            let f = hflag(r.u16());
            let cf = if r.u32() & 1 == 1 { h::ConsoleHeaderTagFlags::EgaTextSupported } else { h::ConsoleHeaderTagFlags::ConsoleRequired };
            let t = h::ConsoleHeaderTag::new(f, cf);
            himg(&t, format!("{}", t.console_flags() as u32))
        }
        "h_end" => {
            let t = h::EndHeaderTag::new();
            let d = h::EndHeaderTag::default();
            let (a, b) = (himg(&t, String::new()), himg(&d, String::new()));
            if a == b { a } else { b }
        }
        "h_entry" => {
            let t = h::EntryAddressHeaderTag::new(hflag(r.u16() as _), r.u32() as _);
            himg(&t, format!("{}", t.entry_addr()))
        }
        "h_efi32" => {
            let t = h::EntryEfi32HeaderTag::new(hflag(r.u16() as _), r.u32() as _);
            himg(&t, format!("{}", t.entry_addr()))
        }
        "h_efi64" => {
            let t = h::EntryEfi64HeaderTag::new(hflag(r.u16() as _), r.u32() as _);
            himg(&t, format!("{}", t.entry_addr()))
        }
        "h_fb" => {
            let t = h::FramebufferHeaderTag::new(hflag(r.u16() as _), r.u32() as _, r.u32() as _, r.u32() as _);
            himg(&t, format!("{}:{}:{}", t.width(), t.height(), t.depth()))
        }
        "h_modalign" => {
            let t = h::ModuleAlignHeaderTag::new(hflag(r.u16() as _));
            himg(&t, String::new())
        }
        "h_efibs" => {
            let t = h::EfiBootServiceHeaderTag::new(hflag(r.u16() as _));
            himg(&t, String::new())
        }
        "h_reloc" => {
            let f = hflag(r.u16());
            let (a, b, c) = (r.u32(), r.u32(), r.u32());
            let pref = match r.u32() % 3 {
                0 => h::RelocatableHeaderTagPreference::None,
                1 => h::RelocatableHeaderTagPreference::Low,
                _ => h::RelocatableHeaderTagPreference::High,
            };
            let t = h::RelocatableHeaderTag::new(f, a, b, c, pref);
            himg(&t, format!("{}:{}:{}:{}", t.min_addr(), t.max_addr(), t.align(), t.preference() as u32))
        }
        "h_inforeq" => {
            let f = hflag(r.u16());
            let mut ids = Vec::new();
            while r.o + 4 <= blob.len() {
                ids.push(h::MbiTagTypeId::new(r.u32()));
            }
            let t = h::InformationRequestHeaderTag::new(f, &ids);
            let rb: Vec<String> = t.requests().iter().map(|x| format!("{}", u32::from(*x))).collect();
            himg(&*t, rb.join(":"))
        }
        n => format!("unknown-ctor:{}", n),
    }
}

/// CTOR <name> <hex blob>
pub fn ctor_case(t: &[&str]) -> String {
    let blob = unhex(t.get(2).copied().unwrap_or("-"));
    let name = t[1].to_string();
    guarded(move || ctor(&name, &blob)).unwrap_or_else(|_| "panic".into())
}

// ------------------------------------------------------------------------------------------------ C16

use crate::alloc_track;
use multiboot2_common::test_utils::DummyTestHeader;
use multiboot2_common::{clone_dyn, new_boxed, Header};

/// describe the allocation events that concern the object at `obj`
fn alloc_summary(ev: &[(char, usize, usize, usize)], obj: usize) -> String {
    let a: Vec<String> = ev.iter().filter(|e| e.0 == 'a' && e.1 == obj).map(|e| format!("{}/{}", e.2, e.3)).collect();
    let d: Vec<String> = ev.iter().filter(|e| e.0 == 'd' && e.1 == obj).map(|e| format!("{}/{}", e.2, e.3)).collect();
    format!("alloc={} dealloc={}", a.join("+"), d.join("+"))
}

fn boxed_one<H: Header>(hdr: H, slices: &[&[u8]], size_of: impl Fn(&H) -> usize) -> String {
    alloc_track::start();
    let b = new_boxed::<DynSizedStructure<H>>(hdr, slices);
    let p = &*b as *const DynSizedStructure<H> as *const u8 as usize;
    let size = size_of(b.header());
    let sov = size_of_val(&*b);
    let bytes = unsafe { std::slice::from_raw_parts(p as *const u8, size.min(sov)) }.to_vec();
    let pl = b.payload().len();
    drop(b);
    let ev = alloc_track::stop();
    format!("size={} bytes={} pl={} sov={} addr8={} {}", size, hex(&bytes), pl, sov, p % 8, alloc_summary(&ev, p))
}

/// BOXED <kind> <hex header image> <hex,hex,... content slices>
pub fn boxed_case(t: &[&str]) -> String {
    let hb = unhex(t[2]);
    // `-` = no slices at all; otherwise comma separated, `e` = an EMPTY slice (kept: empty slices are part of the domain)
    let arg = t.get(3).copied().unwrap_or("-");
    let parts: Vec<Vec<u8>> =
        if arg == "-" { Vec::new() } else { arg.split(',').map(|s| if s == "e" || s.is_empty() { Vec::new() } else { unhex(s) }).collect() };
    let refs: Vec<&[u8]> = parts.iter().map(|v| v.as_slice()).collect();
    let kind = t[1].to_string();
    guarded(move || match kind.as_str() {
        "tag" => {
            let typ = u32::from_le_bytes(hb[0..4].try_into().unwrap());
            let size = u32::from_le_bytes(hb[4..8].try_into().unwrap());
            boxed_one(TagHeader::new(TagTypeId::new(typ), size), &refs, |h| h.size as usize)
        }
        "dummy" => {
            let typ = u32::from_le_bytes(hb[0..4].try_into().unwrap());
            let size = u32::from_le_bytes(hb[4..8].try_into().unwrap());
            boxed_one(DummyTestHeader::new(typ, size), &refs, |h| h.size() as usize)
        }
        "ht" => {
            let fl = u16::from_le_bytes(hb[2..4].try_into().unwrap());
            let size = u32::from_le_bytes(hb[4..8].try_into().unwrap());
            // the type is an enum: only its declared values can be constructed
            let ty = match u16::from_le_bytes(hb[0..2].try_into().unwrap()) % 11 {
                0 => h::HeaderTagType::End,
                1 => h::HeaderTagType::InformationRequest,
                2 => h::HeaderTagType::Address,
                3 => h::HeaderTagType::EntryAddress,
                4 => h::HeaderTagType::ConsoleFlags,
                5 => h::HeaderTagType::Framebuffer,
                6 => h::HeaderTagType::ModuleAlign,
                7 => h::HeaderTagType::EfiBS,
                8 => h::HeaderTagType::EntryAddressEFI32,
                9 => h::HeaderTagType::EntryAddressEFI64,
                _ => h::HeaderTagType::Relocatable,
            };
            boxed_one(h::HeaderTagHeader::new(ty, hflag(fl), size), &refs, |x| x.size() as usize)
        }
        // the two structure headers have no public constructor: they are copied out of an (empty) built structure; the case
        // line carries exactly that image (size fields are overwritten by new_boxed anyway)
        "bi" => {
            let b = multiboot2::Builder::new().build();
            let hdr = b.header().clone();
            boxed_one(hdr, &refs, |x| multiboot2::BootInformationHeader::total_size(x) as usize)
        }
        "hb" => {
            let arch = if u32::from_le_bytes(hb[4..8].try_into().unwrap()) == 4 { h::HeaderTagISA::MIPS32 } else { h::HeaderTagISA::I386 };
            let magic = u32::from_le_bytes(hb[0..4].try_into().unwrap());
            if magic == h::MAGIC {
                let b = h::Builder::new(arch).build();
                let hdr = b.header().clone();
                boxed_one(hdr, &refs, |x| x.length() as usize)
            } else {
                // a header with a FOREIGN magic: obtained through ref_from_slice (which does not look at the magic)
                let mut img = crate::util::Aligned16([0u8; 16]);
                img.0.copy_from_slice(&hb[0..16]);
                img.0[8..12].copy_from_slice(&16u32.to_le_bytes());
                let hdr = DynSizedStructure::<h::Multiboot2BasicHeader>::ref_from_slice(&img.0).unwrap().header().clone();
                boxed_one(hdr, &refs, |x| x.length() as usize)
            }
        }
        k => format!("unknown-kind:{}", k),
    })
    .unwrap_or_else(|_| "panic".into())
}

fn clone_one<T: MaybeDynSized<Header = TagHeader, Metadata = usize> + ?Sized>(slice: &[u8]) -> String {
    let tag = DynSizedStructure::<TagHeader>::ref_from_slice(slice).unwrap().cast::<T>();
    alloc_track::start();
    let c = clone_dyn(tag);
    let p = &*c as *const T as *const u8 as usize;
    let size = c.header().size as usize;
    let sov = size_of_val(&*c);
    let bytes = unsafe { std::slice::from_raw_parts(p as *const u8, size.min(sov)) }.to_vec();
    drop(c);
    let ev = alloc_track::stop();
    format!("size={} bytes={} sov={} addr8={} {}", size, hex(&bytes), sov, p % 8, alloc_summary(&ev, p))
}

fn clone_h<T: MaybeDynSized<Header = h::HeaderTagHeader, Metadata = usize> + ?Sized>(slice: &[u8]) -> String {
    let tag = DynSizedStructure::<h::HeaderTagHeader>::ref_from_slice(slice).unwrap().cast::<T>();
    alloc_track::start();
    let c = clone_dyn(tag);
    let p = &*c as *const T as *const u8 as usize;
    let size = c.header().size() as usize;
    let sov = size_of_val(&*c);
    let bytes = unsafe { std::slice::from_raw_parts(p as *const u8, size.min(sov)) }.to_vec();
    drop(c);
    let ev = alloc_track::stop();
    format!("size={} bytes={} sov={} addr8={} {}", size, hex(&bytes), sov, p % 8, alloc_summary(&ev, p))
}

/// CLONE <kind> <hex tag image (padded to 8)>
pub fn clone_case(ctx: &crate::Ctx, t: &[&str]) -> String {
    let bytes = unhex(t[2]);
    let p = ctx.arena.place_end(&bytes, 0);
    let slice = unsafe { std::slice::from_raw_parts(p as *const u8, bytes.len()) };
    let kind = t[1].to_string();
    guarded(move || match kind.as_str() {
        "generic" => clone_one::<DynSizedStructure<TagHeader>>(slice),
        "cmdline" => clone_one::<CommandLineTag>(slice),
        "loader" => clone_one::<BootLoaderNameTag>(slice),
        "module" => clone_one::<ModuleTag>(slice),
        "mmap" => clone_one::<MemoryMapTag>(slice),
        "efimmap" => clone_one::<EFIMemoryMapTag>(slice),
        "elf" => clone_one::<ElfSectionsTag>(slice),
        "smbios" => clone_one::<SmbiosTag>(slice),
        "fb" => clone_one::<FramebufferTag>(slice),
        "network" => clone_one::<NetworkTag>(slice),
        "hgeneric" => clone_h::<DynSizedStructure<h::HeaderTagHeader>>(slice),
        "inforeq" => clone_h::<h::InformationRequestHeaderTag>(slice),
        k => format!("unknown-kind:{}", k),
    })
    .unwrap_or_else(|_| "panic".into())
}
