//! Families over multiboot2-common: REF (C14), LOAD (C02), WALK (C03), RND / block hashes.
use crate::util::*;
use crate::Ctx;
use multiboot2::{BootInformation, BootInformationHeader, TagHeader};
use multiboot2_common::test_utils::DummyTestHeader;
use multiboot2_common::{increase_to_alignment, DynSizedStructure, Header, MemoryError, TagIter};
use multiboot2_header::{HeaderTagHeader, Multiboot2BasicHeader};
use std::mem::size_of_val;

pub fn mem_err(e: MemoryError) -> &'static str {
    match e {
        MemoryError::Null => "Null",
        MemoryError::WrongAlignment => "WrongAlignment",
        MemoryError::ShorterThanHeader => "ShorterThanHeader",
        MemoryError::MissingPadding => "MissingPadding",
        MemoryError::InvalidReportedTotalSize => "InvalidReportedTotalSize",
    }
}

fn ref_one<H: Header>(ctx: &Ctx, mis: usize, bytes: &[u8]) -> String {
    let p = ctx.arena.place_end(bytes, mis);
    let slice = unsafe { std::slice::from_raw_parts(p, bytes.len()) };
    let r = guarded(|| {
        DynSizedStructure::<H>::ref_from_slice(slice).map(|d| {
            let addr = d as *const DynSizedStructure<H> as *const u8;
            let pl = d.payload().len();
            let sov = size_of_val(d);
            let hsz = std::mem::size_of::<H>();
            let hdr = unsafe { std::slice::from_raw_parts(addr, hsz) };
            // hash only what lies inside the slice: a view that claims more is visible through `pl`/`sov`
            let avail = bytes.len().saturating_sub(hsz);
            let ph = fnv(&d.payload()[..pl.min(avail)]);
            format!("ok off={} pl={} sov={} hh={:016x} ph={:016x}", off(addr, p), pl, sov, fnv(hdr), ph)
        })
    });
    match r {
        Err(()) => "panic".into(),
        Ok(Err(e)) => format!("err:{}", mem_err(e)),
        Ok(Ok(s)) => s,
    }
}

/// REF <kind> <misalign> <hex>
pub fn ref_case(ctx: &Ctx, t: &[&str]) -> String {
    let mis: usize = t[2].parse().unwrap();
    let bytes = unhex(t[3]);
    match t[1] {
        "tag" => ref_one::<TagHeader>(ctx, mis, &bytes),
        "bi" => ref_one::<BootInformationHeader>(ctx, mis, &bytes),
        "hb" => ref_one::<Multiboot2BasicHeader>(ctx, mis, &bytes),
        "ht" => ref_one::<HeaderTagHeader>(ctx, mis, &bytes),
        "dummy" => ref_one::<DummyTestHeader>(ctx, mis, &bytes),
        k => format!("unknown-kind:{}", k),
    }
}

pub fn load_err(e: multiboot2::LoadError) -> String {
    match e {
        multiboot2::LoadError::Memory(m) => format!("err:{}", mem_err(m)),
        multiboot2::LoadError::NoEndTag => "err:NoEndTag".into(),
    }
}

/// LOAD <null 0|1> <hex region>   (the region is all the readable memory behind the pointer)
pub fn load_case(ctx: &Ctx, t: &[&str]) -> String {
    let null = t[1] == "1";
    let bytes = unhex(t[2]);
    let p = ctx.arena.place_end(&bytes, 0);
    let ptr: *const BootInformationHeader = if null { std::ptr::null() } else { p.cast() };
    let r = guarded(|| unsafe { BootInformation::load(ptr) }.map(|bi| {
        format!(
            "ok start={} end={} total={}",
            bi.start_address() as i64 - p as i64,
            bi.end_address() as i64 - p as i64,
            bi.total_size()
        )
    }));
    match r {
        Err(()) => "panic".into(),
        Ok(Err(e)) => load_err(e),
        Ok(Ok(s)) => s,
    }
}

/// LOADBIG <declared total size> <reserved word> <hex: the last 8 bytes of the declared region>
/// The declared region is really mapped (lazily), so sizes up to 4 GiB are inside the property's hypothesis.
pub fn loadbig_case(t: &[&str]) -> String {
    let declared: usize = t[1].parse().unwrap();
    let reserved: u32 = t[2].parse().unwrap();
    let tail = unhex(t[3]);
    let reg = match BigRegion::new(declared) {
        Some(r) => r,
        None => return "skip:mmap".into(),
    };
    let p = reg.start;
    unsafe {
        std::ptr::copy_nonoverlapping((declared as u32).to_le_bytes().as_ptr(), p, 4);
        std::ptr::copy_nonoverlapping(reserved.to_le_bytes().as_ptr(), p.add(4), 4);
        if declared >= 16 && tail.len() == 8 {
            std::ptr::copy_nonoverlapping(tail.as_ptr(), p.add(declared - 8), 8);
        }
    }
    let r = guarded(|| unsafe { BootInformation::load(p.cast()) }.map(|bi| {
        format!(
            "ok start={} end={} total={}",
            bi.start_address() as i64 - p as i64,
            bi.end_address() as i64 - p as i64,
            bi.total_size()
        )
    }));
    match r {
        Err(()) => "panic".into(),
        Ok(Err(e)) => load_err(e),
        Ok(Ok(s)) => s,
    }
}

fn walk_one<H: Header>(
    ctx: &Ctx,
    buf: &[u8],
    ops: &str,
    typ_of: impl Fn(&DynSizedStructure<H>) -> u32,
    size_of_hdr: impl Fn(&DynSizedStructure<H>) -> u32,
) -> String {
    let p = ctx.arena.place_end(buf, 0);
    let slice = unsafe { std::slice::from_raw_parts(p as *const u8, buf.len()) };
    let mut pool: Vec<Option<TagIter<H>>> = Vec::new();
    match guarded(|| TagIter::<H>::new(slice)) {
        Ok(it) => pool.push(Some(it)),
        Err(()) => return "new-panic".into(),
    }
    let mut out: Vec<String> = Vec::new();
    let mut dead: std::collections::HashMap<usize, TagIter<H>> = std::collections::HashMap::new();
    // only the header kinds whose payload_len asserts `size >= 8` promise to keep refusing after a panic
    let strict_reuse = std::any::type_name::<H>() != std::any::type_name::<DummyTestHeader>();
    for op in ops.split(',').filter(|s| !s.is_empty() && *s != "-") {
        let (c, idx) = op.split_at(1);
        let i: usize = idx.parse().unwrap();
        match c {
            "f" => pool.push(Some(TagIter::<H>::new(slice))),
            "c" => {
                let cl = pool.get(i).and_then(|x| x.clone());
                pool.push(cl);
                out.push("c".into());
            }
            "n" => {
                if let Some(it) = dead.get_mut(&i) {
                    // an iterator whose `next()` panicked is used again: it must panic again (observed as `dead`)
                    if !strict_reuse {
                        out.push("dead".into());
                        continue;
                    }
                    match guarded(|| it.next().is_some()) {
                        Err(()) => out.push("dead".into()),
                        Ok(b) => out.push(format!("dead-resumed:{}", b)),
                    }
                    continue;
                }
                let r = match pool.get_mut(i).and_then(|x| x.as_mut()) {
                    None => {
                        out.push("dead".into());
                        continue;
                    }
                    Some(it) => guarded(|| {
                        it.next().map(|tag| {
                            let addr = tag as *const DynSizedStructure<H> as *const u8;
                            let pay = tag.payload();
                            format!(
                                "item({},{},{},{},{},{:016x})",
                                off(addr, p),
                                typ_of(tag),
                                size_of_hdr(tag),
                                pay.len(),
                                off(pay.as_ptr(), p),
                                fnv(pay)
                            )
                        })
                    }),
                };
                match r {
                    Err(()) => {
                        if let Some(it) = pool[i].take() {
                            dead.insert(i, it);
                        }
                        out.push("panic".into());
                    }
                    Ok(None) => out.push("none".into()),
                    Ok(Some(s)) => out.push(s),
                }
            }
            _ => out.push("badop".into()),
        }
    }
    // iterator-protocol probes on fresh iterators (nothing is appended when every route agrees with `next()`)
    {
        let mk = || TagIter::<H>::new(slice);
        let key = |t: &DynSizedStructure<H>| t as *const DynSizedStructure<H> as *const u8 as usize;
        let mut it = mk();
        let mut m = 0usize;
        let ended = loop {
            match guarded(|| it.next()) {
                Err(()) => break false,
                Ok(None) => break true,
                Ok(Some(_)) => m += 1,
            }
            if m > 600 {
                break true;
            }
        };
        let w = if m > 600 {
            None
        } else if ended {
            probe(mk, key, m, true)
        } else {
            probe_panicked_opt(mk, key, m, strict_reuse)
        };
        if let Some(w) = w {
            out.push(format!("probe:{}", w));
        }
    }
    out.join(";")
}

/// WALK <kind> <hex buffer> <ops>   ops: n<i> next on iterator i, c<i> clone i (appended), f0 fresh iterator (appended)
pub fn walk_case(ctx: &Ctx, t: &[&str]) -> String {
    let buf = unhex(t[2]);
    let ops = t.get(3).copied().unwrap_or("-");
    match t[1] {
        "tag" => walk_one::<TagHeader>(ctx, &buf, ops, |d| d.header().typ.into(), |d| d.header().size),
        "ht" => walk_one::<HeaderTagHeader>(
            ctx,
            &buf,
            ops,
            |d| {
                // read the raw u16: never materialise an enum from arbitrary bytes inside the harness
                let p = d.header() as *const HeaderTagHeader as *const u16;
                unsafe { p.read() as u32 }
            },
            |d| d.header().size(),
        ),
        "dummy" => walk_one::<DummyTestHeader>(ctx, &buf, ops, |d| d.header().typ(), |d| d.header().size()),
        k => format!("unknown-kind:{}", k),
    }
}

/// RND <n>: increase_to_alignment on one argument
pub fn rnd_case(t: &[&str]) -> String {
    let n: usize = t[1].parse().unwrap();
    match guarded(|| increase_to_alignment(n)) {
        Ok(v) => format!("{}", v),
        Err(()) => "panic".into(),
    }
}

/// 64-bit FNV fold of `f` over the 2^20 consecutive arguments of block `b`.
pub fn block_hash(f: &str, b: u64) -> u64 {
    let lo = b << 20;
    let mut h: u64 = 14695981039346656037;
    match f {
        "rnd" => {
            for v in lo..lo + (1 << 20) {
                h = fnv_u64(h, increase_to_alignment(v as usize) as u64);
            }
        }
        "tt" => {
            for v in lo..lo + (1 << 20) {
                h = fnv_u64(h, crate::ids_fam::sig_tt(v as u32));
            }
        }
        "mat" => {
            for v in lo..lo + (1 << 20) {
                h = fnv_u64(h, crate::ids_fam::sig_mat(v as u32));
            }
        }
        "elf" => {
            let mut probe = crate::ids_fam::ElfProbe::new();
            for v in lo..lo + (1 << 20) {
                h = fnv_u64(h, probe.sig(v as u32));
            }
        }
        "cks0" | "cks4" => {
            for v in lo..lo + (1 << 20) {
                h = fnv_u64(h, crate::header_fam::sig_cks(v as u32, f == "cks4"));
            }
        }
        _ => panic!("unknown block function {}", f),
    }
    h
}

/// DEPTH <n> <modules>: a region of <n> empty custom tags (type 0x1337, size 8) followed by <modules> module tags and the end
/// tag, built here (not passed as hex). Counts what `tags()` and `module_tags()` deliver and looks a module up through the
/// typed route: work and STACK per skipped tag must not add up (a recursive skip overflows the stack for large <n>).
pub fn depth_case(t: &[&str]) -> String {
    let n: usize = t[1].parse().unwrap();
    let mods: usize = t[2].parse().unwrap();
    let total = 8 + 8 * n + 24 * mods + 8;
    let mut words: Vec<u64> = vec![0; total / 8];
    let bytes = unsafe { std::slice::from_raw_parts_mut(words.as_mut_ptr() as *mut u8, total) };
    bytes[0..4].copy_from_slice(&(total as u32).to_le_bytes());
    let mut o = 8;
    for _ in 0..n {
        bytes[o..o + 4].copy_from_slice(&0x1337u32.to_le_bytes());
        bytes[o + 4..o + 8].copy_from_slice(&8u32.to_le_bytes());
        o += 8;
    }
    for k in 0..mods {
        bytes[o..o + 4].copy_from_slice(&3u32.to_le_bytes());
        bytes[o + 4..o + 8].copy_from_slice(&20u32.to_le_bytes());
        bytes[o + 8..o + 12].copy_from_slice(&(0x1000u32 * (k as u32 + 1)).to_le_bytes());
        bytes[o + 12..o + 16].copy_from_slice(&(0x1000u32 * (k as u32 + 1) + 0x800).to_le_bytes());
        bytes[o + 16..o + 20].copy_from_slice(b"mod\0");
        o += 24;
    }
    bytes[o + 4..o + 8].copy_from_slice(&8u32.to_le_bytes());
    let p = words.as_ptr() as *const u8;
    let r = guarded(|| {
        let bi = unsafe { BootInformation::load(p.cast()) }.map_err(|_| ())?;
        let tags = bi.tags().count();
        let modules = bi.module_tags().count();
        let first = bi.module_tags().next().map(|m| m.start_address());
        let none = bi.command_line_tag().is_none();
        Ok::<String, ()>(format!("tags={} modules={} first={:?} cmdline_absent={}", tags, modules, first, none))
    });
    match r {
        Err(()) => "panic".into(),
        Ok(Err(())) => "noload".into(),
        Ok(Ok(s)) => s,
    }
}
