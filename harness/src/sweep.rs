//! SWEEP family: load a boot information and call EVERY safe getter, accessor and iterator, each under
//! catch_unwind, printing values and extents (offsets relative to the region base) in one canonical line.
//! Used by C01, C04, C05, C17, C18, C19 (and C08 across build configurations).
use crate::common_fam::load_err;
use crate::util::*;
use crate::Ctx;
use multiboot2::*;
use std::fmt::Write;

macro_rules! fld {
    ($out:expr, $name:expr, $e:expr) => {{
        match guarded(|| $e) {
            Ok(v) => write!($out, "{}={},", $name, v).unwrap(),
            Err(()) => write!($out, "{}=P,", $name).unwrap(),
        }
    }};
}

fn sref(base: *const u8, r: Result<&str, StringError>) -> String {
    match r {
        Ok(s) => format!("s({}:{}:{:016x})", off(s.as_ptr(), base), s.len(), fnv(s.as_bytes())),
        Err(StringError::MissingNul(_)) => "e:MissingNul".into(),
        Err(StringError::Utf8(_)) => "e:Utf8".into(),
    }
}

fn bref(base: *const u8, b: &[u8]) -> String {
    format!("b({}:{}:{:016x})", off(b.as_ptr(), base), b.len(), fnv(b))
}

fn utf8(base: *const u8, r: Result<&str, core::str::Utf8Error>) -> String {
    match r {
        Ok(s) => format!("s({}:{}:{:016x})", off(s.as_ptr(), base), s.len(), fnv(s.as_bytes())),
        Err(_) => "e:Utf8".into(),
    }
}

fn at<T: ?Sized>(base: *const u8, t: &T) -> i64 {
    off(t as *const T as *const u8, base)
}


/// getter wrapper: `-` none, `P` panic, `@off{...}`
fn getter<'a, T: ?Sized + 'a>(
    out: &mut String,
    name: &str,
    base: *const u8,
    g: impl FnOnce() -> Option<&'a T>,
    body: impl FnOnce(&mut String, &'a T),
) {
    write!(out, "{}=", name).unwrap();
    match guarded(g) {
        Err(()) => out.push('P'),
        Ok(None) => out.push('-'),
        Ok(Some(t)) => {
            write!(out, "@{}:{}{{", at(base, t), std::mem::size_of_val(t)).unwrap();
            body(out, t);
            out.push('}');
        }
    }
    out.push(';');
}

pub fn sweep_bi(out: &mut String, base: *const u8, bi: &BootInformation) {
    // tag walk
    out.push_str("tags=");
    {
        let mut it = bi.tags();
        let mut n = 0usize;
        loop {
            match guarded(|| it.next()) {
                Err(()) => {
                    match probe_panicked(|| bi.tags(), |t| t as *const _ as *const u8 as usize, n) {
                        None => out.push_str("|panic"),
                        Some(w) => write!(out, "|probe:{}", w).unwrap(),
                    }
                    break;
                }
                Ok(None) => {
                    match probe(|| bi.tags(), |t| t as *const _ as *const u8 as usize, n, true) {
                        None => out.push_str("|done"),
                        Some(w) => write!(out, "|probe:{}", w).unwrap(),
                    }
                    break;
                }
                Ok(Some(t)) => {
                    n += 1;
                    let typ: u32 = t.header().typ.into();
                    write!(out, "{}:{}:{}:{},", at(base, t), typ, t.header().size, t.payload().len()).unwrap();
                }
            }
        }
    }
    out.push(';');

    getter(out, "apm", base, || bi.apm_tag(), |o, t| {
        fld!(o, "version", t.version());
        fld!(o, "cseg", t.cseg());
        fld!(o, "offset", t.offset());
        fld!(o, "cset_16", t.cset_16());
        fld!(o, "dseg", t.dseg());
        fld!(o, "flags", t.flags());
        fld!(o, "cseg_len", t.cseg_len());
        fld!(o, "cseg_16_len", t.cseg_16_len());
        fld!(o, "dseg_len", t.dseg_len());
    });
    getter(out, "meminfo", base, || bi.basic_memory_info_tag(), |o, t| {
        fld!(o, "lower", t.memory_lower());
        fld!(o, "upper", t.memory_upper());
    });
    getter(out, "loader", base, || bi.boot_loader_name_tag(), |o, t| {
        fld!(o, "typ", u32::from(t.typ()));
        fld!(o, "size", t.size());
        fld!(o, "name", sref(base, t.name()));
    });
    getter(out, "bootdev", base, || bi.bootdev_tag(), |o, t| {
        fld!(o, "biosdev", t.biosdev());
        fld!(o, "slice", t.slice());
        fld!(o, "part", t.part());
    });
    getter(out, "cmdline", base, || bi.command_line_tag(), |o, t| {
        fld!(o, "cmdline", sref(base, t.cmdline()));
    });
    getter(out, "efi_bs", base, || bi.efi_bs_not_exited_tag(), |_o, _t| {});
    getter(out, "efi_ih32", base, || bi.efi_ih32_tag(), |o, t| {
        fld!(o, "handle", t.image_handle());
    });
    getter(out, "efi_ih64", base, || bi.efi_ih64_tag(), |o, t| {
        fld!(o, "handle", t.image_handle());
    });
    getter(out, "efi_mmap", base, || bi.efi_memory_map_tag(), |o, t| efi_mmap(o, base, t));
    getter(out, "efi_sdt32", base, || bi.efi_sdt32_tag(), |o, t| {
        fld!(o, "sdt", t.sdt_address());
    });
    getter(out, "efi_sdt64", base, || bi.efi_sdt64_tag(), |o, t| {
        fld!(o, "sdt", t.sdt_address());
    });
    getter(out, "elf", base, || bi.elf_sections_tag(), |o, t| elf(o, base, t));
    // framebuffer: Option<Result<&Tag, Unknown>>
    out.push_str("fb=");
    match guarded(|| bi.framebuffer_tag()) {
        Err(()) => out.push('P'),
        Ok(None) => out.push('-'),
        Ok(Some(Err(e))) => {
            let s = format!("{}", e);
            write!(out, "unknown:{}", s.rsplit(' ').next().unwrap_or("?")).unwrap()
        }
        Ok(Some(Ok(t))) => {
            write!(out, "@{}:{}{{", at(base, t), std::mem::size_of_val(t)).unwrap();
            fb(out, base, t);
            out.push('}');
        }
    }
    out.push(';');
    getter(out, "load_base", base, || bi.load_base_addr_tag(), |o, t| {
        fld!(o, "addr", t.load_base_addr());
    });
    getter(out, "mmap", base, || bi.memory_map_tag(), |o, t| {
        fld!(o, "entry_size", t.entry_size());
        fld!(o, "entry_version", t.entry_version());
        o.push_str("areas=");
        match guarded(|| t.memory_areas()) {
            Err(()) => o.push('P'),
            Ok(areas) => {
                write!(o, "[{}:{}|", off(areas.as_ptr() as *const u8, base), areas.len()).unwrap();
                for a in areas {
                    write!(o, "{{").unwrap();
                    fld!(o, "start", a.start_address());
                    fld!(o, "end", a.end_address());
                    fld!(o, "size", a.size());
                    fld!(o, "typ", u32::from(a.typ()));
                    write!(o, "}}").unwrap();
                }
                o.push(']');
            }
        }
        o.push(',');
    });
    // modules
    out.push_str("modules=");
    match guarded(|| bi.module_tags()) {
        Err(()) => out.push('P'),
        Ok(mut it) => {
            out.push('[');
            let mut n = 0usize;
            loop {
                match guarded(|| it.next()) {
                    Err(()) => {
                        out.push_str("]!");
                        break;
                    }
                    Ok(None) => {
                        match probe(|| bi.module_tags(), |m| m as *const ModuleTag as *const u8 as usize, n, true) {
                            None => out.push_str("]."),
                            Some(w) => write!(out, "]?{}", w).unwrap(),
                        }
                        break;
                    }
                    Ok(Some(m)) => {
                        n += 1;
                        write!(out, "@{}:{}{{", at(base, m), std::mem::size_of_val(m)).unwrap();
                        fld!(out, "start", m.start_address());
                        fld!(out, "end", m.end_address());
                        fld!(out, "size", m.module_size());
                        fld!(out, "cmdline", sref(base, m.cmdline()));
                        out.push('}');
                    }
                }
            }
        }
    }
    out.push(';');
    getter(out, "network", base, || bi.network_tag(), |_o, _t| {});
    getter(out, "rsdp1", base, || bi.rsdp_v1_tag(), |o, t| {
        fld!(o, "signature", utf8(base, t.signature()));
        fld!(o, "valid", t.checksum_is_valid());
        fld!(o, "oem_id", utf8(base, t.oem_id()));
        fld!(o, "revision", t.revision());
        fld!(o, "rsdt", t.rsdt_address());
    });
    getter(out, "rsdp2", base, || bi.rsdp_v2_tag(), |o, t| {
        fld!(o, "signature", utf8(base, t.signature()));
        fld!(o, "valid", t.checksum_is_valid());
        fld!(o, "oem_id", utf8(base, t.oem_id()));
        fld!(o, "revision", t.revision());
        fld!(o, "xsdt", t.xsdt_address());
        fld!(o, "ext_checksum", t.ext_checksum());
    });
    getter(out, "smbios", base, || bi.smbios_tag(), |o, t| {
        fld!(o, "major", t.major());
        fld!(o, "minor", t.minor());
        fld!(o, "tables", bref(base, t.tables()));
    });
    getter(out, "vbe", base, || bi.vbe_info_tag(), |o, t| vbe(o, t));
    // deprecated elf_sections(): Some/None/panic only (its items are covered by `elf`)
    #[allow(deprecated)]
    {
        out.push_str("elf_sections=");
        match guarded(|| bi.elf_sections().map(|it| it.len())) {
            Err(()) => out.push('P'),
            Ok(None) => out.push('-'),
            Ok(Some(n)) => {
                write!(out, "{}", n).unwrap();
                elf_items(out, || bi.elf_sections().unwrap());
            }
        }
        out.push(';');
    }
    // Debug formatters: only panic / no panic is observed
    out.push_str("debug=");
    match guarded(|| format!("{:?}", bi).len()) {
        Err(()) => out.push('P'),
        Ok(_) => out.push_str("ok"),
    }
    out.push(';');
}

fn rem<I: ExactSizeIterator>(it: &I) -> String {
    let l = it.len();
    let (lo, hi) = it.size_hint();
    if lo == l && hi == Some(l) {
        format!("{}", l)
    } else {
        format!("{}/{}/{:?}", l, lo, hi)
    }
}

fn efi_mmap(o: &mut String, base: *const u8, t: &EFIMemoryMapTag) {
    o.push_str("areas=");
    match guarded(|| t.memory_areas()) {
        Err(()) => o.push('P'),
        Ok(mut it) => {
            write!(o, "[len={}|", guarded(|| rem(&it)).unwrap_or_else(|_| "P".into())).unwrap();
            let mut n = 0usize;
            loop {
                match guarded(|| it.next()) {
                    Err(()) => {
                        o.push_str("]!");
                        break;
                    }
                    Ok(None) => {
                        match probe(|| t.memory_areas(), |d| d as *const _ as *const u8 as usize, n, true) {
                            None => write!(o, "].rem={}", guarded(|| rem(&it)).unwrap_or_else(|_| "P".into())).unwrap(),
                            Some(w) => write!(o, "]?{}", w).unwrap(),
                        }
                        break;
                    }
                    Ok(Some(d)) => {
                        write!(
                            o,
                            "{{@{},ty={},phys={},virt={},pages={},att={},rem={}}}",
                            at(base, d),
                            d.ty.0,
                            d.phys_start,
                            d.virt_start,
                            d.page_count,
                            d.att.bits(),
                            guarded(|| rem(&it)).unwrap_or_else(|_| "P".into())
                        )
                        .unwrap();
                        n += 1;
                        if n > 100000 {
                            o.push_str("]runaway");
                            break;
                        }
                    }
                }
            }
        }
    }
    o.push(',');
}

type ElfKey = (u32, u64, u64, u64, u64);
fn elf_key(s: ElfSection) -> ElfKey {
    (s.section_type_raw(), s.flags().bits(), s.start_address(), s.size(), s.addralign())
}

/// drains an ELF section iterator: `[{..}{..}].` / `]!` (panic) / `]?what` (iterator-protocol probe disagrees)
fn elf_items<'a>(o: &mut String, mk: impl Fn() -> ElfSectionIter<'a>) {
    let mut it = mk();
    o.push('[');
    let mut n = 0usize;
    loop {
        match guarded(|| it.next()) {
            Err(()) => {
                o.push_str("]!");
                break;
            }
            Ok(None) => {
                match probe(&mk, elf_key, n, false) {
                    None => o.push_str("]."),
                    Some(w) => write!(o, "]?{}", w).unwrap(),
                }
                break;
            }
            Ok(Some(s)) => {
                o.push('{');
                fld!(o, "type", s.section_type() as u32);
                fld!(o, "raw", s.section_type_raw());
                fld!(o, "flags", s.flags().bits());
                fld!(o, "start", s.start_address());
                fld!(o, "end", s.end_address());
                fld!(o, "size", s.size());
                fld!(o, "align", s.addralign());
                fld!(o, "alloc", s.is_allocated());
                write!(o, "rem={}", it.len()).unwrap();
                o.push('}');
                n += 1;
                if n > 100000 {
                    o.push_str("]runaway");
                    break;
                }
            }
        }
    }
}

fn elf(o: &mut String, _base: *const u8, t: &ElfSectionsTag) {
    fld!(o, "num", t.number_of_sections());
    fld!(o, "entsize", t.entry_size());
    fld!(o, "shndx", t.shndx());
    o.push_str("sections=");
    match guarded(|| t.sections()) {
        Err(()) => o.push('P'),
        Ok(_) => elf_items(o, || t.sections()),
    }
    o.push(',');
}

fn fb(o: &mut String, base: *const u8, t: &FramebufferTag) {
    fld!(o, "address", t.address());
    fld!(o, "pitch", t.pitch());
    fld!(o, "width", t.width());
    fld!(o, "height", t.height());
    fld!(o, "bpp", t.bpp());
    o.push_str("type=");
    match guarded(|| t.buffer_type()) {
        Err(()) => o.push('P'),
        Ok(Err(e)) => {
            let s = format!("{}", e);
            write!(o, "unknown:{}", s.rsplit(' ').next().unwrap_or("?")).unwrap()
        }
        Ok(Ok(FramebufferType::Indexed { palette })) => {
            let bytes = unsafe { std::slice::from_raw_parts(palette.as_ptr() as *const u8, palette.len() * 3) };
            // hash at most what is inside the arena-visible region; the extent is what matters
            write!(o, "indexed({}:{}:{:016x})", off(bytes.as_ptr(), base), palette.len(), fnv(&bytes[..bytes.len().min(4096)])).unwrap()
        }
        Ok(Ok(FramebufferType::RGB { red, green, blue })) => write!(
            o,
            "rgb({}:{}:{}:{}:{}:{})",
            red.position, red.size, green.position, green.size, blue.position, blue.size
        )
        .unwrap(),
        Ok(Ok(FramebufferType::Text)) => o.push_str("text"),
    }
    o.push(',');
}

fn vbe(o: &mut String, t: &VBEInfoTag) {
    fld!(o, "mode", t.mode());
    fld!(o, "iseg", t.interface_segment());
    fld!(o, "ioff", t.interface_offset());
    fld!(o, "ilen", t.interface_length());
    let c = t.control_info();
    write!(
        o,
        "ci={}:{}:{}:{}:{}:{}:{}:{}:{}:{}:{}:{}:{},",
        c.signature[0],
        c.signature[1],
        c.signature[2],
        c.signature[3],
        { c.version },
        { c.oem_string_ptr },
        { c.capabilities }.bits(),
        { c.mode_list_ptr },
        { c.total_memory },
        { c.oem_software_revision },
        { c.oem_vendor_name_ptr },
        { c.oem_product_name_ptr },
        { c.oem_product_revision_ptr }
    )
    .unwrap();
    let m = t.mode_info();
    // the memory model is an enum-typed field: read its raw byte, never through the enum
    let mm = unsafe { *(core::ptr::addr_of!(m.memory_model) as *const u8) };
    let res = { m.resolution };
    let cs = { m.character_size };
    write!(
        o,
        "mi={}:{}:{}:{}:{}:{}:{}:{}:{}:{}:{}:{}:{}:{}:{}:{}:{}:{}:{}:{}:{}:{}:{}:{}:{}:{}:{}:{}:{}:{}:{}:{}:{},",
        { m.mode_attributes }.bits(),
        { m.window_a_attributes }.bits(),
        { m.window_b_attributes }.bits(),
        { m.window_granularity },
        { m.window_size },
        { m.window_a_segment },
        { m.window_b_segment },
        { m.window_function_ptr },
        { m.pitch },
        res.0,
        res.1,
        cs.0,
        cs.1,
        { m.number_of_planes },
        { m.bpp },
        { m.number_of_banks },
        mm,
        { m.bank_size },
        { m.number_of_image_pages },
        { m.red_field }.size,
        { m.red_field }.position,
        { m.green_field }.size,
        { m.green_field }.position,
        { m.blue_field }.size,
        { m.blue_field }.position,
        { m.reserved_field }.size,
        { m.reserved_field }.position,
        { m.direct_color_attributes }.bits(),
        { m.framebuffer_base_ptr },
        { m.offscreen_memory_offset },
        { m.offscreen_memory_size },
        0,
        0
    )
    .unwrap();
}

/// SWEEP <hex region>
pub fn sweep_case(ctx: &Ctx, t: &[&str]) -> String {
    let bytes = unhex(t[1]);
    let flush_start = t.get(2).map(|s| *s == "start").unwrap_or(false);
    let p = if flush_start { ctx.arena.place_start(&bytes, 0) } else { ctx.arena.place_end(&bytes, 0) };
    let mut out = String::new();
    match guarded(|| unsafe { BootInformation::load(p.cast()) }) {
        Err(()) => out.push_str("ld=panic;"),
        Ok(Err(e)) => {
            write!(out, "ld={};", load_err(e)).unwrap();
        }
        Ok(Ok(bi)) => {
            write!(out, "ld=ok({}:{}:{});", bi.start_address() as i64 - p as i64, bi.end_address() as i64 - p as i64, bi.total_size()).unwrap();
            sweep_bi(&mut out, p, &bi);
            // a TWIN of the region that differs only in the alignment padding behind each tag's declared size: every typed
            // view must compare equal to its twin (`==` / PartialEq is a safe accessor too; padding is never exposed)
            if !flush_start && bytes.len() + 16 <= ctx.arena2.capacity() {
                if let Some(w) = twin_eq(ctx, &bytes, &bi) {
                    write!(out, "eqpad={};", w).unwrap();
                }
            }
        }
    }
    out
}

fn twin_eq(ctx: &Ctx, bytes: &[u8], bi: &BootInformation) -> Option<String> {
    let base = bi.start_address();
    let mut twin = bytes.to_vec();
    let walked = guarded(|| {
        let mut flips: Vec<(usize, usize)> = Vec::new();
        for t in bi.tags() {
            let o = t as *const _ as *const u8 as usize - base;
            let size = t.header().size as usize;
            let typ: u32 = t.header().typ.into();
            // only REAL padding: a tag that declares less than its kind's fixed fields (the cast accepts it when the rounded
            // sizes agree) keeps fields behind its declared size - those bytes are not padding
            const FIXED: [usize; 22] = [8, 8, 8, 16, 16, 20, 16, 784, 32, 20, 28, 12, 16, 16, 28, 44, 8, 16, 8, 12, 16, 12];
            if (typ as usize) < FIXED.len() && size >= FIXED[typ as usize] {
                flips.push((o + size, o + (size + 7) / 8 * 8));
            }
        }
        flips
    });
    let flips = walked.ok()?;
    let mut any = false;
    for (a, b) in flips {
        for i in a..b.min(twin.len()) {
            twin[i] ^= 0xFF;
            any = true;
        }
    }
    if !any {
        return None;
    }
    let q = ctx.arena2.place_end(&twin, 0);
    let bj = guarded(|| unsafe { BootInformation::load(q.cast()) }).ok()?.ok()?;
    let mut bad: Vec<&str> = Vec::new();
    macro_rules! cmp {
        ($name:expr, $g:ident) => {
            if let (Ok(Some(x)), Ok(Some(y))) = (guarded(|| bi.$g()), guarded(|| bj.$g())) {
                if guarded(|| x == y) == Ok(false) {
                    bad.push($name);
                }
            }
        };
    }
    // (ApmTag, BootdevTag and NetworkTag do not implement PartialEq)
    cmp!("meminfo", basic_memory_info_tag);
    cmp!("loader", boot_loader_name_tag);
    cmp!("cmdline", command_line_tag);
    cmp!("efi_bs", efi_bs_not_exited_tag);
    cmp!("efi_ih32", efi_ih32_tag);
    cmp!("efi_ih64", efi_ih64_tag);
    cmp!("efi_mmap", efi_memory_map_tag);
    cmp!("efi_sdt32", efi_sdt32_tag);
    cmp!("efi_sdt64", efi_sdt64_tag);
    cmp!("elf", elf_sections_tag);
    cmp!("load_base", load_base_addr_tag);
    cmp!("mmap", memory_map_tag);
    cmp!("rsdp1", rsdp_v1_tag);
    cmp!("rsdp2", rsdp_v2_tag);
    cmp!("smbios", smbios_tag);
    cmp!("vbe", vbe_info_tag);
    if let (Ok(Some(Ok(x))), Ok(Some(Ok(y)))) = (guarded(|| bi.framebuffer_tag()), guarded(|| bj.framebuffer_tag())) {
        if guarded(|| x == y) == Ok(false) {
            bad.push("fb");
        }
    }
    let ma: Vec<_> = guarded(|| bi.module_tags().collect::<Vec<_>>()).ok()?;
    let mb: Vec<_> = guarded(|| bj.module_tags().collect::<Vec<_>>()).ok()?;
    if ma.len() == mb.len() && ma.iter().zip(mb.iter()).any(|(x, y)| guarded(|| x == y) == Ok(false)) {
        bad.push("modules");
    }
    if bad.is_empty() {
        None
    } else {
        Some(bad.join(","))
    }
}

/// ELFNAME <es> <n> <shndx> <hex entries> <hex string table>
/// Section names dereference the address stored in the string-table section header. The harness points that address
/// (only when the header lies inside the tag) at a zero-padded 64 KiB buffer it owns, then resolves every name.
pub fn elfname_case(ctx: &Ctx, t: &[&str]) -> String {
    let es: u32 = t[1].parse().unwrap();
    let n: u32 = t[2].parse().unwrap();
    let shndx: u32 = t[3].parse().unwrap();
    let entries = unhex(t[4]);
    let strtab = unhex(t[5]);
    let mut tag = Vec::new();
    tag.extend_from_slice(&9u32.to_le_bytes());
    tag.extend_from_slice(&((20 + entries.len()) as u32).to_le_bytes());
    tag.extend_from_slice(&n.to_le_bytes());
    tag.extend_from_slice(&es.to_le_bytes());
    tag.extend_from_slice(&shndx.to_le_bytes());
    tag.extend_from_slice(&entries);
    while tag.len() % 8 != 0 {
        tag.push(ctx.arena.poison);
    }
    let mut region = Vec::new();
    region.extend_from_slice(&((8 + tag.len() + 8) as u32).to_le_bytes());
    region.extend_from_slice(&0u32.to_le_bytes());
    region.extend_from_slice(&tag);
    region.extend_from_slice(&0u32.to_le_bytes());
    region.extend_from_slice(&8u32.to_le_bytes());
    // string table: zero padded
    unsafe {
        std::ptr::write_bytes(ctx.low, 0, 65536);
        std::ptr::copy_nonoverlapping(strtab.as_ptr(), ctx.low, strtab.len().min(60000));
    }
    let hdr_off = 20u64 + shndx as u64 * es as u64;
    if (es == 40 || es == 64) && hdr_off + es as u64 <= 20 + entries.len() as u64 {
        let o = 8 + hdr_off as usize;
        if es == 40 {
            region[o + 12..o + 16].copy_from_slice(&(ctx.low as u32).to_le_bytes());
        } else {
            region[o + 16..o + 24].copy_from_slice(&(ctx.low as u64).to_le_bytes());
        }
    }
    let p = ctx.arena.place_end(&region, 0);
    let mut out = String::new();
    match guarded(|| unsafe { BootInformation::load(p.cast()) }) {
        Ok(Ok(bi)) => match guarded(|| bi.elf_sections_tag().map(|t| t.sections())) {
            Err(()) => out.push('P'),
            Ok(None) => out.push('-'),
            Ok(Some(mut it)) => {
                out.push('[');
                loop {
                    match guarded(|| it.next()) {
                        Err(()) => {
                            out.push_str("]!");
                            break;
                        }
                        Ok(None) => {
                            out.push_str("].");
                            break;
                        }
                        Ok(Some(s)) => match guarded(|| s.name().map(|x| hex(x.as_bytes()))) {
                            Err(()) => out.push_str("P|"),
                            Ok(Ok(h)) => write!(out, "s:{}|", h).unwrap(),
                            Ok(Err(_)) => out.push_str("e:Utf8|"),
                        },
                    }
                }
            }
        },
        _ => out.push_str("noload"),
    }
    out
}
