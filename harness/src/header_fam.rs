//! Families over multiboot2-header: HLOAD / CKS (C10), FIND (C13).
use crate::common_fam::mem_err;
use crate::util::*;
use crate::Ctx;
use multiboot2_header::{HeaderTagISA, LoadError, Multiboot2BasicHeader, Multiboot2Header};

pub fn hload_err(e: LoadError) -> String {
    match e {
        LoadError::Memory(m) => format!("err:{}", mem_err(m)),
        LoadError::MagicNotFound => "err:MagicNotFound".into(),
        LoadError::ChecksumMismatch => "err:ChecksumMismatch".into(),
    }
}

/// HLOAD <null 0|1> <hex region>
pub fn hload_case(ctx: &Ctx, t: &[&str]) -> String {
    let null = t[1] == "1";
    let bytes = unhex(t[2]);
    let p = ctx.arena.place_end(&bytes, 0);
    let ptr: *const Multiboot2BasicHeader = if null { std::ptr::null() } else { p.cast() };
    let r = guarded(|| {
        unsafe { Multiboot2Header::load(ptr) }.map(|h| {
            // the architecture is read as raw word: the harness never materialises an enum from arbitrary bytes
            let arch_raw = unsafe { (p as *const u32).add(1).read() };
            format!(
                "ok magic={:08x} arch={} length={} checksum={:08x} verify={}",
                h.header_magic(),
                arch_raw,
                h.length(),
                h.checksum(),
                h.verify_checksum()
            )
        })
    });
    match r {
        Err(()) => "panic".into(),
        Ok(Err(e)) => hload_err(e),
        Ok(Ok(s)) => s,
    }
}

fn arch_of(a: &str) -> HeaderTagISA {
    if a == "4" {
        HeaderTagISA::MIPS32
    } else {
        HeaderTagISA::I386
    }
}

/// CKS <magic> <arch 0|4> <length>
pub fn cks_case(t: &[&str]) -> String {
    let m: u32 = t[1].parse().unwrap();
    let l: u32 = t[3].parse().unwrap();
    let a = arch_of(t[2]);
    match guarded(|| Multiboot2Header::calc_checksum(m, a, l)) {
        Ok(c) => format!("{}", c),
        Err(()) => "panic".into(),
    }
}

#[inline(never)]
pub fn sig_cks(v: u32, mips: bool) -> u64 {
    let v = std::hint::black_box(v);
    let a = if mips { HeaderTagISA::MIPS32 } else { HeaderTagISA::I386 };
    let c1 = Multiboot2Header::calc_checksum(multiboot2_header::MAGIC, a, v);
    let m2 = v.wrapping_mul(2654435761);
    let c2 = Multiboot2Header::calc_checksum(m2, a, v);
    (c1 as u64) ^ ((c2 as u64) << 32)
}

/// FIND <mis> <buflen> <sparse>   sparse = off:hex,off:hex,... (everything else zero)
pub fn find_case(ctx: &Ctx, t: &[&str]) -> String {
    let mis: usize = t[1].parse().unwrap();
    let len: usize = t[2].parse().unwrap();
    let mut buf = vec![0u8; len];
    if let Some(sp) = t.get(3) {
        for part in sp.split(',').filter(|s| !s.is_empty() && *s != "-") {
            let (o, h) = part.split_once(':').unwrap();
            let o: usize = o.parse().unwrap();
            let b = unhex(h);
            for (i, x) in b.iter().enumerate() {
                if o + i < len {
                    buf[o + i] = *x;
                }
            }
        }
    }
    let p = ctx.arena.place_end(&buf, mis);
    let slice = unsafe { std::slice::from_raw_parts(p as *const u8, len) };
    let r = guarded(|| {
        Multiboot2Header::find_header(slice).map(|o| {
            o.map(|(s, idx)| format!("some({},{},{},{:016x})", idx, off(s.as_ptr(), p), s.len(), fnv(s)))
        })
    });
    match r {
        Err(()) => "panic".into(),
        Ok(Err(e)) => hload_err(e),
        Ok(Ok(None)) => "none".into(),
        Ok(Ok(Some(s))) => s,
    }
}
