//! Families over multiboot2-header: HLOAD / CKS (C10), FIND (C13).
use crate::common_fam::mem_err;
use crate::util::*;
use crate::Ctx;
use multiboot2_header::{HeaderTagISA, LoadError, Multiboot2BasicHeader, Multiboot2Header};

pub fn hload_err(e: LoadError) -> String {
    match e {
        LoadError::Memory(m) => format!("err:{}", mem_err(m)),
        LoadError::MagicNotFound => "err:MagicNotFound".into(),
        LoadError::ChecksumMismatch => "err:ChecksumMismatch".into(),
    }
}

/// HLOAD <null 0|1> <hex region>
pub fn hload_case(ctx: &Ctx, t: &[&str]) -> String {
    let null = t[1] == "1";
    let bytes = unhex(t[2]);
    let p = ctx.arena.place_end(&bytes, 0);
    let ptr: *const Multiboot2BasicHeader = if null { std::ptr::null() } else { p.cast() };
    let r = guarded(|| {
        unsafe { Multiboot2Header::load(ptr) }.map(|h| {
            // the architecture is read as raw word: the harness never materialises an enum from arbitrary bytes
            let arch_raw = unsafe { (p as *const u32).add(1).read() };
            format!(
                "ok magic={:08x} arch={} length={} checksum={:08x} verify={}",
                h.header_magic(),
                arch_raw,
                h.length(),
                h.checksum(),
                h.verify_checksum()
            )
        })
    });
    match r {
        Err(()) => "panic".into(),
        Ok(Err(e)) => hload_err(e),
        Ok(Ok(s)) => s,
    }
}

fn arch_of(a: &str) -> HeaderTagISA {
    if a == "4" {
        HeaderTagISA::MIPS32
    } else {
        HeaderTagISA::I386
    }
}

/// CKS <magic> <arch 0|4> <length>
pub fn cks_case(t: &[&str]) -> String {
    let m: u32 = t[1].parse().unwrap();
    let l: u32 = t[3].parse().unwrap();
    let a = arch_of(t[2]);
    match guarded(|| Multiboot2Header::calc_checksum(m, a, l)) {
        Ok(c) => format!("{}", c),
        Err(()) => "panic".into(),
    }
}

#[inline(never)]
pub fn sig_cks(v: u32, mips: bool) -> u64 {
    let v = std::hint::black_box(v);
    let a = if mips { HeaderTagISA::MIPS32 } else { HeaderTagISA::I386 };
    let c1 = Multiboot2Header::calc_checksum(multiboot2_header::MAGIC, a, v);
    let m2 = v.wrapping_mul(2654435761);
    let c2 = Multiboot2Header::calc_checksum(m2, a, v);
    (c1 as u64) ^ ((c2 as u64) << 32)
}

/// FIND <mis> <buflen> <sparse>   sparse = off:hex,off:hex,... (everything else zero)
pub fn find_case(ctx: &Ctx, t: &[&str]) -> String {
    let mis: usize = t[1].parse().unwrap();
    let len: usize = t[2].parse().unwrap();
    let mut buf = vec![0u8; len];
    if let Some(sp) = t.get(3) {
        for part in sp.split(',').filter(|s| !s.is_empty() && *s != "-") {
            let (o, h) = part.split_once(':').unwrap();
            let o: usize = o.parse().unwrap();
            let b = unhex(h);
            for (i, x) in b.iter().enumerate() {
                if o + i < len {
                    buf[o + i] = *x;
                }
            }
        }
    }
    let p = ctx.arena.place_end(&buf, mis);
    let slice = unsafe { std::slice::from_raw_parts(p as *const u8, len) };
    let r = guarded(|| {
        Multiboot2Header::find_header(slice).map(|o| {
            o.map(|(s, idx)| format!("some({},{},{},{:016x})", idx, off(s.as_ptr(), p), s.len(), fnv(s)))
        })
    });
    match r {
        Err(()) => "panic".into(),
        Ok(Err(e)) => hload_err(e),
        Ok(Ok(None)) => "none".into(),
        Ok(Ok(Some(s))) => s,
    }
}

// ------------------------------------------------------------------------------------------------ HSWEEP (C09, C11)

use multiboot2_header as h;
use std::fmt::Write;

macro_rules! hfld {
    ($out:expr, $name:expr, $e:expr) => {{
        match guarded(|| $e) {
            Ok(v) => write!($out, "{}={},", $name, v).unwrap(),
            Err(()) => write!($out, "{}=P,", $name).unwrap(),
        }
    }};
}

fn hgetter<'a, T: ?Sized + 'a>(out: &mut String, name: &str, base: *const u8, g: impl FnOnce() -> Option<&'a T>, body: impl FnOnce(&mut String, &'a T)) {
    write!(out, "{}=", name).unwrap();
    match guarded(g) {
        Err(()) => out.push('P'),
        Ok(None) => out.push('-'),
        Ok(Some(t)) => {
            write!(out, "@{}:{}{{", off(t as *const T as *const u8, base), std::mem::size_of_val(t)).unwrap();
            body(out, t);
            out.push('}');
        }
    }
    out.push(';');
}

macro_rules! common {
    ($o:expr, $t:expr) => {{
        hfld!($o, "typ", $t.typ() as u16);
        hfld!($o, "flags", $t.flags() as u16);
        hfld!($o, "size", $t.size());
    }};
}

/// HSWEEP <hex region>: load the header and call every safe accessor / getter / iterator / Debug
pub fn hsweep_case(ctx: &Ctx, t: &[&str]) -> String {
    let bytes = unhex(t[1]);
    let p = ctx.arena.place_end(&bytes, 0);
    let mut out = String::new();
    let hd = match guarded(|| unsafe { Multiboot2Header::load(p.cast()) }) {
        Err(()) => return "ld=panic;".into(),
        Ok(Err(e)) => return format!("ld={};", hload_err(e)),
        Ok(Ok(hd)) => hd,
    };
    write!(out, "ld=ok({}:{}:{}:{}:{});", hd.header_magic(), hd.arch() as u32, hd.length(), hd.checksum(), hd.verify_checksum()).unwrap();
    out.push_str("tags=");
    {
        let mut it = hd.iter();
        let mut n = 0usize;
        loop {
            match guarded(|| it.next()) {
                Err(()) => {
                    match probe_panicked(|| hd.iter(), |t| t as *const _ as *const u8 as usize, n) {
                        None => out.push_str("|panic"),
                        Some(w) => write!(out, "|probe:{}", w).unwrap(),
                    }
                    break;
                }
                Ok(None) => {
                    match probe(|| hd.iter(), |t| t as *const _ as *const u8 as usize, n, true) {
                        None => out.push_str("|done"),
                        Some(w) => write!(out, "|probe:{}", w).unwrap(),
                    }
                    break;
                }
                Ok(Some(tag)) => {
                    n += 1;
                    let tp = tag as *const _ as *const u8;
                    let typ = unsafe { (tp as *const u16).read() };
                    let fl = unsafe { (tp as *const u16).add(1).read() };
                    write!(out, "{}:{}:{}:{}:{},", off(tp, p), typ, fl, tag.header().size(), tag.payload().len()).unwrap();
                }
            }
        }
    }
    out.push(';');
    hgetter(&mut out, "inforeq", p, || hd.information_request_tag(), |o, t| {
        common!(o, t);
        let r = t.requests();
        let v: Vec<String> = r.iter().map(|x| format!("{}", u32::from(*x))).collect();
        write!(o, "requests=[{}:{}|{}],", off(r.as_ptr() as *const u8, p), r.len(), v.join(":")).unwrap();
        hfld!(o, "debug", format!("{:?}", t).len() > 0);
    });
    hgetter(&mut out, "address", p, || hd.address_tag(), |o, t| {
        common!(o, t);
        hfld!(o, "header_addr", t.header_addr());
        hfld!(o, "load_addr", t.load_addr());
        hfld!(o, "load_end_addr", t.load_end_addr());
        hfld!(o, "bss_end_addr", t.bss_end_addr());
        hfld!(o, "debug", format!("{:?}", t).len() > 0);
    });
    hgetter(&mut out, "entry", p, || hd.entry_address_tag(), |o, t| {
        common!(o, t);
        hfld!(o, "entry_addr", t.entry_addr());
        hfld!(o, "debug", format!("{:?}", t).len() > 0);
    });
    hgetter(&mut out, "efi32", p, || hd.entry_address_efi32_tag(), |o, t| {
        common!(o, t);
        hfld!(o, "entry_addr", t.entry_addr());
        hfld!(o, "debug", format!("{:?}", t).len() > 0);
    });
    hgetter(&mut out, "efi64", p, || hd.entry_address_efi64_tag(), |o, t| {
        common!(o, t);
        hfld!(o, "entry_addr", t.entry_addr());
        hfld!(o, "debug", format!("{:?}", t).len() > 0);
    });
    hgetter(&mut out, "console", p, || hd.console_flags_tag(), |o, t| {
        common!(o, t);
        hfld!(o, "console_flags", t.console_flags() as u32);
        hfld!(o, "debug", format!("{:?}", t).len() > 0);
    });
    hgetter(&mut out, "fb", p, || hd.framebuffer_tag(), |o, t| {
        common!(o, t);
        hfld!(o, "width", t.width());
        hfld!(o, "height", t.height());
        hfld!(o, "depth", t.depth());
        hfld!(o, "debug", format!("{:?}", t).len() > 0);
    });
    hgetter(&mut out, "modalign", p, || hd.module_align_tag(), |o, t| {
        common!(o, t);
        hfld!(o, "debug", format!("{:?}", t).len() > 0);
    });
    hgetter(&mut out, "efibs", p, || hd.efi_boot_services_tag(), |o, t| {
        common!(o, t);
        hfld!(o, "debug", format!("{:?}", t).len() > 0);
    });
    hgetter(&mut out, "reloc", p, || hd.relocatable_tag(), |o, t| {
        common!(o, t);
        hfld!(o, "min_addr", t.min_addr());
        hfld!(o, "max_addr", t.max_addr());
        hfld!(o, "align", t.align());
        hfld!(o, "preference", t.preference() as u32);
        hfld!(o, "debug", format!("{:?}", t).len() > 0);
    });
    out.push_str("debug=");
    match guarded(|| format!("{:?}", hd).len()) {
        Err(()) => out.push('P'),
        Ok(_) => out.push_str("ok"),
    }
    out.push(';');
    out
}
