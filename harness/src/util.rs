//! Shared helpers: hex, FNV-1a, guarded arena, panic capture.
use std::panic::{catch_unwind, AssertUnwindSafe};

pub fn unhex(s: &str) -> Vec<u8> {
    if s == "-" {
        return Vec::new();
    }
    let b = s.as_bytes();
    assert!(b.len() % 2 == 0, "odd hex");
    let v = |c: u8| match c {
        b'0'..=b'9' => c - b'0',
        b'a'..=b'f' => c - b'a' + 10,
        b'A'..=b'F' => c - b'A' + 10,
        _ => panic!("bad hex"),
    };
    b.chunks(2).map(|p| v(p[0]) * 16 + v(p[1])).collect()
}

pub fn hex(b: &[u8]) -> String {
    if b.is_empty() {
        return "-".into();
    }
    let mut s = String::with_capacity(b.len() * 2);
    for x in b {
        s.push_str(&format!("{:02x}", x));
    }
    s
}

pub fn fnv(b: &[u8]) -> u64 {
    let mut h: u64 = 14695981039346656037;
    for x in b {
        h = (h ^ (*x as u64)).wrapping_mul(1099511628211);
    }
    h
}

pub fn fnv_step(h: u64, x: u8) -> u64 {
    (h ^ (x as u64)).wrapping_mul(1099511628211)
}

pub fn fnv_u32(mut h: u64, v: u32) -> u64 {
    for x in v.to_le_bytes() {
        h = fnv_step(h, x);
    }
    h
}
pub fn fnv_u64(mut h: u64, v: u64) -> u64 {
    for x in v.to_le_bytes() {
        h = fnv_step(h, x);
    }
    h
}

extern "C" {
    fn mmap(addr: *mut u8, len: usize, prot: i32, flags: i32, fd: i32, off: i64) -> *mut u8;
    fn mprotect(addr: *mut u8, len: usize, prot: i32) -> i32;
}
const PROT_NONE: i32 = 0;
const PROT_RW: i32 = 3;
const MAP_PRIVATE: i32 = 2;
const MAP_ANON: i32 = 0x20;
pub const PAGE: usize = 4096;

/// An arena `[guard page][N data pages][guard page]`; regions are placed flush against
/// either guard so that a read past the permitted extent faults.
pub struct Arena {
    base: *mut u8,
    pages: usize,
    pub poison: u8,
}

impl Arena {
    pub fn new(pages: usize) -> Self {
        let len = (pages + 2) * PAGE;
        let base = unsafe { mmap(std::ptr::null_mut(), len, PROT_RW, MAP_PRIVATE | MAP_ANON, -1, 0) };
        assert!(!base.is_null() && base as isize != -1, "mmap failed");
        unsafe {
            assert_eq!(mprotect(base, PAGE, PROT_NONE), 0);
            assert_eq!(mprotect(base.add((pages + 1) * PAGE), PAGE, PROT_NONE), 0);
        }
        let poison = std::env::var("VERIF_POISON")
            .ok()
            .and_then(|v| v.parse::<u8>().ok())
            .unwrap_or(0xA5);
        Self { base, pages, poison }
    }
    pub fn capacity(&self) -> usize {
        self.pages * PAGE
    }
    fn data(&self) -> *mut u8 {
        unsafe { self.base.add(PAGE) }
    }
    fn fill(&self) {
        unsafe { std::ptr::write_bytes(self.data(), self.poison, self.pages * PAGE) };
    }
    /// Copy `bytes` so that they END as close to the upper guard page as the requested
    /// misalignment `mis` (start address mod 8) allows. Everything else is poison.
    pub fn place_end(&self, bytes: &[u8], mis: usize) -> *mut u8 {
        assert!(bytes.len() + 16 <= self.capacity(), "region too large for arena");
        self.fill();
        let end = self.data() as usize + self.pages * PAGE;
        let mut start = end - bytes.len();
        while start % 8 != mis % 8 {
            start -= 1;
        }
        let p = start as *mut u8;
        unsafe { std::ptr::copy_nonoverlapping(bytes.as_ptr(), p, bytes.len()) };
        p
    }
    /// Copy `bytes` so that they START right after the lower guard page (+ `mis`).
    pub fn place_start(&self, bytes: &[u8], mis: usize) -> *mut u8 {
        assert!(bytes.len() + 16 <= self.capacity(), "region too large for arena");
        self.fill();
        let p = unsafe { self.data().add(mis % 8) };
        unsafe { std::ptr::copy_nonoverlapping(bytes.as_ptr(), p, bytes.len()) };
        p
    }
}

/// 64 KiB of zeroed memory below 4 GiB (so that a 32-bit ELF `addr` field can point to it)
pub fn low_buffer() -> *mut u8 {
    const MAP_32BIT: i32 = 0x40;
    let p = unsafe { mmap(std::ptr::null_mut(), 65536 + PAGE, PROT_RW, MAP_PRIVATE | MAP_ANON | MAP_32BIT, -1, 0) };
    assert!(!p.is_null() && p as isize != -1 && (p as usize) < (1usize << 32), "low mmap failed");
    p
}

/// Run `f`, mapping an unwinding panic to `Err(())`.
pub fn guarded<T>(f: impl FnOnce() -> T) -> Result<T, ()> {
    catch_unwind(AssertUnwindSafe(f)).map_err(|_| ())
}

pub fn off(p: *const u8, base: *const u8) -> i64 {
    (p as i64) - (base as i64)
}
