//! Shared helpers: hex, FNV-1a, guarded arena, panic capture.
use std::panic::{catch_unwind, AssertUnwindSafe};

pub fn unhex(s: &str) -> Vec<u8> {
    if s == "-" {
        return Vec::new();
    }
    let b = s.as_bytes();
    assert!(b.len() % 2 == 0, "odd hex");
    let v = |c: u8| match c {
        b'0'..=b'9' => c - b'0',
        b'a'..=b'f' => c - b'a' + 10,
        b'A'..=b'F' => c - b'A' + 10,
        _ => panic!("bad hex"),
    };
    b.chunks(2).map(|p| v(p[0]) * 16 + v(p[1])).collect()
}

pub fn hex(b: &[u8]) -> String {
    if b.is_empty() {
        return "-".into();
    }
    let mut s = String::with_capacity(b.len() * 2);
    for x in b {
        s.push_str(&format!("{:02x}", x));
    }
    s
}

pub fn fnv(b: &[u8]) -> u64 {
    let mut h: u64 = 14695981039346656037;
    for x in b {
        h = (h ^ (*x as u64)).wrapping_mul(1099511628211);
    }
    h
}

pub fn fnv_step(h: u64, x: u8) -> u64 {
    (h ^ (x as u64)).wrapping_mul(1099511628211)
}

pub fn fnv_u32(mut h: u64, v: u32) -> u64 {
    for x in v.to_le_bytes() {
        h = fnv_step(h, x);
    }
    h
}
pub fn fnv_u64(mut h: u64, v: u64) -> u64 {
    for x in v.to_le_bytes() {
        h = fnv_step(h, x);
    }
    h
}

extern "C" {
    fn mmap(addr: *mut u8, len: usize, prot: i32, flags: i32, fd: i32, off: i64) -> *mut u8;
    fn mprotect(addr: *mut u8, len: usize, prot: i32) -> i32;
    fn munmap(addr: *mut u8, len: usize) -> i32;
}

/// A REALLY mapped region of `len` bytes (anonymous, zero-filled on demand, not reserved) that ends at a PROT_NONE page:
/// used for declared sizes up to 4 GiB of which only the first and the last bytes are ever written.
pub struct BigRegion {
    base: *mut u8,
    map_len: usize,
    pub start: *mut u8,
}
impl BigRegion {
    pub fn new(len: usize) -> Option<Self> {
        const MAP_NORESERVE: i32 = 0x4000;
        let pages = (len.max(8) + PAGE - 1) / PAGE;
        let map_len = (pages + 1) * PAGE;
        let base = unsafe { mmap(std::ptr::null_mut(), map_len, PROT_RW, MAP_PRIVATE | MAP_ANON | MAP_NORESERVE, -1, 0) };
        if base.is_null() || base as isize == -1 {
            return None;
        }
        unsafe {
            if mprotect(base.add(pages * PAGE), PAGE, PROT_NONE) != 0 {
                munmap(base, map_len);
                return None;
            }
        }
        // the region ends as close to the guard page as 8-alignment of its start allows
        let r8 = (len.max(8) + 7) / 8 * 8;
        let start = unsafe { base.add(pages * PAGE - r8) };
        Some(Self { base, map_len, start })
    }
}
impl Drop for BigRegion {
    fn drop(&mut self) {
        unsafe { munmap(self.base, self.map_len) };
    }
}
const PROT_NONE: i32 = 0;
const PROT_RW: i32 = 3;
const MAP_PRIVATE: i32 = 2;
const MAP_ANON: i32 = 0x20;
pub const PAGE: usize = 4096;

/// An arena `[guard page][N data pages][guard page]`; regions are placed flush against
/// either guard so that a read past the permitted extent faults.
pub struct Arena {
    base: *mut u8,
    pages: usize,
    pub poison: u8,
}

impl Arena {
    pub fn new(pages: usize) -> Self {
        let len = (pages + 2) * PAGE;
        let base = unsafe { mmap(std::ptr::null_mut(), len, PROT_RW, MAP_PRIVATE | MAP_ANON, -1, 0) };
        assert!(!base.is_null() && base as isize != -1, "mmap failed");
        unsafe {
            assert_eq!(mprotect(base, PAGE, PROT_NONE), 0);
            assert_eq!(mprotect(base.add((pages + 1) * PAGE), PAGE, PROT_NONE), 0);
        }
        let poison = std::env::var("VERIF_POISON")
            .ok()
            .and_then(|v| v.parse::<u8>().ok())
            .unwrap_or(0xA5);
        Self { base, pages, poison }
    }
    pub fn capacity(&self) -> usize {
        self.pages * PAGE
    }
    fn data(&self) -> *mut u8 {
        unsafe { self.base.add(PAGE) }
    }
    fn fill(&self) {
        unsafe { std::ptr::write_bytes(self.data(), self.poison, self.pages * PAGE) };
    }
    /// Copy `bytes` so that they END as close to the upper guard page as the requested
    /// misalignment `mis` (start address mod 8) allows. Everything else is poison.
    pub fn place_end(&self, bytes: &[u8], mis: usize) -> *mut u8 {
        assert!(bytes.len() + 16 <= self.capacity(), "region too large for arena");
        self.fill();
        let end = self.data() as usize + self.pages * PAGE;
        let mut start = end - bytes.len();
        while start % 8 != mis % 8 {
            start -= 1;
        }
        let p = start as *mut u8;
        unsafe { std::ptr::copy_nonoverlapping(bytes.as_ptr(), p, bytes.len()) };
        p
    }
    /// Copy `bytes` so that they START right after the lower guard page (+ `mis`).
    pub fn place_start(&self, bytes: &[u8], mis: usize) -> *mut u8 {
        assert!(bytes.len() + 16 <= self.capacity(), "region too large for arena");
        self.fill();
        let p = unsafe { self.data().add(mis % 8) };
        unsafe { std::ptr::copy_nonoverlapping(bytes.as_ptr(), p, bytes.len()) };
        p
    }
}

/// 64 KiB of zeroed memory below 4 GiB (so that a 32-bit ELF `addr` field can point to it)
pub fn low_buffer() -> *mut u8 {
    const MAP_32BIT: i32 = 0x40;
    let p = unsafe { mmap(std::ptr::null_mut(), 65536 + PAGE, PROT_RW, MAP_PRIVATE | MAP_ANON | MAP_32BIT, -1, 0) };
    assert!(!p.is_null() && p as isize != -1 && (p as usize) < (1usize << 32), "low mmap failed");
    p
}

#[repr(C, align(16))]
pub struct Aligned16(pub [u8; 16]);

/// a `fmt::Write` that only counts
pub struct Sink(pub usize);
impl std::fmt::Write for Sink {
    fn write_str(&mut self, s: &str) -> std::fmt::Result {
        self.0 += s.len();
        Ok(())
    }
}

/// Run `f`, mapping an unwinding panic to `Err(())`.
pub fn guarded<T>(f: impl FnOnce() -> T) -> Result<T, ()> {
    catch_unwind(AssertUnwindSafe(f)).map_err(|_| ())
}

pub fn off(p: *const u8, base: *const u8) -> i64 {
    (p as i64) - (base as i64)
}


/// Iterator-protocol probe: every other route through the `Iterator` API (`nth`, `count`, `last`, `skip`, `step_by`,
/// `size_hint`, clones taken mid-way) must agree with plain `next()`-draining. `mk` makes a fresh iterator, `key` renders an
/// item as a comparable key (address or decoded fields). Returns what disagreed, or None. Only called when the plain drain
/// ended normally with `n` items. (Round 7: positions up to n+3, and the iterator must STAY exhausted / continue correctly
/// after `nth` / `skip`.)
pub fn probe<I, K>(mk: impl Fn() -> I, key: impl Fn(I::Item) -> K + Copy, n: usize, hint: bool) -> Option<String>
where
    I: Iterator + Clone,
    K: PartialEq,
{
    if n > 512 {
        return None;
    }
    let r = guarded(|| {
        let refs: Vec<K> = mk().map(key).collect();
        if refs.len() != n {
            return Some(format!("collect:{}", refs.len()));
        }
        for k in 0..=n + 3 {
            let mut it = mk();
            let got = it.nth(k).map(key);
            if got.as_ref() != refs.get(k) {
                return Some(format!("nth({})", k));
            }
            if k >= n {
                // the end has been reported: the iterator stays exhausted whatever is asked next
                if it.next().is_some() || it.nth(0).is_some() || it.nth(2).is_some() || it.next().is_some() {
                    return Some(format!("nth({})-then-next", k));
                }
            } else if it.next().map(key).as_ref() != refs.get(k + 1) {
                return Some(format!("nth({})-then-next", k));
            }
            let mut sk = mk().skip(k);
            if sk.next().map(key).as_ref() != refs.get(k) {
                return Some(format!("skip({})", k));
            }
            if sk.next().map(key).as_ref() != refs.get(k + 1) || (k >= n && sk.next().is_some()) {
                return Some(format!("skip({})-then-next", k));
            }
        }
        if mk().count() != n {
            return Some("count".into());
        }
        if mk().last().map(key).as_ref() != refs.last() {
            return Some("last".into());
        }
        for s in 1..=3usize {
            let got: Vec<K> = mk().step_by(s).map(key).collect();
            let want: Vec<&K> = refs.iter().step_by(s).collect();
            if got.len() != want.len() || got.iter().zip(want.iter()).any(|(a, b)| a != *b) {
                return Some(format!("step_by({})", s));
            }
        }
        // (the ELF iterator reports the number of ENTRIES left, of which unused ones are skipped: its lower bound is not
        // compared - the property says nothing about it)
        let (lo, hi) = mk().size_hint();
        if hint && (lo > n || hi.map(|h| h < n).unwrap_or(false)) {
            return Some("size_hint".into());
        }
        // consecutive nth(0) calls behave like next(); nth after exhaustion stays None
        let mut it = mk();
        for k in 0..n {
            if it.nth(0).map(key).as_ref() != refs.get(k) {
                return Some(format!("nth0@{}", k));
            }
        }
        if it.nth(0).is_some() || it.next().is_some() || it.nth(3).is_some() {
            return Some("after-end".into());
        }
        // nth(j) from every position i lands on item i+j
        for i in 0..=n.min(6) {
            for j in 0..=3usize {
                let mut it = mk();
                for _ in 0..i {
                    it.next();
                }
                if it.nth(j).map(key).as_ref() != refs.get(i + j) {
                    return Some(format!("nth({})@{}", j, i));
                }
            }
        }
        // the consumers built on `fold` / `try_fold` (count, last, for_each, fold, find, position, all, max_by_key ...) from
        // EVERY position: a partially consumed iterator continues with exactly the remaining suffix
        for i in 0..=n.min(6) {
            let adv = || {
                let mut it = mk();
                for _ in 0..i {
                    it.next();
                }
                it
            };
            if adv().count() != n - i {
                return Some(format!("count@{}", i));
            }
            if adv().last().map(key).as_ref() != refs[i..].last() {
                return Some(format!("last@{}", i));
            }
            let folded: Vec<K> = adv().fold(Vec::new(), |mut v, x| {
                v.push(key(x));
                v
            });
            if folded.len() != n - i || folded.iter().zip(refs[i..].iter()).any(|(a, b)| a != b) {
                return Some(format!("fold@{}", i));
            }
            let mut seen = 0usize;
            adv().for_each(|_| seen += 1);
            if seen != n - i {
                return Some(format!("for_each@{}", i));
            }
            let mut visited = 0usize;
            if !adv().all(|_| {
                visited += 1;
                true
            }) || visited != n - i
            {
                return Some(format!("all@{}", i));
            }
            let mut cnt = 0usize;
            if adv().position(|_| {
                cnt += 1;
                false
            })
            .is_some()
                || cnt != n - i
            {
                return Some(format!("position@{}", i));
            }
            let mut idx = 0usize;
            let picked = adv().max_by_key(|_| {
                idx += 1;
                idx
            });
            if picked.map(key).as_ref() != refs[i..].last() {
                return Some(format!("max_by_key@{}", i));
            }
            let mut idx2 = 0usize;
            let reduced = adv().map(|x| {
                idx2 += 1;
                (idx2, x)
            })
            .reduce(|a, b| if b.0 > a.0 { b } else { a });
            if reduced.map(|p| key(p.1)).as_ref() != refs[i..].last() || idx2 != n - i {
                return Some(format!("reduce@{}", i));
            }
        }
        // clones taken at every position continue with the remaining suffix
        let mut it = mk();
        for k in 0..=n {
            let rest: Vec<K> = it.clone().map(key).collect();
            if rest.len() != n - k || rest.iter().zip(refs[k..].iter()).any(|(a, b)| a != b) {
                return Some(format!("clone@{}", k));
            }
            it.next();
        }
        None
    });
    match r {
        Ok(x) => x,
        Err(()) => Some("panic".into()),
    }
}

/// The same idea for a walk that ENDED IN A PANIC after `m` delivered items: every other route must deliver the same `m`
/// items and then panic as well - in particular it must not hop over the malformed element (and read whatever lies behind
/// it) or report a clean end.
pub fn probe_panicked<I, K>(mk: impl Fn() -> I, key: impl Fn(I::Item) -> K + Copy, m: usize) -> Option<String>
where
    I: Iterator,
    K: PartialEq,
{
    probe_panicked_opt(mk, key, m, true)
}

/// `strict_reuse`: the iterator must keep panicking when used again after its panic (holds for the header kinds whose
/// `payload_len` asserts `size >= 8`; the wrapping arithmetic of the test-only `DummyTestHeader` gives no such guarantee)
pub fn probe_panicked_opt<I, K>(mk: impl Fn() -> I, key: impl Fn(I::Item) -> K + Copy, m: usize, strict_reuse: bool) -> Option<String>
where
    I: Iterator,
    K: PartialEq,
{
    if m > 512 {
        return None;
    }
    let mut refs: Vec<K> = Vec::new();
    {
        let mut it = mk();
        for _ in 0..m {
            match guarded(|| it.next()) {
                Ok(Some(x)) => refs.push(key(x)),
                _ => return Some("replay".into()),
            }
        }
        if guarded(|| it.next()).is_ok() {
            return Some("replay-end".into());
        }
        // the SAME iterator used again after its panic was caught: it must keep refusing (a controlled panic again) - it
        // must not resume somewhere, report a clean end, or look at memory the malformed element pointed to
        for _ in 0..3 {
            if strict_reuse && guarded(|| it.next()).is_ok() {
                return Some("resumed-after-panic".into());
            }
        }
    }
    for k in 0..=m + 3 {
        match (guarded(|| mk().nth(k).map(key)), k < m) {
            (Ok(Some(x)), true) if x == refs[k] => {}
            (Err(()), false) => {}
            _ => return Some(format!("nth({})!", k)),
        }
        match (guarded(|| mk().skip(k).next().map(key)), k < m) {
            (Ok(Some(x)), true) if x == refs[k] => {}
            (Err(()), false) => {}
            _ => return Some(format!("skip({})!", k)),
        }
    }
    if guarded(|| mk().count()).is_ok() {
        return Some("count!".into());
    }
    if guarded(|| mk().last().map(key)).is_ok() {
        return Some("last!".into());
    }
    for s in 2..=3usize {
        let mut it = mk().step_by(s);
        let mut i = 0usize;
        loop {
            match (guarded(|| it.next().map(key)), i < m) {
                (Ok(Some(x)), true) if x == refs[i] => i += s,
                (Err(()), false) => break,
                _ => return Some(format!("step_by({})!", s)),
            }
        }
    }
    None
}
