"""Pins the statements of all registered theorems: python3 -m vlib.pin  (writes stmt_sha into Props/INDEX.json)."""
import json
import os

from . import core


def main():
    p = os.path.join(core.LEAN, "Mb2", "Props", "INDEX.json")
    idx = json.load(open(p))
    ok, out = core.lake_build(["Mb2.Props." + k for k in idx])
    assert ok, out[-2000:]
    for prop, entry in sorted(idx.items()):
        res, _ = core.audit(prop, entry["theorems"])
        bad = [t for t in entry["theorems"] if not res[t]["ok"]]
        assert not bad, (prop, bad, [res[t]["why"] for t in bad])
        entry["stmt_sha"] = {t: res[t]["stmt_sha"] for t in entry["theorems"]}
        print(prop, len(entry["theorems"]), "theorems pinned")
    json.dump(idx, open(p, "w"), indent=1)


if __name__ == "__main__":
    main()
