"""Per-property definitions: which builds, which cases, how to compare, what is trivial."""
import os
import re
import struct

from . import core

PROPS = {}


def hx(b):
    return b.hex() if b else "-"


def u32(v):
    return struct.pack("<I", v & 0xFFFFFFFF)


def u16(v):
    return struct.pack("<H", v & 0xFFFF)


def u64(v):
    return struct.pack("<Q", v & 0xFFFFFFFFFFFFFFFF)


def rbytes(rng, n):
    return bytes(rng.getrandbits(8) for _ in range(n))


def pad8(b, rng=None):
    r = (-len(b)) % 8
    if rng is None:
        return b + b"\0" * r
    return b + rbytes(rng, r)


class PropDef:
    id = None
    poison = False
    cross_config = False
    blocks_exhaustive = False
    skip_model_ub = False   # cases on which the model says `ub` lie outside the property's hypothesis
    ub_is_known = False
    rule = ""
    assumptions = []
    trivial_prefixes = ()

    def configs(self, tier):
        return ["dev", "release"]

    def corpus(self):
        p = os.path.join(core.VERIF, "corpus", self.id + ".case")
        if os.path.exists(p):
            return [l.strip() for l in open(p) if l.strip() and not l.startswith("#")]
        return []

    def gen(self, tier, rng):
        return []

    def block_plan(self, tier, rng):
        return []

    def stream(self, tier, rng):
        """chunks (lists of cases) of a finite domain too large to hold in memory at once"""
        return iter(())

    def expand_block(self, fn, block, config, workdir):
        return None

    def canon(self, line):
        return line

    def oracle(self, case, impl, config):
        """Extra implementation-side oracle; returns a reason string on failure."""
        return None

    def trivial(self, model_line):
        return any(model_line.startswith(p) for p in self.trivial_prefixes)

    def match_known(self, known, case, impl, config):
        for k in known:
            if re.search(k["case_regex"], case) and re.search(k.get("impl_regex", ""), impl):
                return k
        return None

    def sample_idx(self, cases, rng):
        if not cases:
            return []
        n = len(cases)
        return sorted(set([0, n // 3, (2 * n) // 3, n - 1]))


def register(cls):
    PROPS[cls.id] = cls()
    return cls


def boundary_blocks():
    vals = [0, 1, 21, 22, 255, 256, 65535, 65536, 0x36D76289, 0xE85250D6, 0x5FFFFFFF, 0x60000000, 0x6FFFFFFF, 0x70000000,
            0x7FFFFFFF, 0x80000000, 0xFFFFFFFF, 0xFFFFFFF8]
    return sorted(set(v >> 20 for v in vals))


def block_list(tier, rng, nrand=48):
    if tier == "thorough":
        return list(range(4096))
    bl = set(boundary_blocks())
    while len(bl) < len(boundary_blocks()) + nrand:
        bl.add(rng.randrange(4096))
    return sorted(bl)


# =========================================================================== C14

HK = {"tag": (8, 4), "bi": (8, 0), "hb": (16, 8), "ht": (8, 4), "dummy": (8, 4)}


def ref_case(kind, mis, length, declared, rng):
    hs, so = HK[kind]
    b = bytearray(rbytes(rng, length))
    if so == 4 and length >= 4 and rng.random() < 0.35:
        # the type word: 0 (end tag), small specified numbers, 2^32-1 - a header kind must not treat any of them specially
        b[0:4] = u32(rng.choice([0, 0, 0, 1, 3, 8, 21, 22, 0xFFFFFFFF]))[:min(4, length)]
    w = u32(declared)
    for i in range(4):
        if so + i < length:
            b[so + i] = w[i]
    return "REF %s %d %s" % (kind, mis, hx(bytes(b)))


@register
class C14(PropDef):
    id = "C14"
    blocks_exhaustive = True
    rule = ("REF: every (header kind, slice length 0..40, declared size 0..56) at alignment 0 and a sample of sizes at "
            "misalignments 1..7, random bytes elsewhere, plus random large slices with the declared size around the slice "
            "length; RND: rounding arguments around multiples of 8 / 2^32 / 2^64; block hashes of increase_to_alignment over "
            "2^20-value blocks (thorough: all 4096 blocks = every argument below 2^32). Non-trivial = distinct cases whose "
            "outcome is not ShorterThanHeader.")
    assumptions = ["slice lengths are below 2^63 (every Rust slice)", "u64 = usize (64-bit target)"]
    trivial_prefixes = ("err:ShorterThanHeader",)

    def gen(self, tier, rng):
        cases = []
        maxlen = 40 if tier == "quick" else 64
        for kind in HK:
            for length in list(range(0, maxlen + 1)) + list(range(maxlen + 8, 2 * maxlen + 1, 8)):
                ds = range(0, length + 18) if length % 8 == 0 else (0, 7, 8, 9, 16, length - 1, length, length + 1, length + 8)
                for d in ds:
                    cases.append(ref_case(kind, 0, length, max(0, d), rng))
                for mis in range(1, 8):
                    for d in (0, 8, length, length + 8):
                        cases.append(ref_case(kind, mis, length, d, rng))
            n = 300 if tier == "quick" else 3000
            for _ in range(n):
                length = rng.choice([rng.randrange(0, 4096), rng.randrange(0, 64) * 8])
                d = max(0, length + rng.choice([-17, -16, -9, -8, -7, -1, 0, 1, 7, 8, 9, 16, 4096, 0x7FFFFFFF]))
                if rng.random() < 0.2:
                    d = rng.getrandbits(32)
                cases.append(ref_case(kind, rng.choice([0, 0, 0, rng.randrange(8)]), length, d, rng))
        for base in [0, 8, 16, 4096, 2**31, 2**32, 2**32 + 8, 2**63, 2**64 - 16, 2**64 - 8]:
            for dlt in range(-9, 10):
                v = base + dlt
                if 0 <= v < 2**64:
                    cases.append("RND %d" % v)
        for _ in range(200):
            cases.append("RND %d" % rng.getrandbits(rng.choice([8, 16, 32, 48, 64])))
        return cases

    def block_plan(self, tier, rng):
        return [("rnd", block_list(tier, rng))]

    def expand_block(self, fn, block, config, workdir):
        lo = block << 20
        cases = ["RND %d" % v for v in range(lo, lo + (1 << 20), 1)]
        impl = core.run_harness_par(config, cases, workdir, jobs=8)
        spec = core.run_driver_par(["spec"], cases, workdir, "expand", jobs=8)
        for cs, a, s in zip(cases, impl, spec):
            if not core.admits(s, a):
                return {"case": cs, "impl": a, "spec": s}
        return None


# =========================================================================== C02

def mbi_region(total_word, reserved, body, tail8, rng, extra=0):
    """header (total, reserved) + body + last 8 bytes; the memory behind the pointer is max(8, declared) + extra."""
    b = u32(total_word) + u32(reserved) + body + tail8
    return b


@register
class C02(PropDef):
    id = "C02"
    rule = ("LOAD: null pointer; every declared total size 0..72 x 16 corruptions of the final 8 bytes (type/size of the end "
            "tag off by one bit/byte) x reserved word 0/random, memory behind the pointer = max(8, declared) bytes placed flush "
            "against a PROT_NONE page; random sizes up to 1 MiB. Non-trivial = distinct cases not ending in ShorterThanHeader/Null.")
    assumptions = ["the pointer is 8-aligned and the declared region is readable (the documented contract of load)"]
    trivial_prefixes = ("err:ShorterThanHeader", "err:Null")

    def tails(self, rng):
        t = [(0, 8), (1, 8), (0, 9), (0, 0), (0, 16), (256, 8), (0, 8 + 256), (0xFFFFFFFF, 8), (0, 0xFFFFFFFF), (0, 7),
             (0x10000, 8), (0, 0x10008), (0x1000000, 8), (0, 0x1000008), (8, 0), (rng.getrandbits(32), rng.getrandbits(32))]
        return t

    def region(self, t, reserved, tail, rng):
        mem = max(8, t)
        b = bytearray(rbytes(rng, mem))
        b[0:4] = u32(t)
        b[4:8] = u32(reserved)
        if t >= 16:
            b[t - 8:t - 4] = u32(tail[0])
            b[t - 4:t] = u32(tail[1])
        return bytes(b)

    def gen(self, tier, rng):
        cases = ["LOAD 1 -", "LOAD 1 " + hx(u32(16) + u32(0) + u32(0) + u32(8))]
        # declared sizes below the header: only max(4, declared) bytes are readable
        for t in range(0, 8):
            for w in (0, 8, 0xFFFFFFFF):
                cases.append("LOAD 0 " + hx((u32(t) + u32(w))[:max(4, t)]))
        top = 72 if tier == "quick" else 136
        for t in list(range(0, top + 1)) + list(range(top + 8, 8 * top, 8)):
            tails = self.tails(rng) if t % 8 == 0 else [(0, 8), (1, 8)]
            for tail in tails:
                for reserved in (0, rng.getrandbits(32)):
                    cases.append("LOAD 0 " + hx(self.region(t, reserved, tail, rng)))
            if t % 8 == 0:
                for _ in range(3):
                    cases.append("LOAD 0 " + hx(self.region(t, rng.getrandbits(32), (0, 8), rng)))
        n = 24 if tier == "quick" else 400
        for _ in range(n):
            t = rng.choice([rng.randrange(0, 1 << 18), rng.randrange(0, 1 << 15) * 8, rng.randrange(0, 4096), rng.randrange(0, 512) * 8])
            tail = rng.choice(self.tails(rng))
            cases.append("LOAD 0 " + hx(self.region(t, rng.getrandbits(32), tail, rng)))
        for t in (1 << 20, (1 << 20) - 8, (1 << 20) - 1):
            cases.append("LOAD 0 " + hx(self.region(t, 0, (0, 8), rng)))
        # a proper end tag FOLLOWED by all-zero words up to the declared end (the last 8 bytes are what counts), also with
        # nothing but zeros behind the header
        for k in (1, 2, 3, 5):
            for pre in (0, 8, 24):
                for reserved in (0, rng.getrandbits(32)):
                    body = rbytes(rng, pre) + u32(0) + u32(8) + b"\0" * (8 * k)
                    cases.append("LOAD 0 " + hx(u32(8 + len(body)) + u32(reserved) + body))
            cases.append("LOAD 0 " + hx(u32(8 + 8 * k) + u32(0) + b"\0" * (8 * k)))
        # declared sizes up to 4 GiB: the harness really maps the region (lazily), the model side is the closed form of
        # `load` (theorem C02.load_eq_closed); around 2^31 / 2^32 and a few in between
        for t in (1 << 24, (1 << 28) + 8, (1 << 31) - 8, (1 << 31) - 1, 1 << 31, (1 << 31) + 1, (1 << 31) + 4, (1 << 31) + 8,
                  0xC0000000, 0xC0000002, 0xFFFFFFF0, 0xFFFFFFF8, 0xFFFFFFF9, 0xFFFFFFFF):
            for tail in ((0, 8), (1, 8), (0, 16)):
                for reserved in (0, 8, 0xFFFFFFFF):
                    cases.append("LOADBIG %d %d %s" % (t, reserved, hx(u32(tail[0]) + u32(tail[1]))))
        return cases


# DEPTH <n> <modules>: regions of up to 300000 empty tags in front of the modules, built inside the harness and the driver's
# closed form (tags = n + modules + 1): stack or work that adds up per skipped tag shows at this size
DEPTH_CASES = ["DEPTH %d %d" % (n, m) for n in (0, 1, 1000, 100000, 300000) for m in (0, 1, 3)]

# =========================================================================== C03

def tag_area(sizes, rng, kind="tag", total=None):
    """Concatenate tags with the given declared sizes; each occupies roundUp8(max(size, 8)) bytes unless truncated by `total`."""
    b = bytearray()
    for s in sizes:
        typ = rng.choice([0, 1, 3, 3, 4, 21, 22, rng.getrandbits(32)])
        if kind == "ht":
            typ = rng.choice([0, 1, 2, 3, 4, 5, 6, 7, 8, 9, 10]) | (rng.choice([0, 1]) << 16)
        hdr = u32(typ) + u32(s)
        occ = max(8, (s + 7) // 8 * 8) if s < 4096 else 8
        body = rbytes(rng, occ - 8)
        b += hdr + body
    if total is not None:
        if len(b) < total:
            b += rbytes(rng, total - len(b))
        b = b[:total]
    return bytes(b)


def rand_ops(rng, n):
    ops = []
    pool = 1
    for _ in range(n):
        r = rng.random()
        if r < 0.7:
            ops.append("n%d" % rng.randrange(pool))
        elif r < 0.9:
            ops.append("c%d" % rng.randrange(pool))
            pool += 1
        else:
            ops.append("f0")
            pool += 1
    return ",".join(ops)


def compositions(total_units, maxparts):
    """all ways to write total_units as an ordered sum of positive integers (units of 8 bytes)"""
    if total_units == 0:
        yield []
        return
    if maxparts == 0:
        return
    for first in range(1, total_units + 1):
        for rest in compositions(total_units - first, maxparts - 1):
            yield [first] + rest


@register
class C03(PropDef):
    id = "C03"
    rule = ("WALK over the three tag-header kinds (info TagHeader, HeaderTagHeader, DummyTestHeader): every tiling of a tag area "
            "of 0..48 bytes by tags (all compositions in units of 8), each tag's declared size at every residue "
            "(occupied-7..occupied) and, per tiling, one tag made too small (0..7), too large (leaving the area) or huge; "
            "random larger areas; each with a drain history plus random next/clone/fresh interleavings; DEPTH: regions of 0 .. 300000 "
            "empty tags in front of 0 / 1 / 3 modules, built inside the harness (tags(), module_tags(), typed lookup vs the closed form). "
            "Non-trivial = distinct cases yielding at least one item.")
    assumptions = ["the tag area is 8-aligned and a multiple of 8 long (guaranteed by load / ref_from_slice)"]

    def trivial(self, model_line):
        return "item(" not in model_line

    def gen(self, tier, rng):
        cases = []
        drain = lambda k: ",".join(["n0"] * (k + 3))
        maxu = 6 if tier == "quick" else 8
        for kind in ("tag", "ht", "dummy"):
            for units in range(0, maxu + 1):
                for comp in compositions(units, 6):
                    # exact tilings with every residue
                    for _ in range(2 if tier == "quick" else 4):
                        sizes = [8 * u - rng.randrange(0, 8) if u > 1 else 8 for u in comp]
                        area = tag_area(sizes, rng, kind)
                        cases.append("WALK %s %s %s" % (kind, hx(area), drain(len(comp))))
                        cases.append("WALK %s %s %s" % (kind, hx(area), rand_ops(rng, 3 * len(comp) + 6)))
                    # one corrupted tag
                    for j in range(len(comp)):
                        for bad in (rng.randrange(0, 8), 8 * comp[j] + 1, 8 * (units - sum(comp[:j])) + 1,
                                    8 * (units - sum(comp[:j])) + 8, 0xFFFFFFFF, 0x80000000, rng.getrandbits(32)):
                            sizes = [8 * u for u in comp]
                            area = bytearray(tag_area(sizes, rng, kind))
                            o = 8 * sum(comp[:j])
                            area[o + 4:o + 8] = u32(bad)
                            cases.append("WALK %s %s %s" % (kind, hx(bytes(area)), drain(len(comp))))
            n = 150 if tier == "quick" else 1500
            for _ in range(n):
                k = rng.randrange(1, 30)
                sizes = [rng.choice([8, 8, 9, 12, 15, 16, 17, 24, 31, 32, 40, 100, rng.randrange(8, 300)]) for _ in range(k)]
                area = bytearray(tag_area(sizes, rng, kind))
                if rng.random() < 0.3 and len(area) >= 8:
                    o = rng.randrange(0, len(area) // 8) * 8
                    area[o + 4:o + 8] = u32(rng.choice([0, 4, 7, len(area) - o + 1, len(area) - o + 8, rng.getrandbits(32)]))
                cases.append("WALK %s %s %s" % (kind, hx(bytes(area)), rand_ops(rng, rng.randrange(5, 40))))
        # the MODULE iterator (part of the property): regions with modules, also behind tags of type 0 in the middle
        return cases + _mbi.gen_interior_end(rng) + _mbi.gen_wellformed(rng, 20 if tier == "quick" else 200) + DEPTH_CASES

    def oracle(self, case, impl, config):
        if case.startswith("SWEEP"):
            try:
                return _oracle.probe_violation(impl) or _oracle.c03_modules_oracle(case, impl) or _oracle.c04_oracle(case, impl)
            except Exception as e:
                return "oracle could not parse the observation: %r" % (e,)
        return None


# =========================================================================== C20

def expected_sig(fn, v):
    """Independent transcription of the property text (not of the model) for the per-value signatures."""
    if fn == "tt":
        idx = v if v <= 21 else 22
        bits = 1 | 2 | 4 | 8 | 16 | 32 | 512 | 1024 | 2048 | 4096 | 8192 | 16384 | 32768 | 65536 | 131072 | 262144 | 524288
        return (idx << 48) ^ (bits << 32) ^ v ^ (v << 7)
    if fn == "mat":
        idx = v if 1 <= v <= 5 else 0
        return (idx << 48) ^ ((3 | 16 | 32 | 64) << 32) ^ v
    if fn == "elf":
        if v <= 11:
            return v
        if 0x60000000 <= v <= 0x6FFFFFFF:
            return 0x60000000
        if 0x70000000 <= v <= 0x7FFFFFFF:
            return 0x70000000
        return 0
    if fn == "rnd":
        return (v + 7) // 8 * 8
    if fn in ("cks0", "cks4"):
        a = 4 if fn == "cks4" else 0
        c1 = (-(0xE85250D6 + a + v)) % (1 << 32)
        m2 = (v * 2654435761) % (1 << 32)
        c2 = (-(m2 + a + v)) % (1 << 32)
        return c1 ^ (c2 << 32)
    raise ValueError(fn)


def expand_block_sigs(fn, block, config):
    import subprocess
    lo = block << 20
    r = subprocess.run([core.harness_bin(config), "sigs", fn, str(lo), str(1 << 20)], capture_output=True, text=True)
    for line in r.stdout.split("\n"):
        t = line.split()
        if len(t) == 2:
            v = int(t[0])
            got = int(t[1], 16)
            exp = expected_sig(fn, v)
            if got != exp:
                return {"case": "SIG %s %d" % (fn, v), "impl": "%016x" % got, "spec": "%016x" % exp}
    if r.returncode != 0:
        return {"case": "SIG %s block %d" % (fn, block), "impl": "crash rc=%d" % r.returncode, "spec": "no crash"}
    return None


@register
class C20(PropDef):
    id = "C20"
    blocks_exhaustive = True
    rule = ("block hashes of per-value signatures (variant index, round-trip value, value through the id wrapper, the six "
            "equality impls on equal and on differing operands) for TagType/TagTypeId, MemoryAreaType/MemoryAreaTypeId and "
            "the ELF section-type classification (through a real ElfSectionsTag), over blocks of 2^20 consecutive u32 values: "
            "quick = all boundary blocks + 48 seeded random blocks, thorough = all 4096 blocks (every u32); FBT: all 256 "
            "framebuffer type bytes through FramebufferTag::buffer_type, each with colour-information fields of 0, 1, 2, 5, 6, 7, 8 bytes; MAGIC: the two exported constants. "
            "Non-trivial = distinct FBT/MAGIC cases (blocks are counted in evaluations).")
    assumptions = ["FNV-1a-64 block hashes: a collision could hide a single differing value"]

    def gen(self, tier, rng):
        # all 256 type bytes x colour-information fields of every relevant length (none, 1, 2, 5, 6, 7 bytes and 8)
        infos = ["-", "01", "0100", "0100030405", "010003040506", "01000304050607", "0100030405060708"]
        return ["MAGIC"] + ["FBT %d" % b for b in range(256)] + ["FBT %d %s" % (b, i) for b in range(256) for i in infos]

    def block_plan(self, tier, rng):
        bl = block_list(tier, rng)
        return [("tt", bl), ("mat", bl), ("elf", bl)]

    def expand_block(self, fn, block, config, workdir):
        return expand_block_sigs(fn, block, config)


# =========================================================================== C10

HMAGIC = 0xE85250D6


def header_region(magic, arch, length, checksum, rng, mem=None):
    n = max(16, length) if mem is None else mem
    b = bytearray(rbytes(rng, n))
    b[0:4] = u32(magic)
    b[4:8] = u32(arch)
    b[8:12] = u32(length)
    b[12:16] = u32(checksum)
    return bytes(b)


def cksum(m, a, l):
    return (-(m + a + l)) % (1 << 32)


@register
class C10(PropDef):
    id = "C10"
    blocks_exhaustive = True
    rule = ("HLOAD: null pointer; every declared length 0..80 x both architectures x {correct, off-by-one, bit-flipped, "
            "zero, random} checksum x {correct, bit-flipped, byte-swapped, zero} magic, memory = max(16, length) bytes flush "
            "against a guard page, lengths up to 64 KiB sampled; CKS: checksum for boundary and random (magic, arch, length); "
            "block hashes of calc_checksum(MAGIC, arch, v) and calc_checksum(v*2654435761, arch, v) for both architectures "
            "(thorough: all 2^32 lengths). Non-trivial = distinct cases not ending in ShorterThanHeader/Null.")
    assumptions = ["the pointer is 8-aligned, the declared length is readable, the architecture word is 0 or 4 (hypotheses of the property)"]
    trivial_prefixes = ("err:ShorterThanHeader", "err:Null")

    def gen(self, tier, rng):
        cases = ["HLOAD 1 -", "HLOAD 1 " + hx(header_region(HMAGIC, 0, 16, cksum(HMAGIC, 0, 16), rng))]
        top = 80 if tier == "quick" else 200
        for length in list(range(0, top + 1)) + list(range(top + 8, 6 * top, 8)):
            for arch in (0, 4):
                good = cksum(HMAGIC, arch, length)
                cks = [good] if length % 8 else [good, good, (good + 1) % 2**32, good ^ 0x80000000, 0, rng.getrandbits(32), (good - 1) % 2**32]
                for ck in cks:
                    cases.append("HLOAD 0 " + hx(header_region(HMAGIC, arch, length, ck, rng)))
                if length % 8 == 0:
                    for magic in (HMAGIC ^ 1, HMAGIC ^ 0x80000000, 0xD65052E8, 0, 0x36D76289):
                        cases.append("HLOAD 0 " + hx(header_region(magic, arch, length, cksum(magic, arch, length), rng)))
        for _ in range(60 if tier == "quick" else 600):
            length = rng.choice([rng.randrange(0, 1 << 16), rng.randrange(0, 1 << 13) * 8])
            arch = rng.choice([0, 4])
            magic = rng.choice([HMAGIC, HMAGIC, HMAGIC, rng.getrandbits(32)])
            ck = rng.choice([cksum(magic, arch, length), cksum(magic, arch, length), rng.getrandbits(32)])
            cases.append("HLOAD 0 " + hx(header_region(magic, arch, length, ck, rng)))
        for m in (0, 1, HMAGIC, 0x7FFFFFFF, 0x80000000, 0xFFFFFFFF):
            for a in (0, 4):
                for l in (0, 1, 2, 16, 0x7FFFFFFF, 0x80000000, 0xFFFFFFFE, 0xFFFFFFFF, (-m) % 2**32, (-m - a) % 2**32, (-m - a + 1) % 2**32):
                    cases.append("CKS %d %d %d" % (m, a, l))
        for _ in range(300):
            cases.append("CKS %d %d %d" % (rng.getrandbits(32), rng.choice([0, 4]), rng.getrandbits(32)))
        return cases

    def block_plan(self, tier, rng):
        bl = block_list(tier, rng)
        return [("cks0", bl), ("cks4", bl)]

    def expand_block(self, fn, block, config, workdir):
        return expand_block_sigs(fn, block, config)


# =========================================================================== C13

def find_case(length, items, mis=0):
    sp = ",".join("%d:%s" % (o, b.hex()) for o, b in items if b) or "-"
    return "FIND %d %d %s" % (mis, length, sp)


@register
class C13(PropDef):
    id = "C13"
    rule = ("FIND: buffers of every length 0..80 and around 8192/16384 (every length within +-16 of the window bounds), "
            "zero-filled with a magic at every position 0..40 and 8150..8200 (aligned, misaligned, straddling the window end "
            "and the buffer end), stored header lengths {0, 8, 16, fits exactly, one too many, huge}, a second magic behind the "
            "first, partial magics; random sparse buffers. Non-trivial = distinct cases whose outcome is not `none`.")
    assumptions = ["the buffer start is 8-aligned (hypothesis of the property); usize = 64 bit"]
    trivial_prefixes = ("none",)

    def canon(self, line):
        return "err" if line.startswith("err:") else line

    def gen(self, tier, rng):
        cases = []
        magic = u32(HMAGIC)

        def hdr(length_word):
            return magic + u32(0) + u32(length_word) + u32(cksum(HMAGIC, 0, length_word))

        lens = list(range(0, 81)) + list(range(8192 - 16, 8192 + 17)) + list(range(16384 - 8, 16384 + 9)) + [4096, 12288, 8192 + 40]
        for n in lens:
            cases.append(find_case(n, []))
            cases.append(find_case(n, [(max(0, n - 3), magic[:3])]))
            for pos in sorted(set([0, 1, 7, 8, 9, 16, n - 16, n - 12, n - 11, n - 8, n - 5, n - 4, n - 3, 8176, 8184, 8185, 8188, 8189, 8192])):
                if pos < 0 or pos > n:
                    continue
                for lw in (0, 16, n - pos, n - pos + 1, 0xFFFFFFFF, 24):
                    cases.append(find_case(n, [(pos, hdr(max(0, lw)))]))
        positions = list(range(0, 41)) + list(range(8150, 8201))
        for n in (64, 8192, 8200, 9000, 16384):
            for pos in positions:
                if pos > n:
                    continue
                for lw in (16, 40, n - pos, n - pos + 8):
                    cases.append(find_case(n, [(pos, hdr(lw))]))
                cases.append(find_case(n, [(pos, hdr(16)), (pos + 24, hdr(16))]))
                cases.append(find_case(n, [(pos, magic[:3] + b"\x00"), (pos + 8, hdr(16))]))
        for _ in range(200 if tier == "quick" else 3000):
            n = rng.choice([rng.randrange(0, 200), rng.randrange(8000, 8400), rng.randrange(0, 16384)])
            items = []
            for _ in range(rng.randrange(0, 4)):
                pos = rng.choice([rng.randrange(0, max(1, n)), rng.randrange(0, max(1, n // 8 + 1)) * 8])
                items.append((pos, rng.choice([hdr(rng.choice([0, 8, 16, 64, n, rng.getrandbits(32)])), magic, magic[:rng.randrange(1, 4)], rbytes(rng, 8)])))
            cases.append(find_case(n, items))
        for mis in (1, 4, 7):
            cases.append(find_case(64, [(8, hdr(16))], mis))
        # the magic directly behind a proper PREFIX of itself (d6 / d6 50 / d6 50 52), aligned and misaligned, also twice
        for n in (64, 8192 + 64):
            for pos in (8, 16, 24, 12, 8184, 8176):
                if pos + 16 > n:
                    continue
                for k in (1, 2, 3):
                    cases.append(find_case(n, [(pos - k, magic[:k]), (pos, hdr(16))]))
                    cases.append(find_case(n, [(pos - k, magic[:k]), (pos, hdr(16)), (pos + 32, hdr(16))]))
                cases.append(find_case(n, [(pos - 4, magic[:1] * 4), (pos, hdr(16))]))
        return cases


# =========================================================================== SWEEP-based properties

from . import mbi as _mbi        # noqa: E402
from . import oracle as _oracle  # noqa: E402


def rand_utf8_(rng, n):
    alphabet = ["a", "b", "Z", " ", "0", "-", "/", "é", "ß", "€", "😀", "\u0001", "~"]
    return "".join(rng.choice(alphabet) for _ in range(n)).encode("utf-8")


def string_ctor_cases(rng, tier):
    """the three string constructors: every length 0..17 and some longer, ASCII and multi-byte texts, each also WITH a
    trailing NUL (stored as it is), texts that are only a NUL / only multi-byte characters"""
    cases = []
    for name, pre in (("cmdline", 0), ("loader", 0), ("module", 8)):
        def emit(s):
            p = b""
            if pre:
                a = rng.getrandbits(31)
                p = u32(a) + u32(a + rng.randrange(1, 1 << 20))
            cases.append("CTOR %s %s" % (name, hx(p + s)))
        for n in list(range(0, 18)) + [31, 32, 33, 100, 255, 256, 257, 1000]:
            for _ in range(2 if tier == "quick" else 8):
                s = rand_utf8_(rng, n)
                emit(s)
                emit(s + b"\0")
        for s in ("ü", "€", "😀", "aü", "üa", "grüb", "日本語", "a€😀z"):
            emit(s.encode("utf-8"))
            emit(s.encode("utf-8") + b"\0")
        emit(b"\0")
        # texts ending in SEVERAL NULs / with NULs inside: stored as they are
        for s in (b"hello\0\0", b"a\0b\0\0", b"\0\0", b"\0\0\0", b"x\0\0\0", "ü\0\0".encode("utf-8")):
            emit(s)
    cases.append("CTOR module " + hx(u32(5) + u32(5) + b"x"))
    cases.append("CTOR module " + hx(u32(6) + u32(5) + b"x"))
    cases.append("CTOR module " + hx(u32(0xFFFFFFFE) + u32(0xFFFFFFFF)))
    return cases



class SweepProp(PropDef):
    oracle_fn = None
    trivial_prefixes = ()
    assumptions = ["the region is 8-aligned, readable for its declared size, placed flush against a PROT_NONE guard page",
                   "ELF section NAMES are not called (documented to dereference an external address)"]

    def trivial(self, model_line):
        return not model_line.startswith("ld=ok")

    def oracle(self, case, impl, config):
        if not case.startswith("SWEEP"):
            return None
        if impl.startswith("crash"):
            return "the process crashed (%s)" % impl
        ev = _oracle.eqpad_violation(impl) or _oracle.probe_violation(impl)
        if ev:
            return ev
        try:
            return type(self).oracle_fn(case, impl)
        except Exception as e:  # an unparsable observation is a finding of its own
            return "oracle could not parse the observation: %r" % (e,)


@register
class C18(SweepProp):
    id = "C18"
    oracle_fn = staticmethod(_oracle.c18_oracle)
    rule = ("SWEEP over EFI memory-map tags: descriptor sizes 0..65 + {72,80,96,120,127,128} (thorough: all 0..128) x versions "
            "{1,0,2} x map lengths {0, 8, d-8, d, d+8, 2d, 3d, 40, 48, 80, 96}, random descriptor contents, random neighbour "
            "tags, with and without a boot-services-not-exited tag; len()/size_hint() observed before and after every next(). "
            "Non-trivial = distinct cases that load.")

    def gen(self, tier, rng):
        return _mbi.gen_efi(rng, tier) + _mbi.gen_wellformed(rng, 40 if tier == "quick" else 400) + _mbi.gen_scale(rng)


@register
class C19(SweepProp):
    id = "C19"
    oracle_fn = staticmethod(_oracle.c19_oracle)
    rule = ("SWEEP over ELF-sections tags: entry sizes {0,1,8,39,40,41,48,63,64,65,72,80,128} (thorough: all 0..128) x counts "
            "{0,1,2,3,5} x present entries {0,1,n-1,n,n+1} x string-table indices {0,1,n-1,n,n+1,0x10000,2^32-1}, all raw type "
            "classes and range ends for both layouts, u32-overflowing count*size / shndx*size. Non-trivial = distinct cases that load.")

    def gen(self, tier, rng):
        return (_mbi.gen_elf(rng, tier) + _mbi.gen_elfname(rng, tier) + _mbi.gen_wellformed(rng, 40 if tier == "quick" else 400) +
                _mbi.gen_scale(rng))

    def oracle(self, case, impl, config):
        if case.startswith("ELFNAME"):
            try:
                return _oracle.c19_name_oracle(case, impl)
            except Exception as e:
                return "oracle could not parse the observation: %r" % (e,)
        return super().oracle(case, impl, config)


@register
class C17(SweepProp):
    id = "C17"
    oracle_fn = staticmethod(_oracle.c17_oracle)
    rule = ("SWEEP over command-line / boot-loader-name / module tags: ALL strings of length 0..3 (thorough: 0..4) over the "
            "alphabet {NUL, 'a', 0x7f, 0x80, 0xC3, 0xA9, 0xE2, 0xFF} with NUL or 'z' in the padding (so a terminator only in the "
            "padding is visible), random longer strings incl. overlongs / surrogates / > U+10FFFF with the declared size cutting "
            "0..3 bytes before the end; CTOR cases: the three constructors on random valid strings. Non-trivial = distinct cases that load.")

    def gen(self, tier, rng):
        return _mbi.gen_strings(rng, 3 if tier == "quick" else 4, 150 if tier == "quick" else 1500) + string_ctor_cases(rng, tier)

    def oracle(self, case, impl, config):
        if case.startswith("CTOR"):
            try:
                return _oracle.c07_oracle(case, impl)
            except Exception as e:
                return "oracle could not parse the observation: %r" % (e,)
        return super().oracle(case, impl, config)


@register
class C05(SweepProp):
    id = "C05"
    poison = True
    oracle_fn = staticmethod(_oracle.c05_oracle)
    rule = ("SWEEP: every tag kind with every adversarial declared size {0,7,8,9,fixed-1,fixed,fixed+1,size-1,size+1,occupied-7.."
            "occupied+8,size+24,2^32-1}, alone and between random neighbour tags (distinguishable bytes in padding and next tag), "
            "framebuffer palettes with colour counts up to 65535 against 0..9 present bytes; each case run with two poison "
            "fills outside the region; EFI memory maps with every descriptor size 0..65 x map lengths (every descriptor handed out must lie "
            "inside the map); HSWEEP: information-request tags of every size 0..40. Non-trivial = distinct cases that load.")

    def gen(self, tier, rng):
        return (_mbi.gen_sizes(rng, 1 if tier == "quick" else 4) + _mbi.gen_fb(rng) + _mbi.gen_strings(rng, 2, 40) +
                _mbi.gen_wellformed(rng, 30) + _mbi.gen_scale(rng) + _mbi.gen_inforeq_sizes(rng) + _mbi.gen_elf(rng, "quick") +
                _mbi.gen_efi(rng, tier))

    def oracle(self, case, impl, config):
        if case.startswith("HSWEEP"):
            try:
                return _oracle.c05_h_oracle(case, impl)
            except Exception as e:
                return "oracle could not parse the observation: %r" % (e,)
        return super().oracle(case, impl, config)


@register
class C04(SweepProp):
    id = "C04"
    oracle_fn = staticmethod(_oracle.c04_oracle)
    rule = ("SWEEP over spec-conformant regions: each of the 22 kinds alone (x3), duplicated with differing contents (first match), "
            "random multisets and orders (every field byte random = independently marked), all 256 framebuffer type bytes, "
            "EFI map with/without boot-services tag, RSDP valid/invalid checksums and lengths; the Python oracle decodes every "
            "field from the raw bytes at the specification's offsets. Non-trivial = distinct cases that load.")

    def gen(self, tier, rng):
        return (_mbi.gen_wellformed(rng, 300 if tier == "quick" else 3000) + _mbi.gen_fb(rng) + _mbi.gen_misc(rng) +
                _mbi.gen_efi(rng, "quick")[:200] + _mbi.gen_scale(rng) + _mbi.gen_fb_pairs(rng) + _mbi.gen_interior_end(rng))


@register
class C01(SweepProp):
    id = "C01"
    poison = True
    oracle_fn = staticmethod(_oracle.c01_oracle)
    rule = ("SWEEP = load + EVERY safe getter, accessor, iterator (drained, each item's accessors), len()/size_hint(), Debug, each "
            "under catch_unwind, in a child process, region flush against a PROT_NONE page at its end and (second placement) at "
            "its start, two poison fills: union of the adversarial streams of C04/C05/C17/C18/C19 (every size/count/length/stride/"
            "index field at adversarial values, broken walks, truncated totals). Non-trivial = distinct cases that load.")

    def gen(self, tier, rng):
        cases = (_mbi.gen_wellformed(rng, 100 if tier == "quick" else 1000) + _mbi.gen_sizes(rng, 1 if tier == "quick" else 3) +
                 _mbi.gen_strings(rng, 2, 60) + _mbi.gen_efi(rng, tier) + _mbi.gen_elf(rng, tier) + _mbi.gen_fb(rng) + _mbi.gen_misc(rng) +
                 _mbi.gen_elfname(rng, tier) + _mbi.gen_scale(rng) + _mbi.gen_fb_pairs(rng) + _mbi.gen_interior_end(rng))
        # second placement: flush against the LOWER guard page for a sample
        extra = [c + " start" for c in cases[:: (7 if tier == "quick" else 2)] if c.startswith("SWEEP")]
        # a declared total size BELOW the header size: only the declared bytes (at least the size word itself) are readable -
        # the guard page starts right behind them, so looking at the reserved word or at an "end tag" faults
        tiny = []
        for t in range(0, 8):
            for w in (0, 8, 0xFFFFFFFF):
                tiny.append("SWEEP " + hx((u32(t) + u32(w))[:max(4, t)]))
                tiny.append("SWEEP " + hx(u32(t) + u32(w)))
        return cases + extra + tiny


CAST_CODES = ["s0", "s1", "s2", "s3", "s4", "s5", "s6", "d0e1", "d0e2", "d0e3", "d0e4", "d0e8", "d0e24", "d1e1", "d1e3", "d1e4",
              "d1e8", "d2e1", "d2e2", "d2e8", "d2e24", "d3e3", "d3e4", "d3e8", "d4e1", "d4e4", "d4e24"]


@register
class C15(PropDef):
    id = "C15"
    rule = ("CAST: 27 user-defined tag types in the harness (sized with 0..6 extra words; dynamically sized with 0..4 words "
            "before a tail of 1/2/3/4/8/24-byte elements, truthful dst_len) x every tag size 0..96 (thorough: 0..256), plus SWEEP "
            "over all built-in kinds x adversarial sizes; observed: panic or (address offset, size_of_val, tail length). "
            "Non-trivial = distinct cases where the cast succeeds.")
    assumptions = ["custom types declare their fixed size and element count truthfully (hypothesis of the property)"]

    def trivial(self, model_line):
        return not (model_line.startswith("ok") or model_line.startswith("ld=ok"))

    def gen(self, tier, rng):
        top = 96 if tier == "quick" else 256
        cases = ["CAST %s %d" % (c, s) for c in CAST_CODES for s in range(0, top + 1)]
        # the backing slice may be longer than the tag (e.g. the first tag of a buffer holding more): 1..3 extra 8-byte units
        cases += ["CAST %s %d %d" % (c, s, x) for c in CAST_CODES for s in range(8, 49) for x in (1, 2, 3)]
        # 16-aligned user-defined types: the backing slice starts 16-aligned (its length is made a multiple of 16)
        for c in ("a16s", "a16d"):
            for s in range(0, top + 1):
                occ = (max(s, 8) + 7) // 8 * 8
                x0 = 0 if occ % 16 == 0 else 1
                cases += ["CAST %s %d %d" % (c, s, x) for x in (x0, x0 + 2)]
        return cases + _mbi.gen_sizes(rng, 1)

    def oracle(self, case, impl, config):
        if case.startswith("SWEEP"):
            return _oracle.c01_oracle(case, impl)
        return None


CTOR_BLOB = {  # name: (fixed blob length, variable tail?)
    "meminfo": (8, None), "bootdev": (12, None), "apm": (20, None), "efi32": (4, None), "efi64": (8, None), "ih32": (4, None),
    "ih64": (8, None), "loadbase": (4, None), "efibs": (0, None), "end": (0, None), "rsdp1": (20, None), "rsdp2": (33, None),
    "vbe": (776, None), "elf": (12, 1), "network": (0, 1), "efimmap": (8, 1), "smbios": (8, 1), "mmap": (0, 24),
    "h_address": (18, None), "h_console": (6, None), "h_end": (0, None), "h_entry": (6, None), "h_efi32": (6, None),
    "h_efi64": (6, None), "h_fb": (14, None), "h_modalign": (2, None), "h_efibs": (2, None), "h_reloc": (18, None),
    "h_inforeq": (2, 4), "efidescs": (0, 40),
}


def rand_utf8(rng, n):
    alphabet = ["a", "b", "Z", " ", "0", "-", "/", "é", "ß", "€", "😀", "\u0001", "~"]
    return "".join(rng.choice(alphabet) for _ in range(n)).encode("utf-8")


@register
class C07(PropDef):
    id = "C07"
    rule = ("CTOR: every public tag constructor of both crates (34) on boundary (all-zero, all-ones) and random argument "
            "blobs (each argument byte random = independently marked), variable parts of every length 0..17 (every padding "
            "residue) and some longer, strings incl. multi-byte UTF-8 and a trailing NUL, module end <= start, EFI descriptor "
            "size 0; observed: type, size, bytes[..size], size_of_val, align_of, as_bytes(), accessor read-back. "
            "Non-trivial = distinct cases where the constructor returns.")
    assumptions = ["padding bytes behind the declared size are not compared (uninitialised in stack-built tags)",
                   "enum-typed constructor arguments (flags, console flags, preference, memory model) range over their declared values"]
    trivial_prefixes = ("panic",)

    def configs(self, tier):
        return ["dev", "release"]

    def gen(self, tier, rng):
        cases = string_ctor_cases(rng, tier)
        reps = 6 if tier == "quick" else 40
        for name, (fixed, var) in CTOR_BLOB.items():
            tails = [0] if var is None else list(range(0, 18)) + [24, 40, 47, 48, 64, 100, 255, 256, 257, 1000, 4097]
            for tl in tails:
                n = fixed + (tl * var if var and var > 1 else tl)
                for k in range(reps if var is None else 2):
                    if k == 0:
                        b = b"\0" * n
                    elif k == 1:
                        b = b"\xff" * n
                    else:
                        b = rbytes(rng, n)
                    if name == "efimmap" and k != 0 and len(b) >= 4 and b[:4] == b"\0\0\0\0":
                        b = b"\x28" + b[1:]
                    cases.append("CTOR %s %s" % (name, hx(b)))
        # framebuffer: the three types x colour-info lengths (palettes up to and beyond 255 / 256 colours)
        for ty in (0, 1, 2, 3, 255):
            for extra in ([0, 2, 3, 5, 8, 11, 14, 32, 2 + 3 * 254, 2 + 3 * 255, 2 + 3 * 256, 2 + 3 * 257, 2 + 3 * 1000] if ty == 0 else [6] if ty == 1 else [0]):
                for _ in range(3):
                    b = bytearray(rbytes(rng, 24 + extra))
                    b[21] = ty
                    cases.append("CTOR fb %s" % hx(bytes(b)))
        return cases

    def oracle(self, case, impl, config):
        if not case.startswith("CTOR"):
            return None
        try:
            return _oracle.c07_oracle(case, impl)
        except Exception as e:
            return "oracle could not parse the observation: %r" % (e,)


def partitions(content, rng, k):
    """split content into k slices at random cut points (slices may be empty)"""
    cuts = sorted(rng.randrange(0, len(content) + 1) for _ in range(max(0, k - 1)))
    out = []
    prev = 0
    for c in cuts + [len(content)]:
        out.append(content[prev:c])
        prev = c
    return out if k > 0 else []


@register
class C16(PropDef):
    id = "C16"
    rule = ("BOXED: new_boxed::<DynSizedStructure<H>> for H in {TagHeader, HeaderTagHeader, DummyTestHeader, BootInformationHeader, Multiboot2BasicHeader} with content of "
            "every total length 0..24 split into 0..4 slices (all cut points for short contents, random ones otherwise; empty "
            "slices included), header size field pre-set to 0 / garbage; a tracking global allocator records the (size, align) "
            "of the allocation and of every deallocation of the object. CLONE: clone_dyn on every dynamically sized tag kind of "
            "both crates x every content length 0..17 (every padding residue). Non-trivial = distinct cases that do not panic.")
    assumptions = ["`freed exactly once` is observed by the tracking allocator (Box semantics are not modelled)"]
    trivial_prefixes = ("panic",)

    def gen(self, tier, rng):
        import itertools
        cases = []
        hbimg = lambda a: u32(0xE85250D6) + u32(a) + u32(24) + u32((-(0xE85250D6 + a + 24)) % (1 << 32))   # noqa: E731
        for kind, hdr in (("tag", u32(7) + u32(0)), ("tag", u32(0xFFFFFFFF) + u32(999)), ("dummy", u32(42) + u32(0)), ("ht", u16(1) + u16(1) + u32(0)), ("ht", u16(5) + u16(0) + u32(77)),
                          ("bi", u32(16) + u32(0)), ("hb", hbimg(0)), ("hb", hbimg(4)),
                          ("hb", u32(0x1BADB002) + u32(0) + u32(16) + u32((-(0x1BADB002 + 16)) % (1 << 32))),
                          ("hb", u32(0xFFFFFFFF) + u32(4) + u32(16) + u32(0x12345678))):
            for total in range(0, 25 if tier == "quick" else 65):
                content = rbytes(rng, total)
                cases.append("BOXED %s %s %s" % (kind, hx(hdr), hx(content) if total else "-"))
                if total <= 5:
                    for k in (2, 3):
                        for cuts in itertools.combinations_with_replacement(range(total + 1), k - 1):
                            parts = [content[a:b] for a, b in zip((0,) + cuts, cuts + (total,))]
                            cases.append("BOXED %s %s %s" % (kind, hx(hdr), ",".join(p.hex() or "e" for p in parts) or "-"))
                if total:
                    h = total // 2
                    for parts in ([b"", content], [content, b""], [content[:h], b"", content[h:]], [b"", b"", content],
                                  [b"", content[:h], b"", content[h:], b""]):
                        cases.append("BOXED %s %s %s" % (kind, hx(hdr), ",".join(p.hex() or "e" for p in parts)))
                else:
                    cases.append("BOXED %s %s e" % (kind, hx(hdr)))
                    cases.append("BOXED %s %s e,e" % (kind, hx(hdr)))
                for k in (0, 2, 3, 4):
                    parts = partitions(content, rng, k) if k else []
                    if k == 0 and total:
                        continue
                    cases.append("BOXED %s %s %s" % (kind, hx(hdr), ",".join(p.hex() or "e" for p in parts) or "-"))
        fixed = {"generic": (0x1337, 8), "cmdline": (1, 8), "loader": (2, 8), "module": (3, 16), "efimmap": (17, 16), "elf": (9, 20),
                 "smbios": (13, 16), "fb": (8, 32), "network": (16, 8)}
        for kind, (typ, fx) in fixed.items():
            for n in range(0, 18 if tier == "quick" else 40):
                body = rbytes(rng, fx - 8 + n)
                cases.append("CLONE %s %s" % (kind, hx(_mbi.tag(typ, body, rng=rng))))
        for n in range(0, 6):
            cases.append("CLONE mmap %s" % hx(_mbi.tag(6, u32(24) + u32(0) + rbytes(rng, 24 * n), rng=rng)))
        for n in range(0, 10):
            for kind in ("hgeneric", "inforeq"):
                body = rbytes(rng, 4 * n)
                img = u16(1) + u16(rng.randrange(2)) + u32(8 + len(body)) + body
                cases.append("CLONE %s %s" % (kind, hx(pad8(img, rng))))
        for n in (1, 2, 3, 5, 6, 7):
            body = rbytes(rng, n)
            img = u16(rng.randrange(11)) + u16(0) + u32(8 + n) + body
            cases.append("CLONE hgeneric %s" % hx(pad8(img, rng)))
        return cases

    def oracle(self, case, impl, config):
        try:
            return _oracle.c16_oracle(case, impl)
        except Exception as e:
            return "oracle could not parse the observation: %r" % (e,)


def mbi_op(rng, slot):
    """one builder op `<slot>:<blob>` with valid arguments"""
    if slot in ("cmdline", "loader"):
        return "%s:%s" % (slot, hx(rand_utf8(rng, rng.randrange(0, 12))))
    if slot == "module":
        a = rng.getrandbits(31)
        return "module:%s" % hx(u32(a) + u32(a + rng.randrange(1, 1 << 20)) + rand_utf8(rng, rng.randrange(0, 10)))
    if slot == "custom":
        return "custom:%s" % hx(u32(rng.choice([22, 0x1337, 0xFFFFFFFF, rng.getrandbits(32) | 64])) + rbytes(rng, rng.randrange(0, 20)))
    if slot == "fb":
        ty = rng.choice([0, 1, 2])
        extra = {0: rng.choice([0, 2, 5, 8, 11]), 1: 6, 2: 0}[ty]
        b = bytearray(rbytes(rng, 24 + extra))
        b[21] = ty
        return "fb:%s" % hx(bytes(b))
    fixed, var = CTOR_BLOB[slot]
    n = fixed + (rng.randrange(0, 4) * var if var and var > 1 else (rng.randrange(0, 20) if var else 0))
    b = bytearray(rbytes(rng, n))
    if slot == "efimmap" and b[:4] == b"\0\0\0\0":
        b[0] = 40
    if slot == "mmap" and n and rng.random() < 0.5:
        # memory areas as firmware reports them: conventional bases (0, 1 MiB, 16 MiB, 4 GiB), contiguous neighbours, the
        # specified types 1..5 - contents a builder must carry through like any other bytes
        base = rng.choice([0, 0, 0x100000, 0x1000000, 1 << 32])
        for i in range(n // 24):
            ln = rng.choice([0x9FC00, 0x1000, 0x7EE0000, rng.getrandbits(20) << 12])
            b[24 * i:24 * i + 24] = struct.pack("<QQII", base, ln, rng.choice([1, 1, 2, 3, 4, 5]), 0)
            base = rng.choice([base + ln, 0x100000, base + ln + 0x1000])
    if slot == "vbe":
        b = bytearray(b"\0" * 776)
        b[0:8] = rbytes(rng, 8)
        b[8:14] = rbytes(rng, 6)
        b[536:538] = rbytes(rng, 2)
        b[545] = rng.getrandbits(8)
    return "%s:%s" % (slot, hx(bytes(b)))


MBI_SLOTS = ["cmdline", "loader", "module", "meminfo", "bootdev", "mmap", "vbe", "fb", "elf", "apm", "efi32", "efi64", "smbios",
             "rsdp1", "rsdp2", "network", "efimmap", "efibs", "ih32", "ih64", "loadbase", "custom"]
HDR_SLOTS = ["h_inforeq", "h_address", "h_entry", "h_console", "h_fb", "h_modalign", "h_efibs", "h_efi32", "h_efi64", "h_reloc"]


@register
class C06(PropDef):
    id = "C06"
    blocks_exhaustive = True     # thorough: every subset of the builder slots is streamed
    rule = ("BUILD: builder call sequences through the real constructors and builder methods: the empty builder, every slot "
            "alone, every pair of slots (both orders), 4096 random subsets in random call order (thorough: 20000, and streamed ALL "
            "2^22 subsets by mask with one fixed image per slot), repeated calls on single slots (last wins) and on repeatable slots (modules, "
            "SMBIOS, custom: call order), custom tags with non-custom type numbers (must be rejected); contents of every length "
            "residue. Observed: length, declared total, alignment, load result, walk with each tag's bytes up to its size, final "
            "8 bytes. Non-trivial = distinct cases that build.")
    assumptions = ["the order in which DIFFERENT kinds appear is not fixed by the property: the oracle compares per-kind sequences",
                   "bytes between a tag's size and its 8-byte boundary are not compared (uninitialised for stack-built tags)"]
    trivial_prefixes = ("panic",)

    def gen(self, tier, rng):
        cases = ["BUILD -"]
        small = [s for s in MBI_SLOTS if s != "vbe"]
        for s in MBI_SLOTS:
            for _ in range(3):
                cases.append("BUILD " + mbi_op(rng, s))
        for a in small:
            for b in small:
                cases.append("BUILD %s,%s" % (mbi_op(rng, a), mbi_op(rng, b)))
        n = 4096 if tier == "quick" else 20000
        for _ in range(n):
            k = rng.randrange(0, 12)
            slots = [rng.choice(small) for _ in range(k)]
            cases.append("BUILD " + (",".join(mbi_op(rng, s) for s in slots) or "-"))
        for _ in range(200):
            slots = [rng.choice(["module", "smbios", "custom", "cmdline", "meminfo"]) for _ in range(rng.randrange(2, 9))]
            cases.append("BUILD " + ",".join(mbi_op(rng, s) for s in slots))
        for _ in range(20):
            cases.append("BUILD " + ",".join(mbi_op(rng, s) for s in rng.sample(MBI_SLOTS, len(MBI_SLOTS))))
        # tag contents that end in the byte image of an end tag (type 0, size 8) or of another tag header: the terminator
        # must still be appended exactly once and every supplied tag must come back
        for pat in (u32(0) + u32(8), u32(0) + u32(0), u32(1) + u32(9)):
            lookalikes = ["meminfo:%s" % hx(pat), "efi64:%s" % hx(pat), "ih64:%s" % hx(pat),
                          "custom:%s" % hx(u32(0x1337) + rbytes(rng, 8) + pat), "custom:%s" % hx(u32(22) + pat),
                          "smbios:%s" % hx(rbytes(rng, 8) + pat), "network:%s" % hx(rbytes(rng, 8) + pat),
                          "elf:%s" % hx(rbytes(rng, 12) + rbytes(rng, 4) + pat), "efimmap:%s" % hx(u32(48) + u32(1) + rbytes(rng, 40) + pat)]
            for op in lookalikes:
                cases.append("BUILD " + op)
                cases.append("BUILD %s,%s" % (mbi_op(rng, "cmdline"), op))
                cases.append("BUILD %s,%s" % (op, mbi_op(rng, "loadbase")))
        for ty in (0, 1, 21):
            cases.append("BUILD custom:%s" % hx(u32(ty) + b"\x01\x02"))
        for n in (50, 300):
            cases.append("BUILD " + ",".join(mbi_op(rng, rng.choice(["module", "smbios", "custom"])) for _ in range(n)))
        for s_ in [x for x in MBI_SLOTS if x not in ("module", "smbios", "custom", "vbe")]:
            cases.append("BUILD %s,%s,%s" % (mbi_op(rng, s_), mbi_op(rng, "meminfo"), mbi_op(rng, s_)))
        return cases

    def stream(self, tier, rng):
        # thorough: ALL 2^22 subsets of the 22 builder slots (one fixed image per slot, the calls in slot order)
        if tier != "thorough":
            return
        fixed_ops = [mbi_op(rng, s) for s in MBI_SLOTS]
        nbits = int(os.environ.get("VERIF_C06_BITS", str(len(MBI_SLOTS))))
        chunk = []
        for mask in range(1 << nbits):
            ops = [fixed_ops[i] for i in range(nbits) if mask >> i & 1]
            chunk.append("BUILD " + (",".join(ops) or "-"))
            if len(chunk) == 1 << 16:
                yield chunk
                chunk = []
        if chunk:
            yield chunk

    def oracle(self, case, impl, config):
        try:
            return _oracle.c06_oracle(case, impl)
        except Exception as e:
            return "oracle could not parse the observation: %r" % (e,)


def hdr_op(rng, slot):
    fixed, var = CTOR_BLOB[slot]
    n = fixed + (rng.randrange(0, 9) * 4 if var else 0)
    return "%s:%s" % (slot, hx(rbytes(rng, n)))


@register
class C12(PropDef):
    id = "C12"
    blocks_exhaustive = False
    rule = ("HBUILD: ALL 2^10 subsets of the ten header-builder slots x both architectures (always exhaustive), each with "
            "random tag contents, plus random call orders, repeated calls (last wins) and information-request lists of every "
            "length 0..8. Observed: length, 16 header bytes, alignment, load result, tag walk with bytes, final 8 bytes. "
            "Non-trivial = distinct cases that build.")
    trivial_prefixes = ("panic",)

    def gen(self, tier, rng):
        cases = []
        for arch in (0, 4):
            for mask in range(1 << len(HDR_SLOTS)):
                ops = [hdr_op(rng, s) for i, s in enumerate(HDR_SLOTS) if mask >> i & 1]
                cases.append("HBUILD %d %s" % (arch, ",".join(ops) or "-"))
            for _ in range(200):
                slots = [rng.choice(HDR_SLOTS) for _ in range(rng.randrange(0, 14))]
                cases.append("HBUILD %d %s" % (arch, ",".join(hdr_op(rng, s) for s in slots) or "-"))
            for n in list(range(0, 9)) + [63, 64, 255, 256, 257, 1000, 2036, 2037, 2040, 4096, 10000]:
                cases.append("HBUILD %d h_inforeq:%s" % (arch, hx(u16(rng.randrange(2)) + rbytes(rng, 4 * n))))
            for s_ in HDR_SLOTS:
                cases.append("HBUILD %d %s,%s,%s" % (arch, hdr_op(rng, s_), hdr_op(rng, "h_modalign"), hdr_op(rng, s_)))
            # tag contents that LOOK like structure: the last emitted tag ends in the byte image of an end tag (type 0, flags 0,
            # size 8) or of another tag header; the terminator must still be appended and the walk must not be fooled
            endpat = u32(0) + u32(8)
            addr = "h_address:%s" % hx(u16(0) + rbytes(rng, 8) + endpat)
            for n in range(2, 10):
                ids = rbytes(rng, 4 * (n - 2)) + endpat
                req = "h_inforeq:%s" % hx(u16(rng.randrange(2)) + ids)
                cases.append("HBUILD %d %s" % (arch, req))
                cases.append("HBUILD %d %s,%s" % (arch, req, addr))
                cases.append("HBUILD %d %s,%s" % (arch, req, hdr_op(rng, "h_reloc")))
            cases.append("HBUILD %d %s" % (arch, addr))
            cases.append("HBUILD %d %s,%s" % (arch, hdr_op(rng, "h_inforeq"), addr))
            cases.append("HBUILD %d %s,%s" % (arch, addr, hdr_op(rng, "h_entry")))
            for pat in (u32(0) + u32(0), u16(6) + u16(0) + u32(8), u32(8) + u32(0)):
                cases.append("HBUILD %d h_address:%s" % (arch, hx(u16(0) + rbytes(rng, 8) + pat)))
                cases.append("HBUILD %d h_inforeq:%s" % (arch, hx(u16(0) + pat)))
        return cases

    def oracle(self, case, impl, config):
        try:
            return _oracle.c12_oracle(case, impl)
        except Exception as e:
            return "oracle could not parse the observation: %r" % (e,)


class HSweepProp(SweepProp):
    skip_model_ub = True
    assumptions = ["the region is 8-aligned and readable for its declared length; enumerated fields (architecture, tag type, tag "
                   "flags, console flags, relocation preference) hold defined values - the hypothesis of C09-C11"]

    def oracle(self, case, impl, config):
        if not case.startswith("HSWEEP"):
            return None
        if impl.startswith("crash"):
            return "the process crashed (%s)" % impl
        try:
            return type(self).oracle_fn(case, impl)
        except Exception as e:
            return "oracle could not parse the observation: %r" % (e,)


@register
class C11(HSweepProp):
    id = "C11"
    oracle_fn = staticmethod(_oracle.c11_oracle)
    rule = ("HSWEEP over valid headers: each of the 11 header-tag kinds alone (x3) and duplicated with differing contents, "
            "information-request lists of every length 0..8, random multisets/orders with random field bytes, both "
            "architectures; observed: the four header accessors + verify_checksum, the tag iterator (offset, raw type, flags, "
            "size, payload length), every typed getter with every field accessor and Debug. Python oracle decodes from the raw "
            "bytes at the specification's offsets. Non-trivial = distinct cases that load.")

    def gen(self, tier, rng):
        return (_mbi.gen_headers_wellformed(rng, 300 if tier == "quick" else 3000) + _mbi.gen_headers_scale(rng) +
                _mbi.gen_headers_interior_end(rng))


@register
class C09(HSweepProp):
    id = "C09"
    poison = True
    oracle_fn = staticmethod(_oracle.c09_oracle)
    rule = ("HSWEEP over adversarial headers with in-range enumerated fields: every tag kind with declared sizes "
            "{0,1,4,7,8,9,11,12,13,size-1,size+1,occupied,occupied+1,+8,+9,24,2^31-1,2^32-8,2^32-1} alone and between random "
            "neighbours, corrupted sizes at random positions, header lengths {0,8,15,16,17,24,L-16,L-8}, missing end tag; region "
            "flush against a PROT_NONE page, two poison fills, crash detection. Non-trivial = distinct cases that load.")

    def gen(self, tier, rng):
        return (_mbi.gen_headers_adversarial(rng, 300 if tier == "quick" else 3000) + _mbi.gen_headers_wellformed(rng, 50) +
                _mbi.gen_headers_scale(rng) + _mbi.gen_headers_interior_end(rng))


@register
class C08(PropDef):
    id = "C08"
    cross_config = True
    ub_is_known = True
    rule = ("the parsing families of both crates (LOAD, REF, WALK, SWEEP incl. Debug, ELFNAME, HLOAD, HSWEEP, FIND, CKS, CAST, FBT) "
            "on well-formed and adversarial inputs, run through FOUR builds of the real code - {dev with overflow checks, "
            "release without} x {default features, --no-default-features} - whose transcripts must be pairwise identical and "
            "equal to the model of the respective profile; arithmetic sites are driven to their overflow points (module end < "
            "start, area base+length >= 2^64, section addr+size >= 2^64, entry_size*shndx >= 2^32, checksum operands summing "
            "above 2^32, sizes below the header size); DEPTH regions of up to 300000 tags (stack / work per skipped tag). "
            "Non-trivial = distinct cases whose outcome is not a load error.")
    assumptions = ["inputs that put an undeclared value into an enum-typed field of multiboot2-header are undefined behaviour "
                   "(known finding F20): they are recognised by the model (`UB`) and reported as KNOWN-FINDING, not compared"]

    def configs(self, tier):
        return ["dev", "release", "dev-nodef", "release-nodef"]

    def trivial(self, model_line):
        return model_line.startswith("ld=err") or model_line.startswith("err:")

    def gen(self, tier, rng):
        q = tier == "quick"
        cases = []
        cases += PROPS["C02"].gen(tier, rng)[:: (3 if q else 1)]
        cases += [c for c in PROPS["C14"].gen(tier, rng) if c.startswith("REF") and " dummy " not in c][:: (6 if q else 1)]
        cases += PROPS["C03"].gen(tier, rng)[:: (4 if q else 1)]
        cases += PROPS["C01"].gen(tier, rng)[:: (3 if q else 1)]
        cases += PROPS["C10"].gen(tier, rng)[:: (2 if q else 1)]
        cases += PROPS["C09"].gen(tier, rng) + PROPS["C11"].gen(tier, rng)[:: (3 if q else 1)]
        cases += PROPS["C13"].gen(tier, rng)[:: (8 if q else 1)]
        cases += [c for c in PROPS["C15"].gen(tier, rng) if c.startswith("CAST")][:: (5 if q else 1)]
        cases += ["FBT %d" % b for b in range(256)]
        cases += _mbi.gen_scale(rng)           # large structures: counts, lengths, MANY tags (stack / work per tag)
        cases += DEPTH_CASES
        # arithmetic overflow points
        m = _mbi
        cases.append(m.sweep(m.mbi([m.tag(3, u32(10) + u32(5) + b"m\0")])))
        cases.append(m.sweep(m.mbi([m.tag(3, u32(0xFFFFFFFF) + u32(0) + b"\0")])))
        cases.append(m.sweep(m.mbi([m.tag(6, u32(24) + u32(0) + u64((1 << 64) - 1) + u64(3) + u32(1) + u32(0))])))
        cases.append(m.sweep(m.mbi([m.tag(6, u32(24) + u32(0) + u64(1 << 63) + u64(1 << 63) + u32(1) + u32(0))])))
        for es in (40, 64):
            e = bytearray(m.elf_entry(rng, es, 1))
            if es == 40:
                e[12:16] = u32(0xFFFFFFFF)
                e[20:24] = u32(0xFFFFFFFF)
            else:
                e[16:24] = u64((1 << 64) - 1)
                e[32:40] = u64(2)
            cases.append(m.sweep(m.mbi([m.tag(9, u32(1) + u32(es) + u32(0) + bytes(e))])))
        # F20: header tags with undeclared enum values (known finding; the model answers UB)
        for bad_typ in (11, 12, 255):
            cases.append(m.hsweep(m.header([m.htag(bad_typ, 0, rbytes(rng, 8))])))
        cases.append(m.hsweep(m.header([m.htag(4, 0, u32(2))])))
        cases.append(m.hsweep(m.header([m.htag(10, 0, u32(1) + u32(2) + u32(3) + u32(7))])))
        return cases

    def oracle(self, case, impl, config):
        if impl.startswith("crash"):
            return "the process crashed (%s)" % impl
        return None
