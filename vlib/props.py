"""Per-property definitions: which builds, which cases, how to compare, what is trivial."""
import os
import re
import struct

from . import core

PROPS = {}


def hx(b):
    return b.hex() if b else "-"


def u32(v):
    return struct.pack("<I", v & 0xFFFFFFFF)


def u16(v):
    return struct.pack("<H", v & 0xFFFF)


def u64(v):
    return struct.pack("<Q", v & 0xFFFFFFFFFFFFFFFF)


def rbytes(rng, n):
    return bytes(rng.getrandbits(8) for _ in range(n))


def pad8(b, rng=None):
    r = (-len(b)) % 8
    if rng is None:
        return b + b"\0" * r
    return b + rbytes(rng, r)


class PropDef:
    id = None
    poison = False
    cross_config = False
    blocks_exhaustive = False
    rule = ""
    assumptions = []
    trivial_prefixes = ()

    def configs(self, tier):
        return ["dev", "release"]

    def corpus(self):
        p = os.path.join(core.VERIF, "corpus", self.id + ".case")
        if os.path.exists(p):
            return [l.strip() for l in open(p) if l.strip() and not l.startswith("#")]
        return []

    def gen(self, tier, rng):
        return []

    def block_plan(self, tier, rng):
        return []

    def expand_block(self, fn, block, config, workdir):
        return None

    def canon(self, line):
        return line

    def oracle(self, case, impl, config):
        """Extra implementation-side oracle; returns a reason string on failure."""
        return None

    def trivial(self, model_line):
        return any(model_line.startswith(p) for p in self.trivial_prefixes)

    def match_known(self, known, case, impl, config):
        for k in known:
            if re.search(k["case_regex"], case) and re.search(k.get("impl_regex", ""), impl):
                return k
        return None

    def sample_idx(self, cases, rng):
        if not cases:
            return []
        n = len(cases)
        return sorted(set([0, n // 3, (2 * n) // 3, n - 1]))


def register(cls):
    PROPS[cls.id] = cls()
    return cls


def boundary_blocks():
    vals = [0, 1, 21, 22, 255, 256, 65535, 65536, 0x36D76289, 0xE85250D6, 0x5FFFFFFF, 0x60000000, 0x6FFFFFFF, 0x70000000,
            0x7FFFFFFF, 0x80000000, 0xFFFFFFFF, 0xFFFFFFF8]
    return sorted(set(v >> 20 for v in vals))


def block_list(tier, rng, nrand=48):
    if tier == "thorough":
        return list(range(4096))
    bl = set(boundary_blocks())
    while len(bl) < len(boundary_blocks()) + nrand:
        bl.add(rng.randrange(4096))
    return sorted(bl)


# =========================================================================== C14

HK = {"tag": (8, 4), "bi": (8, 0), "hb": (16, 8), "ht": (8, 4), "dummy": (8, 4)}


def ref_case(kind, mis, length, declared, rng):
    hs, so = HK[kind]
    b = bytearray(rbytes(rng, length))
    w = u32(declared)
    for i in range(4):
        if so + i < length:
            b[so + i] = w[i]
    return "REF %s %d %s" % (kind, mis, hx(bytes(b)))


@register
class C14(PropDef):
    id = "C14"
    blocks_exhaustive = True
    rule = ("REF: every (header kind, slice length 0..40, declared size 0..56) at alignment 0 and a sample of sizes at "
            "misalignments 1..7, random bytes elsewhere, plus random large slices with the declared size around the slice "
            "length; RND: rounding arguments around multiples of 8 / 2^32 / 2^64; block hashes of increase_to_alignment over "
            "2^20-value blocks (thorough: all 4096 blocks = every argument below 2^32). Non-trivial = distinct cases whose "
            "outcome is not ShorterThanHeader.")
    assumptions = ["slice lengths are below 2^63 (every Rust slice)", "u64 = usize (64-bit target)"]
    trivial_prefixes = ("err:ShorterThanHeader",)

    def gen(self, tier, rng):
        cases = []
        maxlen = 40 if tier == "quick" else 64
        for kind in HK:
            for length in list(range(0, maxlen + 1)) + list(range(maxlen + 8, 2 * maxlen + 1, 8)):
                ds = range(0, length + 18) if length % 8 == 0 else (0, 7, 8, 9, 16, length - 1, length, length + 1, length + 8)
                for d in ds:
                    cases.append(ref_case(kind, 0, length, max(0, d), rng))
                for mis in range(1, 8):
                    for d in (0, 8, length, length + 8):
                        cases.append(ref_case(kind, mis, length, d, rng))
            n = 300 if tier == "quick" else 3000
            for _ in range(n):
                length = rng.choice([rng.randrange(0, 4096), rng.randrange(0, 64) * 8])
                d = max(0, length + rng.choice([-17, -16, -9, -8, -7, -1, 0, 1, 7, 8, 9, 16, 4096, 0x7FFFFFFF]))
                if rng.random() < 0.2:
                    d = rng.getrandbits(32)
                cases.append(ref_case(kind, rng.choice([0, 0, 0, rng.randrange(8)]), length, d, rng))
        for base in [0, 8, 16, 4096, 2**31, 2**32, 2**32 + 8, 2**63, 2**64 - 16, 2**64 - 8]:
            for dlt in range(-9, 10):
                v = base + dlt
                if 0 <= v < 2**64:
                    cases.append("RND %d" % v)
        for _ in range(200):
            cases.append("RND %d" % rng.getrandbits(rng.choice([8, 16, 32, 48, 64])))
        return cases

    def block_plan(self, tier, rng):
        return [("rnd", block_list(tier, rng))]

    def expand_block(self, fn, block, config, workdir):
        lo = block << 20
        cases = ["RND %d" % v for v in range(lo, lo + (1 << 20), 1)]
        impl = core.run_harness_par(config, cases, workdir, jobs=8)
        spec = core.run_driver_par(["spec"], cases, workdir, "expand", jobs=8)
        for cs, a, s in zip(cases, impl, spec):
            if not core.admits(s, a):
                return {"case": cs, "impl": a, "spec": s}
        return None


# =========================================================================== C02

def mbi_region(total_word, reserved, body, tail8, rng, extra=0):
    """header (total, reserved) + body + last 8 bytes; the memory behind the pointer is max(8, declared) + extra."""
    b = u32(total_word) + u32(reserved) + body + tail8
    return b


@register
class C02(PropDef):
    id = "C02"
    rule = ("LOAD: null pointer; every declared total size 0..72 x 16 corruptions of the final 8 bytes (type/size of the end "
            "tag off by one bit/byte) x reserved word 0/random, memory behind the pointer = max(8, declared) bytes placed flush "
            "against a PROT_NONE page; random sizes up to 1 MiB. Non-trivial = distinct cases not ending in ShorterThanHeader/Null.")
    assumptions = ["the pointer is 8-aligned and the declared region is readable (the documented contract of load)"]
    trivial_prefixes = ("err:ShorterThanHeader", "err:Null")

    def tails(self, rng):
        t = [(0, 8), (1, 8), (0, 9), (0, 0), (0, 16), (256, 8), (0, 8 + 256), (0xFFFFFFFF, 8), (0, 0xFFFFFFFF), (0, 7),
             (0x10000, 8), (0, 0x10008), (0x1000000, 8), (0, 0x1000008), (8, 0), (rng.getrandbits(32), rng.getrandbits(32))]
        return t

    def region(self, t, reserved, tail, rng):
        mem = max(8, t)
        b = bytearray(rbytes(rng, mem))
        b[0:4] = u32(t)
        b[4:8] = u32(reserved)
        if t >= 16:
            b[t - 8:t - 4] = u32(tail[0])
            b[t - 4:t] = u32(tail[1])
        return bytes(b)

    def gen(self, tier, rng):
        cases = ["LOAD 1 -", "LOAD 1 " + hx(u32(16) + u32(0) + u32(0) + u32(8))]
        top = 72 if tier == "quick" else 136
        for t in list(range(0, top + 1)) + list(range(top + 8, 8 * top, 8)):
            tails = self.tails(rng) if t % 8 == 0 else [(0, 8), (1, 8)]
            for tail in tails:
                for reserved in (0, rng.getrandbits(32)):
                    cases.append("LOAD 0 " + hx(self.region(t, reserved, tail, rng)))
            if t % 8 == 0:
                for _ in range(3):
                    cases.append("LOAD 0 " + hx(self.region(t, rng.getrandbits(32), (0, 8), rng)))
        n = 24 if tier == "quick" else 400
        for _ in range(n):
            t = rng.choice([rng.randrange(0, 1 << 18), rng.randrange(0, 1 << 15) * 8, rng.randrange(0, 4096), rng.randrange(0, 512) * 8])
            tail = rng.choice(self.tails(rng))
            cases.append("LOAD 0 " + hx(self.region(t, rng.getrandbits(32), tail, rng)))
        for t in (1 << 20, (1 << 20) - 8, (1 << 20) - 1):
            cases.append("LOAD 0 " + hx(self.region(t, 0, (0, 8), rng)))
        return cases


# =========================================================================== C03

def tag_area(sizes, rng, kind="tag", total=None):
    """Concatenate tags with the given declared sizes; each occupies roundUp8(max(size, 8)) bytes unless truncated by `total`."""
    b = bytearray()
    for s in sizes:
        typ = rng.choice([0, 1, 3, 3, 4, 21, 22, rng.getrandbits(32)])
        if kind == "ht":
            typ = rng.choice([0, 1, 2, 3, 4, 5, 6, 7, 8, 9, 10]) | (rng.choice([0, 1]) << 16)
        hdr = u32(typ) + u32(s)
        occ = max(8, (s + 7) // 8 * 8) if s < 4096 else 8
        body = rbytes(rng, occ - 8)
        b += hdr + body
    if total is not None:
        if len(b) < total:
            b += rbytes(rng, total - len(b))
        b = b[:total]
    return bytes(b)


def rand_ops(rng, n):
    ops = []
    pool = 1
    for _ in range(n):
        r = rng.random()
        if r < 0.7:
            ops.append("n%d" % rng.randrange(pool))
        elif r < 0.9:
            ops.append("c%d" % rng.randrange(pool))
            pool += 1
        else:
            ops.append("f0")
            pool += 1
    return ",".join(ops)


def compositions(total_units, maxparts):
    """all ways to write total_units as an ordered sum of positive integers (units of 8 bytes)"""
    if total_units == 0:
        yield []
        return
    if maxparts == 0:
        return
    for first in range(1, total_units + 1):
        for rest in compositions(total_units - first, maxparts - 1):
            yield [first] + rest


@register
class C03(PropDef):
    id = "C03"
    rule = ("WALK over the three tag-header kinds (info TagHeader, HeaderTagHeader, DummyTestHeader): every tiling of a tag area "
            "of 0..48 bytes by tags (all compositions in units of 8), each tag's declared size at every residue "
            "(occupied-7..occupied) and, per tiling, one tag made too small (0..7), too large (leaving the area) or huge; "
            "random larger areas; each with a drain history plus random next/clone/fresh interleavings. "
            "Non-trivial = distinct cases yielding at least one item.")
    assumptions = ["the tag area is 8-aligned and a multiple of 8 long (guaranteed by load / ref_from_slice)"]

    def trivial(self, model_line):
        return "item(" not in model_line

    def gen(self, tier, rng):
        cases = []
        drain = lambda k: ",".join(["n0"] * (k + 3))
        maxu = 6 if tier == "quick" else 8
        for kind in ("tag", "ht", "dummy"):
            for units in range(0, maxu + 1):
                for comp in compositions(units, 6):
                    # exact tilings with every residue
                    for _ in range(2 if tier == "quick" else 4):
                        sizes = [8 * u - rng.randrange(0, 8) if u > 1 else 8 for u in comp]
                        area = tag_area(sizes, rng, kind)
                        cases.append("WALK %s %s %s" % (kind, hx(area), drain(len(comp))))
                        cases.append("WALK %s %s %s" % (kind, hx(area), rand_ops(rng, 3 * len(comp) + 6)))
                    # one corrupted tag
                    for j in range(len(comp)):
                        for bad in (rng.randrange(0, 8), 8 * comp[j] + 1, 8 * (units - sum(comp[:j])) + 1,
                                    8 * (units - sum(comp[:j])) + 8, 0xFFFFFFFF, 0x80000000, rng.getrandbits(32)):
                            sizes = [8 * u for u in comp]
                            area = bytearray(tag_area(sizes, rng, kind))
                            o = 8 * sum(comp[:j])
                            area[o + 4:o + 8] = u32(bad)
                            cases.append("WALK %s %s %s" % (kind, hx(bytes(area)), drain(len(comp))))
            n = 150 if tier == "quick" else 1500
            for _ in range(n):
                k = rng.randrange(1, 30)
                sizes = [rng.choice([8, 8, 9, 12, 15, 16, 17, 24, 31, 32, 40, 100, rng.randrange(8, 300)]) for _ in range(k)]
                area = bytearray(tag_area(sizes, rng, kind))
                if rng.random() < 0.3 and len(area) >= 8:
                    o = rng.randrange(0, len(area) // 8) * 8
                    area[o + 4:o + 8] = u32(rng.choice([0, 4, 7, len(area) - o + 1, len(area) - o + 8, rng.getrandbits(32)]))
                cases.append("WALK %s %s %s" % (kind, hx(bytes(area)), rand_ops(rng, rng.randrange(5, 40))))
        return cases
