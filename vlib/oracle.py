"""Independent (Python) transcription of the properties, evaluated on what the REAL code returned for a SWEEP case.

Nothing here looks at the Lean model. Each oracle returns None (fine) or a reason string (the property is violated on
this input by the implementation)."""
import re
import struct

FIXED = {1: 8, 2: 8, 3: 16, 4: 16, 5: 20, 6: 16, 7: 784, 8: 32, 9: 20, 10: 28, 11: 12, 12: 16, 13: 16, 14: 28, 15: 44, 16: 8,
         17: 16, 18: 8, 19: 12, 20: 16, 21: 12}
SECTION_TYPE = {"apm": 10, "meminfo": 4, "loader": 2, "bootdev": 5, "cmdline": 1, "efi_bs": 18, "efi_ih32": 19, "efi_ih64": 20,
                "efi_mmap": 17, "efi_sdt32": 11, "efi_sdt64": 12, "elf": 9, "fb": 8, "load_base": 21, "mmap": 6, "network": 16,
                "rsdp1": 14, "rsdp2": 15, "smbios": 13, "vbe": 7}


def r8(n):
    return (n + 7) // 8 * 8


def le(b, o, w):
    return int.from_bytes(b[o:o + w], "little")


def region_of(case):
    t = case.split()
    return bytes.fromhex(t[1]) if t[1] != "-" else b""


def sections(line):
    d = {}
    for part in line.split(";"):
        if "=" in part:
            k, v = part.split("=", 1)
            d[k] = v
    return d


def spec_walk(region):
    """tags of the declared region per the specification: list of (region offset, typ, size), ending 'done' or 'bad'"""
    total = le(region, 0, 4)
    end = total
    off = 8
    out = []
    while True:
        if off == end:
            return out, "done"
        if off + 8 > end:
            return out, "bad"
        typ, size = le(region, off, 4), le(region, off + 4, 4)
        if size < 8 or off + r8(size) > end:
            return out, "bad"
        out.append((off, typ, size))
        off += r8(size)


def load_ok(region):
    if len(region) < 8:
        return False
    t = le(region, 0, 4)
    return t >= 8 and t % 8 == 0 and t <= len(region) and le(region, t - 8, 4) == 0 and le(region, t - 4, 4) == 8


def first_tag(walk, typ):
    for (o, t, s) in walk:
        if t == typ:
            return (o, t, s)
    return None


EXTENT_RE = re.compile(r"\b(s|b)\((\d+):(\d+):[0-9a-f]{16}\)|indexed\((\d+):(\d+):[0-9a-f]{16}\)|\{@(\d+),ty=|areas=\[(\d+):(\d+)\|")
VIEW_RE = re.compile(r"@(\d+):(\d+)\{")


def view_of(val):
    m = VIEW_RE.match(val)
    return (int(m.group(1)), int(m.group(2))) if m else None


def extents_in(val):
    """all (offset, length) extents of references handed out inside a section value"""
    out = []
    for m in EXTENT_RE.finditer(val):
        if m.group(1):
            out.append((int(m.group(2)), int(m.group(3)), m.group(1)))
        elif m.group(4):
            out.append((int(m.group(4)), 3 * int(m.group(5)), "palette"))
        elif m.group(6):
            out.append((int(m.group(6)), 40, "efidesc"))
        elif m.group(7):
            out.append((int(m.group(7)), 24 * int(m.group(8)), "areas"))
    return out


PROBE_RE = re.compile(r"(\|probe:|\]\?)([A-Za-z0-9_@():-]+)")


def eqpad_violation(impl):
    m = re.search(r"eqpad=([a-z0-9_,]+);", impl)
    if m:
        return ("`==` on the typed view(s) %s tells two regions apart that differ only in the alignment padding behind the declared "
                "tag size: bytes outside the tag's declared extent are exposed" % m.group(1))
    return None


def probe_violation(impl):
    """the harness cross-checks every iterator against the other routes through the Iterator protocol (nth, skip, count, last,
    step_by, size_hint, clones); a disagreement with plain next()-draining is reported in place of the end marker"""
    m = PROBE_RE.search(impl)
    if m:
        return "iterator protocol: %s disagrees with the items obtained by next() (an item outside the walk / a wrong count)" % m.group(2)
    return None


def c01_oracle(case, impl):
    """no crash; every handed-out reference lies inside the tag it came from (and inside the declared region)"""
    if impl.startswith("crash") or impl == "harness-panic":
        return "the process crashed / the harness lost control"
    ev = eqpad_violation(impl)
    if ev:
        return ev
    pv = probe_violation(impl) or eqpad_violation(impl)
    if pv:
        return pv
    region = region_of(case)
    secs = sections(impl)
    if len(region) >= 4 and le(region, 0, 4) < 8 and secs.get("ld", "") != "err:ShorterThanHeader":
        # the region declares fewer bytes than a header has: nothing but the size word itself belongs to it, so whatever else
        # the outcome was derived from (the reserved word, an "end tag") lies outside the declared region
        return ("declared total size %d is below the header size: the only outcome that interprets no byte outside the declared "
                "region is ShorterThanHeader, got ld=%s" % (le(region, 0, 4), secs.get("ld", "")))
    if not secs.get("ld", "").startswith("ok"):
        return None
    total = le(region, 0, 4)
    walk, _ = spec_walk(region)
    tags = {o: (t, s) for (o, t, s) in walk}
    for name, val in secs.items():
        if "runaway" in val:
            return "an iterator did not terminate (%s)" % name
        items = []
        if name == "modules":
            # each module item is its own view
            for m in re.finditer(r"@(\d+):(\d+)\{([^}]*)\}", val):
                items.append((int(m.group(1)), int(m.group(2)), m.group(3)))
        else:
            v = view_of(val)
            if v:
                items.append((v[0], v[1], val))
        for (o, sov, body) in items:
            if o not in tags:
                return "%s: typed view at offset %d is not a tag of the walk" % (name, o)
            size = tags[o][1]
            if sov != r8(size):
                return "%s: view of %d bytes over a tag of size %d" % (name, sov, size)
            if o + sov > total:
                return "%s: view leaves the declared region" % name
            for (eo, el, kind) in extents_in(body):
                # slices / strings / palettes must lie inside the tag's DECLARED size; descriptor references inside its extent
                lim = o + (r8(size) if kind == "efidesc" else size)
                if eo < o or eo + el > lim:
                    return "%s: %s extent [%d,%d) outside its tag [%d,%d)" % (name, kind, eo, eo + el, o, lim)
    return None


def c05_oracle(case, impl):
    """variable-length parts: start at the fixed offset, end at the declared size, counts = (size-fixed)/elem"""
    region = region_of(case)
    secs = sections(impl)
    if not secs.get("ld", "").startswith("ok"):
        return None
    walk, wend = spec_walk(region)
    tags = {o: (t, s) for (o, t, s) in walk}
    # generic payload: tags= lists off:typ:size:payload_len
    tl = secs.get("tags", "").split("|")[0]
    for ent in tl.split(","):
        if ent:
            o, t, s, pl = [int(x) for x in ent.split(":")]
            if pl != s - 8:
                return "generic payload of tag at %d has %d bytes, size %d" % (o, pl, s)

    def chk(name, o, size, body):
        typ = tags[o][0]
        fixed = FIXED.get(typ, 8)
        for (eo, el, kind) in extents_in(body):
            if kind in ("s",):
                if eo != o + fixed or eo + el >= o + size:       # text + its NUL inside [fixed, size)
                    return "%s: string [%d,%d) not inside the content [%d,%d)" % (name, eo, eo + el, o + fixed, o + size)
            elif kind == "b":
                if eo != o + fixed or eo + el != o + size:
                    return "%s: bytes [%d,%d) but content is [%d,%d)" % (name, eo, eo + el, o + fixed, o + size)
            elif kind == "areas":
                if eo != o + fixed or eo + el != o + size:
                    return "%s: memory areas [%d,%d) but content is [%d,%d)" % (name, eo, eo + el, o + fixed, o + size)
            elif kind == "palette":
                if eo != o + 34 or eo + el > o + size:
                    return "%s: palette [%d,%d) not inside [%d,%d)" % (name, eo, eo + el, o + 32, o + size)
            elif kind == "efidesc":
                if eo < o + fixed or eo + el > o + size:
                    return "%s: EFI descriptor [%d,%d) not inside the map [%d,%d)" % (name, eo, eo + el, o + fixed, o + size)
        return None

    for name, val in secs.items():
        if name == "modules":
            for m in re.finditer(r"@(\d+):(\d+)\{([^}]*)\}", val):
                o = int(m.group(1))
                if o in tags:
                    r = chk(name, o, tags[o][1], m.group(3))
                    if r:
                        return r
            continue
        if name not in ("cmdline", "loader", "mmap", "smbios", "fb", "efi_mmap", "elf", "network"):
            continue
        v = view_of(val)
        if v and v[0] in tags:
            o = v[0]
            typ, size = tags[o]
            fixed = FIXED.get(typ, 8)
            if size < fixed:
                return "%s: a view exists although size %d < fixed part %d" % (name, size, fixed)
            if typ == 6 and (size - 16) % 24 != 0:
                return "mmap: a view exists although (size-16) %% 24 != 0"
            r = chk(name, o, size, val)
            if r:
                return r
    # a first tag of a variable kind whose size is below its fixed part must make the getter panic
    for name, typ in SECTION_TYPE.items():
        ft = first_tag(walk, typ)
        if ft and typ in (1, 2, 6, 8, 9, 13, 17) and name in secs:
            o, _, size = ft
            bad = size < FIXED[typ] or (typ == 6 and (size - 16) % 24 != 0)
            if bad and secs[name] not in ("P",) and not (name == "efi_mmap" and first_tag(walk, 18)):
                return "%s: size %d is malformed for the kind but the getter returned %s" % (name, size, secs[name][:40])
    return None


def c18_oracle(case, impl):
    pv = probe_violation(impl) or eqpad_violation(impl)
    if pv:
        return pv
    region = region_of(case)
    secs = sections(impl)
    if not secs.get("ld", "").startswith("ok"):
        return None
    walk, wend = spec_walk(region)
    ft = first_tag(walk, 17)
    val = secs.get("efi_mmap")
    if val is None:
        return None
    bs = first_tag(walk, 18)
    if bs:
        if r8(bs[2]) != 8:
            return None
        return None if val == "-" else "EFI memory map is not withheld although a boot-services-not-exited tag is present: " + val[:40]
    if ft is None or val in ("-",):
        return None
    o, _, size = ft
    if size < 16:
        return None if val == "P" else "size below the fixed part"
    if val == "P":
        return None     # getter itself panicked (e.g. walk broke before) - not this property's concern
    d, ver = le(region, o + 8, 4), le(region, o + 12, 4)
    L = size - 16
    m = re.search(r"areas=(.*),\}$", val)
    if not m:
        return "cannot parse efi section: " + val[:60]
    areas = m.group(1)
    ok = ver == 1 and d >= 40 and d % 8 == 0 and L % d == 0
    if not ok:
        return None if areas == "P" else "version=%d desc_size=%d map length=%d must be rejected by a panic, got %s" % (ver, d, L, areas[:60])
    n = L // d
    exp = "[len=%d|" % n
    for i in range(n):
        e = o + 16 + i * d
        exp += "{@%d,ty=%d,phys=%d,virt=%d,pages=%d,att=%d,rem=%d}" % (e, le(region, e, 4), le(region, e + 8, 8), le(region, e + 16, 8), le(region, e + 24, 8), le(region, e + 32, 8), n - i - 1)
    exp += "].rem=0"
    if areas != exp:
        return "EFI iteration differs from the specification: got %s expected %s" % (areas[:120], exp[:120])
    return None


def elf_class(v):
    if 1 <= v <= 11:
        return v
    if 0x60000000 <= v <= 0x6FFFFFFF:
        return 0x60000000
    if 0x70000000 <= v <= 0x7FFFFFFF:
        return 0x70000000
    return 0


def c19_oracle(case, impl):
    pv = probe_violation(impl) or eqpad_violation(impl)
    if pv:
        return pv
    region = region_of(case)
    secs = sections(impl)
    if not secs.get("ld", "").startswith("ok"):
        return None
    walk, wend = spec_walk(region)
    ft = first_tag(walk, 9)
    val = secs.get("elf")
    if ft is None or val in (None, "-", "P"):
        return None
    o, _, size = ft
    if size < 20:
        return "a view exists although size < 20"
    n, es, shndx = le(region, o + 8, 4), le(region, o + 12, 4), le(region, o + 16, 4)
    L = size - 20
    m = re.search(r"sections=(.*),\}$", val)
    if not m:
        return "cannot parse elf section: " + val[:60]
    got = m.group(1)
    fits = n * es <= L and (n == 0 or (shndx + 1) * es <= L)
    if not fits:
        dep = secs.get("elf_sections")
        if dep not in (None, "-", "P"):
            return "count=%d entry size=%d shndx=%d reach outside the %d section bytes but the deprecated elf_sections() did not reject them: %s" % (n, es, shndx, L, dep[:60])
        return None if got == "P" else "count=%d entry size=%d shndx=%d reach outside the %d section bytes but were not rejected: %s" % (n, es, shndx, L, got[:60])
    if es not in (40, 64):
        if n == 0:
            return None if got == "[]." else "empty section list expected, got " + got[:40]
        return None if got.endswith("]!") or got == "P" else "entry size %d must be rejected by a panic, got %s" % (es, got[:60])
    exp = "["
    for i in range(n):
        e = o + 20 + i * es
        raw = le(region, e + 4, 4)
        c = elf_class(raw)
        if c == 0:
            continue
        if es == 40:
            fl, ad, sz, al = le(region, e + 8, 4), le(region, e + 12, 4), le(region, e + 20, 4), le(region, e + 32, 4)
        else:
            fl, ad, sz, al = le(region, e + 8, 8), le(region, e + 16, 8), le(region, e + 32, 8), le(region, e + 48, 8)
        exp += "{type=%d,raw=%d,flags=%d,start=%d,end=%d,size=%d,align=%d,alloc=%s,rem=%d}" % (
            c, raw, fl & 7, ad, (ad + sz) % (1 << 64), sz, al, "true" if fl & 2 else "false", n - i - 1)
    exp += "]."
    if got != exp:
        return "ELF iteration differs from the specification: got %s expected %s" % (got[:160], exp[:160])
    return c19_deprecated(secs, n, es, shndx, size, exp)


def c19_name_oracle(case, impl):
    """ELFNAME: for a table that fits (entry size 40/64, count x size and the string-table header inside the tag) every
    in-use section's name is the NUL-terminated byte string at (name index) inside the designated string table
    (the harness zero-pads it); independent of the model."""
    t = case.split()
    es, n, shndx = int(t[1]), int(t[2]), int(t[3])
    ents = bytes.fromhex(t[4]) if len(t) > 4 and t[4] != "-" else b""
    strtab = (bytes.fromhex(t[5]) if len(t) > 5 and t[5] != "-" else b"") + b"\0" * 64
    L = len(ents)
    if es not in (40, 64) or n * es > L or (n and (shndx + 1) * es > L):
        return None
    exp = "["
    for i in range(n):
        e = i * es
        if le(ents, e + 4, 4) == 0:
            continue
        idx = le(ents, e, 4)
        if idx >= len(strtab) - 1:
            return None
        end = strtab.index(b"\0", idx)
        nm = strtab[idx:end]
        exp += ("s:%s|" % (nm.hex() if nm else "-")) if valid_utf8(nm) else "e:Utf8|"
    exp += "]."
    if impl != exp:
        return "section names do not resolve through the designated string table: got %s expected %s" % (impl[:160], exp[:160])
    return None


def c03_modules_oracle(case, impl):
    """SWEEP: the module iterator yields exactly the module tags of the specification's walk, in order (any loaded
    region whose walk ends at the end of the region and whose module tags carry at least their 16 fixed bytes)"""
    region = region_of(case)
    secs = sections(impl)
    if not load_ok(region) or not secs.get("ld", "").startswith("ok"):
        return None
    walk, wend = spec_walk(region)
    if wend != "done":
        return None
    mods = [o for (o, t, s) in walk if t == 3]
    if any(s < 16 for (o, t, s) in walk if t == 3):
        return None
    val = secs.get("modules")
    if val is None:
        return None
    got = [int(x) for x in re.findall(r"@(\d+):\d+\{start=", val)]
    if got != mods or not val.endswith("]."):
        return "module iterator: got tags at %s (%s), the walk has module tags at %s" % (got[:8], val[-3:], mods[:8])
    return None


def c19_deprecated(secs, n, es, shndx, size, exp):
    """the deprecated BootInformation::elf_sections(): same iteration, same rejections (it may additionally reject an
    empty table whose string-table index reaches outside the tag)"""
    dep = secs.get("elf_sections")
    if dep in (None, "-"):
        return None
    if dep == "P":
        return None if es * shndx > size else "elf_sections() panicked on a tag that sections() accepts"
    m = re.match(r"(\d+)(\[.*)$", dep)
    if not m:
        return "cannot parse elf_sections: " + dep[:60]
    if int(m.group(1)) != n or m.group(2) != exp:
        return "deprecated elf_sections() differs from the specification: got %s expected %d%s" % (dep[:160], n, exp[:160])
    return None


def valid_utf8(b):
    try:
        b.decode("utf-8")
        return True
    except UnicodeDecodeError:
        return False


def fnv(b):
    h = 14695981039346656037
    for x in b:
        h = ((h ^ x) * 1099511628211) & 0xFFFFFFFFFFFFFFFF
    return h


def exp_string(region, o, fixed, size):
    content = region[o + fixed:o + size]
    i = content.find(b"\0")
    if i < 0:
        return "e:MissingNul"
    if not valid_utf8(content[:i]):
        return "e:Utf8"
    return "s(%d:%d:%016x)" % (o + fixed, i, fnv(content[:i]))


def c17_oracle(case, impl):
    region = region_of(case)
    secs = sections(impl)
    if not secs.get("ld", "").startswith("ok"):
        return None
    walk, wend = spec_walk(region)
    for name, typ, fixed, key in (("cmdline", 1, 8, "cmdline"), ("loader", 2, 8, "name")):
        ft = first_tag(walk, typ)
        val = secs.get(name)
        if ft is None or val in (None, "-", "P"):
            continue
        o, _, size = ft
        m = re.search(key + r"=([^,]*),", val)
        if not m:
            return "cannot parse %s" % name
        exp = exp_string(region, o, fixed, size)
        if m.group(1) != exp:
            return "%s: parsed %s, the specification gives %s" % (name, m.group(1), exp)
    mods = [(o, s) for (o, t, s) in walk if t == 3]
    got = re.findall(r"@(\d+):\d+\{[^}]*cmdline=([^,]*),\}", secs.get("modules", ""))
    for (o, val) in got:
        o = int(o)
        size = dict(mods).get(o)
        if size is None:
            return "module at %d is not a module tag of the walk" % o
        exp = exp_string(region, o, 16, size)
        if val != exp:
            return "module at %d: parsed %s, the specification gives %s" % (o, val, exp)
    return None


# ------------------------------------------------------------------------------------------------ C04

SPEC_FIELDS = {
    # section: (type, [(name, offset, width)])   -- offsets from the Multiboot2 specification / multiboot2.h / VBE 3.0 / ACPI
    "apm": (10, [("version", 8, 2), ("cseg", 10, 2), ("offset", 12, 4), ("cset_16", 16, 2), ("dseg", 18, 2), ("flags", 20, 2),
                 ("cseg_len", 22, 2), ("cseg_16_len", 24, 2), ("dseg_len", 26, 2)]),
    "meminfo": (4, [("lower", 8, 4), ("upper", 12, 4)]),
    "bootdev": (5, [("biosdev", 8, 4), ("slice", 12, 4), ("part", 16, 4)]),
    "efi_ih32": (19, [("handle", 8, 4)]),
    "efi_ih64": (20, [("handle", 8, 8)]),
    "efi_sdt32": (11, [("sdt", 8, 4)]),
    "efi_sdt64": (12, [("sdt", 8, 8)]),
    "load_base": (21, [("addr", 8, 4)]),
    "efi_bs": (18, []),
    "network": (16, []),
}
SPEC_SIZE = {10: 28, 4: 16, 5: 20, 19: 12, 20: 16, 11: 12, 12: 16, 21: 12, 18: 8, 14: 28, 15: 44, 7: 784}


def conformant(region, walk):
    for (o, t, s) in walk:
        if t in SPEC_SIZE and s != SPEC_SIZE[t]:
            return False
        if t in (1, 2) and s < 9:
            return False
        if t == 3 and s < 17:
            return False
        if t == 6 and (s < 16 or (s - 16) % 24 or le(region, o + 8, 4) != 24):
            return False
        if t == 8:
            if s < 32:
                return False
            tb = region[o + 29]
            n = s - 32
            if tb == 0 and (n < 2 or 2 + 3 * le(region, o + 32, 2) > n):
                return False
            if tb == 1 and n < 6:
                return False
        if t == 9:
            if s < 20:
                return False
            n, es, sh = le(region, o + 8, 4), le(region, o + 12, 4), le(region, o + 16, 4)
            if es not in (40, 64) and n:
                return False
            if n * es > s - 20 or (n and (sh + 1) * es > s - 20):
                return False
        if t == 13 and s < 16:
            return False
        if t == 17:
            if s < 16:
                return False
            d, v = le(region, o + 8, 4), le(region, o + 12, 4)
            if v != 1 or d < 40 or d % 8 or (s - 16) % d:
                return False
    return True


def c04_oracle(case, impl):
    """for spec-conformant regions: first match, every field = LE value at the specified offset, no panics"""
    region = region_of(case)
    secs = sections(impl)
    if not load_ok(region):
        return None
    if not secs.get("ld", "").startswith("ok"):
        return "a well-formed region did not load: " + secs.get("ld", "?")
    walk, wend = spec_walk(region)
    if wend != "done" or not conformant(region, walk):
        # only the framebuffer type rule applies to everything
        return fb_type_rule(region, walk, secs)
    for name, (typ, fields) in SPEC_FIELDS.items():
        ft = first_tag(walk, typ)
        val = secs.get(name)
        if ft is None:
            if val != "-":
                return "%s: no tag of type %d but the getter returned %s" % (name, typ, val[:40])
            continue
        o, _, size = ft
        exp = "@%d:%d{" % (o, r8(size)) + "".join("%s=%d," % (n, le(region, o + fo, w)) for (n, fo, w) in fields) + "}"
        if val != exp:
            return "%s: got %s, the specification gives %s" % (name, val[:200], exp[:200])
    # every getter: first tag in walk order, none when absent, never a panic
    for name, typ in SECTION_TYPE.items():
        ft = first_tag(walk, typ)
        val = secs.get(name, "")
        if name == "efi_mmap" and first_tag(walk, 18):
            if val != "-":
                return "efi_mmap must be withheld while boot services are not exited"
            continue
        if ft is None:
            if val != "-":
                return "%s: absent tag but getter returned %s" % (name, val[:40])
        else:
            if name == "fb" and region[ft[0] + 29] > 2:
                continue
            v = view_of(val)
            if not v or v[0] != ft[0]:
                return "%s: expected the first tag of type %d at %d, got %s" % (name, typ, ft[0], val[:40])
            if "=P" in val or val == "P":
                return "%s: an accessor panicked on a conformant tag: %s" % (name, val[:120])
    r = fb_type_rule(region, walk, secs)
    if r:
        return r
    # framebuffer fields / colour info
    ft = first_tag(walk, 8)
    if ft and region[ft[0] + 29] <= 2:
        o, _, size = ft
        tb = region[o + 29]
        exp = "address=%d,pitch=%d,width=%d,height=%d,bpp=%d," % (le(region, o + 8, 8), le(region, o + 16, 4), le(region, o + 20, 4), le(region, o + 24, 4), region[o + 28])
        if tb == 0:
            n = le(region, o + 32, 2)
            exp += "type=indexed(%d:%d:%016x)," % (o + 34, n, fnv(region[o + 34:o + 34 + 3 * n][:4096]))
        elif tb == 1:
            exp += "type=rgb(%s)," % ":".join(str(region[o + 32 + i]) for i in range(6))
        else:
            exp += "type=text,"
        if "{" + exp + "}" not in secs.get("fb", ""):
            return "fb: got %s, the specification gives {%s}" % (secs.get("fb", "")[:200], exp[:200])
    # RSDP
    for name, typ, ln in (("rsdp1", 14, 20), ("rsdp2", 15, None)):
        ft = first_tag(walk, typ)
        if ft:
            o = ft[0]
            length = ln if ln is not None else le(region, o + 28, 4)
            valid = length <= 36 and sum(region[o + 8:o + 8 + length]) % 256 == 0
            if "valid=%s," % ("true" if valid else "false") not in secs.get(name, ""):
                return "%s: checksum validity differs from the specification (expected %s): %s" % (name, valid, secs.get(name, "")[:120])
            if name == "rsdp1":
                if "revision=%d,rsdt=%d," % (region[o + 23], le(region, o + 24, 4)) not in secs[name]:
                    return "rsdp1 fields differ: " + secs[name][:160]
            else:
                if "revision=%d,xsdt=%d,ext_checksum=%d," % (region[o + 23], le(region, o + 32, 8), region[o + 40]) not in secs[name]:
                    return "rsdp2 fields differ: " + secs[name][:160]
    # memory map entries
    ft = first_tag(walk, 6)
    if ft:
        o, _, size = ft
        n = (size - 16) // 24
        exp = "entry_size=24,entry_version=%d,areas=[%d:%d|" % (le(region, o + 12, 4), o + 16, n)
        for i in range(n):
            e = o + 16 + 24 * i
            b, l = le(region, e, 8), le(region, e + 8, 8)
            exp += "{start=%d,end=%d,size=%d,typ=%d,}" % (b, (b + l) % (1 << 64), l, le(region, e + 16, 4))
        exp += "],"
        if "{" + exp + "}" not in secs.get("mmap", ""):
            return "mmap: got %s, the specification gives {%s}" % (secs.get("mmap", "")[:200], exp[:200])
    # modules: exactly the module tags of the walk in order, with their address ranges
    mods = [(o, s) for (o, t, s) in walk if t == 3]
    got = re.findall(r"@(\d+):\d+\{start=(\d+),end=(\d+),size=(\d+),", secs.get("modules", ""))
    exp = [(str(o), str(le(region, o + 8, 4)), str(le(region, o + 12, 4)), str(max(0, le(region, o + 12, 4) - le(region, o + 8, 4)))) for (o, s) in mods]
    if got != exp or not secs.get("modules", "").endswith("]."):
        return "modules: got %s expected %s" % (got[:4], exp[:4])
    # smbios, vbe
    ft = first_tag(walk, 13)
    if ft:
        o, _, size = ft
        exp = "major=%d,minor=%d,tables=b(%d:%d:%016x)," % (region[o + 8], region[o + 9], o + 16, size - 16, fnv(region[o + 16:o + size]))
        if "{" + exp + "}" not in secs.get("smbios", ""):
            return "smbios: got %s expected {%s}" % (secs.get("smbios", "")[:160], exp[:160])
    ft = first_tag(walk, 7)
    if ft:
        o = ft[0]
        c = o + 16
        mi = o + 528
        ci = [region[c], region[c + 1], region[c + 2], region[c + 3], le(region, c + 4, 2), le(region, c + 6, 4), le(region, c + 10, 4), le(region, c + 14, 4),
              le(region, c + 18, 2), le(region, c + 20, 2), le(region, c + 22, 4), le(region, c + 26, 4), le(region, c + 30, 4)]
        m = [le(region, mi, 2), region[mi + 2], region[mi + 3], le(region, mi + 4, 2), le(region, mi + 6, 2), le(region, mi + 8, 2), le(region, mi + 10, 2),
             le(region, mi + 12, 4), le(region, mi + 16, 2), le(region, mi + 18, 2), le(region, mi + 20, 2)] + [region[mi + i] for i in (22, 23, 24, 25, 26, 27, 28, 29)] + \
            [region[mi + i] for i in (31, 32, 33, 34, 35, 36, 37, 38, 39)] + [le(region, mi + 40, 4), le(region, mi + 44, 4), le(region, mi + 48, 2), 0, 0]
        exp = "mode=%d,iseg=%d,ioff=%d,ilen=%d,ci=%s,mi=%s," % (le(region, o + 8, 2), le(region, o + 10, 2), le(region, o + 12, 2), le(region, o + 14, 2),
                                                                 ":".join(map(str, ci)), ":".join(map(str, m)))
        if "{" + exp + "}" not in secs.get("vbe", ""):
            return "vbe: got %s expected {%s}" % (secs.get("vbe", "")[:300], exp[:300])
    return None


def fb_type_rule(region, walk, secs):
    ft = first_tag(walk, 8)
    val = secs.get("fb")
    if ft and val is not None and ft[2] >= 32 and val not in ("P",):
        tb = region[ft[0] + 29]
        if tb > 2 and val != "unknown:%d" % tb:
            return "framebuffer type byte %d must be reported as unknown, got %s" % (tb, val[:60])
        if tb <= 2 and val.startswith("unknown"):
            return "framebuffer type byte %d is a known type, got %s" % (tb, val)
    return None


# ------------------------------------------------------------------------------------------------ C07

def _tag(typ, payload):
    return (typ, None, 8 + len(payload), struct.pack("<II", typ, 8 + len(payload)) + payload)


def _htag(typ, flags, payload):
    return (typ, flags, 8 + len(payload), struct.pack("<HHI", typ, flags, 8 + len(payload)) + payload)


def _strc(s):
    return s if s.endswith(b"\0") else s + b"\0"


def expected_ctor(name, blob):
    """Specification encoding of the constructor arguments: (type, flags, size, bytes[..size]) or None = must panic."""
    b = blob
    if name == "cmdline":
        return _tag(1, _strc(b))
    if name == "loader":
        return _tag(2, _strc(b))
    if name == "module":
        if not le(b, 4, 4) > le(b, 0, 4):
            return None
        return _tag(3, b[:8] + _strc(b[8:]))
    if name == "meminfo":
        return _tag(4, b[:8])
    if name == "bootdev":
        return _tag(5, b[:12])
    if name == "mmap":
        n = len(b) // 24
        return _tag(6, struct.pack("<II", 24, 0) + b"".join(b[24 * i:24 * i + 20] + b"\0\0\0\0" for i in range(n)))
    if name == "vbe":
        ci = b[8:42] + b"\0" * (222 + 256)
        mi = b[520:547] + bytes([b[547] % 8]) + b[548:550] + b"\0" + b[551:570] + b"\0" * 206
        return _tag(7, b[:8] + ci + mi)
    if name == "fb":
        ty = b[21]
        rest = b[24:]
        if ty == 0:
            n = max(0, len(rest) - 2) // 3
            info = struct.pack("<H", n & 0xFFFF) + rest[2:2 + 3 * n]
            tb = 0
        elif ty == 1:
            info = rest[:6]
            tb = 1
        else:
            info = b""
            tb = 2
        return _tag(8, b[:20] + bytes([b[20], tb, 0, 0]) + info)
    if name == "elf":
        return _tag(9, b)
    if name == "apm":
        return _tag(10, b[:20])
    if name == "efi32":
        return _tag(11, b[:4])
    if name == "efi64":
        return _tag(12, b[:8])
    if name == "smbios":
        return _tag(13, b[:2] + b"\0" * 6 + b[8:])
    if name == "rsdp1":
        return _tag(14, b"RSD PTR " + b[8:20])
    if name == "rsdp2":
        return _tag(15, b"RSD PTR " + b[8:33] + b"\0\0\0")
    if name == "network":
        return _tag(16, b)
    if name == "efimmap":
        if le(b, 0, 4) == 0:
            return None
        return _tag(17, b)
    if name == "efidescs":
        n = len(b) // 40
        return _tag(17, struct.pack("<II", 40, 1) + b"".join(b[40 * i:40 * i + 4] + b"\0\0\0\0" + b[40 * i + 8:40 * i + 40] for i in range(n)))
    if name == "efibs":
        return _tag(18, b"")
    if name == "ih32":
        return _tag(19, b[:4])
    if name == "ih64":
        return _tag(20, b[:8])
    if name == "loadbase":
        return _tag(21, b[:4])
    if name == "end":
        return _tag(0, b"")
    fl = le(b, 0, 2) & 1 if len(b) >= 2 else 0
    if name == "h_address":
        return _htag(2, fl, b[2:18])
    if name == "h_console":
        return _htag(4, fl, struct.pack("<I", le(b, 2, 4) & 1))
    if name == "h_end":
        return _htag(0, 0, b"")
    if name == "h_entry":
        return _htag(3, fl, b[2:6])
    if name == "h_efi32":
        return _htag(8, fl, b[2:6])
    if name == "h_efi64":
        return _htag(9, fl, b[2:6])
    if name == "h_fb":
        return _htag(5, fl, b[2:14])
    if name == "h_modalign":
        return _htag(6, fl, b"")
    if name == "h_efibs":
        return _htag(7, fl, b"")
    if name == "h_reloc":
        return _htag(10, fl, b[2:14] + struct.pack("<I", le(b, 14, 4) % 3))
    if name == "h_inforeq":
        n = (len(b) - 2) // 4
        return _htag(1, fl, b[2:2 + 4 * n])
    raise ValueError(name)


def c07_oracle(case, impl):
    t = case.split()
    name = t[1]
    blob = bytes.fromhex(t[2]) if len(t) > 2 and t[2] != "-" else b""
    exp = expected_ctor(name, blob)
    if exp is None:
        return None if impl == "panic" else "the constructor must reject these arguments by a panic, got " + impl[:80]
    if impl == "panic":
        return "the constructor panicked on valid arguments"
    typ, flags, size, image = exp
    d = dict(x.split("=", 1) for x in impl.split(" ") if "=" in x)
    if int(d["typ"]) != typ:
        return "type field %s, the specification says %d" % (d["typ"], typ)
    if flags is not None and int(d.get("flags", -1)) != flags:
        return "flags field %s, expected %d" % (d.get("flags"), flags)
    if int(d["size"]) != size:
        return "size field %s, the exact unpadded byte count is %d" % (d["size"], size)
    got = bytes.fromhex(d["bytes"]) if d["bytes"] != "-" else b""
    if got != image:
        return "bytes differ from the specification's encoding: got %s expected %s" % (got.hex()[:120], image.hex()[:120])
    if d["align"] != "8":
        return "the tag type is only %s-aligned: its byte view is not obtainable at every placement" % d["align"]
    if not d["asbytes"].startswith("ok:") or int(d["asbytes"][3:]) != r8(size):
        return "as_bytes() failed or has the wrong length: " + d["asbytes"]
    return None


# ------------------------------------------------------------------------------------------------ C16

def c16_oracle(case, impl):
    t = case.split()
    if impl == "panic":
        return "heap construction / cloning panicked"
    d = dict(x.split("=", 1) for x in impl.split(" ") if "=" in x)
    got = bytes.fromhex(d["bytes"]) if d["bytes"] != "-" else b""
    size = int(d["size"])
    if t[0] == "BOXED":
        kind = t[1]
        hb = bytes.fromhex(t[2])
        arg = t[3] if len(t) > 3 else "-"
        parts = [] if arg == "-" else [b"" if x in ("e", "") else bytes.fromhex(x) for x in arg.split(",")]
        content = b"".join(parts)
        total = (16 if kind == "hb" else 8) + len(content)
        if kind == "ht":
            hb = struct.pack("<HH", le(hb, 0, 2) % 11, le(hb, 2, 2) % 2) + hb[4:]
        if kind == "bi":
            exp = struct.pack("<I", total) + hb[4:8] + content
        elif kind == "hb":
            exp = hb[:8] + struct.pack("<II", total, (-(le(hb, 0, 4) + le(hb, 4, 4) + total)) % (1 << 32)) + content
        else:
            exp = hb[:4] + struct.pack("<I", total) + content
        if size != total or got != exp:
            return "expected the header with size %d followed by the content without gaps, got size %d bytes %s" % (total, size, got.hex()[:80])
        if int(d["pl"]) != len(content):
            return "payload length %s, content has %d bytes" % (d["pl"], len(content))
    else:
        img = bytes.fromhex(t[2])
        dsize = le(img, 4, 4)
        if size != dsize or got != img[:dsize]:
            return "clone differs: declared size %d -> %d, bytes %s -> %s" % (dsize, size, img[:dsize].hex()[:80], got.hex()[:80])
        total = size
    want = "%d/8" % r8(total)
    if d["addr8"] != "0":
        return "object is not 8-aligned"
    if d["alloc"] != want:
        return "allocation %s, expected %s" % (d["alloc"], want)
    if d["dealloc"] != want:
        return "freed with layout %s (expected exactly once with %s)" % (d["dealloc"], want)
    return None


# ------------------------------------------------------------------------------------------------ C06 / C12

MBI_MULTI = {"module", "smbios", "custom"}


def parse_ops(s):
    out = []
    for op in s.split(","):
        if op and op != "-":
            n, h = op.split(":")
            out.append((n, bytes.fromhex(h) if h != "-" else b""))
    return out


def kv(impl):
    d = {}
    for part in impl.split(" "):
        if "=" in part:
            k, v = part.split("=", 1)
            d[k] = v
    return d


def c06_oracle(case, impl):
    t = case.split()
    ops = parse_ops(t[1] if len(t) > 1 else "-")
    # arguments the constructors / add_custom_tag must reject
    for n, b in ops:
        if n == "custom":
            if le(b, 0, 4) <= 21:
                return None if impl == "panic" else "a non-custom type was accepted as custom tag"
        elif expected_ctor(n, b) is None:
            return None if impl == "panic" else "invalid constructor arguments were accepted"
    if impl == "panic":
        return "the builder panicked on valid calls"
    d = kv(impl)
    if d.get("align8") != "0":
        return "built structure is not 8-aligned"
    if d.get("load") != "ok":
        return "the built structure does not load: %s" % d.get("load")
    if d["len"] != d["total"]:
        return "declared total size %s differs from the byte length %s" % (d["total"], d["len"])
    # expected multiset: single slots last call wins, repeatable slots all in call order
    single = {}
    multi = {}
    for n, b in ops:
        if n == "custom":
            img = struct.pack("<II", le(b, 0, 4), 8 + len(b) - 4) + b[4:]
        else:
            img = expected_ctor(n, b)[3]
        if n in MBI_MULTI:
            multi.setdefault(n, []).append(img)
        else:
            single[n] = img
    tl, end = d["tags"].split("|")
    got = []
    for ent in tl.split(","):
        if ent:
            o, typ, size, hx_ = ent.split(":")
            got.append((int(o), int(typ), int(size), bytes.fromhex(hx_)))
    if end != "done":
        return "the tag walk of the built structure does not end cleanly"
    if not got or got[-1][1] != 0 or got[-1][2] != 8 or got[-1][3] != struct.pack("<II", 0, 8):
        return "the last tag is not an end tag"
    if d.get("last8") != "0000000008000000":
        return "the final 8 bytes are not the end tag"
    body = got[:-1]
    if any(g[1] == 0 for g in body):
        return "an end tag appears before the end"
    # every supplied image must occur exactly once (repeatables in order), nothing else
    exp_imgs = list(single.values())
    for n in multi:
        exp_imgs += multi[n]
    got_imgs = [g[3] for g in body]
    if sorted(got_imgs) != sorted(exp_imgs):
        missing = [x.hex()[:40] for x in exp_imgs if x not in got_imgs]
        extra = [x.hex()[:40] for x in got_imgs if x not in exp_imgs]
        return "tags of the built structure differ from the supplied ones: missing %s, unexpected %s" % (missing[:3], extra[:3])
    for n, imgs in multi.items():
        pos = [got_imgs.index(x) for x in imgs] if len(set(imgs)) == len(imgs) else None
        if pos is not None and pos != sorted(pos):
            return "%s tags are not in call order" % n
    for (o, typ, size, b) in got:
        if o % 8 != 0:
            return "tag at %d is not 8-aligned" % o
    return None


def c12_oracle(case, impl):
    t = case.split()
    arch = int(t[1])
    ops = parse_ops(t[2] if len(t) > 2 else "-")
    if impl == "panic":
        return "the header builder panicked"
    d = kv(impl)
    if d.get("align8") != "0":
        return "built header is not 8-aligned"
    hdr = bytes.fromhex(d["hdr"])
    magic, a, length, ck = struct.unpack("<IIII", hdr)
    if magic != 0xE85250D6:
        return "wrong magic %08x" % magic
    if a != arch:
        return "architecture %d, chosen %d" % (a, arch)
    if length != int(d["len"]):
        return "length field %d, byte length %s" % (length, d["len"])
    if (magic + a + length + ck) % (1 << 32) != 0:
        return "checksum is not valid"
    if d.get("load") != "ok":
        return "the built header does not load: %s" % d.get("load")
    single = {}
    for n, b in ops:
        single[n] = expected_ctor(n, b)[3]
    tl, end = d["tags"].split("|")
    got = []
    for ent in tl.split(","):
        if ent:
            o, size, hx_ = ent.split(":")
            got.append((int(o), int(size), bytes.fromhex(hx_)))
    if end != "done":
        return "the tag walk of the built header does not end cleanly"
    endimg = struct.pack("<HHI", 0, 0, 8)
    if not got or got[-1][2] != endimg or d.get("last8") != endimg.hex():
        return "the header is not terminated by an end tag (type 0, flags 0, size 8)"
    body = [g[2] for g in got[:-1]]
    if sorted(body) != sorted(single.values()):
        return "header tags differ from the supplied ones: got %s expected %s" % ([x.hex()[:32] for x in body][:4], [x.hex()[:32] for x in single.values()][:4])
    return None


# ------------------------------------------------------------------------------------------------ C11 / C09 (header crate)

H_SECTIONS = {"inforeq": 1, "address": 2, "entry": 3, "console": 4, "fb": 5, "modalign": 6, "efibs": 7, "efi32": 8, "efi64": 9, "reloc": 10}
H_SPEC_FIELDS = {
    "address": [("header_addr", 8, 4), ("load_addr", 12, 4), ("load_end_addr", 16, 4), ("bss_end_addr", 20, 4)],
    "entry": [("entry_addr", 8, 4)], "efi32": [("entry_addr", 8, 4)], "efi64": [("entry_addr", 8, 4)],
    "console": [("console_flags", 8, 4)], "fb": [("width", 8, 4), ("height", 12, 4), ("depth", 16, 4)],
    "modalign": [], "efibs": [], "reloc": [("min_addr", 8, 4), ("max_addr", 12, 4), ("align", 16, 4), ("preference", 20, 4)],
}
H_SPEC_SIZE = {2: 24, 3: 12, 4: 12, 5: 20, 6: 8, 7: 8, 8: 12, 9: 12, 10: 24, 0: 8}


def hspec_walk(region):
    length = le(region, 8, 4)
    off = 16
    out = []
    while True:
        if off == length:
            return out, "done"
        if off + 8 > length:
            return out, "bad"
        typ, fl, size = le(region, off, 2), le(region, off + 2, 2), le(region, off + 4, 4)
        if size < 8 or off + r8(size) > length:
            return out, "bad"
        out.append((off, typ, size, fl))
        off += r8(size)


def hvalid(region):
    if len(region) < 16:
        return False
    m, a, l, c = (le(region, i, 4) for i in (0, 4, 8, 12))
    return l >= 16 and l % 8 == 0 and l <= len(region) and m == 0xE85250D6 and (m + a + l + c) % (1 << 32) == 0 and a in (0, 4)


def c11_oracle(case, impl):
    region = region_of(case)
    secs = sections(impl)
    if not hvalid(region):
        return None
    m, a, l, c = (le(region, i, 4) for i in (0, 4, 8, 12))
    if secs.get("ld") != "ok(%d:%d:%d:%d:true)" % (m, a, l, c):
        return "header accessors: got %s, stored magic/arch/length/checksum are %d/%d/%d/%d" % (secs.get("ld"), m, a, l, c)
    walk, wend = hspec_walk(region)
    exp_tags = "".join("%d:%d:%d:%d:%d," % (o, t, fl, s, s - 8) for (o, t, s, fl) in walk) + ("|done" if wend == "done" else "|panic")
    if secs.get("tags") != exp_tags:
        return "tag iterator differs from the spec walk: got %s expected %s" % (secs.get("tags", "")[:160], exp_tags[:160])
    if wend != "done":
        return None
    conform = all((t in H_SPEC_SIZE and s == H_SPEC_SIZE[t]) or (t == 1 and (s - 8) % 4 == 0) for (o, t, s, fl) in walk) and \
        all(t <= 10 and fl <= 1 for (o, t, s, fl) in walk)
    if not conform:
        return None
    for name, typ in H_SECTIONS.items():
        ft = next(((o, t, s, fl) for (o, t, s, fl) in walk if t == typ), None)
        val = secs.get(name)
        if ft is None:
            if val != "-":
                return "%s: absent but getter returned %s" % (name, str(val)[:60])
            continue
        o, t, s, fl = ft
        if typ == 4 and le(region, o + 8, 4) > 1 or typ == 10 and le(region, o + 20, 4) > 2:
            continue
        if name == "inforeq":
            n = (s - 8) // 4
            body = "typ=1,flags=%d,size=%d,requests=[%d:%d|%s],debug=true," % (fl, s, o + 8, n, ":".join(str(le(region, o + 8 + 4 * i, 4)) for i in range(n)))
        else:
            body = "typ=%d,flags=%d,size=%d," % (typ, fl, s) + "".join("%s=%d," % (fn, le(region, o + fo, w)) for (fn, fo, w) in H_SPEC_FIELDS[name]) + "debug=true,"
        exp = "@%d:%d{%s}" % (o, r8(s), body)
        if val != exp:
            return "%s: got %s, the specification gives %s" % (name, str(val)[:200], exp[:200])
    return None


def c05_h_oracle(case, impl):
    """header information-request tags: the request list is [8, size) in 4-byte words; size < 8 or a remainder -> panic"""
    if impl.startswith("crash") or impl == "harness-panic":
        return "the process crashed / the harness lost control"
    region = region_of(case)
    secs = sections(impl)
    if not secs.get("ld", "").startswith("ok"):
        return None
    walk, wend = hspec_walk(region)
    ft = None
    for (o, t, sz, fl) in walk:
        if t == 1:
            ft = (o, sz)
            break
    val = secs.get("inforeq")
    if ft is None or val is None:
        return None
    o, size = ft
    if size < 8 or (size - 8) % 4 != 0:
        return None if val == "P" else "information-request tag of size %d (remainder %d) must be rejected by a controlled panic, got %s" % (size, (size - 8) % 4 if size >= 8 else -1, val[:80])
    m = re.search(r"requests=\[(\d+):(\d+)\|", val)
    if not m:
        return "information-request tag of size %d: no request list in %s" % (size, val[:80])
    ro, rn = int(m.group(1)), int(m.group(2))
    if ro != o + 8 or rn != (size - 8) // 4:
        return "request list [%d,+%d words) but the tag content is [%d,%d)" % (ro, rn, o + 8, o + size)
    return None


def c09_oracle(case, impl):
    if impl.startswith("crash") or impl == "harness-panic":
        return "the process crashed / the harness lost control"
    region = region_of(case)
    secs = sections(impl)
    if not secs.get("ld", "").startswith("ok"):
        return None
    length = le(region, 8, 4)
    if length < 16 or length % 8 != 0:
        return "a malformed header length (%d) was accepted instead of an error / controlled panic (the 16 header bytes reach beyond the declared length)" % length
    walk, wend = hspec_walk(region)
    tags = {o: s for (o, t, s, fl) in walk}
    for name, val in secs.items():
        v = view_of(val)
        if v:
            o, sov = v
            if o not in tags:
                return "%s: view at %d is not a tag of the walk" % (name, o)
            if sov != r8(tags[o]) or o + sov > length:
                return "%s: view of %d bytes over a tag of size %d (declared length %d)" % (name, sov, tags[o], length)
            m = re.search(r"requests=\[(\d+):(\d+)\|", val)
            if m:
                ro, rn = int(m.group(1)), int(m.group(2))
                if ro != o + 8 or ro + 4 * rn != o + tags[o]:
                    return "%s: request list [%d,%d) but the tag content is [%d,%d)" % (name, ro, ro + 4 * rn, o + 8, o + tags[o])
    return None
