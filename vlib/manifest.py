"""Regenerates MANIFEST.json from the set of claimed properties (run: python3 -m vlib.manifest)."""
import json
import os

VERIF = os.path.dirname(os.path.dirname(os.path.abspath(__file__)))

CLAIMS = {
    "C14": {
        "text": "Lean 4 theorems (kernel-checked, all slice lengths/addresses/contents, both build profiles) that the model of BytesRef::try_from / ref_from_bytes / ref_from_slice meets the C14 specification (error precedence, success only if the declaration fits, in-memory size = declared size rounded up to 8 <= slice) and that increase_to_alignment's bit formula is rounding up on all u64 below 2^64-7; the model is tied to /repo on every run by a correspondence run (bounded-exhaustive REF cases over 5 header kinds, dev+release builds) and by exhaustive block hashes of increase_to_alignment over the 2^32 domain (thorough tier: all 4096 blocks).",
        "design": "DESIGN.md section 6 (C14)",
        "note": "trusted: Lean kernel; axioms propext/Classical.choice/Quot.sound; hand-written model outside the generated cases; ptr_meta fat-pointer construction (header/payload bytes of the view are compared by hash); harness and check.py",
        "technique": "Lean 4 proof over a hand-written model + differential correspondence check (Rust harness vs compiled Lean driver)",
    },
    "C02": {
        "text": "Lean 4 theorem load_eq/load_meets_spec: for every memory content behind a non-null aligned pointer whose declared region is readable, and for a null pointer, the modelled BootInformation::load returns exactly the outcome the C02 specification prescribes (precedence null, shorter-than-header, missing padding, no end tag; success fields), never panics, never reads outside the declared region, independent of the build profile. Tied to /repo by LOAD cases (all declared sizes 0..72+, 16 corruptions of the final 8 bytes, sizes up to 1 MiB) in dev and release with the region flush against a PROT_NONE page.",
        "design": "DESIGN.md section 6 (C02)",
        "note": "trusted: as C14; the pointer contract (aligned, declared region readable) is a hypothesis of the theorem and is respected by the generator",
        "technique": "Lean 4 proof (refinement of the load model to the Spec decision sequence) + differential correspondence check",
    },
    "C03": {
        "text": "Lean 4 theorems: one TagIter::next step of the line-by-line model equals one step of the specification walk (both profiles, all three tag-header kinds, incl. the wrapping release arithmetic for sizes below 8); draining equals the walk; items lie inside the buffer; termination bound; and a history refinement by induction over arbitrary next/clone/fresh operation sequences on an iterator pool to an abstract pool of indices into the walk (exhaustion is sticky, clones continue from the same index). Tied to /repo by WALK cases: every tiling of areas up to 48 bytes with every size residue and corrupted sizes, random histories, dev+release.",
        "design": "DESIGN.md section 6 (C03)",
        "note": "trusted: as C14; module iterator = filter over the same walk is covered by the getter model of C04; behaviour of an iterator after it panicked is outside the property and not compared (marked dead)",
        "technique": "Lean 4 proof (step refinement + induction over operation histories) + differential correspondence check",
    },
    "C20": {
        "text": "Lean 4 theorems for ALL u32 values (not enumerated: proved by case split on the finite arm list): tag-type and memory-area-type conversions round-trip, named numbers map to named variants and everything else to Custom, conversions through the id wrapper commute, the six PartialEq impls agree with numeric equality, ELF section-type classification is total with the documented ranges, framebuffer type bytes 0..2 known / all others unknown, magic constants. Tied to /repo by exhaustive block hashes of per-value signatures computed through the real API over the 2^32 domain (quick: boundary + 48 random blocks of 2^20; thorough: all 4096 blocks), expanded value-by-value against an independent Python transcription of the property on any mismatch, plus all 256 framebuffer type bytes and the constants.",
        "design": "DESIGN.md section 6 (C20)",
        "note": "trusted: Lean kernel and the three standard axioms; the hand-written model (tied exhaustively in the thorough tier); FNV-1a-64 block hashing; harness",
        "technique": "Lean 4 proof (unbounded in the value) + exhaustive differential correspondence by block hashes",
    },
    "C10": {
        "text": "Lean 4 theorems: checksum law (calc + magic + arch + length = 0 mod 2^32) and uniqueness for all words; hload_eq/hload_meets_spec: the modelled Multiboot2Header::load returns exactly the specified outcome (null, too short, missing padding, wrong magic, checksum mismatch, success) for every memory content with a defined architecture word, never panics, profile independent. Tied to /repo by HLOAD cases (all lengths 0..80 x checksum/magic corruptions, sampled to 64 KiB, dev+release, guard page) and exhaustive block hashes of calc_checksum over all 2^32 lengths x both architectures x 2 magics (thorough).",
        "design": "DESIGN.md section 6 (C10)",
        "note": "trusted: as C14; an undefined architecture word is outside the property's hypothesis (the model says `ub` there, the Spec `anything`)",
        "technique": "Lean 4 proof + differential correspondence (cases + exhaustive block hashes)",
    },
    "C13": {
        "text": "Lean 4 theorems: the linear scan of the model is the least-index search of the specification (induction over the buffer), findHeader_meets_spec: for EVERY buffer the modelled find_header returns exactly none / the first aligned occurrence with its stored length when inside the buffer / an error, never panics; none_iff, some_sound spell out first-occurrence and window semantics. Tied to /repo by FIND cases: every buffer length around 0..80, 8192+-16, 16384+-8, magic at every position 0..40 and 8150..8200, stored lengths fitting / one too many / huge, second magics, partial magics; dev+release.",
        "design": "DESIGN.md section 6 (C13)",
        "note": "trusted: as C14; the error KIND for misaligned/truncated is not fixed by the property: impl and model are compared modulo the kind (canon), the Spec admits any error",
        "technique": "Lean 4 proof (refinement of the scan to find? over the index range) + differential correspondence",
    },
    "C18": {
        "text": "Lean 4 theorems about the model of EFIMemoryMapTag::memory_areas / EFIMemoryAreaIter: accept_iff (accepted exactly for version 1, d >= 40, 8 | d, d | L, with L/d entries; everything else a controlled panic), desc_inside (the i-th descriptor is decoded from the 40 bytes at map offset i*d, aligned, inside the map), len_after (after k calls of next the reported length is entries - min(k, entries), by induction over the prefix). Tied to /repo by SWEEP cases over all descriptor sizes/versions/lengths with len()/size_hint() observed around every next(), dev+release, and checked against a Python transcription of the property on every case.",
        "design": "DESIGN.md section 6 (C18)",
        "note": "trusted: Lean kernel + propext/Classical.choice/Quot.sound; the hand-written model (Mb2.Tags/Mb2.Sweep) outside the generated cases; rustc layout/codegen, core::str::from_utf8 and CStr (modelled by Lean's ByteArray.validateUTF8 / first-NUL search, compared on generated inputs); the Python oracle (vlib/oracle.py) as independent transcription of the property; harness, guard pages",
        "technique": "Lean 4 proof (decision logic + induction over iterator prefixes) + differential correspondence + property oracle on the implementation",
    },
    "C19": {
        "text": "Lean 4 theorems about the model of ElfSectionsTag::sections / ElfSectionIter: open_iff (accepted exactly when n*es and (shndx+1)*es fit in the section bytes, else controlled panic), sec_at_ok (ELF32/ELF64 field decoding by entry size), iter_inside (by induction: all yielded sections are in-use entries inside the tag, in order, iteration ends normally, at most n items), iter_bad_size (entry size other than 40/64 panics). Tied to /repo by SWEEP cases (entry sizes, counts, present entries, string-table indices incl. u32-overflowing products, all raw type classes), dev+release, Python oracle.",
        "design": "DESIGN.md section 6 (C19)",
        "note": "trusted: Lean kernel + propext/Classical.choice/Quot.sound; the hand-written model (Mb2.Tags/Mb2.Sweep) outside the generated cases; rustc layout/codegen, core::str::from_utf8 and CStr (modelled by Lean's ByteArray.validateUTF8 / first-NUL search, compared on generated inputs); the Python oracle (vlib/oracle.py) as independent transcription of the property; harness, guard pages; section NAMES are excluded by the property itself",
        "technique": "Lean 4 proof (induction over the remaining-sections counter) + differential correspondence + property oracle",
    },
    "C15": {
        "text": "Lean 4 theorem cast_size: for ANY type descriptor (not only truthful ones) and any header kind, the modelled cast either panics or yields a view whose size equals the generic tag's in-memory size (= tag size rounded up to 8 for iterator-produced tags), at the same address (getTag_same_address); dst_truthful gives the size formula of truthful dynamically sized types. Tied to /repo by CAST cases: 27 user-defined types defined in the harness x all tag sizes 0..96, plus all built-in kinds x adversarial sizes.",
        "design": "DESIGN.md section 6 (C15)",
        "note": "trusted: Lean kernel + propext/Classical.choice/Quot.sound; the hand-written model (Mb2.Tags/Mb2.Sweep) outside the generated cases; rustc layout/codegen, core::str::from_utf8 and CStr (modelled by Lean's ByteArray.validateUTF8 / first-NUL search, compared on generated inputs); the Python oracle (vlib/oracle.py) as independent transcription of the property; harness, guard pages; ptr_meta fat-pointer construction is modelled",
        "technique": "Lean 4 proof + differential correspondence over a family of user-defined types",
    },
    "C17": {
        "text": "CONSTRUCTOR -> ACCESSOR round trip: string_tag_roundtrip / module_tag_roundtrip: for EVERY Lean String without NUL the constructor image has size fixed+|s|+1, exactly one NUL, and the accessor (checked slice [fixed,size) of the declared bytes + parse) returns s. Lean 4 theorems: parse_spec (for any content bytes: text = bytes before the first NUL if valid UTF-8, MissingNul iff no NUL inside the declared content, Utf8 otherwise; text and terminator inside the content), roundtrip (for EVERY Lean String without NUL - valid UTF-8 by construction like &str - the stored content is s followed by exactly one NUL and parses back to s, whatever bytes follow). Tied to /repo by SWEEP over all strings of length 0..3 over an 8-symbol alphabet with NUL / letter in the padding, random longer byte strings incl. overlongs/surrogates, declared sizes cutting the content, and CTOR cases for the three constructors; Python oracle with Python's UTF-8 decoder as third opinion.",
        "design": "DESIGN.md section 6 (C17)",
        "note": "trusted: Lean kernel + propext/Classical.choice/Quot.sound; the hand-written model (Mb2.Tags/Mb2.Sweep) outside the generated cases; rustc layout/codegen, core::str::from_utf8 and CStr (modelled by Lean's ByteArray.validateUTF8 / first-NUL search, compared on generated inputs); the Python oracle (vlib/oracle.py) as independent transcription of the property; harness, guard pages; agreement of Lean's, Rust's and Python's notion of well-formed UTF-8 is sampled, not proved",
        "technique": "Lean 4 proof (round trip over all Strings) + differential correspondence + property oracle",
    },
    "C05": {
        "text": "Lean 4 theorems: dst_view_exact (for every variable-length kind with fixed part `base` and element size e: a typed view exists iff size >= base and (size-base) % e = 0, else controlled panic; then the tail has exactly (size-base)/e elements and the view spans the rounded tag), dst_extent_ends_at_size (base + n*e = size: no padding, nothing of the next tag), palette_inside (the indexed palette is handed out only inside the colour-info buffer). Tied to /repo by SWEEP over every kind x adversarial declared sizes with distinguishable neighbours, two poison fills, Python oracle on the extents the real code returned.",
        "design": "DESIGN.md section 6 (C05)",
        "note": "trusted: Lean kernel + propext/Classical.choice/Quot.sound; the hand-written model (Mb2.Tags/Mb2.Sweep) outside the generated cases; rustc layout/codegen, core::str::from_utf8 and CStr (modelled by Lean's ByteArray.validateUTF8 / first-NUL search, compared on generated inputs); the Python oracle (vlib/oracle.py) as independent transcription of the property; harness, guard pages; the header crate's information-request list is covered by the HSWEEP family of C11",
        "technique": "Lean 4 proof + differential correspondence + extent oracle on the implementation",
    },
    "C04": {
        "text": "SOURCE-DERIVED tie (translator tools/gen_source.py -> Mb2/Gen/Source.lean, regenerated on every run): Layout.ids_match / base_sizes_match / fixed_parts_match / accessors_match / direct_fields_match / vbe_*_matches prove by `decide` that the repr(C) layout of every tag struct in the CURRENT Rust source, its Tag::ID, its BASE_SIZE and the field each accessor returns equal the model tables, which layout_eq_spec ties to the specification tables. Lean 4 theorems: getTag_first (the getter returns the first tag of the walk with the type number, nothing when the complete walk has none), layout_eq_spec / fixed_size_eq_spec (struct field lists transcribed from the Rust sources = the specification's offset tables), field_decodes (every plain accessor returns the little-endian value at the specified offset, no panic, inside the tag), efi_map_withheld, fb_unknown_type / fb_known_type (all type bytes), rsdp2_long_invalid. Tied to /repo by SWEEP over conformant regions of all 22 kinds (random = byte-marked fields, duplicates, orders), dev AND release; an independent Python oracle decodes every field (incl. VBE blocks, memory-map entries, colour info, RSDP validity, module ranges) from the raw bytes at the specification's offsets.",
        "design": "DESIGN.md section 6 (C04)",
        "note": "trusted: Lean kernel + propext/Classical.choice/Quot.sound; the hand-written model (Mb2.Tags/Mb2.Sweep) outside the generated cases; rustc layout/codegen, core::str::from_utf8 and CStr (modelled by Lean's ByteArray.validateUTF8 / first-NUL search, compared on generated inputs); the Python oracle (vlib/oracle.py) as independent transcription of the property; harness, guard pages; VBE / memory-map / RSDP / SMBIOS field tables are checked by the Python oracle and the correspondence, the Lean theorem covers the plain-field kinds",
        "technique": "Lean 4 proof + differential correspondence + independent decoding oracle + source-to-Lean translator for struct layouts / IDs / accessors",
    },
    "C01": {
        "text": "END-TO-END Lean 4 theorem sweep_no_fault / sweepLoaded_no_fault: for EVERY memory content whose declared region is readable, the complete sweep of load + tag walk + all 22 typed getters + every field accessor + string / SMBIOS / palette slices (taken by checked slices from the tag's DECLARED size) + the memory-map, EFI-map, ELF-section and module iterators drained + both RSDP checksums + deprecated elf_sections() + Debug contains no out-of-extent read (`oob`) and no undefined enum value (`ub`) - stated about the very function (`Sweep.sweep`) whose rendering the correspondence check compares with the real code on every SWEEP case; the harness additionally cross-checks every iterator through nth/skip/count/last/step_by/size_hint/clones (iterator-protocol probes). Supporting theorems: Lean 4 theorems that no modelled entry point can read outside its permitted extent: walk_no_fault, cast_no_fault, getTag_no_fault (never `oob`/`ub`), view_inside_tag (every typed view starts at the tag's aligned offset, spans exactly roundUp8(size) bytes, inside the tag area), fields_no_fault, mmap_area_inside, fb_byte_no_fault, byteSum_no_fault / rsdp2_no_fault, efi_no_fault, elf_no_fault, walk_bounded (termination bounds). Tied to /repo by SWEEP = load + every getter/accessor/iterator/Debug under catch_unwind on the adversarial streams, region flush against PROT_NONE pages (end and start placement), two poison fills, crash detection per case; the Python oracle checks that every returned extent lies inside the tag it came from. PARTIAL: which bytes the machine code loads is a runtime fact - the theorem is about the model; guard pages, poison and extents connect it to the binary.",
        "design": "DESIGN.md section 6 (C01), section 9",
        "note": "trusted: Lean kernel + propext/Classical.choice/Quot.sound; the hand-written model (Mb2.Tags/Mb2.Sweep) outside the generated cases; rustc layout/codegen, core::str::from_utf8 and CStr (modelled by Lean's ByteArray.validateUTF8 / first-NUL search, compared on generated inputs); the Python oracle (vlib/oracle.py) as independent transcription of the property; harness, guard pages; Debug output is observed as panic / no panic only",
        "technique": "Lean 4 proof (no-fault theorems over a checked-read memory model) + differential correspondence + guard-page / poison detectors",
    },
    "C07": {
        "text": "BYTE-EXACT for ALL argument values: contiguous_ctor_bytes (image = header(type,size) ++ arguments for the ten fixed-size tags), contiguous_ctor_readback (every field of the SPECIFICATION's layout table read from the image is the argument at that position), placed_ctor_readback (through the accessor path on a loaded region), module_ctor / smbios_ctor / network_ctor / elf_ctor (heap-built: header(type, 8+|content|) ++ content in specification order); Layout.ids_match / hids_match: the ID constants in the CURRENT source are the specification's numbers (translator, regenerated every run). Lean 4 theorems over the constructor model ctorImpl (struct field order, the size constant each constructor writes, new_boxed for heap-built tags): sized_ctor_exact (all 13 fixed-size information-tag constructors, ALL argument values: type = the kind's ID = specification number, size = Spec.fixedSize = exact unpadded byte count = number of initialised bytes, header decodes, size_of_val = size rounded up to 8), boxed_ctor_exact (all content slices: exact size, no gaps, never panics), cmdline/loader size = fixed + |s| + 1 with exactly one NUL (and unchanged when already NUL-terminated), bootdev_readback. Tied to /repo by CTOR cases for all 34 public constructors of both crates (boundary + random argument blobs, every content-length residue), dev+release; an independent Python transcription of the specification's encoding is compared with the REAL constructors' bytes, type, size, alignment and as_bytes() on every case.",
        "design": "DESIGN.md section 6 (C07)",
        "note": "trusted: Lean kernel + propext/Classical.choice/Quot.sound; the hand-written model (Mb2.Build) outside the generated cases; rustc layout/codegen; Box / allocator behaviour (observed through a tracking global allocator); the Python oracle (vlib/oracle.py: expected_ctor etc.) as independent transcription of the specification; harness; padding bytes behind the declared size are uninitialised in stack-built tags and not compared",
        "technique": "Lean 4 proof + differential correspondence + independent encoding oracle + source-to-Lean translator for IDs / BASE_SIZE",
    },
    "C16": {
        "text": "Lean 4 theorems: partition_irrelevant (new_boxed depends on the slices only through their concatenation), newBoxed_generic_tag (for any header image and content: header with size = 8 + total, content without gaps, 8-aligned allocation of the total rounded up to 8, never panics), dealloc_eq_alloc (whenever new_boxed returns, the size handed to dealloc equals the allocation size, for every header kind and target type), clone_identity (cloning a tag of any size >= 8 gives the same declared size and the same bytes up to it: padding is not cloned). Tied to /repo by BOXED cases (all content lengths 0..24, all cut points / random partitions into 0..4 slices, three header kinds) and CLONE cases (12 dynamically sized kinds of both crates x content lengths 0..17) with a tracking global allocator recording allocation and deallocation layouts. PARTIAL: `freed exactly once` is Box semantics, observed (one dealloc event with the allocation layout), not modelled.",
        "design": "DESIGN.md section 6 (C16), section 9",
        "note": "trusted: Lean kernel + propext/Classical.choice/Quot.sound; the hand-written model (Mb2.Build) outside the generated cases; rustc layout/codegen; Box / allocator behaviour (observed through a tracking global allocator); the Python oracle (vlib/oracle.py: expected_ctor etc.) as independent transcription of the specification; harness",
        "technique": "Lean 4 proof + differential correspondence + allocator instrumentation in the harness",
    },
    "C06": {
        "text": "Lean 4 theorems: walk_concat / built_area_walk (by induction over the list: the tag area image_1 ++ ... ++ image_n ++ end tag of well-formed images walks to exactly those images, in order, at their offsets, followed by one end tag, ending cleanly; generic in the header kind), sizedImg_wf, slot_put_same / slot_put_other (an Option slot keeps the last tag, a Vec slot all tags in call order, other slots untouched), with C16's content law for the final new_boxed. Tied to /repo by BUILD cases through the REAL constructors and builder methods: empty builder, every slot, all ordered pairs, 4096 random subsets in random order (thorough: all 2^21 subsets of the non-VBE slots), repeats, invalid custom types; the Python oracle checks alignment, load, exact total size, per-kind tag sequences byte-identical up to size, final end tag.",
        "design": "DESIGN.md section 6 (C06)",
        "note": "trusted: Lean kernel + propext/Classical.choice/Quot.sound; the hand-written model (Mb2.Build) outside the generated cases; rustc layout/codegen; Box / allocator behaviour (observed through a tracking global allocator); the Python oracle (vlib/oracle.py: expected_ctor etc.) as independent transcription of the specification; harness; the order of DIFFERENT kinds is not fixed by the property and not checked by the oracle (the model follows the code's order)",
        "technique": "Lean 4 proof (induction over tag lists / slot updates) + differential correspondence + oracle",
    },
    "C12": {
        "text": "Lean 4 theorems: built_header_area_walk (header-tag walk of tag_1 ++ ... ++ tag_n ++ end tag = the supplied tags + the terminating end tag (type 0, flags 0, size 8)), set_size_keeps_checksum_valid (new_boxed's set_size writes length = byte count and a checksum with magic + arch + length + checksum = 0 mod 2^32, for every length/architecture; magic and architecture untouched), slot lemmas and C10.checksum_law. Tied to /repo by HBUILD: ALL 2^10 subsets of builder slots x both architectures (exhaustive in every run) with random contents, random orders, repeats, all information-request lengths 0..8; oracle checks magic, architecture, length, checksum, load, tags byte-identical, end tag.",
        "design": "DESIGN.md section 6 (C12)",
        "note": "trusted: Lean kernel + propext/Classical.choice/Quot.sound; the hand-written model (Mb2.Build) outside the generated cases; rustc layout/codegen; Box / allocator behaviour (observed through a tracking global allocator); the Python oracle (vlib/oracle.py: expected_ctor etc.) as independent transcription of the specification; harness",
        "technique": "Lean 4 proof + exhaustive (2^10 x 2) differential correspondence + oracle",
    },
    "C11": {
        "text": "SOURCE-DERIVED tie (translator, regenerated every run): Layout.hids_match / hbase_sizes_match / hfixed_parts_match / haccessors_match / header_fields_match prove that the layout, Tag::ID, BASE_SIZE and accessor fields of the eleven header-tag structs and the two headers in the CURRENT source equal the model tables (= the specification tables by layout_eq_spec). Lean 4 theorems: header_accessors (for a valid header the four accessors return the stored magic, architecture, length, checksum), tag_iter_is_spec_walk (the header-tag iterator = the specification walk from offset 16 to the declared length), hgetTag_first (first tag of the type in walk order / nothing when absent), layout_eq_spec + field_decodes (every field accessor of every header-tag kind = little-endian value at the specified offset, inside the tag), info_request_count ((size-8)/4 words, remainder = controlled panic). Tied to /repo by HSWEEP over valid headers of all 11 kinds (random = byte-marked fields, duplicates, orders, all request-list lengths 0..8, both architectures), dev+release; Python oracle decodes at the specification's offsets.",
        "design": "DESIGN.md section 6 (C11)",
        "note": "trusted: Lean kernel + propext/Classical.choice/Quot.sound; the hand-written model (Mb2.HTags / Mb2.Header) outside the generated cases; rustc layout/codegen; the Python oracle as independent transcription of the specification; harness, guard pages",
        "technique": "Lean 4 proof + differential correspondence + independent decoding oracle + source-to-Lean translator for struct layouts / IDs / accessors",
    },
    "C09": {
        "text": "END-TO-END Lean 4 theorem hsweep_no_fault / hsweepLoaded_no_fault: under the property's hypothesis on the enumerated fields (EnumsDefined) the complete header sweep (load, walk, ten typed getters, all field accessors, information-request list, Debug) - the very function `HSweep.hsweep` the correspondence compares with the real code - contains no `oob` and no `ub`, for every memory content. Supporting theorems: Lean 4 theorems under the property's hypothesis (enumerated fields hold declared values; the model answers `ub` otherwise and such cases are recognised and set aside): walk_no_fault, bad_size_panics (a tag size below 8 or leaving the declared length is a controlled panic in BOTH profiles), cast_no_fault, hgetTag_no_fault, view_inside_tag (every typed view spans exactly the tag's rounded extent inside the declared length), inforeq_words_inside, walk_bounded; loading itself never panics/faults by C10.hload_eq. Tied to /repo by HSWEEP over adversarial headers (all kinds x sizes 0..beyond the region, corrupted lengths, missing end tag) with in-range enumerated fields, region flush against a PROT_NONE page, two poison fills, crash detection; Python oracle checks every view/extent. PARTIAL as C01: the loads the machine code performs are a runtime fact.",
        "design": "DESIGN.md section 6 (C09), section 9",
        "note": "trusted: Lean kernel + propext/Classical.choice/Quot.sound; the hand-written model (Mb2.HTags / Mb2.Header) outside the generated cases; rustc layout/codegen; the Python oracle as independent transcription of the specification; harness, guard pages",
        "technique": "Lean 4 proof (no-fault theorems over a checked-read memory model) + differential correspondence + guard-page / poison detectors",
    },
    "C08": {
        "text": "Lean 4 theorems that the build profile is irrelevant on every parsing path of the model (which carries a Profile parameter at each unchecked arithmetic site of the code): payloadLen/refFromSlice/load/hload/next/tags/cast/hcast/getTag _profile_independent, for all inputs; field accessors and the EFI/ELF/memory-map/RSDP/string/framebuffer readers take no profile at all. The full statement `no undefined behaviour for any input` is PROVED FALSE (full_statement_fails: architecture word 1) and load_ub_only_by_arch bounds where: known finding F20. Features do not occur in the model; that no cfg(feature) lies on a parsing path is OBSERVED: the same cases run through four real builds {dev, release} x {default, --no-default-features}, transcripts must be pairwise identical and equal to the model.",
        "design": "DESIGN.md section 6 (C08), sections 7 and 9",
        "note": "trusted: Lean kernel + propext/Classical.choice/Quot.sound; the hand-written model (Mb2.HTags / Mb2.Header) outside the generated cases; rustc layout/codegen; the Python oracle as independent transcription of the specification; harness, guard pages; PARTIAL: optimiser behaviour under undefined behaviour has no semantics - cases where the model says `ub` are reported as KNOWN-FINDING F20 (known_findings.json), everything else is compared",
        "technique": "Lean 4 proof (profile-independence of the model) + four-build differential correspondence",
    },
}

# function-body tie (tools/gen_fns.py -> Mb2/Gen/Fns.lean, regenerated from /repo on every run; theorems in Mb2/Props/Fns*.lean)
FNS = {
    "C14": "increase_to_alignment, BytesRef::try_from, the size guard of ref_from_bytes, the default Header::total_size, payload_len of the four header kinds, total_size of the two structure headers",
    "C02": "BootInformation::load (precedence null pointer -> memory error of ref_from_ptr -> missing end tag -> Ok), BootInformationHeader::payload_len / total_size",
    "C03": "TagIter::next (exhaustion test, assert, offset arithmetic incl. the rounding, bounds of the sub-slice; tagIterNext_eq ties it to the model's step), increase_to_alignment, TagHeader::payload_len",
    "C10": "Multiboot2Header::load (precedence null -> memory error -> magic -> checksum), calc_checksum, verify_checksum, Multiboot2BasicHeader::payload_len / total_size",
    "C05": "dst_len of all nine dynamically sized boot-information tags and of the information-request header tag (BASE_SIZE constants evaluated from the source)",
    "C15": "dst_len of all nine dynamically sized boot-information tags (the truthful declarations the cast relies on)",
    "C20": "From<u32> for TagType, From<TagType> for u32, TagType::val, MemoryAreaType <-> MemoryAreaTypeId, ElfSection::section_type (all arms and both ranges), FramebufferTypeId::try_from - each for ALL values",
    "C18": "EFIMemoryMapTag::memory_areas (version, alignment), EFIMemoryAreaIter::new (desc_size >= 40, % 8, length % desc_size, entry count), next (both branches, index update), len",
    "C19": "ElfSectionsTag::sections (both bounds in u64, no overflow for u32 operands), ElfSection::section_type",
    "C04": "RsdpV2Tag::checksum_is_valid (length bound 36 before summing), MemoryMapTag::memory_areas (entry size 24), ModuleTag::module_size, MemoryArea::end_address, FramebufferTypeId::try_from",
    "C08": "the payload_len / total_size functions and TagIter::next for BOTH profiles (the evaluator implements dev = panic on overflow, release = wrap)",
    "C09": "HeaderTagHeader::payload_len, InformationRequestHeaderTag::dst_len, TagIter::next",
    "C11": "InformationRequestHeaderTag::dst_len",
    "C01": "TagIter::next, all nine dst_len, the EFI iterator (memory_areas / new / next / len), ElfSectionsTag::sections, RsdpV2Tag::checksum_is_valid, MemoryMapTag::memory_areas - the guards that keep every read inside the tag",
}
for _p, _t in FNS.items():
    CLAIMS[_p]["text"] = ("SOURCE = MODEL for function bodies (translator tools/gen_fns.py -> Mb2/Gen/Fns.lean, regenerated from /repo's working tree on "
                          "every run; Lean theorems Mb2.Fns.*_eq prove for ALL argument values and both build profiles that evaluating the translated body "
                          "(IR + evaluator Mb2/Rir.lean) equals the hand-written model function): " + _t + ". " + CLAIMS[_p]["text"])
    CLAIMS[_p]["technique"] = CLAIMS[_p]["technique"] + " + source-to-IR translation of the function bodies with kernel-checked equivalence to the model"
    CLAIMS[_p]["note"] = CLAIMS[_p]["note"] + "; the function translator (a hand-written parser for the Rust fragment used, semantics of the IR evaluator: dev panics / release wraps on overflow, `as` casts truncate, untyped literals take the operand type); sub-expressions it treats as opaque inputs are universally quantified in the theorems"

CLAIMS["C07"]["text"] = ("SOURCE = MODEL for the constructors (translator tools/gen_fns.py): Mb2.Fns.ctor_*_eq (23 theorems, all argument values) - the translated body of every "
                         "fixed-size tag constructor of both crates evaluates to ((type through Tag::ID resp. the HeaderTagType variant, the model's UNPADDED fixed size), "
                         "arguments in struct declaration order): a padded size constant, a wrong ID or two swapped same-width arguments breaks the constructor's obligation. " + CLAIMS["C07"]["text"])
CLAIMS["C07"]["technique"] += " + source-to-IR translation of the constructor bodies with kernel-checked equivalence to the model"
for _p, _b in (("C06", "multiboot2::Builder"), ("C12", "multiboot2_header::Builder")):
    CLAIMS[_p]["text"] = ("SOURCE = MODEL for the builder (translator tools/gen_builders.py -> Mb2/Gen/Builders.lean, regenerated on every run): Mb2.Builders.*_build_is_model / "
                          "*_setters_are_model / *_fields_are_model prove by `decide` that `build()` of " + _b + " in the CURRENT source is exactly the straight-line emission the "
                          "model folds over (structure header, one `if let Some` per Option slot and one `for` per Vec slot in the model's slot order, end tag, new_boxed - no "
                          "filter, sort, condition or second push), that every slot has exactly one setter (assignment for single-valued kinds = the last call wins, push for "
                          "repeatable kinds = all in call order) and that the field kinds are the model's repeatable flags. " + CLAIMS[_p]["text"])
    CLAIMS[_p]["technique"] += " + statement-level translation of build() and the setters with `decide`-checked agreement with the model's slot table"
CLAIMS["C19"]["text"] = "iter_eq_filter: over entries inside the extent the iterator yields EXACTLY the in-use entries in index order (filterMap over 0..n-1: nothing dropped, duplicated or reordered). " + CLAIMS["C19"]["text"]
CLAIMS["C02"]["text"] = "has_valid_end_tag_eq / has_valid_end_tag_reads_last_8: the translated end-tag check is `typ == 0 && size == 8` on the header `size_of::<EndTag>()` bytes before the end of the payload. " + CLAIMS["C02"]["text"]

for _p, _t in (("C04", "FramebufferTag::buffer_type (all four type classes, palette bound), Reader::read_next_u8 / read_next_u16; pinned one-liners: get_tag = first match by T::ID, framebuffer_tag = the first framebuffer tag, efi_memory_map_tag withheld"),
               ("C03", "pinned one-liners: tags() = walk over the payload, module_tags / ModuleIter::next = find type Module then cast"),
               ("C11", "pinned one-liners: get_tag = first match by T::ID, iter() = walk over the payload"),
               ("C19", "one iteration of ElfSectionIter::next as a step function (decrement, advance, return if in use / skip if Unused, None at 0), ElfSection::get (panic unless 40/64), end_address, dst_len of the ELF tag"),
               ("C02", "ref_from_ptr = ref_from_slice on exactly total_size() bytes, ref_from_slice precedence; load_eq_closed (load depends only on the declared size and the last 8 bytes: family LOADBIG with really mapped regions up to 4 GiB)")):
    CLAIMS[_p]["text"] = CLAIMS[_p]["text"].replace("): ", "): " + _t + "; ", 1) if CLAIMS[_p]["text"].startswith("SOURCE = MODEL for function bodies") else _t + ". " + CLAIMS[_p]["text"]

for _p, _t in (("C13", "SOURCE = MODEL for find_header (translator tools/gen_fns.py): Fns.find_header_eq - the translated body evaluates to the decision sequence findDecision (buffer alignment, no magic -> Ok(None), misaligned magic, length word outside the buffer, header outside the buffer, else sub-slice and index) with the window scan over ..min(8192), buffer.get(+8..+12) and the checked sub-slice as inputs pinned by their source text; Fns.findHeaderAt_eq_decision - the model's findHeaderAt is that decision sequence."),
               ("C15", "SOURCE = MODEL for DynSizedStructure::cast: Fns.cast_eq (the two asserts, in both profiles) and castTo_decision."),
               ("C16", "SOURCE = MODEL for new_boxed / clone_dyn / set_size (translator tools/gen_fns.py): Fns.new_boxed_eq (tag size, increase_to_alignment, final size_of_val assertion), new_boxed_copy_step_eq (one iteration of the copy loop), new_boxed_effects_pinned / new_boxed_loop_pinned (set_size, header copy, slice copies to heap_ptr.add(write_offset) in order), copy_chain_is_concat (such a chain of writes is exactly header ++ concatenated content), *_header_set_size_eq for the four header kinds, clone_dyn_is_new_boxed_of_payload."),
               ("C17", "SOURCE = MODEL for the string constructors and accessors: Fns.cmdline_new_eq / loader_new_eq / module_new_eq (NUL appended unless the text ends in one; module: end > start or panic), parse_slice_as_string pinned as CStr::from_bytes_until_nul then to_str, the three accessors parse exactly the unsized tail.")):
    CLAIMS[_p]["text"] = _t + " " + CLAIMS[_p]["text"]
    CLAIMS[_p]["technique"] += " + source-to-IR translation of the function bodies with kernel-checked equivalence to the model"

LINKED = ("LINKED composites (tools/gen_fns.py substitutes the translated callee bodies into the caller, Props/FnsLinked.lean): ref_from_slice_{tag,ht,bi,hb}_linked_eq, "
          "mbi_load_linked_eq, hdr_load_linked_eq - load -> ref_from_ptr -> ref_from_slice -> BytesRef::try_from -> ref_from_bytes -> payload_len/total_size evaluated as ONE "
          "term equals the model's closed form, so a changed callee is seen through every caller; ")
IMPLS = ("trait-impl method sets read from the source (header_impls, iterator_impls_only_next, exact_size_impls, maybe_dyn_sized_impls_minimal, default_impls): no impl "
         "overrides a provided method (nth, size_hint, total_size, ...) the translated bodies do not cover; ")
for _p in ("C14", "C02", "C10", "C08", "C09", "C03"):
    CLAIMS[_p]["text"] = LINKED + CLAIMS[_p]["text"]
for _p in ("C14", "C02", "C10", "C03", "C18", "C19", "C15", "C05", "C01", "C07", "C11", "C09"):
    CLAIMS[_p]["text"] = IMPLS + CLAIMS[_p]["text"]
CLAIMS["C05"]["text"] = "Padding twins (SWEEP: the same region with the alignment padding behind every fixed-size tag flipped must compare `==` on every typed view); " + CLAIMS["C05"]["text"]
CLAIMS["C19"]["text"] = "ELFNAME names judged by an independent oracle (NUL-terminated bytes at the name index inside the designated string table, also tables that do not start with NUL); " + CLAIMS["C19"]["text"]
CLAIMS["C03"]["text"] = "module iterator judged on every loaded region (not only spec-conformant ones) against the module tags of the specification's walk; " + CLAIMS["C03"]["text"]

TABLES = ("IMPL-BLOCK TABLES (tools/gen_fns.py IMPL_TABLES -> Gen.Fns.tbl_*, Props/FnsTbl*.lean): for 78 impl / trait blocks (every inherent impl of the three crates outside the builders and the test utilities) of the three crates EVERY function of the block in source "
          "order with its return type, translated body and inputs is compared with the reviewed table (tbl_*_eq, by rfl) - one-line forwarders and accessors included, so a typed getter "
          "that names another tag type, an accessor that returns another field, a changed body and any function ADDED to or REMOVED from the block breaks an obligation; meaning "
          "theorems on top: ")
for _p, _t in (("C04", "mbi_typed_getters_forward (each of the 18 plain getters is get_tag::<T>() at the type its return type names), tables of the tag impls, vbe_flag_bits"),
               ("C11", "hdr_typed_getters_forward, header_tag_common_accessors (typ/flags/size of all 11 header tags forward to the HeaderTagHeader accessor of that name), tables of Multiboot2Header, the basic header, HeaderTagHeader and every header tag"),
               ("C10", "hb_new_eq (Multiboot2BasicHeader::new stores MAGIC, arch, length and calcChecksum MAGIC arch length)"),
               ("C12", "hb_new_eq (the header the builder creates carries the model's checksum)"),
               ("C19", "ElfSection / ElfSectionInner32 / ElfSectionInner64 accessor tables + Layout.elf_inner_layouts_match (packed ELF32 / ELF64 field offsets = the offsets the model's elfSecAt reads), elf_iter_size_hint_eq, elf_section_flags_bits"),
               ("C18", "efi_iter_size_hint_eq (size_hint = (entries - i, Some(entries - i)) = the model's len)"),
               ("C05", "fb_eq_compares_declared_extent (== on framebuffer tags compares the header, the six fields and the buffer slice - nothing behind the declared size)"),
               ("C07", "elf_tag_new_eq, fb_tag_new_eq, efi_new_from_map_eq, mmap_new_eq (header type and the content slices in struct order), TagHeader::new / HeaderTagHeader::new, FramebufferType::serialize pinned"),
               ("C16", "elf_tag_new_eq, fb_tag_new_eq, efi_new_from_map_eq, mmap_new_eq"),
               ("C20", "tag_type_eq_id_eq (TagType == TagTypeId compares the numbers), tag_type_id_conversions_via_u32, all six mixed PartialEq impls and the id wrappers of both identifier families"),
               ("C02", "mbi_end_address_eq (end_address = start_address + total_size), BootInformationHeader::new"),
               ("C03", "DynSizedStructure::header / payload, BytesRef::deref, module_iter"),
               ("C14", "DynSizedStructure::header / payload, BytesRef::deref, the Header trait's method set"),
               ("C01", "ELF accessor tables + Layout.elf_inner_layouts_match")):
    CLAIMS[_p]["text"] = TABLES + _t + ". " + CLAIMS[_p]["text"]

NOT_YET = "not yet claimed: the Lean model, theorems and correspondence check for this property are still being built (DESIGN.md section 12 gives the order); the technique applies and the property will be claimed"


def main():
    props = [json.loads(l)["id"] for l in open(os.path.join(VERIF, "properties.jsonl"))]
    checks = []
    for p in props:
        if p in CLAIMS:
            c = CLAIMS[p]
            checks.append({
                "property_id": p,
                "quick_cmd": "python3 check.py %s --tier quick" % p,
                "thorough_cmd": "python3 check.py %s --tier thorough" % p,
                "evidence_file": "/verif/evidence/%s.json" % p,
                "replay_cmd_template": "python3 check.py %s --replay {path}" % p,
                "engine": "lean4-proof+correspondence",
                "level_claimed": {"category": "proof", "text": c["text"], "design_ref": c["design"]},
                "level_note": c["note"],
                "technique": c["technique"],
            })
    m = {
        "version": 1,
        "setup_cmd": "python3 check.py --setup",
        "hooks": {
            "guard": "rust_osdev_multiboot2_verif",
            "enable": "no hooks are needed: every observation goes through the public API (guard name reserved, never set)",
            "baseline_off_cmd": "cd /repo && cargo test --workspace --no-fail-fast --offline",
            "source_commits": [],
            "add_only": True,
        },
        "engines": [{
            "name": "lean4-proof+correspondence",
            "path": "/verif/check.py",
            "serves_properties": sorted(CLAIMS.keys()),
            "kind_free_text": "Lean 4 theorems over a hand-written executable model (lean/Mb2), tied to /repo by a Rust harness (harness/) and a compiled Lean driver run on the same generated case files; check.py orchestrates proof audit, correspondence, oracle and evidence",
        }],
        "checks": checks,
        "notes": "see DESIGN.md; known_findings.json lists fixed/known defects",
        "not_applicable": [{"property_id": p, "reason": NOT_YET} for p in props if p not in CLAIMS],
    }
    json.dump(m, open(os.path.join(VERIF, "MANIFEST.json"), "w"), indent=1)


if __name__ == "__main__":
    main()
