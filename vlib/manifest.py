"""Regenerates MANIFEST.json from the set of claimed properties (run: python3 -m vlib.manifest)."""
import json
import os

VERIF = os.path.dirname(os.path.dirname(os.path.abspath(__file__)))

CLAIMS = {
    "C14": {
        "text": "Lean 4 theorems (kernel-checked, all slice lengths/addresses/contents, both build profiles) that the model of BytesRef::try_from / ref_from_bytes / ref_from_slice meets the C14 specification (error precedence, success only if the declaration fits, in-memory size = declared size rounded up to 8 <= slice) and that increase_to_alignment's bit formula is rounding up on all u64 below 2^64-7; the model is tied to /repo on every run by a correspondence run (bounded-exhaustive REF cases over 5 header kinds, dev+release builds) and by exhaustive block hashes of increase_to_alignment over the 2^32 domain (thorough tier: all 4096 blocks).",
        "design": "DESIGN.md section 6 (C14)",
        "note": "trusted: Lean kernel; axioms propext/Classical.choice/Quot.sound; hand-written model outside the generated cases; ptr_meta fat-pointer construction (header/payload bytes of the view are compared by hash); harness and check.py",
        "technique": "Lean 4 proof over a hand-written model + differential correspondence check (Rust harness vs compiled Lean driver)",
    },
    "C02": {
        "text": "Lean 4 theorem load_eq/load_meets_spec: for every memory content behind a non-null aligned pointer whose declared region is readable, and for a null pointer, the modelled BootInformation::load returns exactly the outcome the C02 specification prescribes (precedence null, shorter-than-header, missing padding, no end tag; success fields), never panics, never reads outside the declared region, independent of the build profile. Tied to /repo by LOAD cases (all declared sizes 0..72+, 16 corruptions of the final 8 bytes, sizes up to 1 MiB) in dev and release with the region flush against a PROT_NONE page.",
        "design": "DESIGN.md section 6 (C02)",
        "note": "trusted: as C14; the pointer contract (aligned, declared region readable) is a hypothesis of the theorem and is respected by the generator",
        "technique": "Lean 4 proof (refinement of the load model to the Spec decision sequence) + differential correspondence check",
    },
    "C03": {
        "text": "Lean 4 theorems: one TagIter::next step of the line-by-line model equals one step of the specification walk (both profiles, all three tag-header kinds, incl. the wrapping release arithmetic for sizes below 8); draining equals the walk; items lie inside the buffer; termination bound; and a history refinement by induction over arbitrary next/clone/fresh operation sequences on an iterator pool to an abstract pool of indices into the walk (exhaustion is sticky, clones continue from the same index). Tied to /repo by WALK cases: every tiling of areas up to 48 bytes with every size residue and corrupted sizes, random histories, dev+release.",
        "design": "DESIGN.md section 6 (C03)",
        "note": "trusted: as C14; module iterator = filter over the same walk is covered by the getter model of C04; behaviour of an iterator after it panicked is outside the property and not compared (marked dead)",
        "technique": "Lean 4 proof (step refinement + induction over operation histories) + differential correspondence check",
    },
    "C20": {
        "text": "Lean 4 theorems for ALL u32 values (not enumerated: proved by case split on the finite arm list): tag-type and memory-area-type conversions round-trip, named numbers map to named variants and everything else to Custom, conversions through the id wrapper commute, the six PartialEq impls agree with numeric equality, ELF section-type classification is total with the documented ranges, framebuffer type bytes 0..2 known / all others unknown, magic constants. Tied to /repo by exhaustive block hashes of per-value signatures computed through the real API over the 2^32 domain (quick: boundary + 48 random blocks of 2^20; thorough: all 4096 blocks), expanded value-by-value against an independent Python transcription of the property on any mismatch, plus all 256 framebuffer type bytes and the constants.",
        "design": "DESIGN.md section 6 (C20)",
        "note": "trusted: Lean kernel and the three standard axioms; the hand-written model (tied exhaustively in the thorough tier); FNV-1a-64 block hashing; harness",
        "technique": "Lean 4 proof (unbounded in the value) + exhaustive differential correspondence by block hashes",
    },
    "C10": {
        "text": "Lean 4 theorems: checksum law (calc + magic + arch + length = 0 mod 2^32) and uniqueness for all words; hload_eq/hload_meets_spec: the modelled Multiboot2Header::load returns exactly the specified outcome (null, too short, missing padding, wrong magic, checksum mismatch, success) for every memory content with a defined architecture word, never panics, profile independent. Tied to /repo by HLOAD cases (all lengths 0..80 x checksum/magic corruptions, sampled to 64 KiB, dev+release, guard page) and exhaustive block hashes of calc_checksum over all 2^32 lengths x both architectures x 2 magics (thorough).",
        "design": "DESIGN.md section 6 (C10)",
        "note": "trusted: as C14; an undefined architecture word is outside the property's hypothesis (the model says `ub` there, the Spec `anything`)",
        "technique": "Lean 4 proof + differential correspondence (cases + exhaustive block hashes)",
    },
    "C13": {
        "text": "Lean 4 theorems: the linear scan of the model is the least-index search of the specification (induction over the buffer), findHeader_meets_spec: for EVERY buffer the modelled find_header returns exactly none / the first aligned occurrence with its stored length when inside the buffer / an error, never panics; none_iff, some_sound spell out first-occurrence and window semantics. Tied to /repo by FIND cases: every buffer length around 0..80, 8192+-16, 16384+-8, magic at every position 0..40 and 8150..8200, stored lengths fitting / one too many / huge, second magics, partial magics; dev+release.",
        "design": "DESIGN.md section 6 (C13)",
        "note": "trusted: as C14; the error KIND for misaligned/truncated is not fixed by the property: impl and model are compared modulo the kind (canon), the Spec admits any error",
        "technique": "Lean 4 proof (refinement of the scan to find? over the index range) + differential correspondence",
    },
}

NOT_YET = "not yet claimed: the Lean model, theorems and correspondence check for this property are still being built (DESIGN.md section 12 gives the order); the technique applies and the property will be claimed"


def main():
    props = [json.loads(l)["id"] for l in open(os.path.join(VERIF, "properties.jsonl"))]
    checks = []
    for p in props:
        if p in CLAIMS:
            c = CLAIMS[p]
            checks.append({
                "property_id": p,
                "quick_cmd": "python3 check.py %s --tier quick" % p,
                "thorough_cmd": "python3 check.py %s --tier thorough" % p,
                "evidence_file": "/verif/evidence/%s.json" % p,
                "replay_cmd_template": "python3 check.py %s --replay {path}" % p,
                "engine": "lean4-proof+correspondence",
                "level_claimed": {"category": "proof", "text": c["text"], "design_ref": c["design"]},
                "level_note": c["note"],
                "technique": c["technique"],
            })
    m = {
        "version": 1,
        "setup_cmd": "python3 check.py --setup",
        "hooks": {
            "guard": "rust_osdev_multiboot2_verif",
            "enable": "no hooks are needed: every observation goes through the public API (guard name reserved, never set)",
            "baseline_off_cmd": "cd /repo && cargo test --workspace --no-fail-fast --offline",
            "source_commits": [],
            "add_only": True,
        },
        "engines": [{
            "name": "lean4-proof+correspondence",
            "path": "/verif/check.py",
            "serves_properties": sorted(CLAIMS.keys()),
            "kind_free_text": "Lean 4 theorems over a hand-written executable model (lean/Mb2), tied to /repo by a Rust harness (harness/) and a compiled Lean driver run on the same generated case files; check.py orchestrates proof audit, correspondence, oracle and evidence",
        }],
        "checks": checks,
        "notes": "see DESIGN.md; known_findings.json lists fixed/known defects",
        "not_applicable": [{"property_id": p, "reason": NOT_YET} for p in props if p not in CLAIMS],
    }
    json.dump(m, open(os.path.join(VERIF, "MANIFEST.json"), "w"), indent=1)


if __name__ == "__main__":
    main()
