"""Raw encoder for Multiboot2 boot informations (independent of the repo's builder) + adversarial mutators."""
import struct

from .props import u16, u32, u64, rbytes, hx


def tag(typ, body, size=None, pad=None, rng=None):
    """A tag image: header (typ, size) + body, padded to 8. `size` overrides the declared size."""
    real = 8 + len(body)
    b = u32(typ) + u32(real if size is None else size) + body
    r = (-len(b)) % 8
    if pad is None:
        pad = rbytes(rng, r) if rng else b"\0" * r
    return b + pad[:r] + b"\0" * (r - len(pad[:r]))


def end_tag():
    return u32(0) + u32(8)


def mbi(tags, total=None, reserved=0, end=True):
    body = b"".join(tags) + (end_tag() if end else b"")
    t = 8 + len(body)
    return u32(t if total is None else total) + u32(reserved) + body


# ---------------------------------------------------------------- well-formed tags of every kind

def rstr(rng, n=None, alphabet=None):
    n = rng.randrange(0, 20) if n is None else n
    alphabet = alphabet or b"abcXYZ 0189-=/._"
    return bytes(rng.choice(alphabet) for _ in range(n))


def t_cmdline(rng, s=None):
    s = rstr(rng) if s is None else s
    return tag(1, s + b"\0", rng=rng)


def t_loader(rng, s=None):
    s = rstr(rng) if s is None else s
    return tag(2, s + b"\0", rng=rng)


def t_module(rng, s=None):
    s = rstr(rng) if s is None else s
    a = rng.getrandbits(32)
    b = rng.choice([a + rng.randrange(1, 1 << 20), rng.getrandbits(32)]) & 0xFFFFFFFF
    return tag(3, u32(a) + u32(b) + s + b"\0", rng=rng)


def t_meminfo(rng):
    return tag(4, rbytes(rng, 8), rng=rng)


def t_bootdev(rng):
    return tag(5, rbytes(rng, 12), rng=rng)


def t_mmap(rng, n=None):
    n = rng.randrange(0, 5) if n is None else n
    body = u32(24) + u32(0)
    for _ in range(n):
        base = rng.choice([rng.getrandbits(64), rng.getrandbits(32), (1 << 64) - rng.randrange(1, 4096)])
        body += u64(base) + u64(rng.choice([rng.getrandbits(64), rng.getrandbits(20), 4096])) + u32(rng.choice([1, 2, 3, 4, 5, 0, 6, rng.getrandbits(32)])) + rbytes(rng, 4)
    return tag(6, body, rng=rng)


def t_vbe(rng, mm=None):
    body = bytearray(rbytes(rng, 776))
    body[520 + 27] = rng.randrange(0, 8) if mm is None else mm   # memory model @ mode info + 27 (tag offset 555)
    return tag(7, bytes(body), rng=rng)


def t_fb(rng, typ=None, colors=None):
    typ = rng.choice([0, 1, 2]) if typ is None else typ
    body = rbytes(rng, 20) + bytes([rng.getrandbits(8), typ]) + rbytes(rng, 2)
    if typ == 0:
        n = rng.randrange(0, 6) if colors is None else colors
        body += u16(n) + rbytes(rng, 3 * n)
    elif typ == 1:
        body += rbytes(rng, 6)
    return tag(8, body, rng=rng)


def elf_entry(rng, es, typ=None):
    e = bytearray(rbytes(rng, es))
    if typ is None:
        typ = rng.choice([0, 1, 2, 3, 8, 11, 12, 0x60000000, 0x6FFFFFFF, 0x70000000, 0x7FFFFFFF, 0x80000000, 0x5FFFFFFF, rng.getrandbits(32)])
    if es >= 8:
        e[4:8] = u32(typ)
    return bytes(e)


def t_elf(rng, n=None, es=None, shndx=None):
    es = rng.choice([40, 64]) if es is None else es
    n = rng.randrange(0, 5) if n is None else n
    shndx = (rng.randrange(0, n) if n else 0) if shndx is None else shndx
    body = u32(n) + u32(es) + u32(shndx) + b"".join(elf_entry(rng, es) for _ in range(n))
    return tag(9, body, rng=rng)


def t_apm(rng):
    return tag(10, rbytes(rng, 20), rng=rng)


def t_efi32(rng):
    return tag(11, rbytes(rng, 4), rng=rng)


def t_efi64(rng):
    return tag(12, rbytes(rng, 8), rng=rng)


def t_smbios(rng, n=None):
    n = rng.randrange(0, 30) if n is None else n
    return tag(13, rbytes(rng, 8) + rbytes(rng, n), rng=rng)


def rsdp_body(rng, v2, valid=True, length=36):
    sig = rng.choice([b"RSD PTR ", b"RSD PTR ", rbytes(rng, 8)])
    b = bytearray(sig + b"\0" + rng.choice([b"BOCHS ", rbytes(rng, 6)]) + bytes([rng.getrandbits(8)]) + rbytes(rng, 4))
    if v2:
        b += u32(length) + rbytes(rng, 8) + b"\0" + rbytes(rng, 3)
    if valid:
        b[8] = (-(sum(b[:20]) - b[8])) % 256
        if v2 and length <= 36:
            n = length
            if n > 32:
                b[32] = (-(sum(b[:n]) - b[32])) % 256
    return bytes(b)


def t_rsdp1(rng, valid=None):
    return tag(14, rsdp_body(rng, False, rng.random() < 0.6 if valid is None else valid), rng=rng)


def t_rsdp2(rng, valid=None, length=36):
    return tag(15, rsdp_body(rng, True, rng.random() < 0.6 if valid is None else valid, length), rng=rng)


def t_network(rng, n=None):
    return tag(16, rbytes(rng, rng.randrange(0, 30) if n is None else n), rng=rng)


def t_efi_mmap(rng, ds=None, n=None, ver=1):
    ds = rng.choice([40, 48, 56]) if ds is None else ds
    n = rng.randrange(0, 4) if n is None else n
    return tag(17, u32(ds) + u32(ver) + rbytes(rng, ds * n), rng=rng)


def t_efi_bs(rng):
    return tag(18, b"", rng=rng)


def t_ih32(rng):
    return tag(19, rbytes(rng, 4), rng=rng)


def t_ih64(rng):
    return tag(20, rbytes(rng, 8), rng=rng)


def t_loadbase(rng):
    return tag(21, rbytes(rng, 4), rng=rng)


def t_custom(rng):
    return tag(rng.choice([22, 0x1337, 0xFFFFFFFF, rng.getrandbits(32) | 32]), rbytes(rng, rng.randrange(0, 24)), rng=rng)


KINDS = {
    1: t_cmdline, 2: t_loader, 3: t_module, 4: t_meminfo, 5: t_bootdev, 6: t_mmap, 7: t_vbe, 8: t_fb, 9: t_elf, 10: t_apm,
    11: t_efi32, 12: t_efi64, 13: t_smbios, 14: t_rsdp1, 15: t_rsdp2, 16: t_network, 17: t_efi_mmap, 18: t_efi_bs,
    19: t_ih32, 20: t_ih64, 21: t_loadbase, 99: t_custom,
}

FIXED = {1: 8, 2: 8, 3: 16, 4: 16, 5: 20, 6: 16, 7: 784, 8: 32, 9: 20, 10: 28, 11: 12, 12: 16, 13: 16, 14: 28, 15: 44, 16: 8,
         17: 16, 18: 8, 19: 12, 20: 16, 21: 12}


def random_mbi(rng, kinds=None, small=False):
    ks = list(KINDS.keys())
    if small:
        ks = [k for k in ks if k != 7]
    n = rng.randrange(0, 8)
    chosen = kinds if kinds is not None else [rng.choice(ks) for _ in range(n)]
    return mbi([KINDS[k](rng) for k in chosen])


def set_size(tagbytes, size):
    return tagbytes[:4] + u32(size) + tagbytes[8:]


def tag_size(tagbytes):
    return struct.unpack("<I", tagbytes[4:8])[0]


def adversarial_sizes(tb, rng):
    """declared sizes worth trying for an existing tag image (its occupied length stays as is)"""
    s = tag_size(tb)
    typ = struct.unpack("<I", tb[0:4])[0]
    f = FIXED.get(typ, 8)
    occ = len(tb)
    c = {0, 7, 8, 9, f - 1, f, f + 1, s - 1, s + 1, occ - 7, occ, occ - 1, occ + 1, occ + 8, s + 24, 0xFFFFFFFF}
    return [x for x in sorted(c) if 0 <= x <= 0xFFFFFFFF and x != s]


# ---------------------------------------------------------------- case generators for the SWEEP family

def sweep(region, place=None):
    return "SWEEP " + hx(region) + (" " + place if place else "")


def surround(rng, t, small=True):
    """put a tag between random well-formed neighbours (so padding / next-tag bytes are distinguishable)"""
    ks = [k for k in KINDS if k != 7] if small else list(KINDS)
    pre = [KINDS[rng.choice(ks)](rng) for _ in range(rng.randrange(0, 3))]
    post = [KINDS[rng.choice(ks)](rng) for _ in range(rng.randrange(0, 3))]
    return mbi(pre + [t] + post)


def special_words(rng, t, first=8):
    """copies of the tag `t` with one aligned 32-bit word of its payload set to 0, 1 or 2^32-1 (field values a random fill never
    produces: an accessor must return them like any other value)"""
    out = []
    words = list(range(first, len(t) - 3, 4))
    rng.shuffle(words)
    for o in words[:6]:
        for v in (0, 1, 0xFFFFFFFF):
            b = bytearray(t)
            b[o:o + 4] = u32(v)
            out.append(bytes(b))
    return out


def gen_wellformed(rng, n):
    out = []
    for k in sorted(KINDS):
        if k in (3, 4, 5, 10, 11, 12, 14, 15, 19, 20, 21):
            for t in special_words(rng, KINDS[k](rng)):
                out.append(sweep(mbi([t])))
        for _ in range(3):
            out.append(sweep(mbi([KINDS[k](rng)])))
        out.append(sweep(mbi([KINDS[k](rng), KINDS[k](rng)])))           # duplicates: first match wins
    for _ in range(n):
        out.append(sweep(random_mbi(rng)))
    out.append(sweep(mbi([])))
    return out


def gen_sizes(rng, n_per_kind=1):
    """every tag kind with every adversarial declared size, neighbours around it"""
    out = []
    for k in sorted(KINDS):
        for _ in range(n_per_kind):
            t = KINDS[k](rng)
            for s in adversarial_sizes(t, rng):
                out.append(sweep(surround(rng, set_size(t, s))))
                out.append(sweep(mbi([set_size(t, s)])))
    return out


def gen_strings(rng, maxlen=3, extra=200):
    import itertools
    alpha = [0x00, 0x61, 0x7F, 0x80, 0xC3, 0xA9, 0xE2, 0xFF]
    out = []
    for typ, pre in ((1, b""), (2, b""), (3, u32(16) + u32(32))):
        for n in range(0, maxlen + 1):
            for combo in itertools.product(alpha, repeat=n):
                body = pre + bytes(combo)
                # declared size cuts before / at / after the content; padding holds a NUL or a letter
                for pad in (b"\0" * 8, b"z" * 8):
                    t = tag(typ, body, pad=pad)
                    out.append(sweep(mbi([t, t_meminfo(rng)])))
        for _ in range(extra):
            s = bytes(rng.choice([0x41, 0x42, 0x00, 0xC3, 0xA9, 0xE2, 0x82, 0xAC, 0xF0, 0x9F, 0x98, 0x80, 0xED, 0xA0, 0x80, 0xC0, 0xAF, 0xF4, 0x90]) for _ in range(rng.randrange(0, 24)))
            t = tag(typ, pre + s, rng=rng)
            for cut in (0, 1, 2, 3):
                sz = max(0, tag_size(t) - cut)
                out.append(sweep(surround(rng, set_size(t, sz))))
    return out


def gen_efi(rng, tier):
    out = []
    dss = range(0, 129) if tier == "thorough" else list(range(0, 66)) + [72, 80, 96, 120, 127, 128]
    for ds in dss:
        for ver in (1, 0, 2):
            if ver != 1 and ds not in (0, 8, 40, 48):
                continue
            for maplen in sorted(set([0, 8, ds, 2 * ds, 3 * ds, max(0, ds - 8), ds + 8, 40, 48, 80, 96])):
                body = u32(ds) + u32(ver) + rbytes(rng, maplen)
                t = tag(17, body, rng=rng)
                out.append(sweep(surround(rng, t)))
    # map lengths that are NOT a multiple of 8 (tag size with a padding residue): one to seven bytes short of n descriptors -
    # rounding the length up would make them look complete
    for ds in (40, 48, 56, 64):
        for n in (1, 2):
            for r in range(1, 8):
                body = u32(ds) + u32(1) + rbytes(rng, n * ds - r)
                out.append(sweep(surround(rng, tag(17, body, rng=rng))))
    # boot services not exited: the map is withheld
    for _ in range(10):
        out.append(sweep(mbi([t_efi_mmap(rng), t_efi_bs(rng)])))
        out.append(sweep(mbi([t_efi_bs(rng), t_efi_mmap(rng)])))
    for _ in range(40):
        out.append(sweep(surround(rng, t_efi_mmap(rng, n=rng.randrange(0, 8)))))
    return out


def gen_elf(rng, tier):
    out = []
    ess = range(0, 129) if tier == "thorough" else [0, 1, 8, 39, 40, 41, 48, 63, 64, 65, 72, 80, 128]
    for es in ess:
        for n in (0, 1, 2, 3, 5):
            for present in sorted(set([0, 1, n, max(0, n - 1), n + 1])):
                for shndx in sorted(set([0, 1, max(0, n - 1), n, n + 1, 0xFF00, 0xFFFE, 0xFFFF, 0x10000, 0xFFFFFFFF])):
                    if es not in (40, 64) and shndx > 1 and n > 1:
                        continue
                    body = u32(n) + u32(es) + u32(shndx) + b"".join(elf_entry(rng, es) for _ in range(present))
                    out.append(sweep(surround(rng, tag(9, body, rng=rng))))
    # section bytes that are NOT a whole number of entries: the string-table index may designate the partial trailing slot
    for es in (40, 64):
        for n in (1, 2, 3):
            for resid in (1, 8, es - 1):
                for shndx in (0, n - 1, n, n + 1):
                    body = u32(n) + u32(es) + u32(shndx) + b"".join(elf_entry(rng, es, 1) for _ in range(n)) + rbytes(rng, resid)
                    out.append(sweep(surround(rng, tag(9, body, rng=rng))))
                    out.append("ELFNAME %d %d %d %s %s" % (es, n, shndx, hx(b"".join(elf_entry(rng, es, 1)[:0] + bytes(bytearray(u32(1)) + bytearray(elf_entry(rng, es, 1))[4:]) for _ in range(n)) + rbytes(rng, resid)), hx(b"\0ab\0")))
    # reserved string-table indices (0xFF00.., 0xFFFF = "look elsewhere" in ELF files - here simply outside the tag) together
    # with entries whose OTHER index-like words (link, info, entry size) are small numbers: nothing may redirect the lookup
    for es in (40, 64):
        for n in (1, 2, 3):
            for shndx in (0xFF00, 0xFFF1, 0xFFFE, 0xFFFF):
                for small in (0, 1, n - 1):
                    ents = b""
                    for _ in range(n):
                        e = bytearray(elf_entry(rng, es, 1))
                        for o in ((24, 28, 36) if es == 40 else (40, 44, 56)):
                            e[o:o + 4] = u32(small)
                        ents += bytes(e)
                    out.append(sweep(mbi([tag(9, u32(n) + u32(es) + u32(shndx) + ents, rng=rng)])))
                    out.append("ELFNAME %d %d %d %s %s" % (es, n, shndx, hx(ents), hx(b"\0.text\0.shstrtab\0")))
    for es in (40, 64):
        for typ in [0, 1, 2, 3, 4, 5, 6, 7, 8, 9, 10, 11, 12, 0x5FFFFFFF, 0x60000000, 0x6FFFFFFF, 0x70000000, 0x7FFFFFFF, 0x80000000, 0xFFFFFFFF]:
            body = u32(2) + u32(es) + u32(0) + elf_entry(rng, es, typ) + elf_entry(rng, es, 1)
            out.append(sweep(mbi([tag(9, body, rng=rng)])))
        body = u32(0x10000) + u32(0x10000) + u32(0) + rbytes(rng, 64)     # count * size overflows u32
        out.append(sweep(mbi([tag(9, body, rng=rng)])))
        body = u32(1) + u32(0x10000) + u32(0x10000) + rbytes(rng, 64)     # shndx * size overflows u32
        out.append(sweep(mbi([tag(9, body, rng=rng)])))
        body = u32(0) + u32(0x10000) + u32(0x10000) + rbytes(rng, 64)     # ... with zero sections
        out.append(sweep(mbi([tag(9, body, rng=rng)])))
        body = u32(0) + u32(0xFFFFFFFF) + u32(0xFFFFFFFF)
        out.append(sweep(mbi([tag(9, body, rng=rng)])))
    return out


def gen_interior_end(rng):
    """tags of type 0 in the MIDDLE of the region (size 8 = a complete end tag image, and other sizes) followed by modules and
    other tags: the walk does not stop at them, so neither may the module iterator or a getter"""
    out = []
    # module tags of EVERY size from the bare fixed part (16: no command-line bytes at all) upwards
    for msize in (16, 17, 18, 23, 24, 25):
        m = tag(3, u32(0x1000) + u32(0x2000) + rbytes(rng, msize - 16), rng=rng)
        out.append(sweep(mbi([m, t_meminfo(rng), t_module(rng)])))
        out.append(sweep(mbi([t_module(rng), m])))
    for endsize in (8, 9, 12, 16):
        e = tag(0, rbytes(rng, endsize - 8), rng=rng)
        out.append(sweep(mbi([t_cmdline(rng), e, t_module(rng), t_module(rng)])))
        out.append(sweep(mbi([t_module(rng), e, t_module(rng), e, t_module(rng), t_meminfo(rng)])))
        out.append(sweep(mbi([e, t_loader(rng), t_apm(rng), t_module(rng)])))
        out.append(sweep(mbi([e, e, t_bootdev(rng), t_fb(rng), t_smbios(rng), t_module(rng)])))
        out.append(sweep(mbi([t_efi_mmap(rng), e, t_efi_bs(rng)])))
    return out


def gen_fb_pairs(rng):
    """two framebuffer tags: the getter reports the FIRST one - also when its type byte is unknown and a later one is fine"""
    out = []
    for first in (3, 7, 0x80, 0xFF, 0, 1, 2):
        for second in (0, 1, 2, 9):
            out.append(sweep(mbi([t_fb(rng, typ=first), t_fb(rng, typ=second)])))
            out.append(sweep(mbi([t_cmdline(rng), t_fb(rng, typ=first), t_module(rng), t_fb(rng, typ=second)])))
    return out


def gen_fb(rng):
    out = []
    for b in range(256):
        out.append(sweep(mbi([t_fb(rng, typ=b if b > 2 else b)])))
    for colors in (0, 1, 2, 5, 85, 86, 255, 256, 0xFFFF):
        for present in (0, 1, 2, 3, 6, 9):
            body = rbytes(rng, 20) + bytes([8, 0]) + rbytes(rng, 2) + u16(colors) + rbytes(rng, present)
            out.append(sweep(surround(rng, tag(8, body, rng=rng))))
    for present in range(0, 8):
        for typ in (0, 1, 2):
            body = rbytes(rng, 20) + bytes([8, typ]) + rbytes(rng, 2) + rbytes(rng, present)
            out.append(sweep(surround(rng, tag(8, body, rng=rng))))
    return out


def gen_misc(rng):
    out = []
    for length in (0, 1, 19, 20, 21, 35, 36, 37, 44, 100, 200, 100000, 0xFFFFFFFF):
        for valid in (True, False):
            out.append(sweep(surround(rng, t_rsdp2(rng, valid, length))))
    for valid in (True, False):
        for _ in range(5):
            out.append(sweep(mbi([t_rsdp1(rng, valid), t_rsdp2(rng, valid)])))
    # RSDP v2 whose own length reaches beyond the 36 RSDP bytes, with the byte sum over [8, 8+length) arranged to be 0
    # (so only the length bound - not a lucky checksum mismatch - can make it invalid)
    for length in list(range(33, 49)) + [52, 56, 64]:
        for follow in (t_meminfo, t_cmdline):
            region = bytearray(mbi([t_rsdp2(rng, False, length), follow(rng)]))
            o = 8
            if o + 8 + length <= len(region):
                region[o + 40] = 0
                region[o + 40] = (-sum(region[o + 8:o + 8 + length])) % 256
                out.append(sweep(bytes(region)))
    for es in (0, 23, 24, 25, 48):
        body = u32(es) + u32(0) + rbytes(rng, 48)
        out.append(sweep(mbi([tag(6, body, rng=rng)])))
    # RSDP v2 lengths at the top of the u32 range (8 + length wraps in 32 bits)
    for length in (0x7FFFFFFF, 0x80000000, 0xFFFFFFF7, 0xFFFFFFF8, 0xFFFFFFF9, 0xFFFFFFFE):
        out.append(sweep(mbi([t_rsdp2(rng, False, length)])))
        out.append(sweep(surround(rng, t_rsdp2(rng, True, length))))
    # an RSDP v2 tag as the LAST thing in the region: its ext_checksum / reserved / padding bytes spell an end tag, so the region
    # loads with the declared size ending right behind the tag; lengths 37..48 make a sum over `length` bytes reach 1..8 bytes
    # behind the declared region. The checksum byte is arranged so that the sum INCLUDING those outside bytes is 0 for one of the
    # two poison fills the harness uses (0xA5, 0x3C): an implementation that reads them changes its answer with the poison.
    for length in range(37, 49):
        for poison in (0xA5, 0x3C):
            body = bytearray(rsdp_body(rng, True, True, length))
            body[32:36] = u32(0)           # ext_checksum + reserved  = end tag type 0 ...
            t = bytearray(tag(15, bytes(body), rng=rng))
            t[40:44] = u32(0)
            t[44:48] = u32(8)              # ... and the padding = end tag size 8
            t = t[:48]
            region = bytearray(u32(8 + 48) + u32(0) + bytes(t))
            o = 8
            inside = sum(region[o + 8:min(o + 8 + length, len(region))])
            outside = max(0, o + 8 + length - len(region)) * poison
            region[o + 16] = (region[o + 16] - inside - outside) % 256      # the RSDP checksum byte
            out.append("SWEEP " + hx(bytes(region)))
    for mm in list(range(0, 12)) + [0x7F, 0x80, 200, 255]:
        out.append(sweep(mbi([t_vbe(rng, mm)])))
    # modules: several, interleaved, one malformed
    for _ in range(20):
        ts = [rng.choice([t_module, t_module, t_cmdline, t_meminfo])(rng) for _ in range(rng.randrange(1, 6))]
        out.append(sweep(mbi(ts)))
        if ts:
            j = rng.randrange(len(ts))
            ts2 = list(ts)
            ts2[j] = set_size(ts2[j], rng.choice([8, 12, 15, 16]))
            out.append(sweep(mbi(ts2)))
    # module arithmetic, memory-area arithmetic
    out.append(sweep(mbi([tag(3, u32(10) + u32(5) + b"m\0")])))
    out.append(sweep(mbi([tag(6, u32(24) + u32(0) + u64((1 << 64) - 1) + u64(3) + u32(1) + u32(0))])))
    # broken walks behind valid tags
    for _ in range(30):
        region = bytearray(random_mbi(rng, small=True))
        if len(region) >= 32:
            o = 8 + rng.randrange(0, (len(region) - 16) // 8) * 8
            region[o + 4:o + 8] = u32(rng.choice([0, 4, 7, len(region), len(region) - o, 0xFFFFFFF8]))
        out.append(sweep(bytes(region)))
    # total size / end tag variations
    for _ in range(20):
        region = bytearray(random_mbi(rng, small=True))
        t = len(region)
        for tot in (0, 4, 8, 12, 16, t - 8, t - 4):
            if 0 <= tot <= t:
                r2 = bytearray(region)
                r2[0:4] = u32(tot)
                out.append(sweep(bytes(r2)))
    return out


def gen_elfname(rng, tier):
    """ELFNAME: section names through the string table the tag designates (harness-owned external table)"""
    out = []
    words = [b"", b".text", b".data", b".bss", b".rodata", "grüß".encode(), b"\xff\xfe", b"\xc3", b".shstrtab"]
    for es in (40, 64):
        for n in (0, 1, 2, 3, 4):
            for present in sorted(set([n, max(0, n - 1), n + 1])):
                for shndx in range(0, n + 3):
                    strtab = b"\0"
                    offs = []
                    for _ in range(max(1, present)):
                        w = rng.choice(words)
                        offs.append(len(strtab))
                        strtab += w + b"\0"
                    ents = b""
                    for i in range(present):
                        e = bytearray(elf_entry(rng, es, rng.choice([1, 1, 2, 3, 8, 0, 0x60000000, 0x7FFFFFFF])))
                        e[0:4] = u32(rng.choice(offs + [0, len(strtab) - 1, 1]))
                        ents += bytes(e)
                    out.append("ELFNAME %d %d %d %s %s" % (es, n, shndx, hx(ents), hx(strtab)))
    for es in (0, 39, 41, 48, 63, 65):
        out.append("ELFNAME %d 1 0 %s %s" % (es, hx(rbytes(rng, 64)), hx(b"\0abc\0")))
    # a string table that does NOT start with a NUL, and sections whose name index is 0: the name is whatever the table holds there
    for es in (40, 64):
        for strtab in (b".text\0.shstrtab\0", b"x\0", b"\xc3\xa9\0"):
            ents = b""
            for idx in (0, 0, len(strtab) - 1):
                e = bytearray(elf_entry(rng, es, 1))
                e[0:4] = u32(idx)
                ents += bytes(e)
            for shndx in (0, 1, 2):
                out.append("ELFNAME %d 3 %d %s %s" % (es, shndx, hx(ents), hx(strtab)))
    return out


# ---------------------------------------------------------------- Multiboot2 HEADER regions (multiboot2-header)

HMAGIC = 0xE85250D6


def htag(typ, flags, body, size=None, rng=None):
    real = 8 + len(body)
    b = u16(typ) + u16(flags) + u32(real if size is None else size) + body
    r = (-len(b)) % 8
    return b + (rbytes(rng, r) if rng else b"\0" * r)


def header(tags, arch=0, length=None, end=True, fix_checksum=True, magic=HMAGIC):
    body = b"".join(tags) + (htag(0, 0, b"") if end else b"")
    L = 16 + len(body) if length is None else length
    ck = (-(magic + arch + L)) % (1 << 32) if fix_checksum else 0
    return u32(magic) + u32(arch) + u32(L) + u32(ck) + body


H_FIXED = {0: 0, 2: 16, 3: 4, 4: 4, 5: 12, 6: 0, 7: 0, 8: 4, 9: 4, 10: 16}


def rand_htag(rng, typ=None):
    typ = rng.choice(list(H_FIXED.keys()) + [1, 1]) if typ is None else typ
    fl = rng.randrange(2)
    if typ == 1:
        return htag(1, fl, rbytes(rng, 4 * rng.randrange(0, 6)), rng=rng)
    body = bytearray(rbytes(rng, H_FIXED[typ]))
    if typ == 4:
        body[0:4] = u32(rng.randrange(2))
    if typ == 10:
        body[12:16] = u32(rng.randrange(3))
    return htag(typ, fl, bytes(body), rng=rng)


def hsweep(region):
    return "HSWEEP " + hx(region)


def gen_headers_wellformed(rng, n):
    out = []
    for typ in list(H_FIXED.keys()) + [1]:
        if typ == 0:
            continue
        for _ in range(3):
            out.append(hsweep(header([rand_htag(rng, typ)], arch=rng.choice([0, 4]))))
        if typ in (2, 3, 5, 8, 9):          # plain numeric fields: each word also as 0, 1, 2^32-1
            for t in special_words(rng, rand_htag(rng, typ)):
                out.append(hsweep(header([t], arch=rng.choice([0, 4]))))
        out.append(hsweep(header([rand_htag(rng, typ), rand_htag(rng, typ)])))
    for k in range(0, 9):
        out.append(hsweep(header([htag(1, 0, rbytes(rng, 4 * k), rng=rng)])))
    for _ in range(n):
        tags = [rand_htag(rng, rng.choice([1, 2, 3, 4, 5, 6, 7, 8, 9, 10])) for _ in range(rng.randrange(0, 7))]
        out.append(hsweep(header(tags, arch=rng.choice([0, 4]))))
    out.append(hsweep(header([])))
    return out


def gen_headers_adversarial(rng, n):
    """sizes 0..beyond the region, lengths, broken end tags - enumerated fields stay in range"""
    out = []
    for typ in [1, 2, 3, 4, 5, 6, 7, 8, 9, 10]:
        t = rand_htag(rng, typ)
        occ = len(t)
        real = struct.unpack("<I", t[4:8])[0]
        for s in sorted(set([0, 1, 4, 7, 8, 9, 11, 12, 13, real - 1, real + 1, occ, occ + 1, occ + 8, occ + 9, 24, 0x7FFFFFFF, 0xFFFFFFFF, 0xFFFFFFF8])):
            if s < 0:
                continue
            t2 = t[:4] + u32(s) + t[8:]
            pre = [rand_htag(rng) for _ in range(rng.randrange(0, 3))]
            post = [rand_htag(rng) for _ in range(rng.randrange(0, 3))]
            out.append(hsweep(header(pre + [t2] + post, arch=rng.choice([0, 4]))))
            out.append(hsweep(header([t2])))
    # declared lengths below / around the 16-byte basic header, each with a checksum that is valid for that length
    for L in list(range(0, 33)) + [40]:
        for arch in (0, 4):
            region = bytearray(header([rand_htag(rng, 3)], arch=arch))
            assert L <= len(region)
            region[8:12] = u32(L)
            region[12:16] = u32((-(HMAGIC + arch + L)) % (1 << 32))
            out.append(hsweep(bytes(region)))
    for _ in range(n):
        tags = [rand_htag(rng) for _ in range(rng.randrange(0, 5))]
        region = bytearray(header(tags))
        L = len(region)
        choice = rng.randrange(4)
        if choice == 0 and L >= 32:
            # corrupt the size field of one real tag (a random 8-multiple could hit the enum-typed `preference` word of a
            # relocatable tag, which is outside C09's hypothesis)
            starts, o = [], 16
            for t_ in tags:
                starts.append(o)
                o += len(t_)
            starts.append(o)          # the end tag
            o = rng.choice(starts)
            region[o + 4:o + 8] = u32(rng.choice([0, 4, 7, L, L - o + 1, 0xFFFFFFF8, rng.getrandbits(32)]))
        elif choice == 1:
            newl = rng.choice([0, 8, 15, 16, 17, 24, L - 8, L + 8 if False else L - 16])
            if 0 <= newl <= L:
                region[8:12] = u32(newl)
                region[12:16] = u32((-(HMAGIC + struct.unpack("<I", region[4:8])[0] + newl)) % (1 << 32))
        elif choice == 2:
            region = bytearray(header(tags, end=False))
        out.append(hsweep(bytes(region)))
    return out


def gen_scale(rng):
    """counts / lengths around the 8- and 16-bit boundaries and simply large structures"""
    out = []
    for n in (254, 255, 256, 257, 1000):
        out.append(sweep(mbi([t_fb(rng, typ=0, colors=n)])))
        out.append(sweep(mbi([t_cmdline(rng, rstr(rng, n)), t_loader(rng, rstr(rng, n + 1)), t_module(rng, rstr(rng, n))])))
        out.append(sweep(mbi([t_smbios(rng, n), t_network(rng, n)])))
    # palette byte length 3*n crosses 2^16 at n = 21846 (and 2^17 at 43691)
    for n in (21845, 21846, 43690, 43691, 65535):
        out.append(sweep(mbi([t_fb(rng, typ=0, colors=n)])))
    for n in (10, 11, 100, 300):
        out.append(sweep(mbi([t_mmap(rng, n)])))
        out.append(sweep(mbi([t_efi_mmap(rng, ds=rng.choice([40, 48, 4096 if n <= 11 else 56]), n=n)])))
        out.append(sweep(mbi([t_elf(rng, n=n, es=rng.choice([40, 64]))])))
        out.append(sweep(mbi([t_module(rng) for _ in range(n)])))
    out.append(sweep(mbi([t_meminfo(rng) for _ in range(1000)])))
    out.append(sweep(mbi([t_custom(rng) for _ in range(500)] + [t_cmdline(rng)])))
    # many small tags in front of the one looked for (the model's walk is quadratic in the number of tags: 1000 is what a
    # quick run affords; stack consumption that grows per tag only shows at ~10^5 tags on an 8 MiB stack - see DESIGN 15.12)
    many = [tag(0x1337, b"") for _ in range(1000)]
    out.append(sweep(mbi(many + [t_module(rng)])))
    # ELF: count * entry size (and index * entry size) at and beyond 2^32 with the two VALID entry sizes - a product computed in
    # 32 bits wraps to a small number that passes a bound; the tag holds one or two real entries and is followed by a neighbour
    for es, n in ((40, 0x06666667), (40, 0x0CCCCCCD), (64, 0x04000000), (64, 0x04000001), (40, 0x66666667), (64, 0xFFFFFFFF)):
        for present in (1, 2):
            for shndx in (0, 1, n - 1):
                body = u32(n) + u32(es) + u32(shndx) + b"".join(elf_entry(rng, es, 1) for _ in range(present))
                out.append(sweep(mbi([tag(9, body, rng=rng), t_cmdline(rng, rstr(rng, 40))])))
    for es, shndx in ((40, 0x06666667), (64, 0x04000000), (40, 0xFFFFFFFF), (64, 0x03FFFFFF)):
        body = u32(2) + u32(es) + u32(shndx) + b"".join(elf_entry(rng, es, 1) for _ in range(2))
        out.append(sweep(mbi([tag(9, body, rng=rng), t_cmdline(rng, rstr(rng, 40))])))
    for ver in (0xFFFFFFFF, 0x80000000, 3):
        out.append(sweep(mbi([tag(17, u32(40) + u32(ver) + rbytes(rng, 40), rng=rng)])))
    for ds in (4096, 0x10000, 0xFFFFFFF8, 0xFFFFFFFF, 0x80000000):
        out.append(sweep(mbi([tag(17, u32(ds) + u32(1) + rbytes(rng, 80), rng=rng)])))
    return out


def gen_headers_interior_end(rng):
    """header tags of type 0 in the middle of the header: the walk and every typed getter go on behind them"""
    out = []
    for endsize in (8, 12, 16):
        e = htag(0, 0, rbytes(rng, endsize - 8), rng=rng)
        out.append(hsweep(header([rand_htag(rng, 6), e, rand_htag(rng, 10), rand_htag(rng, 3)])))
        out.append(hsweep(header([e, rand_htag(rng, 2), rand_htag(rng, 5), rand_htag(rng, 1)])))
        out.append(hsweep(header([rand_htag(rng, 4), e, e, rand_htag(rng, 7), rand_htag(rng, 8), rand_htag(rng, 9)])))
    return out


def gen_headers_scale(rng):
    out = []
    for n in (63, 64, 255, 256, 257, 1000, 2036, 2037, 2040, 4096, 10000):
        out.append(hsweep(header([htag(1, rng.randrange(2), rbytes(rng, 4 * n), rng=rng)])))
    out.append(hsweep(header([rand_htag(rng, rng.choice([2, 3, 4, 5, 6, 7, 8, 9, 10])) for _ in range(400)])))
    return out


def gen_inforeq_sizes(rng):
    """header information-request tags with EVERY declared size 0..40 (all remainders), alone and in front of other tags"""
    out = []
    for size in range(0, 41):
        body = rbytes(rng, 32)
        t = u16(1) + u16(rng.randrange(2)) + u32(size) + body
        t = t[:max(8, (size + 7) // 8 * 8)]
        out.append(hsweep(header([t], arch=rng.choice([0, 4]))))
        out.append(hsweep(header([t, rand_htag(rng, rng.choice([2, 3, 5, 6]))])))
        out.append(hsweep(header([rand_htag(rng, 6), t])))
    return out
