"""Infrastructure of the checker: builds, audit, running harness/driver, comparison, verdict, evidence."""
import fcntl
import hashlib
import json
import os
import re
import shutil
import subprocess
import sys
import time
from concurrent.futures import ThreadPoolExecutor

VERIF = os.path.dirname(os.path.dirname(os.path.abspath(__file__)))
LEAN = os.path.join(VERIF, "lean")
HARNESS = os.path.join(VERIF, "harness")
BUILD = os.path.join(VERIF, ".build")
DRV = os.path.join(LEAN, ".lake", "build", "bin", "mb2drv")
REPO = "/repo"
ALLOWED_AXIOMS = {"propext", "Classical.choice", "Quot.sound"}
FORBIDDEN = re.compile(r"\b(sorry|admit|native_decide|bv_decide|implemented_by)\b|^\s*axiom\s|\bunsafe\s|maxHeartbeats\s+0\b", re.M)

CONFIGS = {
    # name: (cargo profile flag, features flag, lean profile)
    "dev": ([], [], "dev"),
    "release": (["--release"], [], "release"),
    "dev-nodef": ([], ["--no-default-features"], "dev"),
    "release-nodef": (["--release"], ["--no-default-features"], "release"),
}

ENV = dict(os.environ, CARGO_NET_OFFLINE="true")


def log(*a):
    print("[check]", *a, file=sys.stderr, flush=True)


class Lock:
    def __init__(self, name):
        os.makedirs(BUILD, exist_ok=True)
        self.path = os.path.join(BUILD, "lock." + name)

    def __enter__(self):
        self.f = open(self.path, "w")
        fcntl.flock(self.f, fcntl.LOCK_EX)
        return self

    def __exit__(self, *a):
        fcntl.flock(self.f, fcntl.LOCK_UN)
        self.f.close()


# --------------------------------------------------------------------------- Lean side

def lake_build(targets):
    """Returns (ok, output)."""
    with Lock("lake"):
        r = subprocess.run(["lake", "build"] + targets, cwd=LEAN, capture_output=True, text=True)
    return r.returncode == 0, r.stdout + r.stderr


def strip_lean_comments(src):
    out = []
    i = 0
    depth = 0
    n = len(src)
    while i < n:
        if src.startswith("/-", i):
            depth += 1
            i += 2
        elif depth and src.startswith("-/", i):
            depth -= 1
            i += 2
        elif depth:
            i += 1
        elif src.startswith("--", i):
            while i < n and src[i] != "\n":
                i += 1
        else:
            out.append(src[i])
            i += 1
    return "".join(out)


def grep_forbidden():
    hits = []
    for root, _, files in os.walk(LEAN):
        if ".lake" in root:
            continue
        for f in files:
            if f.endswith(".lean"):
                p = os.path.join(root, f)
                src = strip_lean_comments(open(p).read())
                for m in FORBIDDEN.finditer(src):
                    hits.append("%s: %s" % (os.path.relpath(p, LEAN), m.group(0).strip()))
    return hits


def load_index():
    return json.load(open(os.path.join(LEAN, "Mb2", "Props", "INDEX.json")))


def audit(prop, theorems):
    """#print axioms + statement text for every registered theorem. Returns dict name -> {axioms, stmt_sha, ok}."""
    os.makedirs(os.path.join(BUILD, "audit"), exist_ok=True)
    path = os.path.join(BUILD, "audit", "Audit_%s_%d.lean" % (prop, os.getpid()))
    lines = ["import Mb2.Props.%s" % prop]
    for t in theorems:
        lines.append('#eval IO.println "@@BEGIN %s"' % t)
        lines.append("#check @%s" % t)
        lines.append('#eval IO.println "@@AXIOMS %s"' % t)
        lines.append("#print axioms %s" % t)
        lines.append('#eval IO.println "@@END %s"' % t)
    open(path, "w").write("\n".join(lines) + "\n")
    with Lock("lake"):
        r = subprocess.run(["lake", "env", "lean", path], cwd=LEAN, capture_output=True, text=True)
    os.unlink(path)
    out = r.stdout + r.stderr
    res = {}
    for t in theorems:
        m = re.search(r"@@BEGIN %s\n(.*?)@@AXIOMS %s\n(.*?)@@END %s" % (re.escape(t), re.escape(t), re.escape(t)), out, re.S)
        if not m:
            res[t] = {"ok": False, "axioms": None, "stmt_sha": None, "why": "theorem not found / did not elaborate"}
            continue
        stmt, ax = m.group(1), m.group(2)
        if re.search(r"error: .*[Uu]nknown (constant|identifier)", stmt) or re.search(r"[Uu]nknown (constant|identifier) `", stmt):
            res[t] = {"ok": False, "axioms": None, "stmt_sha": None, "why": "unknown constant"}
            continue
        stmt_norm = re.sub(r"\s+", " ", stmt).strip()
        axioms = []
        m2 = re.search(r"depends on axioms: \[(.*?)\]", ax, re.S)
        if m2:
            axioms = [a.strip() for a in m2.group(1).replace("\n", " ").split(",") if a.strip()]
        elif "does not depend on any axioms" not in ax:
            res[t] = {"ok": False, "axioms": None, "stmt_sha": None, "why": "axiom report missing: " + ax[:200]}
            continue
        bad = [a for a in axioms if a not in ALLOWED_AXIOMS]
        res[t] = {"ok": not bad, "axioms": axioms, "stmt_sha": hashlib.sha256(stmt_norm.encode()).hexdigest()[:16],
                  "stmt": stmt_norm, "why": ("disallowed axioms " + ",".join(bad)) if bad else ""}
    return res, out


def gen_source():
    """TRANSLATOR step: regenerate lean/Mb2/Gen/Source.lean (struct layouts, IDs, BASE_SIZE constants, accessor -> field) from
    the Rust sources of /repo's working tree. The file is only rewritten when its content changes."""
    sys.path.insert(0, os.path.join(VERIF, "tools"))
    import gen_source as _gs
    import gen_fns as _gf
    import gen_builders as _gb
    with Lock("lake"):
        try:
            _gb.main(os.path.join(LEAN, "Mb2", "Gen", "Builders.lean"))
        except Exception:
            pass
        rep = _gs.main(os.path.join(LEAN, "Mb2", "Gen", "Source.lean"))
        try:
            frep = _gf.main(os.path.join(LEAN, "Mb2", "Gen", "Fns.lean"))
        except Exception as e:      # never let the function translator hide the rest of the check
            frep = {"translated": [], "not_translated": {"*": repr(e)}, "extra_inputs": {}}
    return {"facts_derived": rep["some"], "facts_not_derivable": len(rep["none"]),
            "functions_translated": len(frep["translated"]), "functions_not_translatable": sorted(frep["not_translated"]),
            "functions_with_new_inputs": frep["extra_inputs"],
            "impl_block_functions_tabled": sum(frep.get("tables", {}).values()) if isinstance(frep.get("tables"), dict) else 0,
            "function_inventory": frep.get("inventory", {})}


def proof_stage(prop, tier):
    """Regenerate the source-derived facts, build the driver and the property module, audit axioms, compare statement
    hashes. Returns dict."""
    t0 = time.time()
    idx = load_index()
    entry = idx[prop]
    theorems = entry["theorems"]
    try:
        src = gen_source()
    except Exception as e:       # a translator crash must not hide the rest of the check
        src = {"error": repr(e)}
    lake_build(["mb2drv"])       # the driver first: it is needed to search for a failing input even when a theorem breaks
    ok, out = lake_build(["Mb2.Props." + prop, "mb2drv"])
    st = {"obligations": len(theorems), "discharged": 0, "build_ok": ok, "failed": [], "axioms": {}, "notes": [], "source_facts": src}
    if not ok:
        st["failed"] = theorems
        st["notes"].append("lake build failed:\n" + out[-3000:])
        st["wall_s"] = time.time() - t0
        return st
    hits = grep_forbidden()
    if hits:
        st["notes"].append("forbidden tokens in Lean sources: " + "; ".join(hits))
    res, raw = audit(prop, theorems)
    for t in theorems:
        r = res[t]
        st["axioms"][t] = r["axioms"]
        exp = entry.get("stmt_sha", {}).get(t)
        if not r["ok"]:
            st["failed"].append(t)
            st["notes"].append("%s: %s" % (t, r["why"]))
        elif exp is not None and exp != r["stmt_sha"]:
            st["failed"].append(t)
            st["notes"].append("%s: statement changed (hash %s, registered %s): %s" % (t, r["stmt_sha"], exp, r["stmt"][:300]))
        elif hits:
            st["failed"].append(t)
        else:
            st["discharged"] += 1
    if tier == "thorough":
        with Lock("lake"):
            r = subprocess.run(["lake", "env", "leanchecker", "Mb2.Props." + prop], cwd=LEAN, capture_output=True, text=True)
        st["leanchecker_rc"] = r.returncode
        if r.returncode != 0:
            st["failed"] = theorems
            st["discharged"] = 0
            st["notes"].append("leanchecker failed: " + (r.stdout + r.stderr)[-1000:])
    st["stmt_sha"] = {t: res[t]["stmt_sha"] for t in theorems}
    st["wall_s"] = time.time() - t0
    return st


# --------------------------------------------------------------------------- Rust side

def target_dir(config):
    return os.path.join(BUILD, "t-" + config)


def harness_bin(config):
    prof = "release" if "release" in config else "debug"
    return os.path.join(target_dir(config), prof, "mb2h")


def build_harness(config):
    prof, feat, _ = CONFIGS[config]
    lockf = os.path.join(HARNESS, "Cargo.lock")
    with Lock("cargo." + config):
        if not os.path.exists(lockf):
            shutil.copy(os.path.join(REPO, "Cargo.lock"), lockf)
        cmd = ["cargo", "build", "--offline", "--quiet"] + prof + feat
        env = dict(ENV, CARGO_TARGET_DIR=target_dir(config), RUSTFLAGS="-Awarnings")
        r = subprocess.run(cmd, cwd=HARNESS, capture_output=True, text=True, env=env)
        if r.returncode != 0:
            # lock file may be stale relative to /repo: retry once with a fresh copy
            shutil.copy(os.path.join(REPO, "Cargo.lock"), lockf)
            r = subprocess.run(cmd, cwd=HARNESS, capture_output=True, text=True, env=env)
    return r.returncode == 0, r.stdout + r.stderr


def build_harnesses(configs):
    with ThreadPoolExecutor(max_workers=4) as ex:
        res = list(ex.map(build_harness, configs))
    for c, (ok, out) in zip(configs, res):
        if not ok:
            return False, "harness build failed for %s:\n%s" % (c, out[-4000:])
    return True, ""


def run_harness(config, cases, workdir, poison=0xA5, tag=""):
    """Run the cases through the real code; a crashing case is recorded as `crash:<sig>` and the run resumes."""
    binp = harness_bin(config)
    outs = []
    start = 0
    crashes = 0
    n = len(cases)
    part = 0
    while start < n:
        cf = os.path.join(workdir, "cases.%s%s.%d.txt" % (config, tag, part))
        of = os.path.join(workdir, "impl.%s%s.%d.out" % (config, tag, part))
        with open(cf, "w") as f:
            f.write("\n".join(cases[start:]) + "\n")
        timed_out = False
        with open(cf) as fi, open(of, "w") as fo:
            # WATCHDOG ("always terminates"): the harness flushes one line per case; when the output has not grown for
            # VERIF_STALL_S seconds the case being processed is recorded as `crash:timeout` and the run resumes behind it
            stall = float(os.environ.get("VERIF_STALL_S", "30"))
            pr = subprocess.Popen([binp, "run"], stdin=fi, stdout=fo, stderr=subprocess.DEVNULL,
                                  env=dict(ENV, VERIF_POISON=str(poison)))
            last_size, last_t = -1, time.time()
            while True:
                try:
                    pr.wait(timeout=1.0)
                    break
                except subprocess.TimeoutExpired:
                    sz = os.path.getsize(of)
                    if sz != last_size:
                        last_size, last_t = sz, time.time()
                    elif time.time() - last_t > stall:
                        pr.kill()
                        pr.wait()
                        timed_out = True
                        break
            r = pr
        got = open(of).read().split("\n")
        if got and got[-1] == "":
            got.pop()
        if timed_out and got and len(got) < n - start and not open(of).read().endswith("\n"):
            got.pop()                      # a partially written line of the case that hung
        if r.returncode == 0 and len(got) == n - start:
            outs.extend(got)
            break
        # crashed on case index start+len(got) (output is flushed per line)
        # a partially written last line cannot occur: lines are written with one write + flush
        outs.extend(got)
        sig = -r.returncode if r.returncode < 0 else r.returncode
        outs.append("crash:timeout" if timed_out else "crash:%d" % sig)
        crashes += 100 if timed_out else 1      # at most two stalls per run
        start = len(outs)
        part += 1
        if crashes > 200:
            outs.extend(["crash:skipped"] * (n - len(outs)))
            break
    return outs


def run_harness_par(config, cases, workdir, poison=0xA5, jobs=4):
    if len(cases) < 2000 or jobs <= 1:
        return run_harness(config, cases, workdir, poison)
    chunk = (len(cases) + jobs - 1) // jobs
    parts = [cases[i:i + chunk] for i in range(0, len(cases), chunk)]
    with ThreadPoolExecutor(max_workers=jobs) as ex:
        res = list(ex.map(lambda ip: run_harness(config, ip[1], workdir, poison, tag=".j%d" % ip[0]), enumerate(parts)))
    out = []
    for r in res:
        out.extend(r)
    return out


def run_driver(mode_args, cases, workdir, tag):
    cf = os.path.join(workdir, "drv.%s.txt" % tag)
    with open(cf, "w") as f:
        f.write("\n".join(cases) + "\n")
    with open(cf) as fi:
        r = subprocess.run([DRV] + mode_args, stdin=fi, capture_output=True, text=True)
    if r.returncode != 0:
        raise RuntimeError("driver failed: " + r.stderr[-2000:])
    got = r.stdout.split("\n")
    if got and got[-1] == "":
        got.pop()
    if len(got) != len(cases):
        raise RuntimeError("driver produced %d lines for %d cases" % (len(got), len(cases)))
    return got


def run_driver_par(mode_args, cases, workdir, tag, jobs=4):
    if len(cases) < 2000 or jobs <= 1:
        return run_driver(mode_args, cases, workdir, tag)
    chunk = (len(cases) + jobs - 1) // jobs
    parts = [cases[i:i + chunk] for i in range(0, len(cases), chunk)]
    with ThreadPoolExecutor(max_workers=jobs) as ex:
        res = list(ex.map(lambda ip: run_driver(mode_args, ip[1], workdir, "%s.j%d" % (tag, ip[0])), enumerate(parts)))
    out = []
    for r in res:
        out.extend(r)
    return out


def blocks(binargs, fn, blist, jobs=16):
    """Block hashes for a list of block numbers, fanned out over processes. Returns dict block -> hash."""
    # group consecutive runs
    runs = []
    for b in sorted(set(blist)):
        if runs and runs[-1][0] + runs[-1][1] == b:
            runs[-1][1] += 1
        else:
            runs.append([b, 1])
    # split long runs so that all cores get work
    work = []
    for first, cnt in runs:
        step = max(1, min(cnt, 16))
        for s in range(first, first + cnt, step):
            work.append((s, min(step, first + cnt - s)))

    def one(w):
        r = subprocess.run(binargs + ["blocks", fn, str(w[0]), str(w[1])], capture_output=True, text=True, env=ENV)
        if r.returncode != 0:
            return [(b, "crash") for b in range(w[0], w[0] + w[1])]
        res = []
        for line in r.stdout.split("\n"):
            t = line.split()
            if len(t) == 3:
                res.append((int(t[1]), t[2]))
        return res

    out = {}
    with ThreadPoolExecutor(max_workers=jobs) as ex:
        for res in ex.map(one, work):
            for b, h in res:
                out[b] = h
    return out


# --------------------------------------------------------------------------- comparison

def admits(pattern, line):
    for alt in pattern.split("||"):
        if alt == "*":
            return True
        if alt.endswith("*"):
            if line.startswith(alt[:-1]):
                return True
        elif alt == line:
            return True
    return False


def outcome_class(line):
    if re.match(r"^[0-9]+$", line):
        return "value"
    m = re.match(r"[A-Za-z:_\-]+", line)
    return m.group(0) if m else line[:12]


def write_replay(prop, kind, body):
    os.makedirs(os.path.join(VERIF, "replays"), exist_ok=True)
    h = hashlib.sha256(json.dumps(body, sort_keys=True).encode()).hexdigest()[:12]
    path = os.path.join(VERIF, "replays", "%s-%s-%s.json" % (prop, kind, h))
    json.dump(body, open(path, "w"), indent=1)
    return path


def load_known():
    p = os.path.join(VERIF, "known_findings.json")
    if os.path.exists(p):
        return json.load(open(p))
    return {"known": [], "fixed": []}


def write_evidence(prop, ev):
    os.makedirs(os.path.join(VERIF, "evidence"), exist_ok=True)
    json.dump(ev, open(os.path.join(VERIF, "evidence", prop + ".json"), "w"), indent=1)
