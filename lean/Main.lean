import Mb2.Driver
open Mb2 Mb2.Driver

partial def loop (f : String → String) (hin : IO.FS.Stream) (hout : IO.FS.Stream) : IO Unit := do
  let line ← hin.getLine
  if line.isEmpty then return ()
  hout.putStrLn (f (line.trimAscii.toString))
  loop f hin hout

def main (args : List String) : IO Unit := do
  match args with
  | ["run", prof] => loop (handle (profileOf prof)) (← IO.getStdin) (← IO.getStdout)
  | ["spec"] => loop specHandle (← IO.getStdin) (← IO.getStdout)
  | ["blocks", f, first, count] =>
    for b in [first.toNat! : first.toNat! + count.toNat!] do
      IO.println s!"{f} {b} {hex64 (blockHash f b)}"
  | _ => IO.eprintln "usage: mb2drv run <dev|release> | spec | blocks <fn> <first> <count>"
