import Mb2.Basic
namespace Mb2

theorem roundUp8_ge (n : Nat) : n ≤ roundUp8 n := by unfold roundUp8; omega
theorem roundUp8_lt (n : Nat) : roundUp8 n < n + 8 := by unfold roundUp8; omega
theorem roundUp8_mod (n : Nat) : roundUp8 n % 8 = 0 := by unfold roundUp8; omega
theorem roundUp8_add8 (a n : Nat) (h : a % 8 = 0) : roundUp8 (a + n) = a + roundUp8 n := by
  unfold roundUp8; omega
theorem roundUp8_of_mod (n : Nat) (h : n % 8 = 0) : roundUp8 n = n := by unfold roundUp8; omega
theorem roundUp8_le_of_le_mod (n m : Nat) (h : n ≤ m) (hm : m % 8 = 0) : roundUp8 n ≤ m := by
  unfold roundUp8; omega
/-- `roundUp8 n` is the least multiple of 8 that is ≥ n -/
theorem roundUp8_least (n m : Nat) (hm : m % 8 = 0) (h : n ≤ m) : roundUp8 n ≤ m :=
  roundUp8_le_of_le_mod n m h hm
theorem roundDown8_add7 (n : Nat) : roundDown8 (n + 7) = roundUp8 n := rfl

theorem u8At_lt (b : Bytes) (i : Nat) : u8At b i < 256 := by
  unfold u8At; exact UInt8.toNat_lt _
theorem le16_lt (b : Bytes) (o : Nat) : le16 b o < 65536 := by
  have := u8At_lt b o; have := u8At_lt b (o+1); unfold le16; omega
theorem le32_lt (b : Bytes) (o : Nat) : le32 b o < 4294967296 := by
  have := u8At_lt b o; have := u8At_lt b (o+1); have := u8At_lt b (o+2); have := u8At_lt b (o+3)
  unfold le32; omega
theorem le64_lt (b : Bytes) (o : Nat) : le64 b o < 18446744073709551616 := by
  have := le32_lt b o; have := le32_lt b (o+4); unfold le64; omega

/-- wrap-around facts, stated once with the literal modulus so that goals can keep `W64` folded -/
theorem wrap_sub8 (d : Nat) (h : d < 8) : (d + W64 - 8) % W64 = d + W64 - 8 := by simp only [W64_eq]; omega
theorem wrap_add8 (d : Nat) (h : d < 8) : (8 + (d + W64 - 8)) % W64 = d := by simp only [W64_eq]; omega

theorem uadd_ok (p : Profile) (w a b : Nat) (h : a + b < w) : uadd p w a b = .ok (a + b) := by
  unfold uadd; rw [if_pos h]
theorem uadd_wrap (w a b : Nat) (h : ¬ a + b < w) : uadd .release w a b = .ok ((a + b) % w) := by
  unfold uadd; rw [if_neg h]
theorem uadd_dev_panic (w a b : Nat) (h : ¬ a + b < w) : uadd .dev w a b = .panic := by
  unfold uadd; rw [if_neg h]
theorem usub_ok (p : Profile) (w a b : Nat) (h : b ≤ a) : usub p w a b = .ok (a - b) := by
  unfold usub; rw [if_pos h]
theorem usub_wrap (w a b : Nat) (h : ¬ b ≤ a) : usub .release w a b = .ok ((a + w - b) % w) := by
  unfold usub; rw [if_neg h]
theorem usub_dev_panic (w a b : Nat) (h : ¬ b ≤ a) : usub .dev w a b = .panic := by
  unfold usub; rw [if_neg h]
theorem umul_ok (p : Profile) (w a b : Nat) (h : a * b < w) : umul p w a b = .ok (a * b) := by
  unfold umul; rw [if_pos h]

theorem incAlign_eq (p : Profile) (n : Nat) (h : n + 7 < W64) : incAlign p n = .ok (roundUp8 n) := by
  unfold incAlign
  rw [uadd_ok p _ _ _ h]; rfl

@[simp] theorem slice_length (b : Bytes) (a n : Nat) (h : a + n ≤ b.length) : (slice b a n).length = n := by
  unfold slice; simp; omega

theorem u8At_slice (b : Bytes) (a n i : Nat) (h : i < n) : u8At (slice b a n) i = u8At b (a + i) := by
  unfold u8At slice
  simp [List.getD_eq_getElem?_getD, h, List.getElem?_drop]

theorem le32_slice (b : Bytes) (a n o : Nat) (h : o + 4 ≤ n) : le32 (slice b a n) o = le32 b (a + o) := by
  unfold le32
  rw [u8At_slice b a n o (by omega), u8At_slice b a n (o+1) (by omega),
      u8At_slice b a n (o+2) (by omega), u8At_slice b a n (o+3) (by omega)]
  simp [Nat.add_assoc]

theorem u8At_take (b : Bytes) (t i : Nat) (h : i < t) : u8At (b.take t) i = u8At b i := by
  unfold u8At
  simp [List.getD_eq_getElem?_getD, h]

theorem le32_take (b : Bytes) (t o : Nat) (h : o + 4 ≤ t) : le32 (b.take t) o = le32 b o := by
  unfold le32
  rw [u8At_take b t o (by omega), u8At_take b t (o+1) (by omega),
      u8At_take b t (o+2) (by omega), u8At_take b t (o+3) (by omega)]

end Mb2
