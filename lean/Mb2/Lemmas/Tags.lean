import Mb2.Tags
import Mb2.Spec
import Mb2.Lemmas.Arith
import Mb2.Lemmas.Common
import Mb2.Lemmas.Iter
namespace Mb2

theorem le16_slice (b : Bytes) (a n o : Nat) (h : o + 2 ≤ n) : le16 (slice b a n) o = le16 b (a + o) := by
  unfold le16
  rw [u8At_slice b a n o (by omega), u8At_slice b a n (o+1) (by omega)]
  simp [Nat.add_assoc]

theorem le64_slice (b : Bytes) (a n o : Nat) (h : o + 8 ≤ n) : le64 (slice b a n) o = le64 b (a + o) := by
  unfold le64
  rw [le32_slice b a n o (by omega), le32_slice b a n (o+4) (by omega)]
  simp [Nat.add_assoc]

/-- little-endian value of width `w` -/
def leW (b : Bytes) (o w : Nat) : Nat :=
  match w with
  | 1 => u8At b o | 2 => le16 b o | 4 => le32 b o | _ => le64 b o

/-- a field of width 1/2/4/8 that lies inside the extent reads the bytes of the underlying area; never a fault -/
theorem rdW_slice (area : Bytes) (off n o w : Nat) (hw : w = 1 ∨ w = 2 ∨ w = 4 ∨ w = 8)
    (hin : o + w ≤ n) (hfit : off + n ≤ area.length) :
    rdW (slice area off n) o w = .ok (leW area (off + o) w) := by
  have hl : (slice area off n).length = n := slice_length area off n hfit
  rcases hw with h | h | h | h <;> subst h
  · unfold rdW rd8 leW; simp only; rw [if_pos (by omega), u8At_slice area off n o (by omega)]
  · unfold rdW rd16 leW; simp only; rw [if_pos (by omega), le16_slice area off n o (by omega)]
  · unfold rdW rd32 leW; simp only; rw [if_pos (by omega), le32_slice area off n o (by omega)]
  · unfold rdW rd64 leW; simp only; rw [if_pos (by omega), le64_slice area off n o (by omega)]

/-- the end of the specification walk is never a fault -/
theorem specWalk_end (k : HK) (buf : Bytes) : ∀ fuel off, (Spec.walk k buf fuel off).2 = .done ∨ (Spec.walk k buf fuel off).2 = .bad := by
  intro fuel
  induction fuel with
  | zero => intro off; right; rfl
  | succ n ih =>
    intro off
    unfold Spec.walk
    by_cases e : off = buf.length
    · rw [if_pos e]; left; rfl
    · rw [if_neg e]
      simp only
      by_cases hc : le32 buf (off+4) < 8 ∨ off + roundUp8 (le32 buf (off+4)) > buf.length
      · rw [if_pos hc]; right; rfl
      · rw [if_neg hc]; exact ih _

end Mb2
