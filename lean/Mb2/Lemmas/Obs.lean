/-
  Lemmas about observation piece lists (`Obs`): `NoFault` is preserved by every combinator the sweeps are built from.
-/
import Mb2.Sweep
import Mb2.Lemmas.Tags
namespace Mb2
open Sweep

theorem noFault_nil : Obs.NoFault [] := by intro x hx; cases hx

theorem noFault_t (s : String) : Obs.NoFault (t s) := by
  intro x hx
  simp only [t, List.mem_singleton] at hx
  subst hx
  exact ⟨by simp, by simp⟩

theorem noFault_append {a b : Obs} (ha : Obs.NoFault a) (hb : Obs.NoFault b) : Obs.NoFault (a ++ b) := by
  intro x hx
  rcases List.mem_append.mp hx with h | h
  · exact ha x h
  · exact hb x h

theorem noFault_append_iff {a b : Obs} : Obs.NoFault (a ++ b) ↔ Obs.NoFault a ∧ Obs.NoFault b :=
  ⟨fun h => ⟨fun x hx => h x (List.mem_append.mpr (Or.inl hx)), fun x hx => h x (List.mem_append.mpr (Or.inr hx))⟩,
   fun h => noFault_append h.1 h.2⟩

theorem noFault_flatten {l : List Obs} (h : ∀ o ∈ l, Obs.NoFault o) : Obs.NoFault l.flatten := by
  intro x hx
  obtain ⟨o, ho, hxo⟩ := List.mem_flatten.mp hx
  exact h o ho x hxo

theorem noFault_flatten_map {α} (l : List α) (f : α → Obs) (h : ∀ a ∈ l, Obs.NoFault (f a)) :
    Obs.NoFault (l.map f).flatten := by
  apply noFault_flatten
  intro o ho
  obtain ⟨a, ha, rfl⟩ := List.mem_map.mp ho
  exact h a ha

theorem noFault_resO {α} (f : α → Obs) (r : Res α) (h1 : r ≠ .oob) (h2 : r ≠ .ub)
    (hf : ∀ a, r = .ok a → Obs.NoFault (f a)) : Obs.NoFault (resO f r) := by
  cases r with
  | ok a => exact hf a rfl
  | panic => exact noFault_t _
  | oob => exact absurd rfl h1
  | ub => exact absurd rfl h2

theorem noFault_resS {α} (f : α → String) (r : Res α) (h1 : r ≠ .oob) (h2 : r ≠ .ub) : Obs.NoFault (resS f r) :=
  noFault_resO _ r h1 h2 (fun _ _ => noFault_t _)

theorem noFault_resS_ok {α} (f : α → String) (r : Res α) (h : ∃ a, r = .ok a) : Obs.NoFault (resS f r) := by
  obtain ⟨a, rfl⟩ := h
  exact noFault_t _

theorem noFault_fld (name : String) (r : Res Nat) (h : ∃ a, r = .ok a) : Obs.NoFault (fld name r) := by
  unfold fld
  exact noFault_append (noFault_append (noFault_t _) (noFault_resS_ok _ r h)) (noFault_t _)

theorem noFault_fields (T : Bytes) (fs : List (String × Nat × Nat))
    (h : ∀ f ∈ fs, ∃ x, rdW T f.2.1 f.2.2 = .ok x) : Obs.NoFault (fields T fs) := by
  unfold fields
  apply noFault_flatten_map
  intro f hf
  obtain ⟨n, o, w⟩ := f
  exact noFault_fld n _ (h (n, o, w) hf)

theorem noFault_getter (name : String) (g : Res (Option View)) (body : View → Obs)
    (h1 : g ≠ .oob) (h2 : g ≠ .ub) (hb : ∀ v, g = .ok (some v) → Obs.NoFault (body v)) :
    Obs.NoFault (getter name g body) := by
  unfold getter
  refine noFault_append (noFault_append (noFault_t _) ?_) (noFault_t _)
  cases g with
  | ok o =>
    cases o with
    | none => exact noFault_t _
    | some v => exact noFault_append (noFault_append (noFault_t _) (hb v rfl)) (noFault_t _)
  | panic => exact noFault_t _
  | oob => exact absurd rfl h1
  | ub => exact absurd rfl h2

theorem noFault_endS (e : End) (h1 : e ≠ .oob) (h2 : e ≠ .ub) : Obs.NoFault (endS e) := by
  cases e with
  | done => exact noFault_t _
  | bad => exact noFault_t _
  | oob => exact absurd rfl h1
  | ub => exact absurd rfl h2

theorem noFault_walkEndS (e : End) (h : e = .done ∨ e = .bad) : Obs.NoFault (walkEndS e) := by
  rcases h with h | h <;> subst h <;> exact noFault_t _

theorem noFault_colonJoin (l : List (Res Nat)) (h : ∀ r ∈ l, ∃ a, r = .ok a) : Obs.NoFault (colonJoin l) := by
  cases l with
  | nil => exact noFault_nil
  | cons r rest =>
    unfold colonJoin
    refine noFault_append (noFault_resS_ok _ r (h r (by simp))) ?_
    apply noFault_flatten_map
    intro x hx
    exact noFault_append (noFault_t _) (noFault_resS_ok _ x (h x (by simp [hx])))

theorem rdSlice_ok (b : Bytes) (a n : Nat) (h : a + n ≤ b.length) : rdSlice b a n = .ok (slice b a n) := by
  unfold rdSlice; rw [if_pos h]

end Mb2
