/-
  Simp lemmas for the evaluator of `Mb2.Rir` (used by `Mb2/Props/Fns.lean`).
-/
import Mb2.Rir
import Mb2.Lemmas.Common
namespace Mb2.Rir

@[simp] theorem cond_bool (b : Bool) (t e : Res V) : cond (.bool b) t e = if b then t else e := by
  cases b <;> rfl
@[simp] theorem andAlso_bool (b : Bool) (r : Res V) : andAlso (.bool b) r = if b then r else .ok (.bool false) := by
  cases b <;> rfl
@[simp] theorem orElse_bool (b : Bool) (r : Res V) : orElse (.bool b) r = if b then .ok (.bool true) else r := by
  cases b <;> rfl

@[simp] theorem envOf_zero (a : V) (l : List V) : envOf (a :: l) 0 = a := rfl
@[simp] theorem envOf_succ (a : V) (l : List V) (n : Nat) : envOf (a :: l) (n + 1) = envOf l n := rfl
@[simp] theorem set_same (env : Env) (i : Nat) (v : V) : (env.set i v) i = v := by simp [Env.set]
theorem set_other (env : Env) (i j : Nat) (v : V) (h : j ≠ i) : (env.set i v) j = env j := by simp [Env.set, h]

@[simp] theorem unify_int_int (t : Ty) (a b : Nat) : unify (.int t a) (.int t b) = some (some t, a, b) := by simp [unify]
@[simp] theorem unify_int_lit (t : Ty) (a b : Nat) : unify (.int t a) (.lit b) = some (some t, a, b) := rfl
@[simp] theorem unify_lit_int (t : Ty) (a b : Nat) : unify (.lit a) (.int t b) = some (some t, a, b) := rfl
@[simp] theorem unify_lit_lit (a b : Nat) : unify (.lit a) (.lit b) = some (none, a, b) := rfl

@[simp] theorem mkInt_ok (t : Ty) (n : Nat) : mkInt (some t) (.ok n) = .ok (.int t n) := rfl
@[simp] theorem mkInt_ok_none (n : Nat) : mkInt none (.ok n) = .ok (.lit n) := rfl
@[simp] theorem mkInt_panic (t : Option Ty) : mkInt t .panic = .panic := rfl

@[simp] theorem modulus_usize : Ty.usize.modulus = W64 := rfl
@[simp] theorem modulus_u64 : Ty.u64.modulus = W64 := rfl
@[simp] theorem modulus_u32 : Ty.u32.modulus = W32 := rfl
@[simp] theorem modulus_u16 : Ty.u16.modulus = 65536 := rfl
@[simp] theorem modulus_u8 : Ty.u8.modulus = 256 := rfl

@[simp] theorem prim1_arg (n : String) (v : V) : prim1 .arg (.c1 n v) = .ok v := by
  unfold prim1; split <;> simp_all
@[simp] theorem prim1_fst (a b : V) : prim1 .fst (.pair a b) = .ok a := rfl
@[simp] theorem prim1_snd (a b : V) : prim1 .snd (.pair a b) = .ok b := rfl

/-- `let i = var j; body` -/
theorem eval_let_var (p : Profile) (env : Env) (i j : Nat) (body : E) :
    eval p env (.letIn i (.var j) body) = eval p (env.set i (env j)) body := by
  simp [eval]

/-- one arm `k => t` of a `match` on an integer variable -/
theorem eval_arm_lit (p : Profile) (env : Env) (i k n : Nat) (ty : Ty) (t e : E) (h : env i = .int ty n) :
    eval p env (.ite (.bin .eq (.var i) (.lit k)) t e) = if n = k then eval p env t else eval p env e := by
  simp [eval, h, binop, arith]

/-- one arm `lo..=hi => t` of a `match` on an integer variable -/
theorem eval_arm_range (p : Profile) (env : Env) (i lo hi n : Nat) (ty : Ty) (t e : E) (h : env i = .int ty n) :
    eval p env (.ite (.bin .land (.bin .ge (.var i) (.lit lo)) (.bin .le (.var i) (.lit hi))) t e) =
      if lo ≤ n ∧ n ≤ hi then eval p env t else eval p env e := by
  by_cases h1 : lo ≤ n <;> by_cases h2 : n ≤ hi <;> simp [eval, h, binop, arith, h1, h2]

/-- one arm `Ctor => t` of a `match` on a constructor value -/
theorem eval_arm_c0 (p : Profile) (env : Env) (i : Nat) (name name' : String) (t e : E) (h : env i = .c0 name') :
    eval p env (.ite (.prim2 .isC (.var i) (.c0 name)) t e) = if name' = name then eval p env t else eval p env e := by
  simp [eval, h, prim2, isC]
theorem eval_arm_c1 (p : Profile) (env : Env) (i : Nat) (name name' : String) (x : V) (t e : E) (h : env i = .c1 name' x) :
    eval p env (.ite (.prim2 .isC (.var i) (.c0 name)) t e) = if name' = name then eval p env t else eval p env e := by
  simp [eval, h, prim2, isC]

end Mb2.Rir
