import Mb2.Common
import Mb2.Lemmas.Arith
namespace Mb2

theorem payloadLen_ge (p : Profile) (k : HK) (d : Nat) (h : d ≥ k.hsize) :
    payloadLen p k d = .ok (d - k.hsize) := by
  cases k <;> simp only [HK.hsize] at h <;> simp only [payloadLen, usub, HK.hsize, h, if_true]

theorem payloadLen_lt (p : Profile) (k : HK) (d : Nat) (h : d < k.hsize) :
    payloadLen p k d = .panic ∨ payloadLen p k d = .ok 0 ∨
    (∃ x, payloadLen p k d = .ok x ∧ x ≥ 2^63) := by
  cases k <;> simp only [HK.hsize] at h
  · left; simp only [payloadLen]; rw [if_neg (by omega)]
  · right; left; simp only [payloadLen]; congr 1; omega
  · right; left; simp only [payloadLen]; congr 1; omega
  · left; simp only [payloadLen]; rw [if_neg (by omega)]
  all_goals
    cases p
    · left; simp only [payloadLen, usub]; rw [if_neg (by omega)]
    · right; right; refine ⟨(d + W64 - 8) % W64, ?_, ?_⟩
      · simp only [payloadLen, usub]; rw [if_neg (by omega)]
      · have := W64_eq; have := wrap_sub8 d (by omega); omega


theorem rd32_take (b : Bytes) (t o : Nat) (h : o + 4 ≤ t) (ht : t ≤ b.length) :
    rd32 (b.take t) o = .ok (le32 b o) := by
  unfold rd32
  rw [if_pos (by simp [List.length_take]; omega), le32_take b t o h]


/-- `Res` is a lawful monad (makes core's `mapM`/`foldlM` lemmas available) -/
instance : LawfulMonad Res := LawfulMonad.mk'
  (id_map := fun x => by cases x <;> rfl)
  (pure_bind := fun x f => rfl)
  (bind_assoc := fun x f g => by cases x <;> rfl)

theorem mapM_ok_of_forall {α β} (f : α → Res β) (g : α → β) (l : List α) (h : ∀ x ∈ l, f x = .ok (g x)) :
    l.mapM f = .ok (l.map g) := by
  induction l with
  | nil => rfl
  | cons x xs ih =>
    rw [List.mapM_cons, h x (by simp), ih (fun y hy => h y (by simp [hy]))]
    rfl

end Mb2
