import Mb2.Basic
import Mb2.Lemmas.Arith
namespace Mb2

-- x &&& ~~~7 on 64 bits = x / 8 * 8
theorem and_not7 (x : BitVec 64) : (x &&& ~~~7#64) = (x >>> 3) <<< 3 := by
  apply BitVec.eq_of_getLsbD_eq
  intro i hi
  simp only [BitVec.getLsbD_and, BitVec.getLsbD_not, BitVec.getLsbD_shiftLeft, BitVec.getLsbD_ushiftRight]
  by_cases h : i < 3
  · have : i = 0 ∨ i = 1 ∨ i = 2 := by omega
    rcases this with rfl | rfl | rfl <;> simp <;> decide
  · have e : 3 + (i - 3) = i := by omega
    have h7 : (7#64).getLsbD i = false := by
      simp only [BitVec.getLsbD_ofNat]
      have : Nat.testBit 7 i = false := by
        apply Nat.testBit_lt_two_pow
        calc 7 < 2^3 := by decide
          _ ≤ 2^i := Nat.pow_le_pow_right (by decide) (by omega)
      simp [this]
    have h7' : (7#64)[i] = false := by rw [← BitVec.getLsbD_eq_getElem]; exact h7
    simp [h, e, h7', hi]

theorem shr_shl_toNat (x : BitVec 64) : ((x >>> 3) <<< 3).toNat = x.toNat / 8 * 8 := by
  simp only [BitVec.toNat_shiftLeft, BitVec.toNat_ushiftRight, Nat.shiftRight_eq_div_pow, Nat.shiftLeft_eq]
  have := x.isLt
  have h : x.toNat / 2^3 * 2^3 ≤ x.toNat := Nat.div_mul_le_self _ _
  rw [Nat.mod_eq_of_lt (by omega)]

/-- the code's `(n + 7) & !7` on 64-bit words equals rounding up to a multiple of 8 whenever `n + 7` does not wrap -/
theorem incAlignU64_toNat (n : UInt64) (h : n.toNat < 2^64 - 7) :
    (incAlignU64 n).toNat = roundUp8 n.toNat := by
  unfold incAlignU64 roundUp8
  have h1 : ((n + 7) &&& ~~~(7 : UInt64)).toBitVec = ((n+7).toBitVec &&& ~~~7#64) := by
    simp [UInt64.toBitVec_and, UInt64.toBitVec_not]
  rw [← UInt64.toNat_toBitVec, h1, and_not7, shr_shl_toNat]
  have : (n + 7).toBitVec.toNat = n.toNat + 7 := by
    rw [UInt64.toNat_toBitVec, UInt64.toNat_add]
    have : (7 : UInt64).toNat = 7 := rfl
    rw [this, Nat.mod_eq_of_lt (by omega)]
  rw [this]

end Mb2
