import Mb2.Spec
import Mb2.Lemmas.Arith
import Mb2.Lemmas.Common
namespace Mb2

theorem payloadLen_release_small (k : HK) (hk : k = .dummy) (size : Nat) (hs : size < 8) :
    payloadLen .release k size = .ok (size + W64 - 8) := by
  have hw := wrap_sub8 size hs
  subst hk; simp only [payloadLen]; rw [usub_wrap _ _ _ (by omega), hw]

theorem payloadLen_release_small' (k : HK) (hk : k = .dummy) (size : Nat) (hs : size < 8) :
    ∃ x, payloadLen .release k size = .ok x ∧ x ≥ 2^63 ∧ (8 + x) % W64 = size ∧ ¬ (8 + x < W64) := by
  have hW := W64_eq
  exact ⟨_, payloadLen_release_small k hk size hs, by omega, wrap_add8 size hs, by omega⟩

theorem refFromBytes_small_release (k : HK) (hk : k = .dummy) (bytes : Bytes) (size : Nat)
    (hs : size < 8) (hl : bytes.length = 8) (hsz : le32 bytes 4 = size) :
    refFromBytes .release k bytes = .ok (.error .invalidReportedTotalSize) := by
  have hh : k.hsize = 8 := by subst hk; rfl
  have hso : k.sizeOff = 4 := by subst hk; rfl
  obtain ⟨x, hx, hx2, _, _⟩ := payloadLen_release_small' k hk size hs
  unfold refFromBytes rd32
  rw [hl, hh, hso, if_pos (by omega)]
  simp only [Res.bind_ok]
  rw [hsz, hx]
  simp only [Res.bind_ok, Res.pure_eq]
  rw [if_pos (by omega)]

theorem refFromSlice_small_release (k : HK) (hk : k = .dummy) (buf : Bytes) (off size : Nat)
    (ho : off % 8 = 0) (hs : size < 8) (hsz : le32 buf (off + 4) = size) (hfit : off + 8 ≤ buf.length) :
    refFromSlice .release k off (slice buf off 8) = .ok (.error .invalidReportedTotalSize) := by
  have hl : (slice buf off 8).length = 8 := slice_length buf off _ hfit
  have hh : k.hsize = 8 := by subst hk; rfl
  unfold refFromSlice bytesRefTryFrom
  rw [hl, hh, if_neg (by omega), if_neg (by omega), if_neg (by omega)]
  simp only
  exact refFromBytes_small_release k hk _ size hs hl (by rw [le32_slice buf off 8 4 (by omega)]; exact hsz)

theorem incAlign_ok (p : Profile) (n : Nat) (h : n + 7 < W64) : incAlign p n = .ok (roundUp8 n) := incAlign_eq p n h

theorem refFromSlice_slice_ok (p : Profile) (k : HK) (hk : k = .tag ∨ k = .ht ∨ k = .dummy)
    (buf : Bytes) (off size : Nat) (ho : off % 8 = 0) (hs : 8 ≤ size) (hsz : size = le32 buf (off + 4))
    (hfit : off + roundUp8 size ≤ buf.length) :
    refFromSlice p k off (slice buf off (roundUp8 size)) = .ok (.ok (size - 8)) := by
  have g := roundUp8_ge size
  have m := roundUp8_mod size
  have hl : (slice buf off (roundUp8 size)).length = roundUp8 size := slice_length buf off _ hfit
  unfold refFromSlice bytesRefTryFrom
  have hh : k.hsize = 8 := by rcases hk with h | h | h <;> subst h <;> rfl
  have hso : k.sizeOff = 4 := by rcases hk with h | h | h <;> subst h <;> rfl
  simp only [hl, hh]
  rw [if_neg (by omega), if_neg (by omega), if_neg (by omega)]
  simp only
  unfold refFromBytes rd32
  simp only [hl, hh, hso]
  rw [if_pos (by omega)]
  simp only [Res.bind_ok]
  rw [le32_slice buf off _ 4 (by omega), ← hsz, payloadLen_ge p k size (by omega)]
  simp only [Res.bind_ok, hh, Res.pure_eq]
  rw [if_neg (by omega)]

theorem tagIterNext_eq (p : Profile) (k : HK) (hk : k = .tag ∨ k = .ht ∨ k = .dummy) (buf : Bytes) (off : Nat)
    (hb : buf.length % 8 = 0) (hlen : buf.length < 2^62) (ho : off % 8 = 0) (hle : off ≤ buf.length) :
    tagIterNext p k buf off =
      if off = buf.length then .ok none
      else
        let size := le32 buf (off+4)
        if size < 8 ∨ off + roundUp8 size > buf.length then .panic
        else .ok (some (⟨off, tagTyp k buf off, size, size - 8⟩, off + roundUp8 size)) := by
  have hh : k.hsize = 8 := by rcases hk with h | h | h <;> subst h <;> rfl
  have hL : buf.length < 4611686018427387904 := hlen
  have hW := W64_eq
  unfold tagIterNext
  by_cases h1 : off = buf.length
  · simp [h1]
  · have hlt : off < buf.length := by omega
    simp only [h1, if_false, hlt, not_true_eq_false]
    unfold rd32
    rw [if_pos (by omega), if_pos (by omega)]
    simp only [Res.bind_ok]
    have hsz := le32_lt buf (off+4)
    generalize hsd : le32 buf (off+4) = size at *
    have g := roundUp8_ge size
    have l := roundUp8_lt size
    have m := roundUp8_mod size
    by_cases hs : size < 8
    · -- too small: every kind and profile ends in a panic
      have hc : (size < 8 ∨ off + roundUp8 size > buf.length) := Or.inl hs
      simp only [hc, if_true]
      rcases hk with h | h | h
      · subst h; simp only [payloadLen]; rw [if_neg (by omega)]; rfl
      · subst h; simp only [payloadLen]; rw [if_neg (by omega)]; rfl
      all_goals
        have hk2 : k = .dummy := h
        cases p
        · subst h; simp only [payloadLen]; rw [usub_dev_panic _ _ _ (by omega)]; rfl
        · obtain ⟨x, hp, _, hx3, hx4⟩ := payloadLen_release_small' k hk2 size hs
          rw [hp]
          simp only [Res.bind_ok, hh]
          rw [uadd_wrap _ _ _ hx4, hx3]
          simp only [Res.bind_ok]
          rw [uadd_ok _ _ _ _ (by omega)]
          simp only [Res.bind_ok]
          rw [incAlign_ok _ _ (by omega), roundUp8_add8 off size ho]
          simp only [Res.bind_ok]
          rw [usub_ok _ _ _ _ (by omega)]
          simp only [Res.bind_ok]
          have e2 : off + roundUp8 size - off = roundUp8 size := by omega
          rw [e2, uadd_ok _ _ _ _ (by omega)]
          simp only [Res.bind_ok]
          rw [if_neg (by omega), if_neg (by omega)]
          by_cases hz : size = 0
          · subst hz
            have r0 : roundUp8 0 = 0 := rfl
            rw [r0]
            have hl0 : (slice buf off 0).length = 0 := by simp [slice]
            unfold refFromSlice bytesRefTryFrom
            rw [hl0, hh, if_pos (by omega)]
            rfl
          · have r8 : roundUp8 size = 8 := by omega
            rw [r8, refFromSlice_small_release k hk2 buf off size ho hs hsd (by omega)]
            rfl
    · have hs8 : 8 ≤ size := by omega
      rw [payloadLen_ge p k size (by omega)]
      simp only [Res.bind_ok, hh]
      rw [uadd_ok _ _ _ _ (by omega)]
      simp only [Res.bind_ok]
      have e1 : 8 + (size - 8) = size := by omega
      rw [e1, uadd_ok _ _ _ _ (by omega)]
      simp only [Res.bind_ok]
      rw [incAlign_ok _ _ (by omega), roundUp8_add8 off size ho]
      simp only [Res.bind_ok]
      rw [usub_ok _ _ _ _ (by omega)]
      simp only [Res.bind_ok]
      have e2 : off + roundUp8 size - off = roundUp8 size := by omega
      rw [e2, uadd_ok _ _ _ _ (by omega)]
      simp only [Res.bind_ok]
      rw [if_neg (by omega)]
      by_cases hf : off + roundUp8 size > buf.length
      · have hc : (size < 8 ∨ off + roundUp8 size > buf.length) := Or.inr hf
        simp only [hc, if_true]
        rw [if_pos (by omega)]
      · have hc : ¬ (size < 8 ∨ off + roundUp8 size > buf.length) := by omega
        simp only [hc, if_false]
        rw [if_neg (by omega)]
        rw [refFromSlice_slice_ok p k hk buf off size ho hs8 hsd.symm (by omega)]
        rfl

end Mb2
