import Mb2.Build
import Mb2.Lemmas.Arith
import Mb2.Lemmas.Common
import Mb2.Props.C15
namespace Mb2

theorem u8_ofNat_toNat (v : Nat) : (UInt8.ofNat v).toNat = v % 256 := by simp [UInt8.toNat_ofNat']

theorem enc32_length (v : Nat) : (enc32 v).length = 4 := rfl
theorem enc16_length (v : Nat) : (enc16 v).length = 2 := rfl

/-- decoding what was encoded: the low 32 bits -/
theorem le32_enc32 (v : Nat) (rest : Bytes) : le32 (enc32 v ++ rest) 0 = v % 4294967296 := by
  unfold le32 u8At enc32
  simp only [List.cons_append, List.nil_append, List.getD_cons_zero, List.getD_cons_succ, u8_ofNat_toNat]
  omega

theorem le16_enc16 (v : Nat) (rest : Bytes) : le16 (enc16 v ++ rest) 0 = v % 65536 := by
  unfold le16 u8At enc16
  simp only [List.cons_append, List.nil_append, List.getD_cons_zero, List.getD_cons_succ, u8_ofNat_toNat]
  omega

theorem u8At_append_right (a b : Bytes) (i : Nat) : u8At (a ++ b) (a.length + i) = u8At b i := by
  unfold u8At; simp [List.getD_eq_getElem?_getD, List.getElem?_append_right]

theorem le32_append_right (a b : Bytes) (i : Nat) : le32 (a ++ b) (a.length + i) = le32 b i := by
  unfold le32
  have h0 := u8At_append_right a b i
  have h1 := u8At_append_right a b (i + 1)
  have h2 := u8At_append_right a b (i + 2)
  have h3 := u8At_append_right a b (i + 3)
  simp only [← Nat.add_assoc] at h1 h2 h3
  rw [h0, h1, h2, h3]

theorem u8At_append_left (a b : Bytes) (i : Nat) (h : i < a.length) : u8At (a ++ b) i = u8At a i := by
  unfold u8At; simp [List.getD_eq_getElem?_getD, List.getElem?_append_left h]

/-- a 4-byte argument segment of the blob, wherever it was placed, reads back as the argument -/
theorem le32_slice_append (blob : Bytes) (o : Nat) (rest : Bytes) (h : o + 4 ≤ blob.length) :
    le32 (slice blob o 4 ++ rest) 0 = le32 blob o := by
  have hl : (slice blob o 4).length = 4 := slice_length blob o 4 h
  unfold le32
  rw [u8At_append_left _ _ 0 (by omega), u8At_append_left _ _ (0+1) (by omega), u8At_append_left _ _ (0+2) (by omega),
      u8At_append_left _ _ (0+3) (by omega)]
  rw [u8At_slice blob o 4 0 (by omega), u8At_slice blob o 4 (0+1) (by omega), u8At_slice blob o 4 (0+2) (by omega),
      u8At_slice blob o 4 (0+3) (by omega)]
  simp

/-- the header of an information tag decodes to (type, size) -/
theorem mbiHdr_decode (typ size : Nat) (rest : Bytes) :
    le32 (mbiHdr typ size ++ rest) 0 = typ % 4294967296 ∧ le32 (mbiHdr typ size ++ rest) 4 = size % 4294967296 := by
  unfold mbiHdr
  constructor
  · rw [List.append_assoc]; exact le32_enc32 typ _
  · rw [List.append_assoc]
    have := le32_append_right (enc32 typ) (enc32 size ++ rest) 0
    rw [enc32_length] at this
    rw [this]; exact le32_enc32 size _

theorem setSize_mbiHdr (typ total : Nat) : setSize .tag (mbiHdr typ 0) total = mbiHdr typ total := by
  unfold setSize mbiHdr HK.sizeOff
  simp [enc32]

/-- `new_boxed` for a truthful dynamically sized information tag: no panic; header with the exact size, content without
    gaps; allocation = deallocation size = total rounded up to 8, alignment 8 -/
theorem newBoxed_dst (p : Profile) (typ base e : Nat) (slices : List Bytes) (he : 0 < e)
    (hb : base ≤ 8 + slices.flatten.length) (hr : (8 + slices.flatten.length - base) % e = 0)
    (hlen : slices.flatten.length < 2^62) :
    newBoxed p .tag (dstDesc base e) (mbiHdr typ 0) slices =
      .ok ⟨mbiHdr typ (8 + slices.flatten.length) ++ slices.flatten, roundUp8 (8 + slices.flatten.length), 8,
           roundUp8 (8 + slices.flatten.length)⟩ := by
  unfold newBoxed
  simp only [HK.hsize]
  have hL : slices.flatten.length < 4611686018427387904 := hlen
  have hW := W64_eq
  rw [incAlign_eq p _ (by omega)]
  simp only [Res.bind_ok]
  obtain ⟨n, hn, hsov⟩ := C15.dst_truthful base e (8 + slices.flatten.length) hb hr he p
  rw [hn]
  simp only [Res.bind_ok, hsov]
  rw [if_neg (by simp), setSize_mbiHdr]
  rfl

end Mb2
