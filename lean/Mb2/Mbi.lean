/-
  Mb2.Mbi — model of crate `multiboot2` (boot information side). Grows property by property.
-/
import Mb2.Common
namespace Mb2

inductive LoadErr where
  | memory (e : MemErr) | noEndTag
deriving Repr, DecidableEq, Inhabited

/-- successful load: offsets relative to the pointer -/
structure Loaded where
  start : Nat
  «end» : Nat
  total : Nat
deriving Repr, DecidableEq, Inhabited

/-- `BootInformation::load` (boot_information.rs). `mem` = the readable memory behind the pointer;
    the pointer is assumed 8-aligned when non-null (the function's documented contract). -/
def load (p : Profile) (null : Bool) (mem : Bytes) : Res (Ex LoadErr Loaded) :=
  if null then .ok (.error (.memory .null))
  else do
    match ← refFromPtr p .bi 0 mem with
    | .error e => pure (.error (.memory e))
    | .ok (t, _pl) =>
      let region := mem.take t
      -- has_valid_end_tag: payload().as_ptr().add(header.payload_len()).sub(size_of::<EndTag>())
      let d ← rd32 region 0
      let pl ← payloadLen p .bi d
      let o := 8 + pl - 8
      let typ ← rd32 region o
      let size ← rd32 region (o + 4)
      if typ = 0 ∧ size = 8 then pure (.ok ⟨0, d, d⟩) else pure (.error .noEndTag)

/-- the outcome of `load` as a function of the three words it depends on: the declared total size and the two words of the
    last 8 bytes of the declared region (`C02.load_eq_closed`). Used by the driver for regions too large to write down
    (family LOADBIG: declared sizes up to 4 GiB, really mapped by the harness). -/
def loadClosed (t tailTyp tailSize : Nat) : Res (Ex LoadErr Loaded) :=
  if t < 8 then .ok (.error (.memory .shorterThanHeader))
  else if t % 8 ≠ 0 then .ok (.error (.memory .missingPadding))
  else if tailTyp = 0 ∧ tailSize = 8 then .ok (.ok ⟨0, t, t⟩)
  else .ok (.error .noEndTag)

end Mb2
