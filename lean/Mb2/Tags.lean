/-
  Mb2.Tags — model of the typed boot-information tags of crate `multiboot2`: type descriptors (for `cast`),
  getters (`get_tag` = first match in the walk, then `cast`), field accessors, iterators (EFI map, ELF sections,
  modules), framebuffer colour info, RSDP checksums, string parsing.

  Every accessor runs on the tag's PERMITTED EXTENT `T` = the bytes `[off, off + roundUp8 size)` of the tag inside the
  loaded region; the only way to obtain a byte is a checked read on `T` (`oob` otherwise).
-/
import Mb2.Common
import Mb2.Mbi
import Mb2.Ids
namespace Mb2

/-! ### type descriptors (MaybeDynSized impls) -/

def sizedDesc (fixedEnd : Nat) : TyDesc :=
  { baseSize := roundUp8 fixedEnd, fixed := fixedEnd, align := 8, elem := none, dstLen := fun _ _ => .ok 0 }

/-- DST with an asserted lower bound: `assert!(size >= BASE); size - BASE` (element size `e`, with a remainder assert when e > 1) -/
def dstDesc (base e : Nat) : TyDesc :=
  { baseSize := base, fixed := base, align := 8, elem := some e,
    dstLen := fun _ size =>
      if size < base then .panic
      else if (size - base) % e ≠ 0 then .panic
      else .ok ((size - base) / e) }

/-- NetworkTag: `header.size as usize - BASE_SIZE` without assert -/
def networkDesc : TyDesc :=
  { baseSize := 8, fixed := 8, align := 8, elem := some 1, dstLen := fun p size => usub p W64 size 8 }

inductive Kind where
  | end_ | cmdline | loader | module | meminfo | bootdev | mmap | vbe | fb | elf | apm | efiSdt32 | efiSdt64 | smbios
  | rsdp1 | rsdp2 | network | efiMmap | efiBs | efiIh32 | efiIh64 | loadBase
deriving Repr, DecidableEq, Inhabited

def Kind.typ : Kind → Nat
  | .end_ => 0 | .cmdline => 1 | .loader => 2 | .module => 3 | .meminfo => 4 | .bootdev => 5 | .mmap => 6 | .vbe => 7
  | .fb => 8 | .elf => 9 | .apm => 10 | .efiSdt32 => 11 | .efiSdt64 => 12 | .smbios => 13 | .rsdp1 => 14 | .rsdp2 => 15
  | .network => 16 | .efiMmap => 17 | .efiBs => 18 | .efiIh32 => 19 | .efiIh64 => 20 | .loadBase => 21

/-- the Rust struct behind each kind, as `TyDesc` (field lists are in `Kind.fields`) -/
def Kind.desc : Kind → TyDesc
  | .end_ => sizedDesc 8
  | .cmdline => dstDesc 8 1
  | .loader => dstDesc 8 1
  | .module => dstDesc 16 1
  | .meminfo => sizedDesc 16
  | .bootdev => sizedDesc 20
  | .mmap => dstDesc 16 24
  | .vbe => sizedDesc 784
  | .fb => dstDesc 32 1
  | .elf => dstDesc 20 1
  | .apm => sizedDesc 28
  | .efiSdt32 => sizedDesc 12
  | .efiSdt64 => sizedDesc 16
  | .smbios => dstDesc 16 1
  | .rsdp1 => sizedDesc 28
  | .rsdp2 => sizedDesc 44
  | .network => networkDesc
  | .efiMmap => dstDesc 16 1
  | .efiBs => sizedDesc 8
  | .efiIh32 => sizedDesc 12
  | .efiIh64 => sizedDesc 16
  | .loadBase => sizedDesc 12

/-- a typed view of a tag: where it is, what the cast computed -/
structure View where
  off : Nat        -- offset of the tag inside the tag area
  size : Nat       -- declared size
  sov : Nat        -- size_of_val of the typed reference
  n : Nat          -- tail element count
deriving Repr, DecidableEq, Inhabited

/-- `BootInformation::get_tag::<T>()`: `tags().find(typ == T::ID).map(cast)`. `area` = region minus its 8-byte header. -/
def getTag (p : Profile) (area : Bytes) (k : Kind) : Res (Option View) :=
  let w := tagsOf p .tag area
  match w.1.find? (fun it => it.typ == k.typ) with
  | some it =>
    match castTo p .tag k.desc it.size it.pl with
    | .ok (sov, n) => .ok (some ⟨it.off, it.size, sov, n⟩)
    | .panic => .panic | .oob => .oob | .ub => .ub
  | none =>
    match w.2 with
    | .done => .ok none
    | .bad => .panic
    | .oob => .oob
    | .ub => .ub

/-- `BootInformation::efi_memory_map_tag()`: the EFI map is withheld while a boot-services-not-exited tag is present -/
def efiMemoryMapTag (p : Profile) (area : Bytes) : Res (Option View) :=
  match getTag p area .efiBs with
  | .ok (some _) => .ok none
  | .ok none => getTag p area .efiMmap
  | .panic => .panic | .oob => .oob | .ub => .ub

/-- the permitted extent of a view inside the tag area -/
def View.bytes (v : View) (area : Bytes) : Bytes := slice area v.off v.sov

/-- generic field read on the extent -/
def rdW (T : Bytes) (off w : Nat) : Res Nat :=
  match w with
  | 1 => rd8 T off | 2 => rd16 T off | 4 => rd32 T off | _ => rd64 T off

/-- plain little-endian fields of each kind: (name, offset, width), as declared in the Rust structs -/
def Kind.fields : Kind → List (String × Nat × Nat)
  | .apm => [("version", 8, 2), ("cseg", 10, 2), ("offset", 12, 4), ("cset_16", 16, 2), ("dseg", 18, 2), ("flags", 20, 2),
             ("cseg_len", 22, 2), ("cseg_16_len", 24, 2), ("dseg_len", 26, 2)]
  | .meminfo => [("lower", 8, 4), ("upper", 12, 4)]
  | .bootdev => [("biosdev", 8, 4), ("slice", 12, 4), ("part", 16, 4)]
  | .efiIh32 => [("handle", 8, 4)]
  | .efiIh64 => [("handle", 8, 8)]
  | .efiSdt32 => [("sdt", 8, 4)]
  | .efiSdt64 => [("sdt", 8, 8)]
  | .loadBase => [("addr", 8, 4)]
  | .module => [("start", 8, 4), ("end", 12, 4)]
  | .mmap => [("entry_size", 8, 4), ("entry_version", 12, 4)]
  | .elf => [("num", 8, 4), ("entsize", 12, 4), ("shndx", 16, 4)]
  | .fb => [("address", 8, 8), ("pitch", 16, 4), ("width", 20, 4), ("height", 24, 4), ("bpp", 28, 1)]
  | .smbios => [("major", 8, 1), ("minor", 9, 1)]
  | .rsdp1 => [("revision", 23, 1), ("rsdt", 24, 4)]
  | .rsdp2 => [("revision", 23, 1), ("xsdt", 32, 8), ("ext_checksum", 40, 1)]
  | .loader => [("typ", 0, 4), ("size", 4, 4)]
  | .vbe => [("mode", 8, 2), ("iseg", 10, 2), ("ioff", 12, 2), ("ilen", 14, 2)]
  | _ => []

/-- VBE control info (tag offset 16) and mode info (tag offset 528): (offset from tag start, width), in the order of the
    Rust structs `VBEControlInfo` / `VBEModeInfo` (both `repr(C, packed)`) -/
def vbeControlFields : List (Nat × Nat) :=
  [(16, 1), (17, 1), (18, 1), (19, 1), (20, 2), (22, 4), (26, 4), (30, 4), (34, 2), (36, 2), (38, 4), (42, 4), (46, 4)]
def vbeModeFields : List (Nat × Nat) :=
  [(528, 2), (530, 1), (531, 1), (532, 2), (534, 2), (536, 2), (538, 2), (540, 4), (544, 2), (546, 2), (548, 2), (550, 1),
   (551, 1), (552, 1), (553, 1), (554, 1), (555, 1), (556, 1), (557, 1), (559, 1), (560, 1), (561, 1), (562, 1), (563, 1),
   (564, 1), (565, 1), (566, 1), (567, 1), (568, 4), (572, 4), (576, 2)]

/-! ### strings (util.rs: CStr::from_bytes_until_nul + to_str) -/

inductive StrErr where
  | missingNul | utf8
deriving Repr, DecidableEq, Inhabited

def validUtf8 (b : Bytes) : Bool := (ByteArray.mk b.toArray).validateUTF8

/-- `parse_slice_as_string(bytes)`: the bytes before the first NUL, if valid UTF-8. Result = length of the text. -/
def parseStr (bytes : Bytes) : Ex StrErr Nat :=
  match bytes.findIdx? (· == 0) with
  | none => .error .missingNul
  | some i => if validUtf8 (bytes.take i) then .ok i else .error .utf8

/-! ### memory map -/

structure Area where
  start : Nat
  «end» : Nat
  size : Nat
  typ : Nat
deriving Repr, DecidableEq, Inhabited

/-- `MemoryMapTag::memory_areas`: asserts entry_size == 24, then the `n` areas of the tail -/
def memoryAreas (T : Bytes) (v : View) : Res (List Area) := do
  let es ← rd32 T 8
  if es ≠ 24 then .panic
  else
    (List.range v.n).mapM fun i => do
      let b ← rd64 T (16 + 24 * i)
      let l ← rd64 T (16 + 24 * i + 8)
      let t ← rd32 T (16 + 24 * i + 16)
      pure ⟨b, (b + l) % W64, l, t⟩

/-! ### EFI memory map -/

structure EfiDesc where
  off : Nat      -- offset of the descriptor inside the tag
  ty : Nat
  phys : Nat
  virt : Nat
  pages : Nat
  att : Nat
deriving Repr, DecidableEq, Inhabited

/-- `EFIMemoryMapTag::memory_areas()` + `EFIMemoryAreaIter::new`: the number of entries, or panic -/
def efiEntries (T : Bytes) (v : View) : Res (Nat × Nat) := do
  let ds ← rd32 T 8
  let ver ← rd32 T 12
  if ver ≠ 1 then .panic
  else if ds < 40 then .panic
  else if ds % 8 ≠ 0 then .panic
  else if v.n % ds ≠ 0 then .panic
  else .ok (ds, v.n / ds)

/-- the `i`-th descriptor (`EFIMemoryAreaIter::next` at index `i`) -/
def efiDesc (T : Bytes) (ds i : Nat) : Res EfiDesc := do
  let o := 16 + i * ds
  let ty ← rd32 T o
  let ph ← rd64 T (o + 8)
  let vi ← rd64 T (o + 16)
  let pg ← rd64 T (o + 24)
  let att ← rd64 T (o + 32)
  pure ⟨o, ty, ph, vi, pg, att⟩

/-- `EFIMemoryAreaIter` as a state machine: state = (i, entries); `next` and `len` -/
structure EfiIter where
  ds : Nat
  i : Nat
  entries : Nat
deriving Repr, DecidableEq, Inhabited

def EfiIter.next (T : Bytes) (it : EfiIter) : Res (Option EfiDesc) × EfiIter :=
  if it.i ≥ it.entries then (.ok none, it)
  else (do let d ← efiDesc T it.ds it.i; pure (some d), { it with i := it.i + 1 })

/-- `ExactSizeIterator::len` = `size_hint` -/
def EfiIter.len (it : EfiIter) : Nat := it.entries - it.i

/-- state after `k` calls of `next` -/
def EfiIter.after (T : Bytes) (it : EfiIter) : Nat → EfiIter
  | 0 => it
  | k+1 => EfiIter.after T (it.next T).2 k

/-! ### ELF sections -/

structure ElfSec where
  off : Nat
  typ : ElfSectionType
  raw : Nat
  flags : Nat
  start : Nat
  «end» : Nat
  size : Nat
  align : Nat
  rem : Nat         -- `len()` of the iterator after this item
deriving Repr, DecidableEq, Inhabited

/-- `ElfSectionsTag::sections()`: the two bounds assertions. Returns (num, entry size). -/
def elfOpen (T : Bytes) (v : View) : Res (Nat × Nat) := do
  let num ← rd32 T 8
  let es ← rd32 T 12
  let shndx ← rd32 T 16
  if num * es > v.n then .panic
  else if num ≠ 0 ∧ (shndx + 1) * es > v.n then .panic
  else .ok (num, es)

/-- decode the section header at tag offset `o` (`ElfSection::get` + accessors) -/
def elfSecAt (T : Bytes) (es o rem : Nat) : Res ElfSec :=
  if es = 40 then do
    let raw ← rd32 T (o + 4)
    let fl ← rd32 T (o + 8)
    let ad ← rd32 T (o + 12)
    let sz ← rd32 T (o + 20)
    let al ← rd32 T (o + 32)
    pure ⟨o, ElfSectionType.classify raw, raw, fl % 8, ad, (ad + sz) % W64, sz, al, rem⟩
  else if es = 64 then do
    let raw ← rd32 T (o + 4)
    let fl ← rd64 T (o + 8)
    let ad ← rd64 T (o + 16)
    let sz ← rd64 T (o + 32)
    let al ← rd64 T (o + 48)
    pure ⟨o, ElfSectionType.classify raw, raw, fl % 8, ad, (ad + sz) % W64, sz, al, rem⟩
  else .panic

/-- the iterator as the harness observes it: delivered items, then how it ended -/
def elfIter (T : Bytes) (es : Nat) : Nat → Nat → List ElfSec × End
  | 0, _ => ([], .done)
  | rem+1, o =>
    match elfSecAt T es o rem with
    | .ok s =>
      let r := elfIter T es rem (o + es)
      if s.typ = .unused then r else (s :: r.1, r.2)
    | .panic => ([], .bad) | .oob => ([], .oob) | .ub => ([], .ub)

/-- `ElfSection::string_table()`: reads the `addr` field of the string-table section header the tag designates
    (`shndx`-th entry). The value is an address OUTSIDE the boot information (documented); the read of the field itself
    happens inside the tag - or faults. -/
def elfStrTabAddr (T : Bytes) (es shndx : Nat) : Res Nat :=
  if es = 40 then rd32 T (20 + shndx * es + 12)
  else if es = 64 then rd64 T (20 + shndx * es + 16)
  else .panic

/-- `ElfSection::name()` against an external string table `strtab` (zero padded): bytes from `name_index` to the first NUL -/
def elfName (T : Bytes) (es shndx o : Nat) (strtab : Bytes) : Res (Ex Unit Bytes) := do
  let _ ← elfStrTabAddr T es shndx
  let ni ← rd32 T o
  let s := (strtab.drop ni).takeWhile (· != 0)
  if validUtf8 s then pure (.ok s) else pure (.error ())

/-! ### framebuffer -/

inductive FbType where
  | indexed (palOff num : Nat) | rgb (a b c d e f : Nat) | text
deriving Repr, DecidableEq, Inhabited

/-- `Reader::read_next_u8` on the tag's buffer `[32, 32 + n)`: panics past the end of the buffer -/
def fbByte (T : Bytes) (n i : Nat) : Res Nat := if i < n then rd8 T (32 + i) else .panic

/-- `FramebufferTag::buffer_type` -/
def fbBufferType (T : Bytes) (v : View) : Res (Ex Nat FbType) := do
  let tb ← rd8 T 29
  match fbTypeOfByte tb with
  | none => pure (.error tb)
  | some 0 => do
    let lo ← fbByte T v.n 0
    let hi ← fbByte T v.n 1
    let num := hi * 256 + lo
    if 2 + num * 3 ≤ v.n then pure (.ok (.indexed 34 num)) else .panic
  | some 1 => do
    let a ← fbByte T v.n 0
    let b ← fbByte T v.n 1
    let c ← fbByte T v.n 2
    let d ← fbByte T v.n 3
    let e ← fbByte T v.n 4
    let f ← fbByte T v.n 5
    pure (.ok (.rgb a b c d e f))
  | some _ => pure (.ok .text)

/-! ### RSDP -/

def byteSum (T : Bytes) (a n : Nat) : Res Nat :=
  (List.range n).foldlM (fun acc i => do let b ← rd8 T (a + i); pure ((acc + b) % 256)) 0

def rsdp1Valid (T : Bytes) : Res Bool := do let s ← byteSum T 8 20; pure (s == 0)

def rsdp2Valid (T : Bytes) : Res Bool := do
  let len ← rd32 T 28
  if len > 36 then pure false
  else do let s ← byteSum T 8 len; pure (s == 0)

/-! ### modules -/

/-- `ModuleIter`: the module tags of the walk in order, each cast; ends `done`, or `bad` where the walk or a cast panics -/
def moduleViews (p : Profile) (area : Bytes) : List View × End :=
  let w := tagsOf p .tag area
  let rec go : List Item → List View × End
    | [] => ([], w.2)
    | it :: rest =>
      if it.typ = 3 then
        match castTo p .tag (Kind.desc .module) it.size it.pl with
        | .ok (sov, n) => let r := go rest; (⟨it.off, it.size, sov, n⟩ :: r.1, r.2)
        | .panic => ([], .bad) | .oob => ([], .oob) | .ub => ([], .ub)
      else go rest
  go w.1

end Mb2
