/-
  Mb2.Basic — bytes, little-endian readers, outcome monad, profile-dependent machine arithmetic.
  Import-free (core only) so that the driver links as a native executable.
-/
namespace Mb2

abbrev Bytes := List UInt8

/-- Build profile: `dev` = debug assertions + overflow checks, `release` = wrapping arithmetic. -/
inductive Profile where
  | dev | release
deriving Repr, DecidableEq, Inhabited

/-- Outcome of running a piece of modelled code.
  `panic` : a controlled (unwinding) Rust panic;
  `oob`   : the MODEL read a byte outside the extent it was allowed to read (a memory-safety fault);
  `ub`    : the code materialised an enum value with an undeclared bit pattern. -/
inductive Res (α : Type) where
  | ok (a : α) | panic | oob | ub
deriving Repr, DecidableEq, Inhabited

namespace Res
@[inline] def bind {α β} (x : Res α) (f : α → Res β) : Res β :=
  match x with
  | .ok a => f a
  | .panic => .panic
  | .oob => .oob
  | .ub => .ub
instance : Monad Res where
  pure := .ok
  bind := Res.bind
-- NOTE: deliberately NOT `rfl`-shaped proofs. A `rfl` simp lemma is applied by `dsimp`, whose result the kernel
-- re-checks by definitional unfolding of the whole goal; with 2^32 / 2^64 literals under `if` conditions that
-- unfolding peels the literals in unary (minutes, then "deep recursion"). Propositional rewriting avoids it.
@[simp] theorem bind_ok {α β} (a : α) (f : α → Res β) : (Res.ok a >>= f) = f a := Eq.trans rfl rfl
@[simp] theorem bind_panic {α β} (f : α → Res β) : ((Res.panic : Res α) >>= f) = .panic := Eq.trans rfl rfl
@[simp] theorem bind_oob {α β} (f : α → Res β) : ((Res.oob : Res α) >>= f) = .oob := Eq.trans rfl rfl
@[simp] theorem bind_ub {α β} (f : α → Res β) : ((Res.ub : Res α) >>= f) = .ub := Eq.trans rfl rfl
@[simp] theorem pure_eq {α} (a : α) : (pure a : Res α) = .ok a := Eq.trans rfl rfl
def isOk {α} : Res α → Bool | .ok _ => true | _ => false
end Res

/-- API-level result (`Result<T, E>`): our own copy of `Except` so that `DecidableEq` can be derived. -/
inductive Ex (ε α : Type) where
  | error (e : ε) | ok (a : α)
deriving Repr, DecidableEq, Inhabited

/-- machine word modulus for `usize`/`u64` on the 64-bit targets the harness builds for -/
def W64 : Nat := 18446744073709551616
def W32 : Nat := 4294967296
theorem W64_eq : W64 = 18446744073709551616 := rfl
theorem W32_eq : W32 = 4294967296 := rfl

/-- unchecked `a + b` on a `w`-modulus unsigned type: dev panics on overflow, release wraps -/
def uadd (p : Profile) (w a b : Nat) : Res Nat :=
  if a + b < w then .ok (a + b) else
  match p with | .dev => .panic | .release => .ok ((a + b) % w)
/-- unchecked `a - b` -/
def usub (p : Profile) (w a b : Nat) : Res Nat :=
  if b ≤ a then .ok (a - b) else
  match p with | .dev => .panic | .release => .ok ((a + w - b) % w)
/-- unchecked `a * b` -/
def umul (p : Profile) (w a b : Nat) : Res Nat :=
  if a * b < w then .ok (a * b) else
  match p with | .dev => .panic | .release => .ok ((a * b) % w)

def roundUp8 (n : Nat) : Nat := (n + 7) / 8 * 8
def roundDown8 (n : Nat) : Nat := n / 8 * 8

/-- `increase_to_alignment` of multiboot2-common: `(size + 7) & !7` on `usize` -/
def incAlign (p : Profile) (n : Nat) : Res Nat := do
  let s ← uadd p W64 n 7
  pure (roundDown8 s)

/-- The same function on machine words, written with the code's bit operations (release semantics). -/
def incAlignU64 (n : UInt64) : UInt64 := (n + 7) &&& ~~~(7 : UInt64)

/-! ### byte access -/
def u8At (b : Bytes) (i : Nat) : Nat := (b.getD i 0).toNat
def le16 (b : Bytes) (o : Nat) : Nat := u8At b o + 256 * u8At b (o+1)
def le32 (b : Bytes) (o : Nat) : Nat :=
  u8At b o + 256 * u8At b (o+1) + 65536 * u8At b (o+2) + 16777216 * u8At b (o+3)
def le64 (b : Bytes) (o : Nat) : Nat := le32 b o + 4294967296 * le32 b (o+4)

/-- checked reads: the only way model code obtains bytes -/
def rd8 (b : Bytes) (o : Nat) : Res Nat := if o + 1 ≤ b.length then .ok (u8At b o) else .oob
def rd16 (b : Bytes) (o : Nat) : Res Nat := if o + 2 ≤ b.length then .ok (le16 b o) else .oob
def rd32 (b : Bytes) (o : Nat) : Res Nat := if o + 4 ≤ b.length then .ok (le32 b o) else .oob
def rd64 (b : Bytes) (o : Nat) : Res Nat := if o + 8 ≤ b.length then .ok (le64 b o) else .oob

/-- sub-list `[a, a+n)` -/
def slice (b : Bytes) (a n : Nat) : Bytes := (b.drop a).take n

/-- checked sub-slice `[a, a+n)`: a fault when it leaves the extent -/
def rdSlice (b : Bytes) (a n : Nat) : Res Bytes := if a + n ≤ b.length then .ok (slice b a n) else .oob

/-- little-endian encoders -/
def enc8 (v : Nat) : Bytes := [UInt8.ofNat v]
def enc16 (v : Nat) : Bytes := [UInt8.ofNat v, UInt8.ofNat (v / 256)]
def enc32 (v : Nat) : Bytes :=
  [UInt8.ofNat v, UInt8.ofNat (v / 256), UInt8.ofNat (v / 65536), UInt8.ofNat (v / 16777216)]
def enc64 (v : Nat) : Bytes := enc32 v ++ enc32 (v / 4294967296)

/-- FNV-1a 64 over a byte list (used only by the driver for canonical output) -/
def fnv (b : Bytes) : UInt64 :=
  b.foldl (fun h x => (h ^^^ x.toUInt64) * 1099511628211) 14695981039346656037

end Mb2
