/-
  Mb2.Spec — the specification layer: what the given properties demand, written as short functions from
  the INPUT to the set of admissible outcomes. Nothing here looks at the implementation model.
-/
import Mb2.Common
import Mb2.Mbi
import Mb2.Header
namespace Mb2

abbrev Out (ε α : Type) := Res (Ex ε α)

/-- A set of admissible outcomes. -/
inductive Expect (ε α : Type) where
  | exactly (o : Out ε α)       -- precisely this outcome
  | rejected                    -- a controlled panic or any error value; never a success, never a fault
  | rejectedOr (a : α)          -- as `rejected`, or the success `a`
  | anything                    -- unconstrained by the property (but still no memory fault)
deriving Inhabited

def Out.isRejection {ε α} : Out ε α → Bool
  | .panic => true
  | .ok (.error _) => true
  | _ => false

def Out.isFault {ε α} : Out ε α → Bool
  | .oob => true | .ub => true | _ => false

def Expect.admits {ε α} [DecidableEq ε] [DecidableEq α] (e : Expect ε α) (o : Out ε α) : Bool :=
  match e with
  | .exactly x => decide (o = x)
  | .rejected => o.isRejection
  | .rejectedOr a => o.isRejection || decide (o = .ok (.ok a))
  | .anything => !o.isFault

@[simp] theorem Expect.admits_exactly {ε α} [DecidableEq ε] [DecidableEq α] (o : Out ε α) :
    (Expect.exactly o).admits o = true := by simp [Expect.admits]

namespace Spec

/-! ### C14 — bytes → dynamically sized structure -/

/-- Property C14: error precedence; success only when everything fits; result = payload length. -/
def refFromSlice (k : HK) (addr : Nat) (bytes : Bytes) : Expect MemErr Nat :=
  let len := bytes.length
  if len < k.hsize then .exactly (.ok (.error .shorterThanHeader))
  else if addr % 8 ≠ 0 then .exactly (.ok (.error .wrongAlignment))
  else if len % 8 ≠ 0 then .exactly (.ok (.error .missingPadding))
  else
    let d := le32 bytes k.sizeOff
    if d > len then .exactly (.ok (.error .invalidReportedTotalSize))
    else if d < k.hsize then .rejectedOr 0
    else .exactly (.ok (.ok (d - k.hsize)))

/-! ### C02 — loading -/

/-- Property C02. `mem` is the readable memory behind the (8-aligned, when non-null) pointer. -/
def load (null : Bool) (mem : Bytes) : Expect LoadErr Loaded :=
  if null then .exactly (.ok (.error (.memory .null)))
  else
    let t := le32 mem 0
    if t < 8 then .exactly (.ok (.error (.memory .shorterThanHeader)))
    else if t % 8 ≠ 0 then .exactly (.ok (.error (.memory .missingPadding)))
    else if le32 mem (t - 8) = 0 ∧ le32 mem (t - 4) = 8 then .exactly (.ok (.ok ⟨0, t, t⟩))
    else .exactly (.ok (.error .noEndTag))

/-! ### C03 — the specification's tag walk -/

/-- The walk of the Multiboot2 specification over a tag area `buf` (boot information minus its 8-byte
    header / header minus its 16-byte header), starting at `off`: done at the end of the area; a size below
    8 or a tag that leaves the area is `bad`; otherwise the tag at `off` and on to `off + roundUp8 size`. -/
def walk (k : HK) (buf : Bytes) : Nat → Nat → List Item × End
  | 0, _ => ([], .bad)
  | fuel+1, off =>
    if off = buf.length then ([], .done)
    else
      let size := le32 buf (off + 4)
      if size < 8 ∨ off + roundUp8 size > buf.length then ([], .bad)
      else
        let r := walk k buf fuel (off + roundUp8 size)
        (⟨off, tagTyp k buf off, size, size - 8⟩ :: r.1, r.2)

def tagsOf (k : HK) (buf : Bytes) : List Item × End := walk k buf (buf.length / 8 + 1) 0

/-- The abstract iterator pool: an iterator is an index into the list of tags of the specification's walk. `next`
    yields the tag at that index and advances; past the last tag it reports the end (`none`, state unchanged) when
    the walk ended `done`, and a controlled panic otherwise. `clone` copies the index, `fresh` starts at 0. -/
def absStep (items : List Item) (e : End) (pool : List (Option Nat)) : IterOp → List (Option Nat) × IterObs
  | .fresh => (pool ++ [some 0], .fresh)
  | .clone i => (pool ++ [pool.getD i none], .cloned)
  | .next i =>
    match pool.getD i none with
    | none => (pool, .dead)
    | some j =>
      match items[j]? with
      | some it => (pool.set i (some (j + 1)), .item it)
      | none => if e = .done then (pool, .none) else (pool.set i none, .panic)

def absRun (items : List Item) (e : End) : List (Option Nat) → List IterOp → List IterObs
  | _, [] => []
  | pool, op :: ops => let r := absStep items e pool op; r.2 :: absRun items e r.1 ops


/-! ### C10 — header loading -/

/-- Property C10 (for a defined architecture value 0 / 4). -/
def hload (null : Bool) (mem : Bytes) : Expect HLoadErr HLoaded :=
  if null then .exactly (.ok (.error (.memory .null)))
  else
    let m := le32 mem 0
    let a := le32 mem 4
    let l := le32 mem 8
    let c := le32 mem 12
    if l < 16 then .exactly (.ok (.error (.memory .shorterThanHeader)))
    else if l % 8 ≠ 0 then .exactly (.ok (.error (.memory .missingPadding)))
    else if m ≠ HMAGIC then .exactly (.ok (.error .magicNotFound))
    else if a ≠ 0 ∧ a ≠ 4 then .anything
    else if (m + a + l + c) % 4294967296 ≠ 0 then .exactly (.ok (.error .checksumMismatch))
    else .exactly (.ok (.ok ⟨m, a, l, c⟩))

/-! ### C13 — searching an image for the header -/

def u8A (a : Array UInt8) (i : Nat) : Nat := (a.getD i 0).toNat
def le32A (a : Array UInt8) (o : Nat) : Nat :=
  u8A a o + 256 * u8A a (o+1) + 65536 * u8A a (o+2) + 16777216 * u8A a (o+3)

/-- least index `i` with `i + 4 ≤ w` whose four bytes are the magic -/
def firstMagic (buf : Bytes) (w : Nat) : Option Nat :=
  let a := buf.toArray
  (List.range' 0 (w - 3)).find? (fun i => le32A a i == HMAGIC)

/-- Property C13: exact result; which error kind is reported for misaligned / truncated is left open. -/
inductive FindExpect where
  | none_ | some_ (i len : Nat) | error
deriving Repr, DecidableEq, Inhabited

def find (buf : Bytes) : FindExpect :=
  let w := min buf.length 8192
  match firstMagic buf w with
  | none => .none_
  | some i =>
    if i % 8 ≠ 0 then .error
    else if i + 12 > buf.length then .error
    else if i + le32 buf (i + 8) > buf.length then .error
    else .some_ i (le32 buf (i + 8))


/-! ### C04 — field offsets of the Multiboot2 specification (§3.6.x), copied from the specification, NOT from the code -/

/-- (name, offset from tag start, width in bytes) per information-tag type number -/
def fields : Nat → List (String × Nat × Nat)
  | 10 => [("version", 8, 2), ("cseg", 10, 2), ("offset", 12, 4), ("cset_16", 16, 2), ("dseg", 18, 2), ("flags", 20, 2),
           ("cseg_len", 22, 2), ("cseg_16_len", 24, 2), ("dseg_len", 26, 2)]                     -- APM table
  | 4 => [("lower", 8, 4), ("upper", 12, 4)]                                                    -- basic memory information
  | 5 => [("biosdev", 8, 4), ("slice", 12, 4), ("part", 16, 4)]                                 -- BIOS boot device
  | 19 => [("handle", 8, 4)]                                                                    -- EFI 32-bit image handle
  | 20 => [("handle", 8, 8)]                                                                    -- EFI 64-bit image handle
  | 11 => [("sdt", 8, 4)]                                                                       -- EFI 32-bit system table
  | 12 => [("sdt", 8, 8)]                                                                       -- EFI 64-bit system table
  | 21 => [("addr", 8, 4)]                                                                      -- image load base address
  | 3 => [("start", 8, 4), ("end", 12, 4)]                                                      -- module
  | 6 => [("entry_size", 8, 4), ("entry_version", 12, 4)]                                       -- memory map
  | 9 => [("num", 8, 4), ("entsize", 12, 4), ("shndx", 16, 4)]                                  -- ELF symbols (multiboot2.h)
  | 8 => [("address", 8, 8), ("pitch", 16, 4), ("width", 20, 4), ("height", 24, 4), ("bpp", 28, 1)]   -- framebuffer
  | 13 => [("major", 8, 1), ("minor", 9, 1)]                                                    -- SMBIOS
  | 14 => [("revision", 23, 1), ("rsdt", 24, 4)]                                                -- ACPI 1.0 RSDP (8 + 15, 8 + 16)
  | 15 => [("revision", 23, 1), ("xsdt", 32, 8), ("ext_checksum", 40, 1)]                       -- ACPI 2.0 RSDP (8 + 24, 8 + 32)
  | 2 => [("typ", 0, 4), ("size", 4, 4)]                                                        -- boot loader name: the tag header
  | 7 => [("mode", 8, 2), ("iseg", 10, 2), ("ioff", 12, 2), ("ilen", 14, 2)]                    -- VBE info
  | _ => []

/-- VBE 3.0 VbeInfoBlock (512 bytes, at tag offset 16): offsets of signature[4], version, OemStringPtr, Capabilities,
    VideoModePtr, TotalMemory, OemSoftwareRev, OemVendorNamePtr, OemProductNamePtr, OemProductRevPtr -/
def vbeControl : List (Nat × Nat) :=
  [(16 + 0, 1), (16 + 1, 1), (16 + 2, 1), (16 + 3, 1), (16 + 4, 2), (16 + 6, 4), (16 + 10, 4), (16 + 14, 4), (16 + 18, 2),
   (16 + 20, 2), (16 + 22, 4), (16 + 26, 4), (16 + 30, 4)]

/-- VBE 3.0 ModeInfoBlock (256 bytes, at tag offset 528): ModeAttributes, WinAAttributes, WinBAttributes, WinGranularity,
    WinSize, WinASegment, WinBSegment, WinFuncPtr, BytesPerScanLine, XResolution, YResolution, XCharSize, YCharSize,
    NumberOfPlanes, BitsPerPixel, NumberOfBanks, MemoryModel, BankSize, NumberOfImagePages, (reserved @30), Red/Green/Blue/Rsvd
    MaskSize+FieldPosition @31..38, DirectColorModeInfo @39, PhysBasePtr @40, OffScreenMemOffset @44, OffScreenMemSize @48 -/
def vbeMode : List (Nat × Nat) :=
  [(528 + 0, 2), (528 + 2, 1), (528 + 3, 1), (528 + 4, 2), (528 + 6, 2), (528 + 8, 2), (528 + 10, 2), (528 + 12, 4),
   (528 + 16, 2), (528 + 18, 2), (528 + 20, 2), (528 + 22, 1), (528 + 23, 1), (528 + 24, 1), (528 + 25, 1), (528 + 26, 1),
   (528 + 27, 1), (528 + 28, 1), (528 + 29, 1), (528 + 31, 1), (528 + 32, 1), (528 + 33, 1), (528 + 34, 1), (528 + 35, 1),
   (528 + 36, 1), (528 + 37, 1), (528 + 38, 1), (528 + 39, 1), (528 + 40, 4), (528 + 44, 4), (528 + 48, 2)]

/-- unpadded size of the fixed-size information tags -/
def fixedSize : Nat → Option Nat
  | 0 => some 8 | 4 => some 16 | 5 => some 20 | 7 => some 784 | 10 => some 28 | 11 => some 12 | 12 => some 16
  | 14 => some 28 | 15 => some 44 | 18 => some 8 | 19 => some 12 | 20 => some 16 | 21 => some 12
  | _ => none

end Spec
end Mb2
