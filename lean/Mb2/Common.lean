/-
  Mb2.Common — model of crate `multiboot2-common` (bytes_ref.rs, lib.rs, iter.rs).
  Line references are to /repo/multiboot2-common/src at the verified commit.
-/
import Mb2.Basic
namespace Mb2

/-- The header kinds (`impl Header for …`) that exist in the three crates. -/
inductive HK where
  | tag    -- multiboot2::TagHeader            {typ u32, size u32}, payload_len asserts size ≥ 8
  | bi     -- multiboot2::BootInformationHeader {total_size u32, reserved u32}
  | hb     -- multiboot2_header::Multiboot2BasicHeader {magic, arch, length, checksum}
  | ht     -- multiboot2_header::HeaderTagHeader {typ u16, flags u16, size u32}, payload_len asserts size ≥ 8
  | dummy  -- multiboot2_common::test_utils::DummyTestHeader {typ u32, size u32}, unchecked subtraction
deriving Repr, DecidableEq, Inhabited

def HK.hsize : HK → Nat
  | .hb => 16 | _ => 8
/-- offset of the size word inside the header -/
def HK.sizeOff : HK → Nat
  | .bi => 0 | .hb => 8 | _ => 4

inductive MemErr where
  | null | wrongAlignment | shorterThanHeader | missingPadding | invalidReportedTotalSize
deriving Repr, DecidableEq, Inhabited

/-- `Header::payload_len` per kind, given the declared size word `d`. -/
def payloadLen (p : Profile) (k : HK) (d : Nat) : Res Nat :=
  match k with
  | .tag => if d ≥ 8 then .ok (d - 8) else .panic          -- assert!(size >= 8)
  | .bi => .ok (d - 8)                                      -- saturating_sub
  | .hb => .ok (d - 16)                                     -- saturating_sub
  | .ht => if d ≥ 8 then .ok (d - 8) else .panic          -- assert!(size >= 8)
  | .dummy => usub p W64 d 8

/-- `Header::total_size`: default `size_of::<Self>() + payload_len()`; `bi`/`hb` return the declared word. -/
def totalSize (p : Profile) (k : HK) (d : Nat) : Res Nat :=
  match k with
  | .bi => .ok d
  | .hb => .ok d
  | _ => do let pl ← payloadLen p k d; uadd p W64 k.hsize pl

/-- `BytesRef::try_from` (bytes_ref.rs:20-37): the three checks in code order. -/
def bytesRefTryFrom (k : HK) (addr len : Nat) : Ex MemErr Unit :=
  if len < k.hsize then .error .shorterThanHeader
  else if addr % 8 ≠ 0 then .error .wrongAlignment
  else if len % 8 ≠ 0 then .error .missingPadding
  else .ok ()

/-- `DynSizedStructure::ref_from_bytes` (lib.rs): reads the header through the slice, compares the
    payload length with the space behind the header. Result: the payload length of the fat pointer. -/
def refFromBytes (p : Profile) (k : HK) (bytes : Bytes) : Res (Ex MemErr Nat) := do
  let d ← rd32 bytes k.sizeOff
  let pl ← payloadLen p k d
  if pl > bytes.length - k.hsize then pure (.error .invalidReportedTotalSize)
  else pure (.ok pl)

/-- `DynSizedStructure::ref_from_slice` -/
def refFromSlice (p : Profile) (k : HK) (addr : Nat) (bytes : Bytes) : Res (Ex MemErr Nat) :=
  match bytesRefTryFrom k addr bytes.length with
  | .error e => .ok (.error e)
  | .ok () => refFromBytes p k bytes

/-- `size_of_val` of a `DynSizedStructure<H>` with payload length `pl` (`repr(C, align(8))`, tail `[u8]`). -/
def dynSizeOfVal (k : HK) (pl : Nat) : Nat := roundUp8 (k.hsize + pl)

/-- `DynSizedStructure::ref_from_ptr`: `mem` is everything readable behind the pointer. The code reads the
    header, forms a slice of `total_size()` bytes and calls `ref_from_slice`. Returns (slice length, payload length). -/
def refFromPtr (p : Profile) (k : HK) (addr : Nat) (mem : Bytes) : Res (Ex MemErr (Nat × Nat)) := do
  let d ← rd32 mem k.sizeOff
  let t ← totalSize p k d
  -- slice::from_raw_parts(ptr, t) requires all `t` bytes to be readable: forming it over unreadable memory is a fault
  if t > mem.length then .oob
  else
    match ← refFromSlice p k addr (mem.take t) with
    | .error e => pure (.error e)
    | .ok pl => pure (.ok (t, pl))

/-! ### TagIter (iter.rs) -/

/-- one yielded item: offset of the tag inside the iterated buffer, type word, declared size, payload length
    of the returned fat pointer -/
structure Item where
  off : Nat
  typ : Nat
  size : Nat
  pl : Nat
deriving Repr, DecidableEq, Inhabited

/-- type word of a tag header: u32 for `tag`/`dummy`, u16 for `ht` -/
def tagTyp (k : HK) (b : Bytes) (o : Nat) : Nat :=
  match k with
  | .ht => le16 b o
  | _ => le32 b o

/-- `TagIter::next` (iter.rs:40-75), line by line. State = `next_tag_offset`. -/
def tagIterNext (p : Profile) (k : HK) (buf : Bytes) (off : Nat) : Res (Option (Item × Nat)) :=
  if off = buf.length then .ok none
  else if ¬ off < buf.length then .panic                     -- assert!(offset < len)
  else do
    -- `&*ptr` header read (unsafe pointer read of size_of::<H>() bytes)
    let _ ← rd32 buf off
    let size ← rd32 buf (off + 4)
    let pl ← payloadLen p k size
    let len ← uadd p W64 k.hsize pl
    let to ← uadd p W64 off len
    let to ← incAlign p to
    let delta ← usub p W64 to off
    let off' ← uadd p W64 off delta
    -- &self.buffer[from..to]
    if off > to then .panic
    else if to > buf.length then .panic
    else
      match ← refFromSlice p k off (slice buf off (to - off)) with     -- buffer base is 8-aligned (asserted in `new`)
      | .error _ => .panic                                               -- unwrap()
      | .ok pl' => .ok (some (⟨off, tagTyp k buf off, size, pl'⟩, off'))

inductive End where
  | done | bad | oob | ub
deriving Repr, DecidableEq, Inhabited

/-- drain an iterator; fuel bounds the number of `next` calls (never exhausted, see `drain_fuel`) -/
def drain (p : Profile) (k : HK) (buf : Bytes) : Nat → Nat → List Item × End
  | 0, _ => ([], .bad)
  | fuel+1, off =>
    match tagIterNext p k buf off with
    | .ok none => ([], .done)
    | .ok (some (it, off')) => let r := drain p k buf fuel off'; (it :: r.1, r.2)
    | .panic => ([], .bad)
    | .oob => ([], .oob)
    | .ub => ([], .ub)

/-- all tags of a buffer -/
def tagsOf (p : Profile) (k : HK) (buf : Bytes) : List Item × End :=
  drain p k buf (buf.length / 8 + 1) 0


/-! ### iterator histories: a pool of iterators over one buffer, driven by next / clone / fresh -/

inductive IterOp where
  | next (i : Nat) | clone (i : Nat) | fresh
deriving Repr, DecidableEq, Inhabited

inductive IterObs where
  | item (it : Item) | none | panic | cloned | dead | oob | ub | fresh
deriving Repr, DecidableEq, Inhabited

/-- one operation on the concrete pool (state of iterator = `next_tag_offset`; `none` = poisoned by a panic) -/
def poolStep (p : Profile) (k : HK) (buf : Bytes) (pool : List (Option Nat)) : IterOp → List (Option Nat) × IterObs
  | .fresh => (pool ++ [some 0], .fresh)
  | .clone i => (pool ++ [pool.getD i none], .cloned)
  | .next i =>
    match pool.getD i none with
    | none => (pool, .dead)
    | some off =>
      match tagIterNext p k buf off with
      | .ok none => (pool, .none)
      | .ok (some (it, off')) => (pool.set i (some off'), .item it)
      | .panic => (pool.set i none, .panic)
      | .oob => (pool.set i none, .oob)
      | .ub => (pool.set i none, .ub)

def poolRun (p : Profile) (k : HK) (buf : Bytes) : List (Option Nat) → List IterOp → List IterObs
  | _, [] => []
  | pool, op :: ops => let r := poolStep p k buf pool op; r.2 :: poolRun p k buf r.1 ops

/-! ### cast (lib.rs `DynSizedStructure::cast`) -/

/-- Description of a target type `T : MaybeDynSized`. -/
structure TyDesc where
  baseSize : Nat            -- T::BASE_SIZE
  fixed : Nat               -- offset at which the unsized tail starts (sized types: size of all fields, unpadded)
  align : Nat               -- alignment of T
  elem : Option Nat         -- element size of the tail slice; `none` for sized types
  /-- `T::dst_len(header)`: given the declared size; `none` = panics -/
  dstLen : Profile → Nat → Res Nat
deriving Inhabited

def roundUp (n a : Nat) : Nat := (n + a - 1) / a * a

/-- `size_of_val` of a `T` with `n` tail elements -/
def TyDesc.sizeOfVal (t : TyDesc) (n : Nat) : Nat :=
  match t.elem with
  | none => roundUp t.fixed t.align
  | some e => roundUp (t.fixed + n * e) t.align

/-- `cast::<T>()` on a generic tag whose fat pointer has payload length `pl` and declared size `size`.
    Result: `size_of_val` of the typed view and its tail length. -/
def castTo (p : Profile) (k : HK) (t : TyDesc) (size pl : Nat) : Res (Nat × Nat) :=
  if ¬ t.baseSize ≥ k.hsize then .panic
  else do
    let n ← t.dstLen p size
    let sov := t.sizeOfVal n
    if dynSizeOfVal k pl ≠ sov then .panic else .ok (sov, n)

end Mb2
