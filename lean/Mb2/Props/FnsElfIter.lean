/-
  Mb2.Props.FnsElfIter — SOURCE = MODEL for the ELF section iterator (elf_sections.rs): one iteration of the `while` loop of
  `ElfSectionIter::next` as a step function, `ElfSection::get` (entry-size dispatch), `ElfSection::end_address`.
-/
import Mb2.Props.FnsBase
open Mb2 Mb2.Rir
set_option linter.unusedSimpArgs false

namespace Mb2.Fns

/-- `ElfSectionIter::next`, sections remaining: the section at the cursor is taken, the cursor advances by the entry size
    (opaque pointer `nxt`), the counter is decremented; the section is RETURNED when its type is in use and SKIPPED
    (`continue`) when it is `Unused` - the step of the model's `elfIter`. Result = ((outcome, cursor), remaining). -/
theorem elf_iter_next_step_eq (p : Profile) (rem : Nat) (ty : String) (cur str es nxt : V) (hr : rem ≠ 0) (hlt : rem < W32) :
    evalO p [.int .u32 rem, .c0 ty, cur, str, es, nxt] Gen.Fns.elf_iter_next =
      some (.ok (.pair (.pair (if ty ≠ "ElfSectionType::Unused" then .c1 "Some" (.pair cur (.pair str es)) else .c0 "continue") nxt)
                       (.int .u32 (rem - 1)))) := by
  have hs : usub p W32 rem 1 = .ok (rem - 1) := by unfold usub; rw [if_pos (by omega)]
  by_cases ht : ty = "ElfSectionType::Unused" <;>
    simp [evalO, Gen.Fns.elf_iter_next, eval, binop, arith, unify, veq, set_other, hr, hs, ht]

/-- no sections remaining: `None`, nothing is read, the state is unchanged (exhaustion is sticky) -/
theorem elf_iter_next_done_eq (p : Profile) (ty cur str es nxt : V) :
    evalO p [.int .u32 0, ty, cur, str, es, nxt] Gen.Fns.elf_iter_next =
      some (.ok (.pair (.pair (.c0 "None") cur) (.int .u32 0))) := by
  simp [evalO, Gen.Fns.elf_iter_next, eval, binop, arith]

/-- `ElfSection::get`: an entry size other than 40 / 64 is a controlled panic before any field is read (`sec_at_bad_size`) -/
theorem elf_section_get_eq (p : Profile) (es : Nat) (inner : V) :
    evalO p [.int .u32 es, inner] Gen.Fns.elf_section_get = some (if es = 40 ∨ es = 64 then .ok inner else .panic) := by
  by_cases h40 : es = 40
  · subst h40; simp [evalO, Gen.Fns.elf_section_get, eval, binop, arith, set_other]
  · by_cases h64 : es = 64
    · subst h64; simp [evalO, Gen.Fns.elf_section_get, eval, binop, arith, set_other]
    · simp [evalO, Gen.Fns.elf_section_get, eval, binop, arith, set_other, h40, h64]

/-- `ElfSection::end_address` = `(addr + size) mod 2^64` (as `elfSecAt` computes it) -/
theorem elf_end_address_eq (p : Profile) (a s : Nat) :
    evalO p [.int .u64 a, .int .u64 s] Gen.Fns.elf_end_address = some (.ok (.int .u64 ((a + s) % W64))) := by
  simp [evalO, Gen.Fns.elf_end_address, eval, prim2, intPrim]

end Mb2.Fns
