/-
  Mb2.Props.FnsGetters — the getter / iterator entry points that are closure pipelines.

  `tags()`, `iter()`, `module_tags()`, `get_tag` of both crates, `ModuleIter::next`, `framebuffer_tag()` and
  `efi_memory_map_tag()` consist of one `find` / `map` / `map_or_else` expression whose meaning lives in closures; the
  translator emits the normalised token text of these bodies (`Gen.Fns.*_text`, string literals blanked) and the theorems below
  PIN it: these functions are, textually, the selection rules the model implements -

    get_tag        = first tag of the walk whose type equals `T::ID`, cast            (model: `getTag` / `hgetTag`, `find?`)
    tags / iter    = the tag iterator over exactly the payload                         (model: `tagsOf` on the area)
    module_tags    = the module iterator over `tags()`;  next = find type Module, cast (model: `moduleViews`)
    framebuffer_tag     = the FIRST framebuffer tag, `Err` when ITS type byte is unknown
    efi_memory_map_tag  = withheld while a boot-services-not-exited tag is present     (model: `efiMemoryMapTag`)

  This is the only place (with the two pointer expressions of `has_valid_end_tag` / `ref_from_ptr`) where source TEXT is pinned: a
  rewrite of one of these one-liners - harmless or not - breaks the obligation, and the check then decides with the
  correspondence whether a failing input exists. `none` (function not found) is lost coverage.
-/
import Mb2.Gen.Fns
set_option maxRecDepth 8000
namespace Mb2.Fns

def pinned (g : Option String) (e : String) : Bool :=
  match g with
  | none => true
  | some s => s == e

theorem mbi_get_tag_is_first_match :
    pinned Gen.Fns.mbi_get_tag_text "{self.tags().find(|tag|tag.header().typ==T::ID).map(|tag|tag.cast::<T>())}" = true := by decide
theorem hdr_get_tag_is_first_match :
    pinned Gen.Fns.hdr_get_tag_text "{self.iter().find(|tag|tag.header().typ()==T::ID).map(|tag|tag.cast::<T>())}" = true := by decide
theorem mbi_tags_is_payload_walk : pinned Gen.Fns.mbi_tags_text "{TagIter::new(self.0.payload())}" = true := by decide
theorem hdr_iter_is_payload_walk : pinned Gen.Fns.hdr_iter_text "{TagIter::new(self.0.payload())}" = true := by decide
theorem mbi_module_tags_is_module_iter : pinned Gen.Fns.mbi_module_tags_text "{module::module_iter(self.tags())}" = true := by decide
theorem module_iter_next_is_find_module :
    pinned Gen.Fns.module_iter_next_text "{self.iter.find(|tag|tag.header().typ==TagType::Module).map(|tag|tag.cast())}" = true := by
  decide
theorem mbi_framebuffer_tag_is_first :
    pinned Gen.Fns.mbi_framebuffer_tag_text
      "{self.get_tag::<FramebufferTag>().map(|tag|match tag.buffer_type(){Ok(_)=>Ok(tag),Err(e)=>Err(e),})}" = true := by decide
theorem mbi_efi_memory_map_tag_withheld :
    pinned Gen.Fns.mbi_efi_memory_map_tag_text
      "{self.get_tag::<EFIBootServicesNotExitedTag>().map_or_else(||self.get_tag::<EFIMemoryMapTag>(),|_tag|{log::debug!(\"...\");None})}" = true := by
  decide

theorem mbi_elf_sections_is_guarded_sections :
    pinned Gen.Fns.mbi_elf_sections_text
      "{let tag=self.get_tag::<ElfSectionsTag>();tag.map(|t|{assert!((t.entry_size()as u64*t.shndx()as u64)<=t.header().size as u64);t.sections()})}" = true := by
  decide
/-- text before the first NUL of exactly the slice handed in, then UTF-8 validation (`parseStr`) -/
theorem parse_slice_as_string_is_cstr_then_utf8 :
    pinned Gen.Fns.parse_slice_as_string_text
      "{let cstr=core::ffi::CStr::from_bytes_until_nul(bytes).map_err(StringError::MissingNul)?;cstr.to_str().map_err(StringError::Utf8)}" = true := by
  decide
/-- the three string accessors parse exactly the tag's unsized tail (whose length is `dst_len`, i.e. the declared size) -/
theorem cmdline_get_parses_tail : pinned Gen.Fns.cmdline_get_text "{parse_slice_as_string(&self.cmdline)}" = true := by decide
theorem loader_name_get_parses_tail : pinned Gen.Fns.loader_name_get_text "{parse_slice_as_string(&self.name)}" = true := by decide
theorem module_cmdline_get_parses_tail : pinned Gen.Fns.module_cmdline_get_text "{parse_slice_as_string(&self.cmdline)}" = true := by decide
/-- RSDP v1: the byte sum over `[8, 8 + 20)` of the tag (every byte, revision included) must be 0 -/
theorem rsdp1_checksum_sums_20_bytes :
    pinned Gen.Fns.rsdp1_checksum_text
      "{let bytes=unsafe{slice::from_raw_parts(self as*const _ as*const u8,RSDPV1_LENGTH+8)};bytes[8..].iter().fold(0u8,|acc,val|acc.wrapping_add(*val))==0}" = true := by
  decide

/-! ### method sets of the trait impls

  An `impl Iterator for X` that gains an `nth` / `last` / `count` override, a `Header` impl that gains or loses a
  `total_size` override, a `MaybeDynSized` impl that overrides `payload` / `as_bytes`: behaviour changes although no translated
  body does (seeded C01c, C03d, C09d, C11d, C18d, C19d, C01e). The generated `trait_impls` lists, for every impl of these
  traits in the three crates, the functions and constants it defines. -/

def implsOf (tr : String) : List (String × List String) :=
  match Gen.Fns.trait_impls with
  | none => []
  | some l => (l.filter (fun x => x.1 == tr)).map (fun x => (x.2.1, x.2.2))

/-- the list must have been derived: an underivable list FAILS the theorems below (as an untranslatable body fails its
    `*_eq` theorem) instead of making them vacuous -/
def implsKnown : Bool := Gen.Fns.trait_impls.isSome

/-- the iterators implement `next` (and `size_hint` where the model has `len`) and NOTHING else: every other route through the
    `Iterator` API is the standard library's default in terms of `next` -/
theorem iterator_impls_only_next :
    (implsKnown && implsOf "Iterator" ==
      [("EFIMemoryAreaIter", ["next", "size_hint"]), ("ElfSectionIter", ["next", "size_hint"]), ("ModuleIter", ["next"]),
       ("TagIter", ["next"])]) = true := by decide
theorem exact_size_impls :
    (implsKnown && (implsOf "ExactSizeIterator" == [("EFIMemoryAreaIter", ["len"]), ("ElfSectionIter", ["len"])] &&
      implsOf "DoubleEndedIterator" == [] && implsOf "FusedIterator" == [])) = true := by decide
/-- which header kinds override `total_size` (the two structure headers return the declared word; the tag headers use the
    default `size_of + payload_len`) -/
theorem header_impls :
    (implsKnown && implsOf "Header" ==
      [("BootInformationHeader", ["payload_len", "set_size", "total_size"]), ("DummyTestHeader", ["payload_len", "set_size"]),
       ("HeaderTagHeader", ["payload_len", "set_size"]), ("Multiboot2BasicHeader", ["payload_len", "set_size", "total_size"]),
       ("TagHeader", ["payload_len", "set_size"])]) = true := by decide
/-- no tag type overrides `header` / `payload` / `as_bytes` / `as_ptr`: each `MaybeDynSized` impl defines exactly
    `BASE_SIZE` and `dst_len` -/
theorem maybe_dyn_sized_impls_minimal :
    (implsKnown && (implsOf "MaybeDynSized").all (fun x => x.2 == ["const BASE_SIZE", "dst_len"])) = true := by decide
theorem default_impls :
    (implsKnown && implsOf "Default" ==
      [("Builder", ["default"]), ("EFIBootServicesNotExitedTag", ["default"]), ("EndHeaderTag", ["default"]), ("EndTag", ["default"]),
       ("VBEControlInfo", ["default"]), ("VBEModeInfo", ["default"])]) = true := by decide

end Mb2.Fns
