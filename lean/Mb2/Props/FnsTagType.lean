/-
  Mb2.Props.FnsTagType — SOURCE = MODEL (part of the function-body tie, see `Mb2/Props/FnsBase.lean` and `Mb2/Rir.lean`).
  Theorems about terms GENERATED from /repo's working tree by tools/gen_fns.py (`Mb2/Gen/Fns.lean`).
-/

import Mb2.Props.FnsBase
open Mb2 Mb2.Rir

namespace Mb2.Fns

def encTagType : TagType → V
  | .end_ => .c0 "TagType::End" | .cmdline => .c0 "TagType::Cmdline" | .bootLoaderName => .c0 "TagType::BootLoaderName"
  | .module => .c0 "TagType::Module" | .basicMeminfo => .c0 "TagType::BasicMeminfo" | .bootdev => .c0 "TagType::Bootdev"
  | .mmap => .c0 "TagType::Mmap" | .vbe => .c0 "TagType::Vbe" | .framebuffer => .c0 "TagType::Framebuffer"
  | .elfSections => .c0 "TagType::ElfSections" | .apm => .c0 "TagType::Apm" | .efi32 => .c0 "TagType::Efi32"
  | .efi64 => .c0 "TagType::Efi64" | .smbios => .c0 "TagType::Smbios" | .acpiV1 => .c0 "TagType::AcpiV1"
  | .acpiV2 => .c0 "TagType::AcpiV2" | .network => .c0 "TagType::Network" | .efiMmap => .c0 "TagType::EfiMmap"
  | .efiBs => .c0 "TagType::EfiBs" | .efi32Ih => .c0 "TagType::Efi32Ih" | .efi64Ih => .c0 "TagType::Efi64Ih"
  | .loadBaseAddr => .c0 "TagType::LoadBaseAddr"
  | .custom c => .c1 "TagType::Custom" (.int .u32 c.toNat)

/-- `impl From<u32> for TagType` = `TagType.ofU32`, for all 2^32 values -/
theorem tag_type_from_u32_eq (p : Profile) (v : UInt32) :
    evalO p [.int .u32 v.toNat] Gen.Fns.tag_type_from_u32 = some (.ok (encTagType (TagType.ofU32 v))) := by
  simp only [evalO, Gen.Fns.tag_type_from_u32, Option.map]
  unfold TagType.ofU32
  split
  all_goals first
    | (simp [eval, binop, arith, encTagType]; done)
    | skip
  simp only [← UInt32.toNat_inj, UInt32.toNat_ofNat, Nat.reducePow, Nat.reduceMod] at *
  generalize hn : v.toNat = n at *
  have henv : (Env.set (envOf [V.int Ty.u32 n]) 101 (V.int Ty.u32 n)) 101 = V.int Ty.u32 n := set_same _ _ _
  rw [eval_let_var]
  simp only [envOf_zero]
  repeat (rw [eval_arm_lit p _ 101 _ n .u32 _ _ henv, if_neg (by assumption)])
  simp [eval, encTagType, hn]

/-- `impl From<TagType> for u32` = `TagType.toU32` -/
theorem u32_from_tag_type_eq (p : Profile) (t : TagType) :
    (evalO p [encTagType t] Gen.Fns.u32_from_tag_type).map (fun r => r >>= fun v => .ok (typed .u32 v)) =
      some (.ok (.int .u32 t.toU32.toNat)) := by
  simp only [evalO, Gen.Fns.u32_from_tag_type, Option.map]
  rw [eval_let_var]
  simp only [envOf_zero]
  cases t
  case custom c =>
    simp only [encTagType]
    repeat (rw [eval_arm_c1 p _ 101 _ _ _ _ _ (set_same _ _ _), if_neg (by decide)])
    rw [eval_arm_c1 p _ 101 _ _ _ _ _ (set_same _ _ _), if_pos rfl]
    simp [eval, typed, TagType.toU32]
  all_goals
    (simp only [encTagType]
     repeat (rw [eval_arm_c0 p _ 101 _ _ _ _ (set_same _ _ _), if_neg (by decide)])
     rw [eval_arm_c0 p _ 101 _ _ _ _ (set_same _ _ _), if_pos rfl]
     simp [eval, typed, TagType.toU32])

/-- `TagType::val` is nothing but the `u32::from` conversion (`TagType.val = TagType.toU32`) -/
theorem tag_type_val_eq (p : Profile) (x : V) :
    evalO p [x] Gen.Fns.tag_type_val = some (.ok x) := by
  simp [evalO, Gen.Fns.tag_type_val, eval]

end Mb2.Fns
