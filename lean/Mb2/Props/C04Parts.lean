/-
  C04 — Typed getters select the first matching tag and decode every specified field.
-/
import Mb2.Tags
import Mb2.Spec
import Mb2.Lemmas.Tags
import Mb2.Props.C03
import Mb2.Props.C15
namespace Mb2.C04
open Mb2

/-- the struct field lists transcribed from the Rust sources coincide with the specification's offset tables -/
theorem layout_eq_spec : ∀ k : Kind, k.fields = Spec.fields k.typ := by
  intro k; cases k <;> rfl

/-- fixed-size kinds: the Rust struct's unpadded size is the specification's tag size -/
theorem fixed_size_eq_spec : ∀ k : Kind, ∀ s, Spec.fixedSize k.typ = some s → k.desc = sizedDesc s := by
  intro k s h; cases k <;> simp [Spec.fixedSize, Kind.typ] at h <;> subst h <;> rfl

/-- the embedded VBE control / mode blocks: the packed Rust structs place every field at the VBE 3.0 offset -/
theorem vbe_layout_eq_spec : vbeControlFields = Spec.vbeControl ∧ vbeModeFields = Spec.vbeMode := by decide

theorem vbe_fields_inside : ∀ f ∈ vbeControlFields ++ vbeModeFields, f.1 + f.2 ≤ 784 ∧ (f.2 = 1 ∨ f.2 = 2 ∨ f.2 = 4) := by decide

/-- every VBE block field decodes to the little-endian value at its specified offset, inside the 784-byte tag -/
theorem vbe_field_decodes (area : Bytes) (v : View) (hfit : v.off + v.sov ≤ area.length) (hsov : 784 ≤ v.sov) :
    ∀ f ∈ Spec.vbeControl ++ Spec.vbeMode, rdW (v.bytes area) f.1 f.2 = .ok (leW area (v.off + f.1) f.2) := by
  intro f hf
  rw [← vbe_layout_eq_spec.1, ← vbe_layout_eq_spec.2] at hf
  have := vbe_fields_inside f hf
  have hw : f.2 = 1 ∨ f.2 = 2 ∨ f.2 = 4 ∨ f.2 = 8 := by rcases this.2 with h | h | h <;> simp [h]
  exact rdW_slice area v.off v.sov f.1 f.2 hw (by omega) hfit

/-- every plain field lies inside the fixed part of its struct -/
theorem fields_inside : ∀ k : Kind, ∀ f ∈ k.fields, f.2.1 + f.2.2 ≤ k.desc.fixed ∧ (f.2.2 = 1 ∨ f.2.2 = 2 ∨ f.2.2 = 4 ∨ f.2.2 = 8) := by
  intro k; cases k <;> simp [Kind.fields, Kind.desc, sizedDesc, dstDesc, networkDesc]

/-- `get_tag` returns the FIRST tag of the walk whose type number matches; nothing when the (complete) walk has none -/
theorem getTag_first (p : Profile) (area : Bytes) (k : Kind) :
    (∀ v, getTag p area k = .ok (some v) →
        ∃ pre it post, (tagsOf p .tag area).1 = pre ++ it :: post ∧ it.typ = k.typ ∧ it.off = v.off ∧ it.size = v.size ∧
          ∀ x ∈ pre, x.typ ≠ k.typ) ∧
    (getTag p area k = .ok none → (tagsOf p .tag area).2 = .done ∧ ∀ x ∈ (tagsOf p .tag area).1, x.typ ≠ k.typ) := by
  unfold getTag
  simp only
  cases hf : (tagsOf p .tag area).1.find? (fun it => it.typ == k.typ) with
  | none =>
    have hn := List.find?_eq_none.mp hf
    refine ⟨fun v h => ?_, fun h => ?_⟩
    · simp only at h; split at h <;> simp at h
    · simp only at h
      refine ⟨?_, fun x hx => by simpa using hn x hx⟩
      split at h <;> first | assumption | simp at h
  | some it =>
    obtain ⟨hp, pre, post, hl, hpre⟩ := List.find?_eq_some_iff_append.mp hf
    refine ⟨fun v h => ?_, fun h => ?_⟩
    · simp only at h
      cases hc : castTo p .tag k.desc it.size it.pl with
      | ok r =>
        rw [hc] at h
        obtain ⟨sov, n⟩ := r
        simp only at h
        injection h with h; injection h with h
        subst h
        exact ⟨pre, it, post, hl, by simpa using hp, rfl, rfl, fun x hx => by simpa using hpre x hx⟩
      | panic => rw [hc] at h; cases h
      | oob => rw [hc] at h; cases h
      | ub => rw [hc] at h; cases h
    · simp only at h
      split at h <;> simp at h

/-- Field decoding: for a typed view of a kind with plain fields, every accessor returns exactly the little-endian
    value stored at the specification's offset inside the tag (offset `v.off + o` of the tag area) - never a panic,
    never a read outside the tag. -/
theorem field_decodes (area : Bytes) (k : Kind) (v : View) (hfit : v.off + v.sov ≤ area.length)
    (hsov : k.desc.fixed ≤ v.sov) :
    ∀ f ∈ Spec.fields k.typ, rdW (v.bytes area) f.2.1 f.2.2 = .ok (leW area (v.off + f.2.1) f.2.2) := by
  intro f hf
  rw [← layout_eq_spec k] at hf
  have := fields_inside k f hf
  exact rdW_slice area v.off v.sov f.2.1 f.2.2 this.2 (by omega) hfit

/-- the EFI memory map is withheld while a boot-services-not-exited tag is present -/
theorem efi_map_withheld (p : Profile) (area : Bytes) (v : View) (h : getTag p area .efiBs = .ok (some v)) :
    efiMemoryMapTag p area = .ok none := by
  unfold efiMemoryMapTag; rw [h]

/-- … and otherwise it is the first EFI memory-map tag -/
theorem efi_map_otherwise (p : Profile) (area : Bytes) (h : getTag p area .efiBs = .ok none) :
    efiMemoryMapTag p area = getTag p area .efiMmap := by
  unfold efiMemoryMapTag; rw [h]

/-- a framebuffer tag with an unknown type byte is reported as an error carrying that byte, for all 256 values -/
theorem fb_unknown_type (T : Bytes) (v : View) (hT : 30 ≤ T.length) (h : 2 < u8At T 29) :
    fbBufferType T v = .ok (.error (u8At T 29)) := by
  unfold fbBufferType rd8
  rw [if_pos (by omega)]
  simp only [Res.bind_ok]
  have : fbTypeOfByte (u8At T 29) = none := by
    unfold fbTypeOfByte; rw [if_neg (by omega), if_neg (by omega), if_neg (by omega)]
  rw [this]; rfl

theorem fb_known_type (T : Bytes) (v : View) (hT : 30 ≤ T.length) (h : u8At T 29 ≤ 2) :
    ∀ b, fbBufferType T v ≠ .ok (.error b) := by
  intro b
  unfold fbBufferType rd8
  rw [if_pos (by omega)]
  simp only [Res.bind_ok]
  have : u8At T 29 = 0 ∨ u8At T 29 = 1 ∨ u8At T 29 = 2 := by omega
  rcases this with e | e | e <;> rw [e] <;> simp [fbTypeOfByte]
  · cases fbByte T v.n 0 <;> simp
    cases fbByte T v.n 1 <;> simp
    split <;> simp
  · cases fbByte T v.n 0 <;> simp
    cases fbByte T v.n 1 <;> simp
    cases fbByte T v.n 2 <;> simp
    cases fbByte T v.n 3 <;> simp
    cases fbByte T v.n 4 <;> simp
    cases fbByte T v.n 5 <;> simp

/-- an RSDP v2 whose own length field exceeds the 36 bytes the tag holds is invalid (and nothing beyond the tag is read) -/
theorem rsdp2_long_invalid (T : Bytes) (hT : 32 ≤ T.length) (h : 36 < le32 T 28) : rsdp2Valid T = .ok false := by
  unfold rsdp2Valid rd32
  rw [if_pos (by omega)]
  simp only [Res.bind_ok]
  rw [if_pos h]; rfl

/-! Non-vacuity -/
example : getTag .dev ([4,0,0,0, 16,0,0,0, 1,0,0,0, 2,0,0,0,  4,0,0,0, 16,0,0,0, 9,0,0,0, 9,0,0,0,  0,0,0,0, 8,0,0,0]) .meminfo
    = .ok (some ⟨0, 16, 16, 0⟩) := by decide
example : getTag .dev ([0,0,0,0, 8,0,0,0]) .meminfo = .ok none := by decide

/-- the specification's checksum: the sum of the bytes `[a, a+n)` modulo 256 -/
def sumMod (T : Bytes) (a n : Nat) : Nat := ((List.range n).map fun i => u8At T (a + i)).sum % 256

theorem foldlM_range'_sum (T : Bytes) (a : Nat) : ∀ n s acc, acc < 256 → a + s + n ≤ T.length →
    (List.range' s n).foldlM (fun acc i => (do let b ← rd8 T (a + i); Res.ok ((acc + b) % 256) : Res Nat)) acc =
      .ok ((acc + ((List.range' s n).map fun i => u8At T (a + i)).sum) % 256) := by
  intro n
  induction n with
  | zero => intro s acc ha _; simp [List.range']; omega
  | succ k ih =>
    intro s acc ha h
    rw [List.range'_succ, List.foldlM_cons]
    have : rd8 T (a + s) = .ok (u8At T (a + s)) := by unfold rd8; rw [if_pos (by omega)]
    rw [this]
    simp only [Res.bind_ok]
    rw [ih (s + 1) _ (Nat.mod_lt _ (by omega)) (by omega)]
    congr 1
    simp only [List.map_cons, List.sum_cons]
    omega

theorem foldlM_range_sum (T : Bytes) (a n : Nat) (h : a + n ≤ T.length) :
    (List.range n).foldlM (fun acc i => (do let b ← rd8 T (a + i); Res.ok ((acc + b) % 256) : Res Nat)) 0 = .ok (sumMod T a n) := by
  rw [List.range_eq_range', foldlM_range'_sum T a n 0 0 (by omega) (by omega)]
  simp [sumMod, List.range_eq_range']

/-- the byte-sum loop computes the specification's checksum and reads exactly the bytes `[a, a+n)` -/
theorem byteSum_eq (T : Bytes) (a n : Nat) (h : a + n ≤ T.length) : byteSum T a n = .ok (sumMod T a n) := by
  unfold byteSum
  simp only [Res.pure_eq]
  exact foldlM_range_sum T a n h

/-- ACPI 1.0 RSDP: valid exactly when the 20 bytes of the structure sum to 0 modulo 256 -/
theorem rsdp1_valid_iff (T : Bytes) (hT : 28 ≤ T.length) : rsdp1Valid T = .ok (sumMod T 8 20 == 0) := by
  unfold rsdp1Valid
  rw [byteSum_eq T 8 20 (by omega)]
  rfl

/-- ACPI 2.0 RSDP: valid exactly when its own length field fits the 36-byte structure and the bytes `[8, 8+length)`
    sum to 0 modulo 256 -/
theorem rsdp2_valid_iff (T : Bytes) (hT : 44 ≤ T.length) :
    rsdp2Valid T = .ok (decide (le32 T 28 ≤ 36) && (sumMod T 8 (le32 T 28) == 0)) := by
  unfold rsdp2Valid rd32
  rw [if_pos (by omega)]
  simp only [Res.bind_ok]
  by_cases h : le32 T 28 > 36
  · rw [if_pos h]
    have : decide (le32 T 28 ≤ 36) = false := by simp; omega
    rw [this]; rfl
  · rw [if_neg h, byteSum_eq T 8 _ (by omega)]
    have : decide (le32 T 28 ≤ 36) = true := by simp; omega
    rw [this]; rfl

/-- Memory-map entries: with the specified entry size 24, entry `i` is decoded from exactly the 24 bytes at
    `16 + 24·i` of the tag: base (u64), length (u64), type (u32); `end = base + length` wraps modulo 2^64 (see C08);
    any other entry size is a controlled panic. -/
theorem memoryAreas_eq (T : Bytes) (v : View) (hfit : 16 + 24 * v.n ≤ T.length) :
    memoryAreas T v =
      (if le32 T 8 ≠ 24 then .panic
       else .ok ((List.range v.n).map fun i =>
         ⟨le64 T (16 + 24 * i), (le64 T (16 + 24 * i) + le64 T (16 + 24 * i + 8)) % W64, le64 T (16 + 24 * i + 8),
          le32 T (16 + 24 * i + 16)⟩)) := by
  unfold memoryAreas
  have : rd32 T 8 = .ok (le32 T 8) := by unfold rd32; rw [if_pos (by omega)]
  rw [this]
  simp only [Res.bind_ok]
  by_cases h : le32 T 8 ≠ 24
  · rw [if_pos h, if_pos h]
  · rw [if_neg h, if_neg h]
    apply mapM_ok_of_forall
    intro i hi
    have hi' : i < v.n := by simpa using hi
    have r1 : rd64 T (16 + 24 * i) = .ok (le64 T (16 + 24 * i)) := by unfold rd64; rw [if_pos (by omega)]
    have r2 : rd64 T (16 + 24 * i + 8) = .ok (le64 T (16 + 24 * i + 8)) := by unfold rd64; rw [if_pos (by omega)]
    have r3 : rd32 T (16 + 24 * i + 16) = .ok (le32 T (16 + 24 * i + 16)) := by unfold rd32; rw [if_pos (by omega)]
    rw [r1, r2, r3]
    rfl

/-! Non-vacuity: "RSD PTR " + checksum byte making the 20 bytes sum to 0 -/
example : rsdp1Valid ([0,0,0,0,0,0,0,0, 82,83,68,32,80,84,82,32, 0xe1, 0,0,0,0,0,0, 0, 0,0,0,0]) = .ok true := by decide

end Mb2.C04
