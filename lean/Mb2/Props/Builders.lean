/-
  Mb2.Props.Builders — SOURCE = MODEL for the two `Builder`s.

  `tools/gen_builders.py` classifies every statement of `build()` and every setter of the two `Builder` impls of /repo's
  working tree (`Mb2/Gen/Builders.lean`, regenerated on every run). The theorems state that

    * `build()` is exactly: make the structure header, push `as_bytes()` of every slot - one `if let Some` per `Option` slot,
      one `for` per `Vec` slot - in the order of the model's `mbiSlots` / `hdrSlots`, push the end tag, `new_boxed`: the
      straight-line emission that `buildMbi` / `buildHdr` fold over (no filter, sort, condition or second push);
    * every slot has exactly one setter, an assignment `self.f = Some(arg)` for single-valued kinds ("the last call wins") and
      a `push` for repeatable kinds ("all of them in call order"); nothing else touches the slots;
    * the struct's field kinds (`Option` / `Vec`) are the model's repeatable flags.

  `none` (impl not found) makes the statements vacuous: lost coverage, not an alarm.
-/
import Mb2.Gen.Builders
import Mb2.Build
namespace Mb2.Builders
open Mb2

/-- Rust field name of `multiboot2::Builder` -> slot name of the model -/
def mbiField : List (String × String) :=
  [("cmdline", "cmdline"), ("bootloader", "loader"), ("modules", "module"), ("meminfo", "meminfo"), ("bootdev", "bootdev"),
   ("mmap", "mmap"), ("vbe", "vbe"), ("framebuffer", "fb"), ("elf_sections", "elf"), ("apm", "apm"), ("efi32", "efi32"),
   ("efi64", "efi64"), ("smbios", "smbios"), ("rsdpv1", "rsdp1"), ("rsdpv2", "rsdp2"), ("network", "network"),
   ("efi_mmap", "efimmap"), ("efi_bs", "efibs"), ("efi32_ih", "ih32"), ("efi64_ih", "ih64"), ("image_load_addr", "loadbase"),
   ("custom_tags", "custom")]

def hdrField : List (String × String) :=
  [("information_request_tag", "h_inforeq"), ("address_tag", "h_address"), ("entry_tag", "h_entry"), ("console_tag", "h_console"),
   ("framebuffer_tag", "h_fb"), ("module_align_tag", "h_modalign"), ("efi_bs_tag", "h_efibs"), ("efi_32_tag", "h_efi32"),
   ("efi_64_tag", "h_efi64"), ("relocatable_tag", "h_reloc")]

def slotOf (m : List (String × String)) (f : String) : String :=
  match m.find? (·.1 == f) with | some x => x.2 | none => "?" ++ f

/-- the statement list `build()` must consist of, given the model's slot table -/
def expectedSteps (hdr endTag : String) (m : List (String × String)) (slots : List (String × Bool)) : List (String × String) :=
  [("header", hdr)] ++
  slots.map (fun s => (if s.2 then "vec" else "opt", match m.find? (·.2 == s.1) with | some x => x.1 | none => "?")) ++
  [("end", endTag), ("boxed", "")]

def stepsAgree (g : Option (List (String × String))) (e : List (String × String)) : Bool :=
  match g with | none => true | some l => l == e

/-- every slot has exactly one setter of the right kind, and there is no other setter -/
def settersAgree (g : Option (List (String × String × String))) (m : List (String × String)) (slots : List (String × Bool)) : Bool :=
  match g with
  | none => true
  | some l =>
    l.length == slots.length &&
    l.all (fun s => s.2.1 == "set" || s.2.1 == "push" || s.2.1 == "custom-push") &&
    slots.all (fun sl => (l.filter (fun s => slotOf m s.2.2 == sl.1 && (s.2.1 != "set") == sl.2)).length == 1)

def fieldsAgree (g : Option (List (String × String))) (m : List (String × String)) (slots : List (String × Bool)) : Bool :=
  match g with
  | none => true
  | some l => (l.filter (fun f => f.2 != "other")).map (fun f => (slotOf m f.1, f.2 == "vec")) == slots

theorem mbi_build_is_model :
    stepsAgree Gen.Builders.mbi_steps (expectedSteps "BootInformationHeader::new(0)" "EndTag::default()" mbiField mbiSlots) = true := by
  decide
theorem mbi_setters_are_model : settersAgree Gen.Builders.mbi_setters mbiField mbiSlots = true := by decide
theorem mbi_fields_are_model : fieldsAgree Gen.Builders.mbi_fields mbiField mbiSlots = true := by decide

theorem hdr_build_is_model :
    stepsAgree Gen.Builders.hdr_steps
      (expectedSteps "Multiboot2BasicHeader::new(self.arch, 0)" "EndHeaderTag::new()" hdrField hdrSlots) = true := by
  decide
theorem hdr_setters_are_model : settersAgree Gen.Builders.hdr_setters hdrField hdrSlots = true := by decide
theorem hdr_fields_are_model : fieldsAgree Gen.Builders.hdr_fields hdrField hdrSlots = true := by decide

end Mb2.Builders
