/-
  Mb2.Props.Fns — umbrella import of the function-body tie (SOURCE = MODEL), one module per function group so that a
  change of one function breaks the obligations of the properties that depend on it and of no others.
-/
import Mb2.Props.FnsBase
import Mb2.Props.FnsAlign
import Mb2.Props.FnsBytesRef
import Mb2.Props.FnsTagHdr
import Mb2.Props.FnsHtHdr
import Mb2.Props.FnsBiHdr
import Mb2.Props.FnsHbHdr
import Mb2.Props.FnsMbiLoad
import Mb2.Props.FnsHdrLoad
import Mb2.Props.FnsDstMbi
import Mb2.Props.FnsDstHdr
import Mb2.Props.FnsTagType
import Mb2.Props.FnsMemType
import Mb2.Props.FnsElfType
import Mb2.Props.FnsFbType
import Mb2.Props.FnsIter
import Mb2.Props.FnsMisc
import Mb2.Props.FnsEfi
import Mb2.Props.FnsElfOpen
import Mb2.Props.FnsCtor
import Mb2.Props.FnsFb
import Mb2.Props.FnsElfIter
import Mb2.Props.FnsGetters
import Mb2.Props.FnsFind
import Mb2.Props.FnsCast
import Mb2.Props.FnsBoxed
import Mb2.Props.FnsBoxedCtor
import Mb2.Props.FnsLinked
import Mb2.Props.FnsTblBase
import Mb2.Props.FnsTblMbi
import Mb2.Props.FnsTblHdr
import Mb2.Props.FnsTblElf
import Mb2.Props.FnsTblEfi
import Mb2.Props.FnsTblTags
import Mb2.Props.FnsTblIds
import Mb2.Props.FnsTblFixed
