/-
  C04 — Typed getters select the first matching tag and decode every specified field.
  `C04Parts`: model-level theorems (first match, field decoding against the specification tables, EFI withholding,
  framebuffer type rule, RSDP checksums, memory areas); `Layout`: the SOURCE-DERIVED facts (struct layouts, IDs, BASE_SIZE,
  accessor -> field) regenerated from /repo on every run, compared with the model tables.
-/
import Mb2.Props.FnsTblFixed
import Mb2.Props.FnsTblMbi
import Mb2.Props.FnsTblTags
import Mb2.Props.FnsTblEfi
import Mb2.Props.FnsGetters
import Mb2.Props.FnsFb
import Mb2.Props.FnsMisc
import Mb2.Props.FnsFbType
import Mb2.Props.C04Parts
import Mb2.Props.Layout
