/-
  C04 — Typed getters select the first matching tag and decode every specified field.
-/
import Mb2.Tags
import Mb2.Spec
import Mb2.Lemmas.Tags
import Mb2.Props.C03
import Mb2.Props.C15
namespace Mb2.C04
open Mb2

/-- the struct field lists transcribed from the Rust sources coincide with the specification's offset tables -/
theorem layout_eq_spec : ∀ k : Kind, k.fields = Spec.fields k.typ := by
  intro k; cases k <;> rfl

/-- fixed-size kinds: the Rust struct's unpadded size is the specification's tag size -/
theorem fixed_size_eq_spec : ∀ k : Kind, ∀ s, Spec.fixedSize k.typ = some s → k.desc = sizedDesc s := by
  intro k s h; cases k <;> simp [Spec.fixedSize, Kind.typ] at h <;> subst h <;> rfl

/-- the embedded VBE control / mode blocks: the packed Rust structs place every field at the VBE 3.0 offset -/
theorem vbe_layout_eq_spec : vbeControlFields = Spec.vbeControl ∧ vbeModeFields = Spec.vbeMode := by decide

theorem vbe_fields_inside : ∀ f ∈ vbeControlFields ++ vbeModeFields, f.1 + f.2 ≤ 784 ∧ (f.2 = 1 ∨ f.2 = 2 ∨ f.2 = 4) := by decide

/-- every VBE block field decodes to the little-endian value at its specified offset, inside the 784-byte tag -/
theorem vbe_field_decodes (area : Bytes) (v : View) (hfit : v.off + v.sov ≤ area.length) (hsov : 784 ≤ v.sov) :
    ∀ f ∈ Spec.vbeControl ++ Spec.vbeMode, rdW (v.bytes area) f.1 f.2 = .ok (leW area (v.off + f.1) f.2) := by
  intro f hf
  rw [← vbe_layout_eq_spec.1, ← vbe_layout_eq_spec.2] at hf
  have := vbe_fields_inside f hf
  have hw : f.2 = 1 ∨ f.2 = 2 ∨ f.2 = 4 ∨ f.2 = 8 := by rcases this.2 with h | h | h <;> simp [h]
  exact rdW_slice area v.off v.sov f.1 f.2 hw (by omega) hfit

/-- every plain field lies inside the fixed part of its struct -/
theorem fields_inside : ∀ k : Kind, ∀ f ∈ k.fields, f.2.1 + f.2.2 ≤ k.desc.fixed ∧ (f.2.2 = 1 ∨ f.2.2 = 2 ∨ f.2.2 = 4 ∨ f.2.2 = 8) := by
  intro k; cases k <;> simp [Kind.fields, Kind.desc, sizedDesc, dstDesc, networkDesc]

/-- `get_tag` returns the FIRST tag of the walk whose type number matches; nothing when the (complete) walk has none -/
theorem getTag_first (p : Profile) (area : Bytes) (k : Kind) :
    (∀ v, getTag p area k = .ok (some v) →
        ∃ pre it post, (tagsOf p .tag area).1 = pre ++ it :: post ∧ it.typ = k.typ ∧ it.off = v.off ∧ it.size = v.size ∧
          ∀ x ∈ pre, x.typ ≠ k.typ) ∧
    (getTag p area k = .ok none → (tagsOf p .tag area).2 = .done ∧ ∀ x ∈ (tagsOf p .tag area).1, x.typ ≠ k.typ) := by
  unfold getTag
  simp only
  cases hf : (tagsOf p .tag area).1.find? (fun it => it.typ == k.typ) with
  | none =>
    have hn := List.find?_eq_none.mp hf
    refine ⟨fun v h => ?_, fun h => ?_⟩
    · simp only at h; split at h <;> simp at h
    · simp only at h
      refine ⟨?_, fun x hx => by simpa using hn x hx⟩
      split at h <;> first | assumption | simp at h
  | some it =>
    obtain ⟨hp, pre, post, hl, hpre⟩ := List.find?_eq_some_iff_append.mp hf
    refine ⟨fun v h => ?_, fun h => ?_⟩
    · simp only at h
      cases hc : castTo p .tag k.desc it.size it.pl with
      | ok r =>
        rw [hc] at h
        obtain ⟨sov, n⟩ := r
        simp only at h
        injection h with h; injection h with h
        subst h
        exact ⟨pre, it, post, hl, by simpa using hp, rfl, rfl, fun x hx => by simpa using hpre x hx⟩
      | panic => rw [hc] at h; cases h
      | oob => rw [hc] at h; cases h
      | ub => rw [hc] at h; cases h
    · simp only at h
      split at h <;> simp at h

/-- Field decoding: for a typed view of a kind with plain fields, every accessor returns exactly the little-endian
    value stored at the specification's offset inside the tag (offset `v.off + o` of the tag area) - never a panic,
    never a read outside the tag. -/
theorem field_decodes (area : Bytes) (k : Kind) (v : View) (hfit : v.off + v.sov ≤ area.length)
    (hsov : k.desc.fixed ≤ v.sov) :
    ∀ f ∈ Spec.fields k.typ, rdW (v.bytes area) f.2.1 f.2.2 = .ok (leW area (v.off + f.2.1) f.2.2) := by
  intro f hf
  rw [← layout_eq_spec k] at hf
  have := fields_inside k f hf
  exact rdW_slice area v.off v.sov f.2.1 f.2.2 this.2 (by omega) hfit

/-- the EFI memory map is withheld while a boot-services-not-exited tag is present -/
theorem efi_map_withheld (p : Profile) (area : Bytes) (v : View) (h : getTag p area .efiBs = .ok (some v)) :
    efiMemoryMapTag p area = .ok none := by
  unfold efiMemoryMapTag; rw [h]

/-- … and otherwise it is the first EFI memory-map tag -/
theorem efi_map_otherwise (p : Profile) (area : Bytes) (h : getTag p area .efiBs = .ok none) :
    efiMemoryMapTag p area = getTag p area .efiMmap := by
  unfold efiMemoryMapTag; rw [h]

/-- a framebuffer tag with an unknown type byte is reported as an error carrying that byte, for all 256 values -/
theorem fb_unknown_type (T : Bytes) (v : View) (hT : 30 ≤ T.length) (h : 2 < u8At T 29) :
    fbBufferType T v = .ok (.error (u8At T 29)) := by
  unfold fbBufferType rd8
  rw [if_pos (by omega)]
  simp only [Res.bind_ok]
  have : fbTypeOfByte (u8At T 29) = none := by
    unfold fbTypeOfByte; rw [if_neg (by omega), if_neg (by omega), if_neg (by omega)]
  rw [this]; rfl

theorem fb_known_type (T : Bytes) (v : View) (hT : 30 ≤ T.length) (h : u8At T 29 ≤ 2) :
    ∀ b, fbBufferType T v ≠ .ok (.error b) := by
  intro b
  unfold fbBufferType rd8
  rw [if_pos (by omega)]
  simp only [Res.bind_ok]
  have : u8At T 29 = 0 ∨ u8At T 29 = 1 ∨ u8At T 29 = 2 := by omega
  rcases this with e | e | e <;> rw [e] <;> simp [fbTypeOfByte]
  · cases fbByte T v.n 0 <;> simp
    cases fbByte T v.n 1 <;> simp
    split <;> simp
  · cases fbByte T v.n 0 <;> simp
    cases fbByte T v.n 1 <;> simp
    cases fbByte T v.n 2 <;> simp
    cases fbByte T v.n 3 <;> simp
    cases fbByte T v.n 4 <;> simp
    cases fbByte T v.n 5 <;> simp

/-- an RSDP v2 whose own length field exceeds the 36 bytes the tag holds is invalid (and nothing beyond the tag is read) -/
theorem rsdp2_long_invalid (T : Bytes) (hT : 32 ≤ T.length) (h : 36 < le32 T 28) : rsdp2Valid T = .ok false := by
  unfold rsdp2Valid rd32
  rw [if_pos (by omega)]
  simp only [Res.bind_ok]
  rw [if_pos h]; rfl

/-! Non-vacuity -/
example : getTag .dev ([4,0,0,0, 16,0,0,0, 1,0,0,0, 2,0,0,0,  4,0,0,0, 16,0,0,0, 9,0,0,0, 9,0,0,0,  0,0,0,0, 8,0,0,0]) .meminfo
    = .ok (some ⟨0, 16, 16, 0⟩) := by decide
example : getTag .dev ([0,0,0,0, 8,0,0,0]) .meminfo = .ok none := by decide

end Mb2.C04
