/-
  Mb2.Props.FnsElfType — SOURCE = MODEL (part of the function-body tie, see `Mb2/Props/FnsBase.lean` and `Mb2/Rir.lean`).
  Theorems about terms GENERATED from /repo's working tree by tools/gen_fns.py (`Mb2/Gen/Fns.lean`).
-/

import Mb2.Props.FnsBase
open Mb2 Mb2.Rir

namespace Mb2.Fns

def encElfType : ElfSectionType → V
  | .unused => .c0 "ElfSectionType::Unused" | .programSection => .c0 "ElfSectionType::ProgramSection"
  | .linkerSymbolTable => .c0 "ElfSectionType::LinkerSymbolTable" | .stringTable => .c0 "ElfSectionType::StringTable"
  | .relaRelocation => .c0 "ElfSectionType::RelaRelocation" | .symbolHashTable => .c0 "ElfSectionType::SymbolHashTable"
  | .dynamicLinkingTable => .c0 "ElfSectionType::DynamicLinkingTable" | .note => .c0 "ElfSectionType::Note"
  | .uninitialized => .c0 "ElfSectionType::Uninitialized" | .relRelocation => .c0 "ElfSectionType::RelRelocation"
  | .reserved => .c0 "ElfSectionType::Reserved" | .dynamicLoaderSymbolTable => .c0 "ElfSectionType::DynamicLoaderSymbolTable"
  | .environmentSpecific => .c0 "ElfSectionType::EnvironmentSpecific"
  | .processorSpecific => .c0 "ElfSectionType::ProcessorSpecific"

/-- `ElfSection::section_type` = `ElfSectionType.classify`, for every raw value -/
theorem elf_section_type_eq (p : Profile) (n : Nat) :
    evalO p [.int .u32 n] Gen.Fns.elf_section_type = some (.ok (encElfType (ElfSectionType.classify n))) := by
  simp only [evalO, Gen.Fns.elf_section_type, Option.map]
  have henv : (Env.set (envOf [V.int Ty.u32 n]) 101 (V.int Ty.u32 n)) 101 = V.int Ty.u32 n := set_same _ _ _
  rw [eval_let_var]
  simp only [envOf_zero]
  unfold ElfSectionType.classify
  repeat (first
    | rw [eval_arm_lit p _ 101 _ n .u32 _ _ henv]
    | rw [eval_arm_range p _ 101 _ _ n .u32 _ _ henv])
  simp only [apply_ite encElfType, apply_ite (Res.ok (α := V))]
  simp only [eval, encElfType]

end Mb2.Fns
