/-
  C01 — Boot-information parsing never reads outside the loaded structure.

  The model obtains bytes only through checked reads on the permitted extent of a tag (`View.bytes` = the tag's
  `roundUp8 size` bytes inside the tag area of the loaded region); a read outside gives the outcome `oob`.
  The theorems below show that no modelled entry point can produce `oob` (or `ub`), that every typed view lies inside
  the tag area (hence inside the declared region), and that all iterators are bounded. Each entry point is a pure
  function of the immutable region, so "all sequences of calls" reduces to "each call" (iterator handles are covered
  by the history theorems of C03 and C18).
-/
import Mb2.Tags
import Mb2.Lemmas.Tags
import Mb2.Props.C03
import Mb2.Props.C04Parts
import Mb2.Props.C15
import Mb2.Props.C18
import Mb2.Props.C19
namespace Mb2.C01
open Mb2

/-- the tag walk over the loaded region never faults: it ends `done` or in a controlled panic -/
theorem walk_no_fault (p : Profile) (area : Bytes) (hb : area.length % 8 = 0) (hlen : area.length < 2^62) :
    (tagsOf p .tag area).2 = .done ∨ (tagsOf p .tag area).2 = .bad := by
  rw [C03.tags_eq_spec p .tag (Or.inl rfl) area hb hlen]
  exact specWalk_end .tag area _ _

/-- `cast` to any built-in kind yields a view or a controlled panic, never a fault -/
theorem cast_no_fault (p : Profile) (k : Kind) (size pl : Nat) :
    castTo p .tag k.desc size pl ≠ .oob ∧ castTo p .tag k.desc size pl ≠ .ub := by
  unfold castTo
  by_cases h1 : ¬ k.desc.baseSize ≥ HK.tag.hsize
  · rw [if_pos h1]; exact ⟨by simp, by simp⟩
  · rw [if_neg h1]
    have hd : (∃ n, k.desc.dstLen p size = .ok n) ∨ k.desc.dstLen p size = .panic := by
      cases k <;> simp only [Kind.desc, sizedDesc, dstDesc, networkDesc]
      all_goals first
        | exact Or.inl ⟨_, rfl⟩
        | (by_cases c1 : size < 8
           · right; rw [if_pos c1]
           · by_cases c2 : (size - 8) % 1 ≠ 0
             · right; rw [if_neg c1, if_pos c2]
             · left; rw [if_neg c1, if_neg c2]; exact ⟨_, rfl⟩)
        | (by_cases c1 : size < 16
           · right; rw [if_pos c1]
           · by_cases c2 : (size - 16) % 1 ≠ 0
             · right; rw [if_neg c1, if_pos c2]
             · left; rw [if_neg c1, if_neg c2]; exact ⟨_, rfl⟩)
        | (by_cases c1 : size < 16
           · right; rw [if_pos c1]
           · by_cases c2 : (size - 16) % 24 ≠ 0
             · right; rw [if_neg c1, if_pos c2]
             · left; rw [if_neg c1, if_neg c2]; exact ⟨_, rfl⟩)
        | (by_cases c1 : size < 32
           · right; rw [if_pos c1]
           · by_cases c2 : (size - 32) % 1 ≠ 0
             · right; rw [if_neg c1, if_pos c2]
             · left; rw [if_neg c1, if_neg c2]; exact ⟨_, rfl⟩)
        | (by_cases c1 : size < 20
           · right; rw [if_pos c1]
           · by_cases c2 : (size - 20) % 1 ≠ 0
             · right; rw [if_neg c1, if_pos c2]
             · left; rw [if_neg c1, if_neg c2]; exact ⟨_, rfl⟩)
        | (unfold usub; by_cases c : 8 ≤ size
           · left; rw [if_pos c]; exact ⟨_, rfl⟩
           · rw [if_neg c]; cases p
             · right; rfl
             · left; exact ⟨_, rfl⟩)
    rcases hd with ⟨n, hn⟩ | hn
    · rw [hn]; simp only [Res.bind_ok]
      by_cases c : dynSizeOfVal .tag pl ≠ k.desc.sizeOfVal n
      · rw [if_pos c]; exact ⟨by simp, by simp⟩
      · rw [if_neg c]; exact ⟨by simp, by simp⟩
    · rw [hn]; exact ⟨by simp, by simp⟩

/-- every typed getter returns a view, nothing, or a controlled panic - never a fault -/
theorem getTag_no_fault (p : Profile) (area : Bytes) (k : Kind) (hb : area.length % 8 = 0) (hlen : area.length < 2^62) :
    getTag p area k ≠ .oob ∧ getTag p area k ≠ .ub := by
  have hw := walk_no_fault p area hb hlen
  unfold getTag
  simp only
  cases hf : (tagsOf p .tag area).1.find? (fun it => it.typ == k.typ) with
  | none =>
    simp only
    rcases hw with h | h <;> rw [h] <;> exact ⟨by simp, by simp⟩
  | some it =>
    simp only
    have := cast_no_fault p k it.size it.pl
    cases hc : castTo p .tag k.desc it.size it.pl with
    | ok r => exact ⟨by simp, by simp⟩
    | panic => exact ⟨by simp, by simp⟩
    | oob => exact absurd hc this.1
    | ub => exact absurd hc this.2

/-- every view handed out lies entirely inside the tag it was derived from, which lies inside the tag area (the declared
    region minus its header): it starts at the tag's 8-aligned offset and spans exactly the tag's size rounded up to 8 -/
theorem view_inside_tag (p : Profile) (area : Bytes) (k : Kind) (v : View)
    (hb : area.length % 8 = 0) (hlen : area.length < 2^62) (h : getTag p area k = .ok (some v)) :
    v.off % 8 = 0 ∧ 8 ≤ v.size ∧ v.sov = roundUp8 v.size ∧ v.off + v.sov ≤ area.length ∧
    (v.bytes area).length = v.sov := by
  obtain ⟨it, hmem, hoff, hsize, _, hcast⟩ := C15.getTag_same_address p area k v h
  rw [C03.tags_eq_spec p .tag (Or.inl rfl) area hb hlen] at hmem
  have hi := C03.walk_items_inside .tag area _ 0 (by omega) it hmem
  obtain ⟨h1, _, h3, h4, h5, _, _⟩ := hi
  rw [h5] at hcast
  have hsov := C15.cast_view_is_tag_extent p .tag rfl k.desc it.size v.sov v.n h3 hcast
  rw [← hoff, ← hsize]
  refine ⟨h1, h3, hsov, by rw [hsov]; exact h4, ?_⟩
  unfold View.bytes
  exact slice_length area v.off v.sov (by rw [← hoff, hsov]; exact h4)

/-- plain field accessors never fault on a view of their kind -/
theorem fields_no_fault (area : Bytes) (k : Kind) (v : View) (hfit : v.off + v.sov ≤ area.length)
    (hsov : k.desc.fixed ≤ v.sov) :
    ∀ f ∈ k.fields, ∃ x, rdW (v.bytes area) f.2.1 f.2.2 = .ok x := by
  intro f hf
  rw [C04.layout_eq_spec k] at hf
  exact ⟨_, C04.field_decodes area k v hfit hsov f hf⟩

/-- the `i`-th memory area of a memory-map view is read inside the tag -/
theorem mmap_area_inside (T : Bytes) (n i : Nat) (hT : 16 + 24 * n ≤ T.length) (hi : i < n) :
    (∃ a, rd64 T (16 + 24 * i) = .ok a) ∧ (∃ b, rd64 T (16 + 24 * i + 8) = .ok b) ∧ (∃ c, rd32 T (16 + 24 * i + 16) = .ok c) := by
  unfold rd64 rd32
  exact ⟨⟨_, by rw [if_pos (by omega)]⟩, ⟨_, by rw [if_pos (by omega)]⟩, ⟨_, by rw [if_pos (by omega)]⟩⟩

/-- framebuffer colour-info bytes are read only inside the buffer `[32, 32+n)`; beyond it the reader panics -/
theorem fb_byte_no_fault (T : Bytes) (n i : Nat) (hT : 32 + n ≤ T.length) :
    fbByte T n i = .panic ∨ ∃ b, fbByte T n i = .ok b := by
  unfold fbByte
  by_cases h : i < n
  · rw [if_pos h]; right; unfold rd8; exact ⟨_, by rw [if_pos (by omega)]⟩
  · rw [if_neg h]; left; rfl

/-- the RSDP checksums read only the 20 resp. `length ≤ 36` bytes behind the tag header -/
theorem byteSum_no_fault (T : Bytes) (a : Nat) : ∀ n, a + n ≤ T.length → ∃ s, byteSum T a n = .ok s := by
  intro n h
  unfold byteSum
  suffices H : ∀ (l : List Nat) (acc : Nat), (∀ i ∈ l, a + i < T.length) →
      ∃ s, l.foldlM (fun acc i => do let b ← rd8 T (a + i); pure ((acc + b) % 256)) acc = Res.ok s by
    exact H (List.range n) 0 (fun i hi => by have := List.mem_range.mp hi; omega)
  intro l
  induction l with
  | nil => intro acc _; exact ⟨acc, rfl⟩
  | cons x xs ih =>
    intro acc hl
    have hx := hl x (by simp)
    simp only [List.foldlM_cons]
    have : rd8 T (a + x) = .ok (u8At T (a + x)) := by unfold rd8; rw [if_pos (by omega)]
    rw [this]
    simp only [Res.bind_ok, Res.pure_eq]
    exact ih _ (fun i hi => hl i (by simp [hi]))

theorem rsdp2_no_fault (T : Bytes) (hT : 44 ≤ T.length) : ∃ b, rsdp2Valid T = .ok b := by
  unfold rsdp2Valid rd32
  rw [if_pos (by omega)]
  simp only [Res.bind_ok]
  by_cases h : le32 T 28 > 36
  · rw [if_pos h]; exact ⟨false, rfl⟩
  · rw [if_neg h]
    obtain ⟨s, hs⟩ := byteSum_no_fault T 8 (le32 T 28) (by omega)
    rw [hs]; exact ⟨_, rfl⟩

/-- EFI descriptors and ELF section headers: restated from C18 / C19 - they are decoded inside the tag and the
    iterators are bounded by `L/d` resp. `n` items -/
theorem efi_no_fault (T : Bytes) (v : View) (ds cnt i : Nat)
    (hT : 16 + v.n ≤ T.length) (hds : 40 ≤ ds) (h8 : ds % 8 = 0) (hcnt : cnt * ds = v.n) (hi : i < cnt) :
    ∃ d, efiDesc T ds i = .ok d ∧ d.off + 40 ≤ 16 + v.n := by
  obtain ⟨d, h1, _, _, h4, _⟩ := C18.desc_inside T v ds cnt i hT hds h8 hcnt hi
  exact ⟨d, h1, h4⟩

theorem elf_no_fault (T : Bytes) (v : View) (hT : 20 + v.n ≤ T.length) (num es : Nat)
    (h : elfOpen T v = .ok (num, es)) (hes : es = 40 ∨ es = 64) :
    (elfIter T es num 20).2 = .done ∧ (elfIter T es num 20).1.length ≤ num := by
  have h1 := C19.sections_inside_tag T v hT num es h hes
  have hnum : num * es ≤ v.n := by
    rw [C19.open_iff T v (by omega)] at h
    by_cases c : le32 T 8 * le32 T 12 ≤ v.n ∧ (le32 T 8 = 0 ∨ (le32 T 16 + 1) * le32 T 12 ≤ v.n)
    · rw [if_pos c] at h
      injection h with h; injection h with ha hb
      rw [← ha, ← hb]; exact c.1
    · rw [if_neg c] at h; cases h
  exact ⟨h1.1, (C19.iter_inside T es hes num 20 (by omega)).2.2⟩

/-- termination: the tag walk yields at most `len/8` tags -/
theorem walk_bounded (p : Profile) (area : Bytes) (hb : area.length % 8 = 0) (hlen : area.length < 2^62) :
    (tagsOf p .tag area).1.length ≤ area.length / 8 := by
  rw [C03.tags_eq_spec p .tag (Or.inl rfl) area hb hlen]
  have := C03.walk_length_le .tag area (area.length / 8 + 1) 0 (by omega)
  simpa [Spec.tagsOf] using this

end Mb2.C01
