/-
  Mb2.Props.FnsDstMbi — SOURCE = MODEL (part of the function-body tie, see `Mb2/Props/FnsBase.lean` and `Mb2/Rir.lean`).
  Theorems about terms GENERATED from /repo's working tree by tools/gen_fns.py (`Mb2/Gen/Fns.lean`).
-/

import Mb2.Props.FnsBase
open Mb2 Mb2.Rir

namespace Mb2.Fns

theorem dst_len_of_dstDesc1 (p : Profile) (base size : Nat) (hs : size < W32) (ir : Option E)
    (h : ir = some (.ite (.bin .ge (.cast (.var 0) .usize) (.tlit base .usize))
                     (.bin .sub (.cast (.var 0) .usize) (.tlit base .usize)) .panic)) :
    evalO p [.int .u32 size] ir = some (intRes .usize ((dstDesc base 1).dstLen p size)) := by
  subst h
  simp [evalO, eval, binop, arith, castV, mod_W64_of_lt_W32 hs, dstDesc]
  by_cases hb : base ≤ size
  · have : ¬ size < base := by omega
    simp [hb, this, usub, Nat.mod_one]
  · have : size < base := by omega
    simp [hb, this]

theorem dst_len_boot_loader_name_eq (p : Profile) (size : Nat) (hs : size < W32) :
    evalO p [.int .u32 size] Gen.Fns.dst_len_boot_loader_name = some (intRes .usize ((Kind.desc .loader).dstLen p size)) :=
  dst_len_of_dstDesc1 p 8 size hs _ rfl

theorem dst_len_command_line_eq (p : Profile) (size : Nat) (hs : size < W32) :
    evalO p [.int .u32 size] Gen.Fns.dst_len_command_line = some (intRes .usize ((Kind.desc .cmdline).dstLen p size)) :=
  dst_len_of_dstDesc1 p 8 size hs _ rfl

theorem dst_len_module_eq (p : Profile) (size : Nat) (hs : size < W32) :
    evalO p [.int .u32 size] Gen.Fns.dst_len_module = some (intRes .usize ((Kind.desc .module).dstLen p size)) :=
  dst_len_of_dstDesc1 p 16 size hs _ rfl

theorem dst_len_efi_memory_map_eq (p : Profile) (size : Nat) (hs : size < W32) :
    evalO p [.int .u32 size] Gen.Fns.dst_len_efi_memory_map = some (intRes .usize ((Kind.desc .efiMmap).dstLen p size)) :=
  dst_len_of_dstDesc1 p 16 size hs _ rfl

theorem dst_len_framebuffer_eq (p : Profile) (size : Nat) (hs : size < W32) :
    evalO p [.int .u32 size] Gen.Fns.dst_len_framebuffer = some (intRes .usize ((Kind.desc .fb).dstLen p size)) :=
  dst_len_of_dstDesc1 p 32 size hs _ rfl

theorem dst_len_elf_sections_eq (p : Profile) (size : Nat) (hs : size < W32) :
    evalO p [.int .u32 size] Gen.Fns.dst_len_elf_sections = some (intRes .usize ((Kind.desc .elf).dstLen p size)) :=
  dst_len_of_dstDesc1 p 20 size hs _ rfl

theorem dst_len_smbios_eq (p : Profile) (size : Nat) (hs : size < W32) :
    evalO p [.int .u32 size] Gen.Fns.dst_len_smbios = some (intRes .usize ((Kind.desc .smbios).dstLen p size)) :=
  dst_len_of_dstDesc1 p 16 size hs _ rfl

theorem dst_len_memory_map_eq (p : Profile) (size : Nat) (hs : size < W32) :
    evalO p [.int .u32 size] Gen.Fns.dst_len_memory_map = some (intRes .usize ((Kind.desc .mmap).dstLen p size)) := by
  simp [evalO, Gen.Fns.dst_len_memory_map, eval, binop, arith, castV, mod_W64_of_lt_W32 hs, Kind.desc, dstDesc]
  by_cases hb : 16 ≤ size
  · have h1 : ¬ size < 16 := by omega
    simp [hb, h1, usub]
    by_cases hr : (size - 16) % 24 = 0 <;> simp [hr]
  · have h1 : size < 16 := by omega
    simp [hb, h1]

theorem dst_len_network_eq (p : Profile) (size : Nat) (hs : size < W32) :
    evalO p [.int .u32 size] Gen.Fns.dst_len_network = some (intRes .usize ((Kind.desc .network).dstLen p size)) := by
  simp [evalO, Gen.Fns.dst_len_network, eval, binop, arith, castV, mod_W64_of_lt_W32 hs, Kind.desc, networkDesc, intRes, mkInt]

end Mb2.Fns
