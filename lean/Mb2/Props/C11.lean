/-
  C11 — Header accessors and typed getters decode the specified fields.
  `C11Parts`: model-level theorems; `Layout`: the source-derived layouts / IDs / accessor fields of the header-tag structs.
-/
import Mb2.Props.FnsTblHdr
import Mb2.Props.FnsGetters
import Mb2.Props.FnsDstHdr
import Mb2.Props.C11Parts
import Mb2.Props.Layout
