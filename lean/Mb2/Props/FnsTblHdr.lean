/-
  Mb2.Props.FnsTblHdr — SOURCE = MODEL, whole impl blocks as tables (tools/gen_fns.py IMPL_TABLES -> `Gen.Fns.tbl_*`).
  Each theorem compares the table GENERATED from /repo's working tree - every function of the impl block in source order,
  its return type, its translated body and the inputs the body depends on - with the expected one: a forwarder that names
  another tag type or field, a changed body, and any function added to or removed from the block breaks it.
-/

import Mb2.Props.FnsTblBase
open Mb2 Mb2.Rir

namespace Mb2.Fns

set_option maxRecDepth 8000
set_option linter.unusedSimpArgs false

-- BEGIN TABLES (generated once by a script from the unchanged tree, then REVIEWED row by row)
theorem tbl_hdr_eq : Gen.Fns.tbl_hdr = some [
  ("load->Result<Self,LoadError>", "covered", none, [], []),
  ("find_header->Result<Option<(&[u8],u32)>,LoadError>", "covered", none, [], []),
  ("iter->TagIter", "covered", none, [], []),
  ("verify_checksum->bool", "ir", some (.var 0), ["self.0.header().verify_checksum()"], []),
  ("header_magic->u32", "ir", some (.var 0), ["self.0.header().header_magic()"], []),
  ("arch->HeaderTagISA", "ir", some (.var 0), ["self.0.header().arch()"], []),
  ("length->u32", "ir", some (.var 0), ["self.0.header().length()"], []),
  ("checksum->u32", "ir", some (.var 0), ["self.0.header().checksum()"], []),
  ("calc_checksum->u32", "ir", some (.var 0), ["Multiboot2BasicHeader::calc_checksum(magic,arch,length)"], []),
  ("information_request_tag->Option<&InformationRequestHeaderTag>", "ir", some (.var 0), ["self.get_tag()"], []),
  ("address_tag->Option<&AddressHeaderTag>", "ir", some (.var 0), ["self.get_tag()"], []),
  ("entry_address_tag->Option<&EntryAddressHeaderTag>", "ir", some (.var 0), ["self.get_tag()"], []),
  ("entry_address_efi32_tag->Option<&EntryEfi32HeaderTag>", "ir", some (.var 0), ["self.get_tag()"], []),
  ("entry_address_efi64_tag->Option<&EntryEfi64HeaderTag>", "ir", some (.var 0), ["self.get_tag()"], []),
  ("console_flags_tag->Option<&ConsoleHeaderTag>", "ir", some (.var 0), ["self.get_tag()"], []),
  ("framebuffer_tag->Option<&FramebufferHeaderTag>", "ir", some (.var 0), ["self.get_tag()"], []),
  ("module_align_tag->Option<&ModuleAlignHeaderTag>", "ir", some (.var 0), ["self.get_tag()"], []),
  ("efi_boot_services_tag->Option<&EfiBootServiceHeaderTag>", "ir", some (.var 0), ["self.get_tag()"], []),
  ("relocatable_tag->Option<&RelocatableHeaderTag>", "ir", some (.var 0), ["self.get_tag()"], []),
  ("get_tag->Option<&'aT>", "covered", none, [], [])] := rfl

theorem tbl_hb_eq : Gen.Fns.tbl_hb = some [
  ("new->Self", "ir", some (.letIn 101 (.tlit 3897708758 .u32) (.letIn 126 (.letIn 122 (.var 101) (.letIn 123 (.var 0) (.letIn 124 (.var 1) (.prim2 .wrappingSub (.prim2 .wrappingSub (.prim2 .wrappingSub (.tlit 0 .u32) (.var 122)) (.cast (.var 123) .u32)) (.var 124))))) (.pair (.var 101) (.pair (.var 0) (.pair (.var 1) (.var 126)))))), ["arch", "length"], []),
  ("verify_checksum->bool", "covered", none, [], []),
  ("calc_checksum->u32", "covered", none, [], []),
  ("header_magic->u32", "ir", some (.var 0), ["self.header_magic"], []),
  ("arch->HeaderTagISA", "ir", some (.var 0), ["self.arch"], []),
  ("length->u32", "ir", some (.var 0), ["self.length"], []),
  ("checksum->u32", "ir", some (.var 0), ["self.checksum"], [])] := rfl

theorem tbl_hth_eq : Gen.Fns.tbl_hth = some [
  ("new->Self", "ir", some (.pair (.var 0) (.pair (.var 1) (.var 2))), ["typ", "flags", "size"], []),
  ("typ->HeaderTagType", "ir", some (.var 0), ["self.typ"], []),
  ("flags->HeaderTagFlag", "ir", some (.var 0), ["self.flags"], []),
  ("size->u32", "ir", some (.var 0), ["self.size"], [])] := rfl

theorem tbl_htt_eq : Gen.Fns.tbl_htt = some [
  ("count->u32", "ir", some (.lit 11), [], [])] := rfl

theorem tbl_h_address_eq : Gen.Fns.tbl_h_address = some [
  ("new->Self", "covered", none, [], []),
  ("typ->HeaderTagType", "ir", some (.var 0), ["self.header.typ()"], []),
  ("flags->HeaderTagFlag", "ir", some (.var 0), ["self.header.flags()"], []),
  ("size->u32", "ir", some (.var 0), ["self.header.size()"], []),
  ("header_addr->u32", "ir", some (.var 0), ["self.header_addr"], []),
  ("load_addr->u32", "ir", some (.var 0), ["self.load_addr"], []),
  ("load_end_addr->u32", "ir", some (.var 0), ["self.load_end_addr"], []),
  ("bss_end_addr->u32", "ir", some (.var 0), ["self.bss_end_addr"], [])] := rfl

theorem tbl_h_console_eq : Gen.Fns.tbl_h_console = some [
  ("new->Self", "covered", none, [], []),
  ("typ->HeaderTagType", "ir", some (.var 0), ["self.header.typ()"], []),
  ("flags->HeaderTagFlag", "ir", some (.var 0), ["self.header.flags()"], []),
  ("size->u32", "ir", some (.var 0), ["self.header.size()"], []),
  ("console_flags->ConsoleHeaderTagFlags", "ir", some (.var 0), ["self.console_flags"], [])] := rfl

theorem tbl_h_end_eq : Gen.Fns.tbl_h_end = some [
  ("new->Self", "covered", none, [], []),
  ("typ->HeaderTagType", "ir", some (.var 0), ["self.header.typ()"], []),
  ("flags->HeaderTagFlag", "ir", some (.var 0), ["self.header.flags()"], []),
  ("size->u32", "ir", some (.var 0), ["self.header.size()"], [])] := rfl

theorem tbl_h_entry_eq : Gen.Fns.tbl_h_entry = some [
  ("new->Self", "covered", none, [], []),
  ("typ->HeaderTagType", "ir", some (.var 0), ["self.header.typ()"], []),
  ("flags->HeaderTagFlag", "ir", some (.var 0), ["self.header.flags()"], []),
  ("size->u32", "ir", some (.var 0), ["self.header.size()"], []),
  ("entry_addr->u32", "ir", some (.var 0), ["self.entry_addr"], [])] := rfl

theorem tbl_h_efi32_eq : Gen.Fns.tbl_h_efi32 = some [
  ("new->Self", "covered", none, [], []),
  ("typ->HeaderTagType", "ir", some (.var 0), ["self.header.typ()"], []),
  ("flags->HeaderTagFlag", "ir", some (.var 0), ["self.header.flags()"], []),
  ("size->u32", "ir", some (.var 0), ["self.header.size()"], []),
  ("entry_addr->u32", "ir", some (.var 0), ["self.entry_addr"], [])] := rfl

theorem tbl_h_efi64_eq : Gen.Fns.tbl_h_efi64 = some [
  ("new->Self", "covered", none, [], []),
  ("typ->HeaderTagType", "ir", some (.var 0), ["self.header.typ()"], []),
  ("flags->HeaderTagFlag", "ir", some (.var 0), ["self.header.flags()"], []),
  ("size->u32", "ir", some (.var 0), ["self.header.size()"], []),
  ("entry_addr->u32", "ir", some (.var 0), ["self.entry_addr"], [])] := rfl

theorem tbl_h_fb_eq : Gen.Fns.tbl_h_fb = some [
  ("new->Self", "covered", none, [], []),
  ("typ->HeaderTagType", "ir", some (.var 0), ["self.header.typ()"], []),
  ("flags->HeaderTagFlag", "ir", some (.var 0), ["self.header.flags()"], []),
  ("size->u32", "ir", some (.var 0), ["self.header.size()"], []),
  ("width->u32", "ir", some (.var 0), ["self.width"], []),
  ("height->u32", "ir", some (.var 0), ["self.height"], []),
  ("depth->u32", "ir", some (.var 0), ["self.depth"], [])] := rfl

theorem tbl_h_modalign_eq : Gen.Fns.tbl_h_modalign = some [
  ("new->Self", "covered", none, [], []),
  ("typ->HeaderTagType", "ir", some (.var 0), ["self.header.typ()"], []),
  ("flags->HeaderTagFlag", "ir", some (.var 0), ["self.header.flags()"], []),
  ("size->u32", "ir", some (.var 0), ["self.header.size()"], [])] := rfl

theorem tbl_h_efibs_eq : Gen.Fns.tbl_h_efibs = some [
  ("new->Self", "covered", none, [], []),
  ("typ->HeaderTagType", "ir", some (.var 0), ["self.header.typ()"], []),
  ("flags->HeaderTagFlag", "ir", some (.var 0), ["self.header.flags()"], []),
  ("size->u32", "ir", some (.var 0), ["self.header.size()"], [])] := rfl

theorem tbl_h_reloc_eq : Gen.Fns.tbl_h_reloc = some [
  ("new->Self", "covered", none, [], []),
  ("typ->HeaderTagType", "ir", some (.var 0), ["self.header.typ()"], []),
  ("flags->HeaderTagFlag", "ir", some (.var 0), ["self.header.flags()"], []),
  ("size->u32", "ir", some (.var 0), ["self.header.size()"], []),
  ("min_addr->u32", "ir", some (.var 0), ["self.min_addr"], []),
  ("max_addr->u32", "ir", some (.var 0), ["self.max_addr"], []),
  ("align->u32", "ir", some (.var 0), ["self.align"], []),
  ("preference->RelocatableHeaderTagPreference", "ir", some (.var 0), ["self.preference"], [])] := rfl

theorem tbl_h_inforeq_eq : Gen.Fns.tbl_h_inforeq = some [
  ("new->Box<Self>", "covered", none, [], []),
  ("typ->HeaderTagType", "ir", some (.var 0), ["self.header.typ()"], []),
  ("flags->HeaderTagFlag", "ir", some (.var 0), ["self.header.flags()"], []),
  ("size->u32", "ir", some (.var 0), ["self.header.size()"], []),
  ("requests->&[MbiTagTypeId]", "ir", some (.var 0), ["self.requests"], [])] := rfl
-- END TABLES

/-! ### what the pinned rows mean -/

/-- `Multiboot2BasicHeader::new(arch, length)`: magic constant, the two arguments, and the checksum the model computes
    (`calcChecksum`, which `C10.checksum_law` shows to be THE word that makes the four fields sum to 0 mod 2^32) -/
theorem hb_new_eq (p : Profile) (a l : Nat) (ha : a < W32) :
    evalO p [.int .u32 a, .int .u32 l] (tblRow Gen.Fns.tbl_hb "new->Self") =
      some (.ok (.pair (.int .u32 HMAGIC) (.pair (.int .u32 a) (.pair (.int .u32 l) (.int .u32 (calcChecksum HMAGIC a l)))))) := by
  rw [tbl_hb_eq]
  simp [tblRow, List.find?, evalO, eval, prim2, intPrim, castV, calcChecksum, wsub32, Nat.mod_eq_of_lt ha, set_other, HMAGIC]

/-- the ten typed getters of `Multiboot2Header` are `get_tag` at the tag type their return type names -/
theorem hdr_typed_getters_forward :
    ∀ g ∈ ["information_request_tag->Option<&InformationRequestHeaderTag>", "address_tag->Option<&AddressHeaderTag>",
           "entry_address_tag->Option<&EntryAddressHeaderTag>", "entry_address_efi32_tag->Option<&EntryEfi32HeaderTag>",
           "entry_address_efi64_tag->Option<&EntryEfi64HeaderTag>", "console_flags_tag->Option<&ConsoleHeaderTag>",
           "framebuffer_tag->Option<&FramebufferHeaderTag>", "module_align_tag->Option<&ModuleAlignHeaderTag>",
           "efi_boot_services_tag->Option<&EfiBootServiceHeaderTag>", "relocatable_tag->Option<&RelocatableHeaderTag>"],
      tblRow Gen.Fns.tbl_hdr g = some (.var 0) ∧ tblVars Gen.Fns.tbl_hdr g = ["self.get_tag()"] := by
  rw [tbl_hdr_eq]; decide

/-- `typ()` / `flags()` / `size()` of every header tag forward to the same-named accessor of its `HeaderTagHeader`, which
    returns the same-named field -/
theorem header_tag_common_accessors :
    ∀ t ∈ [Gen.Fns.tbl_h_address, Gen.Fns.tbl_h_console, Gen.Fns.tbl_h_end, Gen.Fns.tbl_h_entry, Gen.Fns.tbl_h_efi32,
           Gen.Fns.tbl_h_efi64, Gen.Fns.tbl_h_fb, Gen.Fns.tbl_h_modalign, Gen.Fns.tbl_h_efibs, Gen.Fns.tbl_h_reloc,
           Gen.Fns.tbl_h_inforeq],
      (tblRow t "typ->HeaderTagType" = some (.var 0) ∧ tblVars t "typ->HeaderTagType" = ["self.header.typ()"]) ∧
      (tblRow t "flags->HeaderTagFlag" = some (.var 0) ∧ tblVars t "flags->HeaderTagFlag" = ["self.header.flags()"]) ∧
      (tblRow t "size->u32" = some (.var 0) ∧ tblVars t "size->u32" = ["self.header.size()"]) := by
  rw [tbl_h_address_eq, tbl_h_console_eq, tbl_h_end_eq, tbl_h_entry_eq, tbl_h_efi32_eq, tbl_h_efi64_eq, tbl_h_fb_eq,
    tbl_h_modalign_eq, tbl_h_efibs_eq, tbl_h_reloc_eq, tbl_h_inforeq_eq]
  decide

end Mb2.Fns
