/-
  Mb2.Props.FnsTblFixed — SOURCE = MODEL, the remaining inherent impl blocks as tables (see `FnsTblBase.lean`, DESIGN 15.10):
  the fixed-size boot-information tags (every accessor returns the field of its own name; the EFI pointer tags return
  `pointer` widened to usize), and the inherent impls of `TagIter`, `EFIMemoryAreaIter`, `TagType`, `CommandLineTag`,
  `NetworkTag` (their functions have their own `*_eq` theorems: the table pins the method SET - an added inherent method
  could shadow a trait method such as `MaybeDynSized::payload`).
-/

import Mb2.Props.FnsTblBase
open Mb2 Mb2.Rir

namespace Mb2.Fns

set_option maxRecDepth 8000

-- BEGIN TABLES (generated once by a script from the unchanged tree, then REVIEWED row by row)
theorem tbl_tag_iter_eq : Gen.Fns.tbl_tag_iter = some [
  ("new->Self", "covered", none, [], [])] := rfl

theorem tbl_apm_eq : Gen.Fns.tbl_apm = some [
  ("new->Self", "covered", none, [], []),
  ("version->u16", "ir", some (.var 0), ["self.version"], []),
  ("cseg->u16", "ir", some (.var 0), ["self.cseg"], []),
  ("offset->u32", "ir", some (.var 0), ["self.offset"], []),
  ("cset_16->u16", "ir", some (.var 0), ["self.cset_16"], []),
  ("dseg->u16", "ir", some (.var 0), ["self.dseg"], []),
  ("flags->u16", "ir", some (.var 0), ["self.flags"], []),
  ("cseg_len->u16", "ir", some (.var 0), ["self.cseg_len"], []),
  ("cseg_16_len->u16", "ir", some (.var 0), ["self.cseg_16_len"], []),
  ("dseg_len->u16", "ir", some (.var 0), ["self.dseg_len"], [])] := rfl

theorem tbl_bootdev_eq : Gen.Fns.tbl_bootdev = some [
  ("new->Self", "covered", none, [], []),
  ("biosdev->u32", "ir", some (.var 0), ["self.biosdev"], []),
  ("slice->u32", "ir", some (.var 0), ["self.slice"], []),
  ("part->u32", "ir", some (.var 0), ["self.part"], [])] := rfl

theorem tbl_cmdline_eq : Gen.Fns.tbl_cmdline = some [
  ("new->Box<Self>", "covered", none, [], []),
  ("cmdline->Result<&str,StringError>", "covered", none, [], [])] := rfl

theorem tbl_efi_sdt32_eq : Gen.Fns.tbl_efi_sdt32 = some [
  ("new->Self", "covered", none, [], []),
  ("sdt_address->usize", "ir", some (.cast (.var 0) .usize), ["self.pointer"], [])] := rfl

theorem tbl_efi_sdt64_eq : Gen.Fns.tbl_efi_sdt64 = some [
  ("new->Self", "covered", none, [], []),
  ("sdt_address->usize", "ir", some (.cast (.var 0) .usize), ["self.pointer"], [])] := rfl

theorem tbl_efi_ih32_eq : Gen.Fns.tbl_efi_ih32 = some [
  ("new->Self", "covered", none, [], []),
  ("image_handle->usize", "ir", some (.cast (.var 0) .usize), ["self.pointer"], [])] := rfl

theorem tbl_efi_ih64_eq : Gen.Fns.tbl_efi_ih64 = some [
  ("new->Self", "covered", none, [], []),
  ("image_handle->usize", "ir", some (.cast (.var 0) .usize), ["self.pointer"], [])] := rfl

theorem tbl_load_base_eq : Gen.Fns.tbl_load_base = some [
  ("new->Self", "covered", none, [], []),
  ("load_base_addr->u32", "ir", some (.var 0), ["self.load_base_addr"], [])] := rfl

theorem tbl_meminfo_eq : Gen.Fns.tbl_meminfo = some [
  ("new->Self", "covered", none, [], []),
  ("memory_lower->u32", "ir", some (.var 0), ["self.memory_lower"], []),
  ("memory_upper->u32", "ir", some (.var 0), ["self.memory_upper"], [])] := rfl

theorem tbl_efi_iter_inherent_eq : Gen.Fns.tbl_efi_iter_inherent = some [
  ("new->Self", "covered", none, [], [])] := rfl

theorem tbl_network_eq : Gen.Fns.tbl_network = some [
  ("new->Box<Self>", "covered", none, [], [])] := rfl

theorem tbl_tag_type_eq : Gen.Fns.tbl_tag_type = some [
  ("val->u32", "covered", none, [], [])] := rfl

theorem tbl_vbe_eq : Gen.Fns.tbl_vbe = some [
  ("new->Self", "covered", none, [], []),
  ("mode->u16", "ir", some (.var 0), ["self.mode"], []),
  ("interface_segment->u16", "ir", some (.var 0), ["self.interface_segment"], []),
  ("interface_offset->u16", "ir", some (.var 0), ["self.interface_offset"], []),
  ("interface_length->u16", "ir", some (.var 0), ["self.interface_length"], []),
  ("control_info->VBEControlInfo", "ir", some (.var 0), ["self.control_info"], []),
  ("mode_info->VBEModeInfo", "ir", some (.var 0), ["self.mode_info"], [])] := rfl
-- END TABLES

end Mb2.Fns
