/-
  C06 — Building then loading a boot information preserves exactly the supplied tags.
-/
import Mb2.Build
import Mb2.Spec
import Mb2.Lemmas.Build
import Mb2.Lemmas.Tags
import Mb2.Props.C16
import Mb2.Props.C02
namespace Mb2.C06
open Mb2

/-- a well-formed tag image as `as_bytes()` hands it to the builder: at least the header, a multiple of 8 long, and its
    size field rounds up to exactly its length -/
def WFImg (b : Bytes) : Prop := 8 ≤ b.length ∧ 8 ≤ le32 b 4 ∧ roundUp8 (le32 b 4) = b.length

/-- the walk items a list of images produces when laid out back to back from offset `off` -/
def itemsOf (k : HK) : List Bytes → Nat → List Item
  | [], _ => []
  | b :: rest, off => ⟨off, tagTyp k b 0, le32 b 4, le32 b 4 - 8⟩ :: itemsOf k rest (off + b.length)

theorem u8At_append_left' (a b : Bytes) (i : Nat) (h : i < a.length) : u8At (a ++ b) i = u8At a i :=
  u8At_append_left a b i h

theorem le32_append_left (a b : Bytes) (i : Nat) (h : i + 4 ≤ a.length) : le32 (a ++ b) i = le32 a i := by
  unfold le32
  rw [u8At_append_left a b i (by omega), u8At_append_left a b (i+1) (by omega), u8At_append_left a b (i+2) (by omega),
      u8At_append_left a b (i+3) (by omega)]

theorem le16_append_left (a b : Bytes) (i : Nat) (h : i + 2 ≤ a.length) : le16 (a ++ b) i = le16 a i := by
  unfold le16
  rw [u8At_append_left a b i (by omega), u8At_append_left a b (i+1) (by omega)]

theorem le16_append_right (a b : Bytes) (i : Nat) : le16 (a ++ b) (a.length + i) = le16 b i := by
  unfold le16
  have h0 := u8At_append_right a b i
  have h1 := u8At_append_right a b (i + 1)
  simp only [← Nat.add_assoc] at h1
  rw [h0, h1]

theorem tagTyp_mid (k : HK) (pre mid post : Bytes) (h : 8 ≤ mid.length) :
    tagTyp k (pre ++ (mid ++ post)) pre.length = tagTyp k mid 0 := by
  cases k <;> simp only [tagTyp]
  all_goals first
    | (have := le32_append_right pre (mid ++ post) 0
       simp only [Nat.add_zero] at this
       rw [this, le32_append_left mid post 0 (by omega)])
    | (have := le16_append_right pre (mid ++ post) 0
       simp only [Nat.add_zero] at this
       rw [this, le16_append_left mid post 0 (by omega)])

/-- reading inside the middle part of `pre ++ mid ++ post` -/
theorem le32_mid (pre mid post : Bytes) (i : Nat) (h : i + 4 ≤ mid.length) :
    le32 (pre ++ (mid ++ post)) (pre.length + i) = le32 mid i := by
  rw [le32_append_right, le32_append_left mid post i h]

theorem walk_succ (k : HK) (buf : Bytes) (fuel off : Nat) :
    Spec.walk k buf (fuel + 1) off =
      if off = buf.length then ([], .done)
      else
        let size := le32 buf (off + 4)
        if size < 8 ∨ off + roundUp8 size > buf.length then ([], .bad)
        else
          let r := Spec.walk k buf fuel (off + roundUp8 size)
          (⟨off, tagTyp k buf off, size, size - 8⟩ :: r.1, r.2) := by
  rw [Spec.walk]

/-- Walking a concatenation of well-formed images yields exactly one item per image, in order, each at the offset where
    its image starts, with the image's own type and size - and then continues with whatever follows. -/
theorem walk_concat (k : HK) (imgs : List Bytes) (hwf : ∀ b ∈ imgs, WFImg b) :
    ∀ (pre post : Bytes) (fuel : Nat), imgs.length ≤ fuel →
      Spec.walk k (pre ++ (imgs.flatten ++ post)) fuel pre.length =
        (itemsOf k imgs pre.length ++
            (Spec.walk k (pre ++ (imgs.flatten ++ post)) (fuel - imgs.length) (pre.length + imgs.flatten.length)).1,
         (Spec.walk k (pre ++ (imgs.flatten ++ post)) (fuel - imgs.length) (pre.length + imgs.flatten.length)).2) := by
  induction imgs with
  | nil => intro pre post fuel _; simp [itemsOf]
  | cons b rest ih =>
    intro pre post fuel hf
    obtain ⟨h8, hs8, hr⟩ := hwf b (by simp)
    have hrest : ∀ x ∈ rest, WFImg x := fun x hx => hwf x (by simp [hx])
    cases fuel with
    | zero => simp at hf
    | succ n =>
      have hbuf : pre ++ ((b :: rest).flatten ++ post) = pre ++ (b ++ (rest.flatten ++ post)) := by simp
      rw [hbuf, walk_succ]
      have hlen : (pre ++ (b ++ (rest.flatten ++ post))).length = pre.length + b.length + (rest.flatten ++ post).length := by
        simp [Nat.add_assoc]
      rw [if_neg (by rw [hlen]; omega)]
      have hsz : le32 (pre ++ (b ++ (rest.flatten ++ post))) (pre.length + 4) = le32 b 4 := le32_mid pre b _ 4 (by omega)
      have hty : tagTyp k (pre ++ (b ++ (rest.flatten ++ post))) pre.length = tagTyp k b 0 := tagTyp_mid k pre b _ h8
      simp only [hsz]
      rw [if_neg (by rw [hlen, hr]; omega)]
      -- continue behind this image: the new prefix is `pre ++ b`
      have hpre' : pre ++ (b ++ (rest.flatten ++ post)) = (pre ++ b) ++ (rest.flatten ++ post) := by simp
      have hoff : pre.length + roundUp8 (le32 b 4) = (pre ++ b).length := by rw [hr]; simp
      rw [hoff, hpre', ih hrest (pre ++ b) post n (by simpa using hf)]
      have e1 : (pre ++ b).length + rest.flatten.length = pre.length + (b :: rest).flatten.length := by
        simp [Nat.add_assoc]
      have e2 : n + 1 - (b :: rest).length = n - rest.length := by simp
      have e3 : tagTyp k ((pre ++ b) ++ (rest.flatten ++ post)) pre.length = tagTyp k b 0 := by
        rw [← hpre']; exact hty
      have e4 : pre.length + (b :: rest).flatten.length = pre.length + b.length + rest.flatten.length := by
        simp [Nat.add_assoc]
      simp only [itemsOf, e2, e3, e4, List.cons_append, List.length_append]

/-- the end tag image -/
def endImg : Bytes := mbiHdr 0 8

/-- C06, walk part: the tag area `image₁ ++ … ++ imageₙ ++ end tag` walks to exactly the supplied images followed by one
    end tag, and the walk ends cleanly. (The model's `tagsOf` equals this specification walk by C03.) -/
theorem built_area_walk (k : HK) (endI : Bytes) (hend : endI.length = 8) (he4 : le32 endI 4 = 8)
    (imgs : List Bytes) (hwf : ∀ b ∈ imgs, WFImg b) :
    Spec.tagsOf k (imgs.flatten ++ endI) =
      (itemsOf k imgs 0 ++ [⟨imgs.flatten.length, tagTyp k endI 0, 8, 0⟩], .done) := by
  have hcnt : imgs.length * 8 ≤ imgs.flatten.length := by
    induction imgs with
    | nil => simp
    | cons b rest ih =>
      have := (hwf b (by simp)).1
      have := ih (fun x hx => hwf x (by simp [hx]))
      simp [Nat.add_mul] at *; omega
  unfold Spec.tagsOf
  have h := walk_concat k imgs hwf [] endI ((imgs.flatten ++ endI).length / 8 + 1)
    (by simp only [List.length_append, hend]; omega)
  simp only [List.nil_append, List.length_nil, Nat.zero_add] at h
  rw [h]
  -- the remaining walk starts at the end tag
  have hfuel : (imgs.flatten ++ endI).length / 8 + 1 - imgs.length = ((imgs.flatten ++ endI).length / 8 - imgs.length) + 1 := by
    simp only [List.length_append, hend]; omega
  rw [hfuel, walk_succ]
  rw [if_neg (by simp [hend])]
  have hsz : le32 (imgs.flatten ++ endI) (imgs.flatten.length + 4) = 8 := by
    rw [le32_append_right]; exact he4
  have hty : tagTyp k (imgs.flatten ++ endI) imgs.flatten.length = tagTyp k endI 0 := by
    have := tagTyp_mid k imgs.flatten endI [] (by omega)
    simpa using this
  simp only [hsz, hty]
  rw [if_neg (by simp [roundUp8, hend])]
  have hnext : imgs.flatten.length + roundUp8 8 = (imgs.flatten ++ endI).length := by simp [roundUp8, hend]
  rw [hnext]
  cases hq : (imgs.flatten ++ endI).length / 8 - imgs.length with
  | zero =>
    -- fuel for the final step: there is at least one unit left because the end tag itself is 8 bytes
    exfalso
    simp only [List.length_append, hend] at hq
    omega
  | succ m =>
    rw [walk_succ, if_pos rfl]

/-- every image produced by the constructor model is well-formed, e.g. the fixed-size ones: -/
theorem sizedImg_wf (typ : Nat) (payload : Bytes) (hs : 8 + payload.length < 4294967296) :
    WFImg ((sizedImg typ (8 + payload.length) payload).asBytes) := by
  have g := roundUp8_ge (8 + payload.length)
  have hl : (mbiHdr typ (8 + payload.length) ++ payload).length = 8 + payload.length := by
    simp only [List.length_append, mbiHdr, enc32_length]
  have hlen : ((sizedImg typ (8 + payload.length) payload).asBytes).length = roundUp8 (8 + payload.length) := by
    unfold Img.asBytes sizedImg
    simp only [List.length_append, zeros, List.length_replicate, mbiHdr, enc32_length]
    omega
  have hd : le32 ((sizedImg typ (8 + payload.length) payload).asBytes) 4 = 8 + payload.length := by
    unfold Img.asBytes sizedImg
    simp only
    rw [List.append_assoc, (mbiHdr_decode typ (8 + payload.length) _).2, Nat.mod_eq_of_lt hs]
  unfold WFImg
  rw [hlen, hd]
  exact ⟨by omega, by omega, rfl⟩

/-! Non-vacuity -/
example : Spec.tagsOf .tag ([4,0,0,0, 16,0,0,0, 1,0,0,0, 2,0,0,0] ++ endImg) = ([⟨0, 4, 16, 8⟩, ⟨16, 0, 8, 0⟩], .done) := by decide

theorem wf_len_mod (imgs : List Bytes) (hwf : ∀ b ∈ imgs, WFImg b) : imgs.flatten.length % 8 = 0 := by
  induction imgs with
  | nil => rfl
  | cons b rest ih =>
    have hb := (hwf b (by simp)).2.2
    have := roundUp8_mod (le32 b 4)
    have := ih (fun x hx => hwf x (by simp [hx]))
    simp only [List.flatten_cons, List.length_append]
    omega

/-- C06, end to end on the model: handing ANY list of well-formed tag images (plus the end tag) to the final
    `new_boxed` of `Builder::build` yields - without panic - a structure whose first word is its exact byte length, whose
    length is a multiple of 8, which is allocated 8-aligned with exactly that size, which LOADS successfully
    (`BootInformation::load` model), and whose tag area is the images back to back followed by the end tag (so that, by
    `built_area_walk`, its walk is exactly the supplied tags followed by one end tag). -/
theorem build_wellformed (p : Profile) (imgs : List Bytes) (hwf : ∀ b ∈ imgs, WFImg b)
    (hlen : imgs.flatten.length + 16 < 2^32) :
    let total := 8 + imgs.flatten.length + 8
    let bytes := enc32 total ++ enc32 0 ++ (imgs.flatten ++ endImg)
    newBoxed p .bi (genericDesc .bi) (enc32 0 ++ enc32 0) (imgs ++ [endImg]) = .ok ⟨bytes, total, 8, total⟩ ∧
    bytes.length = total ∧ total % 8 = 0 ∧
    load p false bytes = .ok (.ok ⟨0, total, total⟩) ∧
    (bytes.take total).drop 8 = imgs.flatten ++ endImg := by
  intro total bytes
  have hL : imgs.flatten.length + 16 < 4294967296 := hlen
  have hW := W64_eq
  have hm := wf_len_mod imgs hwf
  have hend : endImg.length = 8 := rfl
  have hflat : (imgs ++ [endImg]).flatten = imgs.flatten ++ endImg := by simp
  have hcl : (imgs.flatten ++ endImg).length = imgs.flatten.length + 8 := by simp [hend]
  have htot : total = 8 + (imgs.flatten ++ endImg).length := by simp only [total, hcl]; omega
  have hbl : bytes.length = total := by
    simp only [bytes, List.length_append, enc32_length, hend, total]; omega
  have htm : total % 8 = 0 := by simp only [total]; omega
  have hr8 : roundUp8 total = total := roundUp8_of_mod total htm
  have h0 : le32 bytes 0 = total := by
    simp only [bytes]
    rw [List.append_assoc, le32_enc32]
    exact Nat.mod_eq_of_lt (by simp only [total]; omega)
  refine ⟨?_, hbl, htm, ?_, ?_⟩
  · unfold newBoxed
    simp only [hflat]
    have hh : HK.bi.hsize = 8 := rfl
    rw [hh, ← htot, incAlign_eq p _ (by omega), hr8]
    simp only [Res.bind_ok]
    have hd : (genericDesc .bi).dstLen p total = .ok (total - 8) := rfl
    rw [hd]
    simp only [Res.bind_ok]
    have hs : (genericDesc .bi).sizeOfVal (total - 8) = total := by
      simp only [genericDesc, TyDesc.sizeOfVal, HK.hsize, roundUp]
      have e : 8 + (total - 8) * 1 + 8 - 1 = total + 7 := by simp only [total]; omega
      rw [e]
      exact hr8
    rw [hs, if_neg (by simp)]
    have hset : setSize .bi (enc32 0 ++ enc32 0) total = enc32 total ++ enc32 0 := by
      simp [setSize, HK.sizeOff, enc32]
    rw [hset]
    rfl
  · rw [C02.load_eq p bytes ⟨by omega, by omega⟩]
    simp only [h0]
    rw [if_neg (by simp only [total]; omega), if_neg (by omega)]
    have hpre : bytes = (enc32 total ++ enc32 0 ++ imgs.flatten) ++ endImg := by simp [bytes, List.append_assoc]
    have hprel : (enc32 total ++ enc32 0 ++ imgs.flatten).length = total - 8 := by
      simp only [List.length_append, enc32_length, total]; omega
    have e1 : le32 bytes (total - 8) = 0 := by
      rw [hpre]
      have := le32_append_right (enc32 total ++ enc32 0 ++ imgs.flatten) endImg 0
      rw [hprel] at this
      simp only [Nat.add_zero] at this
      rw [this]; decide
    have e2 : le32 bytes (total - 4) = 8 := by
      rw [hpre]
      have := le32_append_right (enc32 total ++ enc32 0 ++ imgs.flatten) endImg 4
      rw [hprel] at this
      have e3 : total - 8 + 4 = total - 4 := by simp only [total]; omega
      rw [e3] at this
      rw [this]; decide
    rw [if_pos ⟨e1, e2⟩]
  · rw [List.take_of_length_le (by omega)]
    simp [bytes, List.append_assoc, enc32]

/-- builder slots: an `Option` slot keeps the last tag, a `Vec` slot all tags in call order; other slots are untouched -/
theorem slot_put_same (st : BState) (slot : String) (multi : Bool) (img : Img) :
    (st.put slot multi img).get slot = if multi then st.get slot ++ [img] else [img] := by
  unfold BState.put BState.get
  simp [List.find?_cons]

theorem slot_put_other (st : BState) (slot other : String) (multi : Bool) (img : Img) (h : other ≠ slot) :
    (st.put slot multi img).get other = st.get other := by
  unfold BState.put BState.get
  have h1 : (slot == other) = false := by simpa using fun e => h e.symm
  simp only [List.find?_cons, h1]
  congr 1
  induction st with
  | nil => rfl
  | cons x xs ih =>
    by_cases hx : x.1 = slot
    · have : (x.1 != slot) = false := by simp [hx]
      have h2 : (x.1 == other) = false := by simp [hx]; exact fun e => h e.symm
      simp only [List.filter_cons, this, List.find?_cons, h2]
      exact ih
    · have : (x.1 != slot) = true := by simp [hx]
      simp only [List.filter_cons, this, List.find?_cons, if_true]
      cases hc : (x.1 == other)
      · exact ih
      · rfl

end Mb2.C06
