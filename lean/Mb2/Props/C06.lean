/-
  C06 — Building then loading a boot information preserves exactly the supplied tags.
-/
import Mb2.Props.FnsBoxed
import Mb2.Props.FnsCast
import Mb2.Props.Builders
import Mb2.Build
import Mb2.Spec
import Mb2.Lemmas.Build
import Mb2.Lemmas.Tags
import Mb2.Props.C16
import Mb2.Props.C02
import Mb2.Props.C07Parts
namespace Mb2.C06
open Mb2

/-- a well-formed tag image as `as_bytes()` hands it to the builder: at least the header, a multiple of 8 long, and its
    size field rounds up to exactly its length -/
def WFImg (b : Bytes) : Prop := 8 ≤ b.length ∧ 8 ≤ le32 b 4 ∧ roundUp8 (le32 b 4) = b.length

/-- the walk items a list of images produces when laid out back to back from offset `off` -/
def itemsOf (k : HK) : List Bytes → Nat → List Item
  | [], _ => []
  | b :: rest, off => ⟨off, tagTyp k b 0, le32 b 4, le32 b 4 - 8⟩ :: itemsOf k rest (off + b.length)

theorem u8At_append_left' (a b : Bytes) (i : Nat) (h : i < a.length) : u8At (a ++ b) i = u8At a i :=
  u8At_append_left a b i h

theorem le32_append_left (a b : Bytes) (i : Nat) (h : i + 4 ≤ a.length) : le32 (a ++ b) i = le32 a i := by
  unfold le32
  rw [u8At_append_left a b i (by omega), u8At_append_left a b (i+1) (by omega), u8At_append_left a b (i+2) (by omega),
      u8At_append_left a b (i+3) (by omega)]

theorem le16_append_left (a b : Bytes) (i : Nat) (h : i + 2 ≤ a.length) : le16 (a ++ b) i = le16 a i := by
  unfold le16
  rw [u8At_append_left a b i (by omega), u8At_append_left a b (i+1) (by omega)]

theorem le16_append_right (a b : Bytes) (i : Nat) : le16 (a ++ b) (a.length + i) = le16 b i := by
  unfold le16
  have h0 := u8At_append_right a b i
  have h1 := u8At_append_right a b (i + 1)
  simp only [← Nat.add_assoc] at h1
  rw [h0, h1]

theorem tagTyp_mid (k : HK) (pre mid post : Bytes) (h : 8 ≤ mid.length) :
    tagTyp k (pre ++ (mid ++ post)) pre.length = tagTyp k mid 0 := by
  cases k <;> simp only [tagTyp]
  all_goals first
    | (have := le32_append_right pre (mid ++ post) 0
       simp only [Nat.add_zero] at this
       rw [this, le32_append_left mid post 0 (by omega)])
    | (have := le16_append_right pre (mid ++ post) 0
       simp only [Nat.add_zero] at this
       rw [this, le16_append_left mid post 0 (by omega)])

/-- reading inside the middle part of `pre ++ mid ++ post` -/
theorem le32_mid (pre mid post : Bytes) (i : Nat) (h : i + 4 ≤ mid.length) :
    le32 (pre ++ (mid ++ post)) (pre.length + i) = le32 mid i := by
  rw [le32_append_right, le32_append_left mid post i h]

theorem walk_succ (k : HK) (buf : Bytes) (fuel off : Nat) :
    Spec.walk k buf (fuel + 1) off =
      if off = buf.length then ([], .done)
      else
        let size := le32 buf (off + 4)
        if size < 8 ∨ off + roundUp8 size > buf.length then ([], .bad)
        else
          let r := Spec.walk k buf fuel (off + roundUp8 size)
          (⟨off, tagTyp k buf off, size, size - 8⟩ :: r.1, r.2) := by
  rw [Spec.walk]

/-- Walking a concatenation of well-formed images yields exactly one item per image, in order, each at the offset where
    its image starts, with the image's own type and size - and then continues with whatever follows. -/
theorem walk_concat (k : HK) (imgs : List Bytes) (hwf : ∀ b ∈ imgs, WFImg b) :
    ∀ (pre post : Bytes) (fuel : Nat), imgs.length ≤ fuel →
      Spec.walk k (pre ++ (imgs.flatten ++ post)) fuel pre.length =
        (itemsOf k imgs pre.length ++
            (Spec.walk k (pre ++ (imgs.flatten ++ post)) (fuel - imgs.length) (pre.length + imgs.flatten.length)).1,
         (Spec.walk k (pre ++ (imgs.flatten ++ post)) (fuel - imgs.length) (pre.length + imgs.flatten.length)).2) := by
  induction imgs with
  | nil => intro pre post fuel _; simp [itemsOf]
  | cons b rest ih =>
    intro pre post fuel hf
    obtain ⟨h8, hs8, hr⟩ := hwf b (by simp)
    have hrest : ∀ x ∈ rest, WFImg x := fun x hx => hwf x (by simp [hx])
    cases fuel with
    | zero => simp at hf
    | succ n =>
      have hbuf : pre ++ ((b :: rest).flatten ++ post) = pre ++ (b ++ (rest.flatten ++ post)) := by simp
      rw [hbuf, walk_succ]
      have hlen : (pre ++ (b ++ (rest.flatten ++ post))).length = pre.length + b.length + (rest.flatten ++ post).length := by
        simp [Nat.add_assoc]
      rw [if_neg (by rw [hlen]; omega)]
      have hsz : le32 (pre ++ (b ++ (rest.flatten ++ post))) (pre.length + 4) = le32 b 4 := le32_mid pre b _ 4 (by omega)
      have hty : tagTyp k (pre ++ (b ++ (rest.flatten ++ post))) pre.length = tagTyp k b 0 := tagTyp_mid k pre b _ h8
      simp only [hsz]
      rw [if_neg (by rw [hlen, hr]; omega)]
      -- continue behind this image: the new prefix is `pre ++ b`
      have hpre' : pre ++ (b ++ (rest.flatten ++ post)) = (pre ++ b) ++ (rest.flatten ++ post) := by simp
      have hoff : pre.length + roundUp8 (le32 b 4) = (pre ++ b).length := by rw [hr]; simp
      rw [hoff, hpre', ih hrest (pre ++ b) post n (by simpa using hf)]
      have e1 : (pre ++ b).length + rest.flatten.length = pre.length + (b :: rest).flatten.length := by
        simp [Nat.add_assoc]
      have e2 : n + 1 - (b :: rest).length = n - rest.length := by simp
      have e3 : tagTyp k ((pre ++ b) ++ (rest.flatten ++ post)) pre.length = tagTyp k b 0 := by
        rw [← hpre']; exact hty
      have e4 : pre.length + (b :: rest).flatten.length = pre.length + b.length + rest.flatten.length := by
        simp [Nat.add_assoc]
      simp only [itemsOf, e2, e3, e4, List.cons_append, List.length_append]

/-- the end tag image -/
def endImg : Bytes := mbiHdr 0 8

/-- C06, walk part: the tag area `image₁ ++ … ++ imageₙ ++ end tag` walks to exactly the supplied images followed by one
    end tag, and the walk ends cleanly. (The model's `tagsOf` equals this specification walk by C03.) -/
theorem built_area_walk (k : HK) (endI : Bytes) (hend : endI.length = 8) (he4 : le32 endI 4 = 8)
    (imgs : List Bytes) (hwf : ∀ b ∈ imgs, WFImg b) :
    Spec.tagsOf k (imgs.flatten ++ endI) =
      (itemsOf k imgs 0 ++ [⟨imgs.flatten.length, tagTyp k endI 0, 8, 0⟩], .done) := by
  have hcnt : imgs.length * 8 ≤ imgs.flatten.length := by
    induction imgs with
    | nil => simp
    | cons b rest ih =>
      have := (hwf b (by simp)).1
      have := ih (fun x hx => hwf x (by simp [hx]))
      simp [Nat.add_mul] at *; omega
  unfold Spec.tagsOf
  have h := walk_concat k imgs hwf [] endI ((imgs.flatten ++ endI).length / 8 + 1)
    (by simp only [List.length_append, hend]; omega)
  simp only [List.nil_append, List.length_nil, Nat.zero_add] at h
  rw [h]
  -- the remaining walk starts at the end tag
  have hfuel : (imgs.flatten ++ endI).length / 8 + 1 - imgs.length = ((imgs.flatten ++ endI).length / 8 - imgs.length) + 1 := by
    simp only [List.length_append, hend]; omega
  rw [hfuel, walk_succ]
  rw [if_neg (by simp [hend])]
  have hsz : le32 (imgs.flatten ++ endI) (imgs.flatten.length + 4) = 8 := by
    rw [le32_append_right]; exact he4
  have hty : tagTyp k (imgs.flatten ++ endI) imgs.flatten.length = tagTyp k endI 0 := by
    have := tagTyp_mid k imgs.flatten endI [] (by omega)
    simpa using this
  simp only [hsz, hty]
  rw [if_neg (by simp [roundUp8, hend])]
  have hnext : imgs.flatten.length + roundUp8 8 = (imgs.flatten ++ endI).length := by simp [roundUp8, hend]
  rw [hnext]
  cases hq : (imgs.flatten ++ endI).length / 8 - imgs.length with
  | zero =>
    -- fuel for the final step: there is at least one unit left because the end tag itself is 8 bytes
    exfalso
    simp only [List.length_append, hend] at hq
    omega
  | succ m =>
    rw [walk_succ, if_pos rfl]

/-- every image produced by the constructor model is well-formed, e.g. the fixed-size ones: -/
theorem sizedImg_wf (typ : Nat) (payload : Bytes) (hs : 8 + payload.length < 4294967296) :
    WFImg ((sizedImg typ (8 + payload.length) payload).asBytes) := by
  have g := roundUp8_ge (8 + payload.length)
  have hl : (mbiHdr typ (8 + payload.length) ++ payload).length = 8 + payload.length := by
    simp only [List.length_append, mbiHdr, enc32_length]
  have hlen : ((sizedImg typ (8 + payload.length) payload).asBytes).length = roundUp8 (8 + payload.length) := by
    unfold Img.asBytes sizedImg
    simp only [List.length_append, zeros, List.length_replicate, mbiHdr, enc32_length]
    omega
  have hd : le32 ((sizedImg typ (8 + payload.length) payload).asBytes) 4 = 8 + payload.length := by
    unfold Img.asBytes sizedImg
    simp only
    rw [List.append_assoc, (mbiHdr_decode typ (8 + payload.length) _).2, Nat.mod_eq_of_lt hs]
  unfold WFImg
  rw [hlen, hd]
  exact ⟨by omega, by omega, rfl⟩

/-! Non-vacuity -/
example : Spec.tagsOf .tag ([4,0,0,0, 16,0,0,0, 1,0,0,0, 2,0,0,0] ++ endImg) = ([⟨0, 4, 16, 8⟩, ⟨16, 0, 8, 0⟩], .done) := by decide

theorem wf_len_mod (imgs : List Bytes) (hwf : ∀ b ∈ imgs, WFImg b) : imgs.flatten.length % 8 = 0 := by
  induction imgs with
  | nil => rfl
  | cons b rest ih =>
    have hb := (hwf b (by simp)).2.2
    have := roundUp8_mod (le32 b 4)
    have := ih (fun x hx => hwf x (by simp [hx]))
    simp only [List.flatten_cons, List.length_append]
    omega

/-- C06, end to end on the model: handing ANY list of well-formed tag images (plus the end tag) to the final
    `new_boxed` of `Builder::build` yields - without panic - a structure whose first word is its exact byte length, whose
    length is a multiple of 8, which is allocated 8-aligned with exactly that size, which LOADS successfully
    (`BootInformation::load` model), and whose tag area is the images back to back followed by the end tag (so that, by
    `built_area_walk`, its walk is exactly the supplied tags followed by one end tag). -/
theorem build_wellformed (p : Profile) (imgs : List Bytes) (hwf : ∀ b ∈ imgs, WFImg b)
    (hlen : imgs.flatten.length + 16 < 2^32) :
    let total := 8 + imgs.flatten.length + 8
    let bytes := enc32 total ++ enc32 0 ++ (imgs.flatten ++ endImg)
    newBoxed p .bi (genericDesc .bi) (enc32 0 ++ enc32 0) (imgs ++ [endImg]) = .ok ⟨bytes, total, 8, total⟩ ∧
    bytes.length = total ∧ total % 8 = 0 ∧
    load p false bytes = .ok (.ok ⟨0, total, total⟩) ∧
    (bytes.take total).drop 8 = imgs.flatten ++ endImg := by
  intro total bytes
  have hL : imgs.flatten.length + 16 < 4294967296 := hlen
  have hW := W64_eq
  have hm := wf_len_mod imgs hwf
  have hend : endImg.length = 8 := rfl
  have hflat : (imgs ++ [endImg]).flatten = imgs.flatten ++ endImg := by simp
  have hcl : (imgs.flatten ++ endImg).length = imgs.flatten.length + 8 := by simp [hend]
  have htot : total = 8 + (imgs.flatten ++ endImg).length := by simp only [total, hcl]; omega
  have hbl : bytes.length = total := by
    simp only [bytes, List.length_append, enc32_length, hend, total]; omega
  have htm : total % 8 = 0 := by simp only [total]; omega
  have hr8 : roundUp8 total = total := roundUp8_of_mod total htm
  have h0 : le32 bytes 0 = total := by
    simp only [bytes]
    rw [List.append_assoc, le32_enc32]
    exact Nat.mod_eq_of_lt (by simp only [total]; omega)
  refine ⟨?_, hbl, htm, ?_, ?_⟩
  · unfold newBoxed
    simp only [hflat]
    have hh : HK.bi.hsize = 8 := rfl
    rw [hh, ← htot, incAlign_eq p _ (by omega), hr8]
    simp only [Res.bind_ok]
    have hd : (genericDesc .bi).dstLen p total = .ok (total - 8) := rfl
    rw [hd]
    simp only [Res.bind_ok]
    have hs : (genericDesc .bi).sizeOfVal (total - 8) = total := by
      simp only [genericDesc, TyDesc.sizeOfVal, HK.hsize, roundUp]
      have e : 8 + (total - 8) * 1 + 8 - 1 = total + 7 := by simp only [total]; omega
      rw [e]
      exact hr8
    rw [hs, if_neg (by simp)]
    have hset : setSize .bi (enc32 0 ++ enc32 0) total = enc32 total ++ enc32 0 := by
      simp [setSize, HK.sizeOff, enc32]
    rw [hset]
    rfl
  · rw [C02.load_eq p bytes ⟨by omega, by omega⟩]
    simp only [h0]
    rw [if_neg (by simp only [total]; omega), if_neg (by omega)]
    have hpre : bytes = (enc32 total ++ enc32 0 ++ imgs.flatten) ++ endImg := by simp [bytes, List.append_assoc]
    have hprel : (enc32 total ++ enc32 0 ++ imgs.flatten).length = total - 8 := by
      simp only [List.length_append, enc32_length, total]; omega
    have e1 : le32 bytes (total - 8) = 0 := by
      rw [hpre]
      have := le32_append_right (enc32 total ++ enc32 0 ++ imgs.flatten) endImg 0
      rw [hprel] at this
      simp only [Nat.add_zero] at this
      rw [this]; decide
    have e2 : le32 bytes (total - 4) = 8 := by
      rw [hpre]
      have := le32_append_right (enc32 total ++ enc32 0 ++ imgs.flatten) endImg 4
      rw [hprel] at this
      have e3 : total - 8 + 4 = total - 4 := by simp only [total]; omega
      rw [e3] at this
      rw [this]; decide
    rw [if_pos ⟨e1, e2⟩]
  · rw [List.take_of_length_le (by omega)]
    simp [bytes, List.append_assoc, enc32]

/-- builder slots: an `Option` slot keeps the last tag, a `Vec` slot all tags in call order; other slots are untouched -/
theorem slot_put_same (st : BState) (slot : String) (multi : Bool) (img : Img) :
    (st.put slot multi img).get slot = if multi then st.get slot ++ [img] else [img] := by
  unfold BState.put BState.get
  simp [List.find?_cons]

theorem slot_put_other (st : BState) (slot other : String) (multi : Bool) (img : Img) (h : other ≠ slot) :
    (st.put slot multi img).get other = st.get other := by
  unfold BState.put BState.get
  have h1 : (slot == other) = false := by simpa using fun e => h e.symm
  simp only [List.find?_cons, h1]
  congr 1
  induction st with
  | nil => rfl
  | cons x xs ih =>
    by_cases hx : x.1 = slot
    · have : (x.1 != slot) = false := by simp [hx]
      have h2 : (x.1 == other) = false := by simp [hx]; exact fun e => h e.symm
      simp only [List.filter_cons, this, List.find?_cons, h2]
      exact ih
    · have : (x.1 != slot) = true := by simp [hx]
      simp only [List.filter_cons, this, List.find?_cons, if_true]
      cases hc : (x.1 == other)
      · exact ih
      · rfl

/-- a heap-built information tag with truthful tail is a well-formed builder image -/
theorem boxed_wf (p : Profile) (typ base e : Nat) (slices : List Bytes) (he : 0 < e)
    (hb : base ≤ 8 + slices.flatten.length) (hr : (8 + slices.flatten.length - base) % e = 0)
    (hlen : 8 + slices.flatten.length < 4294967296) :
    ∃ img, boxedImg p typ (dstDesc base e) slices = .ok img ∧ img.typ = typ ∧ img.size = 8 + slices.flatten.length ∧
      WFImg img.asBytes := by
  refine ⟨_, C07.boxed_ctor_exact p typ base e slices he hb hr (by omega), rfl, rfl, ?_⟩
  exact sizedImg_wf typ slices.flatten hlen

theorem chunk24_len : ∀ (l : Bytes), (∀ c ∈ chunk24 l, c.length = 24) ∧ (chunk24 l).length * 24 ≤ l.length := by
  intro l
  fun_induction chunk24 l with
  | case1 => simp
  | case2 l hne hlt => simp
  | case3 l hne hge ih =>
    constructor
    · intro c hc
      simp only [List.mem_cons] at hc
      rcases hc with h | h
      · subst h; simp [List.length_take]; omega
      · exact ih.1 c h
    · have := ih.2
      simp only [List.length_cons, List.length_drop] at this ⊢
      omega

theorem mmap_areas_len (blob : Bytes) :
    (((chunk24 blob).map fun a => a.take 20 ++ zeros 4).flatten).length = (chunk24 blob).length * 24 := by
  have h := (chunk24_len blob).1
  generalize chunk24 blob = cs at h
  induction cs with
  | nil => rfl
  | cons c rest ih =>
    have hc := h c (by simp)
    have ih' := ih (fun x hx => h x (by simp [hx]))
    simp only [List.map_cons, List.flatten_cons, List.length_append, List.length_cons, List.length_take, zeros,
      List.length_replicate] at ih' ⊢
    rw [ih']
    omega

theorem sizedImg_wf' (typ c : Nat) (payload : Bytes) (hc : c = 8 + payload.length) (hs : c < 4294967296) :
    WFImg ((sizedImg typ c payload).asBytes) := by
  subst hc; exact sizedImg_wf typ payload hs

/-- every fixed-size information-tag constructor yields a well-formed builder image, for ALL argument values -/
theorem sized_ctor_wf : ∀ c ∈ C07.sizedCtors, ∀ (p : Profile) (blob : Bytes), c.2.2 ≤ blob.length →
    ∃ img, ctorImpl p c.1 blob = .ok img ∧ img.typ = c.2.1.typ ∧ WFImg img.asBytes := by
  intro c hc p blob hlen
  simp only [C07.sizedCtors, List.mem_cons, List.mem_nil_iff, or_false] at hc
  rcases hc with h | h | h | h | h | h | h | h | h | h | h | h | h <;> subst h <;> simp only at hlen
  all_goals
    refine ⟨_, rfl, rfl, ?_⟩
    refine sizedImg_wf' _ _ _ ?_ (by decide)
    simp only [List.length_append, List.length_cons, List.length_nil, zeros, List.length_replicate]
    repeat rw [slice_length _ _ _ (by omega)]

theorem newBoxed_network (p : Profile) (typ : Nat) (slices : List Bytes) (hlen : slices.flatten.length < 2^62) :
    newBoxed p .tag networkDesc (mbiHdr typ 0) slices =
      .ok ⟨mbiHdr typ (8 + slices.flatten.length) ++ slices.flatten, roundUp8 (8 + slices.flatten.length), 8,
           roundUp8 (8 + slices.flatten.length)⟩ := by
  have hL : slices.flatten.length < 4611686018427387904 := hlen
  have hW := W64_eq
  unfold newBoxed
  simp only [HK.hsize]
  rw [incAlign_eq p _ (by omega)]
  simp only [Res.bind_ok]
  have hd : networkDesc.dstLen p (8 + slices.flatten.length) = .ok slices.flatten.length := by
    simp only [networkDesc]
    rw [usub_ok p _ _ _ (by omega)]
    congr 1; omega
  rw [hd]
  simp only [Res.bind_ok]
  have hs : networkDesc.sizeOfVal slices.flatten.length = roundUp8 (8 + slices.flatten.length) := by
    simp only [networkDesc, TyDesc.sizeOfVal, roundUp, roundUp8]
    have e2 : 8 + slices.flatten.length * 1 + 8 - 1 = 8 + slices.flatten.length + 7 := by omega
    rw [e2]
  rw [hs, if_neg (by simp), setSize_mbiHdr]
  rfl

/-- an operation the boot-information builder accepts (constructor preconditions as documented by their asserts) -/
def MOpOk (op : String × Bytes) : Prop :=
  op.2.length + 64 < 2^32 ∧
  ((∃ c ∈ C07.sizedCtors, c.1 = op.1 ∧ c.2.2 ≤ op.2.length) ∨
   op.1 = "cmdline" ∨ op.1 = "loader" ∨
   (op.1 = "module" ∧ 8 ≤ op.2.length ∧ le32 op.2 4 > le32 op.2 0) ∨
   op.1 = "mmap" ∨ (op.1 = "fb" ∧ 24 ≤ op.2.length) ∨ (op.1 = "elf" ∧ 12 ≤ op.2.length) ∨
   (op.1 = "smbios" ∧ 8 ≤ op.2.length) ∨ op.1 = "network" ∨
   (op.1 = "efimmap" ∧ 8 ≤ op.2.length ∧ le32 op.2 0 ≠ 0) ∨
   (op.1 = "custom" ∧ 4 ≤ op.2.length ∧ 21 < le32 op.2 0))

theorem slice_length_le (b : Bytes) (a n : Nat) : (slice b a n).length ≤ n ∧ (slice b a n).length ≤ b.length - a := by
  unfold slice; simp only [List.length_take, List.length_drop]; omega

theorem getLast_len (s : Bytes) : ((if s.getLast? = some 0 then [s] else [s, [0]]) : List Bytes).flatten.length ≤ s.length + 1 := by
  split <;> simp

theorem mopImg_wf (p : Profile) (name : String) (blob : Bytes) (h : MOpOk (name, blob)) :
    ∃ img, opImg p name blob = .ok img ∧ WFImg img.asBytes := by
  obtain ⟨hL, h⟩ := h
  simp only at hL h
  have hL' : blob.length + 64 < 4294967296 := hL
  rcases h with ⟨c, hc, hn, hl⟩ | hn | hn | ⟨hn, h8, hgt⟩ | hn | ⟨hn, h24⟩ | ⟨hn, h12⟩ | ⟨hn, h8⟩ | hn | ⟨hn, h8, hne⟩ | ⟨hn, h4, hty⟩
  · obtain ⟨img, hi, _, hw⟩ := sized_ctor_wf c hc p blob hl
    refine ⟨img, ?_, hw⟩
    unfold opImg
    rw [← hn]
    simp only [C07.sizedCtors, List.mem_cons, List.mem_nil_iff, or_false] at hc
    rcases hc with h | h | h | h | h | h | h | h | h | h | h | h | h <;> subst h <;> rw [if_neg (by decide)] <;> exact hi
  · -- cmdline
    subst hn
    have hg := getLast_len blob
    obtain ⟨img, hi, _, _, hw⟩ := boxed_wf p 1 8 1 (if blob.getLast? = some 0 then [blob] else [blob, [0]])
      (by omega) (by omega) (Nat.mod_one _) (by omega)
    refine ⟨img, ?_, hw⟩
    unfold opImg; rw [if_neg (by decide)]
    simp only [ctorImpl, Kind.desc]; exact hi
  · -- loader
    subst hn
    have hg := getLast_len blob
    obtain ⟨img, hi, _, _, hw⟩ := boxed_wf p 2 8 1 (if blob.getLast? = some 0 then [blob] else [blob, [0]])
      (by omega) (by omega) (Nat.mod_one _) (by omega)
    refine ⟨img, ?_, hw⟩
    unfold opImg; rw [if_neg (by decide)]
    simp only [ctorImpl, Kind.desc]; exact hi
  · -- module
    subst hn
    have l0 : (slice blob 0 4).length = 4 := slice_length _ _ _ (by omega)
    have l4 : (slice blob 4 4).length = 4 := slice_length _ _ _ (by omega)
    have hfl : ((if (blob.drop 8).getLast? = some 0 then [slice blob 0 4, slice blob 4 4, blob.drop 8]
        else [slice blob 0 4, slice blob 4 4, blob.drop 8, [0]]) : List Bytes).flatten.length ≤ blob.length + 1 ∧
        8 ≤ ((if (blob.drop 8).getLast? = some 0 then [slice blob 0 4, slice blob 4 4, blob.drop 8]
        else [slice blob 0 4, slice blob 4 4, blob.drop 8, [0]]) : List Bytes).flatten.length := by
      split <;> simp [l0, l4] <;> omega
    obtain ⟨img, hi, _, _, hw⟩ := boxed_wf p 3 16 1 (if (blob.drop 8).getLast? = some 0 then [slice blob 0 4, slice blob 4 4, blob.drop 8]
        else [slice blob 0 4, slice blob 4 4, blob.drop 8, [0]]) (by omega) (by omega) (Nat.mod_one _) (by omega)
    refine ⟨img, ?_, hw⟩
    unfold opImg; rw [if_neg (by decide)]
    simp only [ctorImpl, Kind.desc]
    rw [if_neg (by omega)]; exact hi
  · -- mmap
    subst hn
    have hc := (chunk24_len blob).2
    have hfl : ([enc32 24, enc32 0, ((chunk24 blob).map fun a => a.take 20 ++ zeros 4).flatten] : List Bytes).flatten.length =
        8 + (chunk24 blob).length * 24 := by
      simp only [List.flatten_cons, List.flatten_nil, List.length_append, enc32_length, List.length_nil, mmap_areas_len]
      omega
    obtain ⟨img, hi, _, _, hw⟩ := boxed_wf p 6 16 24
      [enc32 24, enc32 0, ((chunk24 blob).map fun a => a.take 20 ++ zeros 4).flatten] (by omega) (by rw [hfl]; omega) (by rw [hfl]; omega)
      (by rw [hfl]; omega)
    refine ⟨img, ?_, hw⟩
    unfold opImg; rw [if_neg (by decide)]
    simp only [ctorImpl, Kind.desc]; exact hi
  · -- fb
    subst hn
    have key : ∀ slices : List Bytes, 24 ≤ slices.flatten.length → slices.flatten.length ≤ blob.length + 8 →
        ∃ img, boxedImg p 8 (dstDesc 32 1) slices = .ok img ∧ WFImg img.asBytes := fun sl h1 h2 => by
      obtain ⟨img, hi, _, _, hw⟩ := boxed_wf p 8 32 1 sl (by omega) (by omega) (Nat.mod_one _) (by omega)
      exact ⟨img, hi, hw⟩
    unfold opImg; rw [if_neg (by decide)]
    simp only [ctorImpl, Kind.desc]
    have l0 : (slice blob 0 8).length = 8 := slice_length _ _ _ (by omega)
    have l1 : (slice blob 8 4).length = 4 := slice_length _ _ _ (by omega)
    have l2 : (slice blob 12 4).length = 4 := slice_length _ _ _ (by omega)
    have l3 : (slice blob 16 4).length = 4 := slice_length _ _ _ (by omega)
    have s1 := slice_length_le (blob.drop 24) 2 (3 * (((blob.drop 24).length - 2) / 3))
    have hd : (blob.drop 24).length = blob.length - 24 := by simp
    apply key
    · simp only [List.flatten_cons, List.flatten_nil, List.length_append, l0, l1, l2, l3, List.length_cons, List.length_nil]
      omega
    · simp only [List.flatten_cons, List.flatten_nil, List.length_append, l0, l1, l2, l3, List.length_cons, List.length_nil]
      split
      · simp only [List.length_append, enc16_length]; omega
      · split
        · simp only [List.length_take]; omega
        · simp only [List.length_nil]; omega
  · -- elf
    subst hn
    have l0 : (slice blob 0 4).length = 4 := slice_length _ _ _ (by omega)
    have l1 : (slice blob 4 4).length = 4 := slice_length _ _ _ (by omega)
    have l2 : (slice blob 8 4).length = 4 := slice_length _ _ _ (by omega)
    have hfl : ([slice blob 0 4, slice blob 4 4, slice blob 8 4, blob.drop 12] : List Bytes).flatten.length = blob.length := by
      simp only [List.flatten_cons, List.flatten_nil, List.length_append, l0, l1, l2, List.length_drop, List.length_nil]; omega
    obtain ⟨img, hi, _, _, hw⟩ := boxed_wf p 9 20 1 [slice blob 0 4, slice blob 4 4, slice blob 8 4, blob.drop 12]
      (by omega) (by omega) (Nat.mod_one _) (by omega)
    refine ⟨img, ?_, hw⟩
    unfold opImg; rw [if_neg (by decide)]
    simp only [ctorImpl, Kind.desc]; exact hi
  · -- smbios
    subst hn
    have hfl : ([[UInt8.ofNat (u8At blob 0), UInt8.ofNat (u8At blob 1)], zeros 6, blob.drop 8] : List Bytes).flatten.length = blob.length := by
      simp only [List.flatten_cons, List.flatten_nil, List.length_append, List.length_cons, zeros, List.length_replicate,
        List.length_drop, List.length_nil]; omega
    obtain ⟨img, hi, _, _, hw⟩ := boxed_wf p 13 16 1 [[UInt8.ofNat (u8At blob 0), UInt8.ofNat (u8At blob 1)], zeros 6, blob.drop 8]
      (by omega) (by omega) (Nat.mod_one _) (by omega)
    refine ⟨img, ?_, hw⟩
    unfold opImg; rw [if_neg (by decide)]
    simp only [ctorImpl, Kind.desc]; exact hi
  · -- network
    subst hn
    have hfl : ([blob] : List Bytes).flatten.length = blob.length := by simp
    refine ⟨⟨16, none, 8 + blob.length, mbiHdr 16 (8 + blob.length) ++ blob, roundUp8 (8 + blob.length)⟩, ?_, ?_⟩
    · unfold opImg; rw [if_neg (by decide)]
      simp only [ctorImpl, Kind.desc, boxedImg]
      rw [newBoxed_network p 16 [blob] (by rw [hfl]; omega)]
      simp
    · exact sizedImg_wf 16 blob (by omega)
  · -- efimmap
    subst hn
    have l0 : (slice blob 0 4).length = 4 := slice_length _ _ _ (by omega)
    have l1 : (slice blob 4 4).length = 4 := slice_length _ _ _ (by omega)
    have hfl : ([slice blob 0 4, slice blob 4 4, blob.drop 8] : List Bytes).flatten.length = blob.length := by
      simp only [List.flatten_cons, List.flatten_nil, List.length_append, l0, l1, List.length_drop, List.length_nil]; omega
    obtain ⟨img, hi, _, _, hw⟩ := boxed_wf p 17 16 1 [slice blob 0 4, slice blob 4 4, blob.drop 8]
      (by omega) (by omega) (Nat.mod_one _) (by omega)
    refine ⟨img, ?_, hw⟩
    unfold opImg; rw [if_neg (by decide)]
    simp only [ctorImpl, Kind.desc]
    rw [if_neg hne]; exact hi
  · -- custom
    subst hn
    have hfl : ([blob.drop 4] : List Bytes).flatten.length = blob.length - 4 := by simp
    refine ⟨sizedImg (le32 blob 0) (8 + (blob.drop 4).length) (blob.drop 4), ?_, sizedImg_wf _ _ (by simp; omega)⟩
    unfold opImg; rw [if_pos rfl, if_neg (by omega)]
    simp only [boxedImg]
    rw [C16.newBoxed_generic_tag p _ [blob.drop 4] (by rw [hfl]; omega), setSize_mbiHdr]
    simp [sizedImg]

/-- builder-state invariant: every stored tag image is well-formed -/
def StWF (st : BState) : Prop := ∀ slot, ∀ img ∈ st.get slot, WFImg img.asBytes

theorem stwf_empty : StWF [] := by
  intro slot img h; simp [BState.get] at h

theorem stwf_put (st : BState) (slot : String) (multi : Bool) (img : Img) (h : StWF st) (hw : WFImg img.asBytes) :
    StWF (st.put slot multi img) := by
  intro s i hi
  by_cases hs : s = slot
  · subst hs
    rw [slot_put_same] at hi
    cases multi
    · simp at hi; subst hi; exact hw
    · simp at hi
      rcases hi with hi | hi
      · exact h s i hi
      · subst hi; exact hw
  · rw [slot_put_other st slot s multi img hs] at hi
    exact h s i hi

/-- a builder never panics on operations whose constructor succeeds with a well-formed image, and every stored image
    stays well-formed (induction over the call history) -/
theorem runOps_wf_of (p : Profile) (slots : List (String × Bool)) (ok : String × Bytes → Prop)
    (hok : ∀ op, ok op → ∃ img, opImg p op.1 op.2 = .ok img ∧ WFImg img.asBytes)
    (ops : List (String × Bytes)) (hops : ∀ op ∈ ops, ok op) :
    ∀ st, StWF st → ∃ st', runOps p slots st ops = .ok st' ∧ StWF st' := by
  induction ops with
  | nil => intro st h; exact ⟨st, rfl, h⟩
  | cons op rest ih =>
    intro st h
    obtain ⟨img, hi, hw⟩ := hok op (hops op (by simp))
    obtain ⟨name, blob⟩ := op
    simp only at hi
    unfold runOps
    rw [hi]
    exact ih (fun o ho => hops o (by simp [ho])) _ (stwf_put st name _ img h hw)

/-- C06 END TO END (model): for EVERY sequence of accepted builder operations (any of the 22 slots, any argument values
    meeting the constructors' documented preconditions, any order, any repetitions), `Builder::build` stores per slot the
    image(s) of the calls (last call for `Option` slots, all calls in order for the repeatable ones), every stored image
    is well-formed, and - unless the result would exceed the 32-bit size field - the built structure
    (a) is produced without panic with allocation size = total size = deallocation size, 8-aligned;
    (b) has a first word equal to its byte count, a multiple of 8;
    (c) loads successfully; and
    (d) its tag walk yields exactly the stored tags, in slot order, followed by exactly one end tag. -/
theorem buildMbi_wellformed (p : Profile) (ops : List (String × Bytes)) (hops : ∀ op ∈ ops, MOpOk op) :
    ∃ st, runOps p mbiSlots [] ops = .ok st ∧
      let imgs := (mbiSlots.flatMap fun s => st.get s.1).map Img.asBytes
      (∀ b ∈ imgs, WFImg b) ∧
      (imgs.flatten.length + 16 < 2^32 →
        let total := 8 + imgs.flatten.length + 8
        let bytes := enc32 total ++ enc32 0 ++ (imgs.flatten ++ endImg)
        buildMbi p ops = .ok ⟨bytes, total, 8, total⟩ ∧
        bytes.length = total ∧ total % 8 = 0 ∧
        load p false bytes = .ok (.ok ⟨0, total, total⟩) ∧
        Spec.tagsOf .tag ((bytes.take total).drop 8) =
          (itemsOf .tag imgs 0 ++ [⟨imgs.flatten.length, 0, 8, 0⟩], .done)) := by
  obtain ⟨st, hrun, hst⟩ := runOps_wf_of p mbiSlots MOpOk (fun op h => mopImg_wf p op.1 op.2 h) ops hops [] stwf_empty
  refine ⟨st, hrun, ?_⟩
  intro imgs
  have hwf : ∀ b ∈ imgs, WFImg b := by
    intro b hb
    simp only [imgs, List.mem_map, List.mem_flatMap] at hb
    obtain ⟨img, ⟨s, _, hi⟩, rfl⟩ := hb
    exact hst s.1 img hi
  refine ⟨hwf, ?_⟩
  intro hlen total bytes
  obtain ⟨h1, h2, h3, h4, h5⟩ := build_wellformed p imgs hwf hlen
  refine ⟨?_, h2, h3, h4, ?_⟩
  · unfold buildMbi
    rw [hrun]
    exact h1
  · rw [h5]
    exact built_area_walk .tag endImg rfl (by decide) imgs hwf

/-! Non-vacuity: a concrete accepted operation sequence builds -/
example : MOpOk ("meminfo", [1,0,0,0, 2,0,0,0]) := ⟨by simp, Or.inl ⟨("meminfo", .meminfo, 8), by simp [C07.sizedCtors], rfl, by simp⟩⟩
example : (buildMbi .dev [("meminfo", [1,0,0,0, 2,0,0,0]), ("cmdline", [104, 105])]).isOk = true := by decide

end Mb2.C06
