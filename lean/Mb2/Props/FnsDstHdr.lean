/-
  Mb2.Props.FnsDstHdr — SOURCE = MODEL (part of the function-body tie, see `Mb2/Props/FnsBase.lean` and `Mb2/Rir.lean`).
  Theorems about terms GENERATED from /repo's working tree by tools/gen_fns.py (`Mb2/Gen/Fns.lean`).
-/

import Mb2.Props.FnsBase
open Mb2 Mb2.Rir

namespace Mb2.Fns

theorem dst_len_information_request_eq (p : Profile) (size : Nat) (hs : size < W32) :
    evalO p [.int .u32 size] Gen.Fns.dst_len_information_request =
      some (intRes .usize ((HKind.desc .inforeq).dstLen p size)) := by
  simp [evalO, Gen.Fns.dst_len_information_request, eval, binop, arith, castV, mod_W64_of_lt_W32 hs, HKind.desc, infoReqDesc]
  cases h : usub p W64 size 8 with
  | ok d => simp; by_cases hr : d % 4 = 0 <;> simp [hr]
  | panic => simp
  | oob => rfl
  | ub => rfl

end Mb2.Fns
