/-
  Mb2.Props.FnsTblEfi — SOURCE = MODEL, whole impl blocks as tables (tools/gen_fns.py IMPL_TABLES -> `Gen.Fns.tbl_*`).
  Each theorem compares the table GENERATED from /repo's working tree - every function of the impl block in source order,
  its return type, its translated body and the inputs the body depends on - with the expected one: a forwarder that names
  another tag type or field, a changed body, and any function added to or removed from the block breaks it.
-/

import Mb2.Props.FnsTblBase
import Mb2.Props.FnsCtor
open Mb2 Mb2.Rir

namespace Mb2.Fns

set_option maxRecDepth 8000
set_option linter.unusedSimpArgs false

-- BEGIN TABLES (generated once by a script from the unchanged tree, then REVIEWED row by row)
theorem tbl_efi_iter_eq : Gen.Fns.tbl_efi_iter = some [
  ("next->Option<&'aEFIMemoryDesc>", "covered", none, [], []),
  ("size_hint->(usize,Option<usize>)", "ir", some (.letIn 101 (.bin .sub (.var 0) (.var 1)) (.pair (.var 101) (.c1 "Some" (.var 101)))), ["self.entries", "self.i"], [])] := rfl

theorem tbl_efi_tag_eq : Gen.Fns.tbl_efi_tag = some [
  ("new_from_descs->Box<Self>", "ir", some (.letIn 101 (.var 0) (.var 1)), ["slice::from_raw_parts(ptr,len)", "Self::new_from_map(size_of::<EFIMemoryDesc>()as u32,EFIMemoryDesc::VERSION,efi_mmap,)"], ["let ptr=descs.as_ptr().cast::<u8>()", "let len=size_of_val(descs)"]),
  ("new_from_map->Box<Self>", "ir", some (.letIn 101 (.pair (.lit 17) (.cast (.lit 0) .u32)) (.ite (.bin .ne (.var 0) (.lit 0)) (.c1 "new_boxed" (.pair (.var 101) (.pair (.var 1) (.pair (.var 2) (.var 3))))) .panic)), ["desc_size", "desc_size.to_ne_bytes()", "desc_version.to_ne_bytes()", "efi_mmap"], ["let desc_size=desc_size.to_ne_bytes()", "let desc_version=desc_version.to_ne_bytes()"]),
  ("memory_areas->EFIMemoryAreaIter", "covered", none, [], [])] := rfl

theorem tbl_mmap_tag_eq : Gen.Fns.tbl_mmap_tag = some [
  ("new->Box<Self>", "ir", some (.letIn 101 (.pair (.lit 6) (.cast (.lit 0) .u32)) (.letIn 102 (.var 0) (.c1 "new_boxed" (.pair (.var 101) (.pair (.var 1) (.pair (.var 2) (.var 102))))))), ["slice::from_raw_parts(ptr,len)", "(size_of::<MemoryArea>()as u32).to_ne_bytes()", "0_u32.to_ne_bytes()"], ["let entry_size=(size_of::<MemoryArea>()as u32).to_ne_bytes()", "let entry_version=0_u32.to_ne_bytes()", "let ptr=areas.as_ptr().cast::<u8>()", "let len=size_of_val(areas)"]),
  ("entry_size->u32", "ir", some (.var 0), ["self.entry_size"], []),
  ("entry_version->u32", "ir", some (.var 0), ["self.entry_version"], []),
  ("memory_areas->&[MemoryArea]", "covered", none, [], [])] := rfl

theorem tbl_memory_area_eq : Gen.Fns.tbl_memory_area = some [
  ("new->Self", "ir", some (.pair (.var 0) (.pair (.var 1) (.pair (.var 2) (.lit 0)))), ["base_addr", "length", "typ.into()"], []),
  ("start_address->u64", "ir", some (.var 0), ["self.base_addr"], []),
  ("end_address->u64", "covered", none, [], []),
  ("size->u64", "ir", some (.var 0), ["self.length"], []),
  ("typ->MemoryAreaTypeId", "ir", some (.var 0), ["self.typ"], [])] := rfl

theorem tbl_efibs_eq : Gen.Fns.tbl_efibs = some [
  ("new->Self", "ir", some (.var 0), ["Self::default()"], [])] := rfl
-- END TABLES

/-! ### what the pinned rows mean -/

/-- `size_hint()` = `(entries - i, Some(entries - i))` = the model's `EfiIter.len`, never a panic while `i <= entries` -/
theorem efi_iter_size_hint_eq (p : Profile) (it : EfiIter) (h : it.i ≤ it.entries) :
    evalO p [.int .usize it.entries, .int .usize it.i] (tblRow Gen.Fns.tbl_efi_iter "size_hint->(usize,Option<usize>)") =
      some (.ok (.pair (.int .usize it.len) (.c1 "Some" (.int .usize it.len)))) := by
  rw [tbl_efi_iter_eq]
  simp [tblRow, List.find?, evalO, eval, binop, arith, usub, h, EfiIter.len, set_other]

/-- `EFIMemoryMapTag::new_from_map`: panics on a zero descriptor size, else header (type 17) and the content slices in
    the order of the struct: descriptor size, descriptor version, map bytes -/
theorem efi_new_from_map_eq (p : Profile) (d : Nat) (ds dv m : V) :
    evalO p [.int .u32 d, ds, dv, m] (tblRow Gen.Fns.tbl_efi_tag "new_from_map->Box<Self>") =
      some (if d ≠ 0 then .ok (.c1 "new_boxed" (.pair (mbiHdrV (Kind.typ .efiMmap) 0) (.pair ds (.pair dv m)))) else .panic) ∧
    tblVars Gen.Fns.tbl_efi_tag "new_from_map->Box<Self>" =
      ["desc_size", "desc_size.to_ne_bytes()", "desc_version.to_ne_bytes()", "efi_mmap"] := by
  rw [tbl_efi_tag_eq]
  by_cases h : d = 0 <;>
    simp [tblRow, tblVars, List.find?, evalO, eval, castV, binop, arith, set_other, mbiHdrV, Kind.typ, w32_small, h]

/-- `MemoryMapTag::new`: header (type 6), then entry size (`size_of::<MemoryArea>()`), entry version 0, the areas -/
theorem mmap_new_eq (p : Profile) (areas es ev : V) :
    evalO p [areas, es, ev] (tblRow Gen.Fns.tbl_mmap_tag "new->Box<Self>") =
      some (.ok (.c1 "new_boxed" (.pair (mbiHdrV (Kind.typ .mmap) 0) (.pair es (.pair ev areas))))) ∧
    tblVars Gen.Fns.tbl_mmap_tag "new->Box<Self>" =
      ["slice::from_raw_parts(ptr,len)", "(size_of::<MemoryArea>()as u32).to_ne_bytes()", "0_u32.to_ne_bytes()"] := by
  rw [tbl_mmap_tag_eq]
  simp [tblRow, tblVars, List.find?, evalO, eval, castV, set_other, mbiHdrV, Kind.typ, w32_small]

end Mb2.Fns
