/-
  C18 — EFI memory-map iteration honours descriptor stride, count and bounds.
  `T` is the permitted extent of the tag (`roundUp8 size` bytes), `v.n = size − 16` the map length `L`.
-/
import Mb2.Props.FnsTblFixed
import Mb2.Props.FnsTblEfi
import Mb2.Props.FnsGetters
import Mb2.Props.FnsDstMbi
import Mb2.Props.FnsEfi
import Mb2.Tags
import Mb2.Lemmas.Arith
namespace Mb2.C18
open Mb2

/-- `memory_areas()` succeeds exactly for version 1, a descriptor size ≥ 40 that is a multiple of 8 and divides the map
    length; then it reports `L / d` entries; every other combination is a controlled panic (never a fault). -/
theorem accept_iff (T : Bytes) (v : View) (hT : 16 ≤ T.length) :
    efiEntries T v =
      (if le32 T 12 = 1 ∧ le32 T 8 ≥ 40 ∧ le32 T 8 % 8 = 0 ∧ v.n % le32 T 8 = 0
       then .ok (le32 T 8, v.n / le32 T 8) else .panic) := by
  unfold efiEntries rd32
  rw [if_pos (by omega), if_pos (by omega)]
  simp only [Res.bind_ok]
  by_cases h1 : le32 T 12 ≠ 1
  · rw [if_pos h1, if_neg (by omega)]
  · rw [if_neg h1]
    by_cases h2 : le32 T 8 < 40
    · rw [if_pos h2, if_neg (by omega)]
    · rw [if_neg h2]
      by_cases h3 : le32 T 8 % 8 ≠ 0
      · rw [if_pos h3, if_neg (by omega)]
      · rw [if_neg h3]
        by_cases h4 : v.n % le32 T 8 ≠ 0
        · rw [if_pos h4, if_neg (by omega)]
        · rw [if_neg h4, if_pos (by omega)]

/-- the `i`-th descriptor is decoded from the 40 bytes at map offset `i·d`; it lies inside the map (hence inside the
    tag), is 8-aligned, and reading it never leaves the tag -/
theorem desc_inside (T : Bytes) (v : View) (ds cnt i : Nat)
    (hT : 16 + v.n ≤ T.length) (hds : 40 ≤ ds) (h8 : ds % 8 = 0) (hcnt : cnt * ds = v.n) (hi : i < cnt) :
    ∃ d, efiDesc T ds i = .ok d ∧ d.off = 16 + i * ds ∧ d.off % 8 = 0 ∧ d.off + 40 ≤ 16 + v.n ∧
      d.ty = le32 T (16 + i * ds) ∧ d.phys = le64 T (16 + i * ds + 8) ∧ d.virt = le64 T (16 + i * ds + 16) ∧
      d.pages = le64 T (16 + i * ds + 24) ∧ d.att = le64 T (16 + i * ds + 32) := by
  have hb : (i + 1) * ds ≤ cnt * ds := Nat.mul_le_mul_right ds hi
  have he : (i + 1) * ds = i * ds + ds := by rw [Nat.add_mul, Nat.one_mul]
  have hm : (i * ds) % 8 = 0 := by
    rw [Nat.mul_mod, h8, Nat.mul_zero, Nat.zero_mod]
  unfold efiDesc rd32 rd64
  simp only
  rw [if_pos (by omega)]
  simp only [Res.bind_ok]
  rw [if_pos (by omega)]
  simp only [Res.bind_ok]
  rw [if_pos (by omega)]
  simp only [Res.bind_ok]
  rw [if_pos (by omega)]
  simp only [Res.bind_ok]
  rw [if_pos (by omega)]
  simp only [Res.bind_ok, Res.pure_eq]
  refine ⟨_, rfl, rfl, ?_, ?_, rfl, rfl, rfl, rfl, rfl⟩ <;> simp only <;> omega

/-- the reported remaining length after `k` calls of `next` is the number of items still to come -/
theorem len_after (T : Bytes) (it : EfiIter) (h : it.i ≤ it.entries) (k : Nat) :
    (it.after T k).len = it.len - k ∧ (it.after T k).i ≤ (it.after T k).entries := by
  induction k generalizing it with
  | zero => exact ⟨by simp [EfiIter.after], h⟩
  | succ k ih =>
    unfold EfiIter.after
    by_cases hge : it.i ≥ it.entries
    · have e : (it.next T).2 = it := by unfold EfiIter.next; rw [if_pos hge]
      rw [e]
      have := ih it h
      refine ⟨?_, this.2⟩
      rw [this.1]; unfold EfiIter.len; omega
    · have e : (it.next T).2 = { it with i := it.i + 1 } := by unfold EfiIter.next; rw [if_neg hge]
      rw [e]
      have := ih { it with i := it.i + 1 } (by simp; omega)
      refine ⟨?_, this.2⟩
      rw [this.1]; unfold EfiIter.len; simp; omega

/-- iteration yields exactly `entries` items and then `None` forever: the `k`-th call yields an item iff `k < entries` -/
theorem next_some_iff (T : Bytes) (it : EfiIter) : ((it.next T).1 = .ok none) ↔ it.i ≥ it.entries ∨ (it.i < it.entries ∧ (do let d ← efiDesc T it.ds it.i; pure (some d) : Res (Option EfiDesc)) = .ok none) := by
  unfold EfiIter.next
  by_cases h : it.i ≥ it.entries
  · rw [if_pos h]; simp [h]
  · rw [if_neg h]; simp [h]; omega

/-- the iterator started by `memory_areas()` has `i = 0`; its state after `k` calls is `i = min k entries` -/
theorem index_after (T : Bytes) (it : EfiIter) (h : it.i ≤ it.entries) (k : Nat) :
    (it.after T k).i = min (it.i + k) it.entries ∧ (it.after T k).entries = it.entries ∧ (it.after T k).ds = it.ds := by
  induction k generalizing it with
  | zero => simp [EfiIter.after]; omega
  | succ k ih =>
    unfold EfiIter.after
    by_cases hge : it.i ≥ it.entries
    · have e : (it.next T).2 = it := by unfold EfiIter.next; rw [if_pos hge]
      rw [e]
      have := ih it h
      refine ⟨?_, this.2⟩
      rw [this.1]; omega
    · have e : (it.next T).2 = { it with i := it.i + 1 } := by unfold EfiIter.next; rw [if_neg hge]
      rw [e]
      have := ih { it with i := it.i + 1 } (by simp; omega)
      simp only at this
      refine ⟨?_, this.2⟩
      rw [this.1]; omega

/-- Iteration yields EXACTLY `entries` descriptors: the `(k+1)`-th call of `next` (after `k` calls on a fresh iterator)
    returns the descriptor decoded at map offset `k·d` when `k < entries`, and `None` - forever - when `k ≥ entries`. -/
theorem kth_next (T : Bytes) (ds entries k : Nat) :
    let it : EfiIter := ⟨ds, 0, entries⟩
    ((it.after T k).next T).1 =
      (if k < entries then (do let d ← efiDesc T ds k; pure (some d)) else .ok none) := by
  intro it
  have h := index_after T it (Nat.zero_le _) k
  have hz : it.i + k = k := by show 0 + k = k; omega
  rw [hz] at h
  have he : it.entries = entries := rfl
  have hd : it.ds = ds := rfl
  rw [he, hd] at h
  unfold EfiIter.next
  rw [h.1, h.2.1, h.2.2]
  by_cases c : k < entries
  · have hm : min k entries = k := by omega
    rw [hm, if_neg (by omega), if_pos c]
  · have hm : min k entries = entries := by omega
    rw [hm, if_pos (by omega), if_neg c]

/-! Non-vacuity -/
example : efiEntries ([17,0,0,0, 56,0,0,0, 40,0,0,0, 1,0,0,0] ++ List.replicate 40 7) ⟨0, 56, 56, 40⟩ = .ok (40, 1) := by decide
example : efiEntries ([17,0,0,0, 24,0,0,0, 8,0,0,0, 1,0,0,0] ++ List.replicate 8 7) ⟨0, 24, 24, 8⟩ = .panic := by decide

end Mb2.C18
