/-
  C16 — Heap construction lays out header and content exactly; cloning is the identity.
-/
import Mb2.Props.FnsTblTags
import Mb2.Props.FnsTblElf
import Mb2.Props.FnsTblEfi
import Mb2.Props.FnsBoxed
import Mb2.Props.FnsCast
import Mb2.Build
import Mb2.Lemmas.Build
namespace Mb2.C16
open Mb2

/-- what `new_boxed` produces depends on the content slices only through their concatenation: ANY partition of the
    same content into slices gives the same object (no gaps, no reordering) -/
theorem partition_irrelevant (p : Profile) (k : HK) (desc : TyDesc) (hdr : Bytes) (s1 s2 : List Bytes)
    (h : s1.flatten = s2.flatten) : newBoxed p k desc hdr s1 = newBoxed p k desc hdr s2 := by
  unfold newBoxed
  simp only [h]

/-- Content law for information tags (`TagHeader`), generic target type, ANY header image: the header with its size
    field set to `8 + total content length`, then the concatenated content; 8-aligned allocation of that total rounded
    up to 8; the box is later freed with exactly the layout it was allocated with (deallocation size = `size_of_val` =
    allocation size). Never a panic. -/
theorem newBoxed_generic_tag (p : Profile) (hdr : Bytes) (slices : List Bytes) (hlen : slices.flatten.length < 2^62) :
    newBoxed p .tag (genericDesc .tag) hdr slices =
      .ok ⟨setSize .tag hdr (8 + slices.flatten.length) ++ slices.flatten, roundUp8 (8 + slices.flatten.length), 8,
           roundUp8 (8 + slices.flatten.length)⟩ := by
  have hL : slices.flatten.length < 4611686018427387904 := hlen
  have hW := W64_eq
  unfold newBoxed
  simp only
  have hh : HK.tag.hsize = 8 := rfl
  rw [hh, incAlign_eq p _ (by omega)]
  simp only [Res.bind_ok]
  have hd : (genericDesc .tag).dstLen p (8 + slices.flatten.length) = .ok (slices.flatten.length) := by
    simp only [genericDesc, payloadLen]; rw [if_pos (by omega)]; congr 1; omega
  rw [hd]
  simp only [Res.bind_ok]
  have hs : (genericDesc .tag).sizeOfVal slices.flatten.length = roundUp8 (8 + slices.flatten.length) := by
    simp only [genericDesc, TyDesc.sizeOfVal, HK.hsize, roundUp, roundUp8]
    have e2 : 8 + slices.flatten.length * 1 + 8 - 1 = 8 + slices.flatten.length + 7 := by omega
    rw [e2]
  rw [hs, if_neg (by simp)]
  rfl

/-- allocation and deallocation layouts always coincide when `new_boxed` returns at all (any header kind, any type) -/
theorem dealloc_eq_alloc (p : Profile) (k : HK) (desc : TyDesc) (hdr : Bytes) (slices : List Bytes) (b : Boxed)
    (h : newBoxed p k desc hdr slices = .ok b) : b.deallocSize = b.allocSize ∧ b.align = 8 ∧ b.allocSize % 8 = 0 := by
  unfold newBoxed at h
  simp only at h
  cases hi : incAlign p (k.hsize + slices.flatten.length) with
  | ok alloc =>
    rw [hi] at h
    simp only [Res.bind_ok] at h
    cases hd : desc.dstLen p (k.hsize + slices.flatten.length) with
    | ok n =>
      rw [hd] at h
      simp only [Res.bind_ok] at h
      by_cases c : desc.sizeOfVal n ≠ alloc
      · rw [if_pos c] at h; cases h
      · rw [if_neg c] at h
        simp only [Res.pure_eq] at h
        injection h with h
        subst h
        refine ⟨by simp only; omega, rfl, ?_⟩
        simp only
        unfold incAlign at hi
        cases hu : uadd p W64 (k.hsize + slices.flatten.length) 7 with
        | ok s => rw [hu] at hi; simp only [Res.bind_ok, Res.pure_eq] at hi; injection hi with hi; rw [← hi]; unfold roundDown8; omega
        | panic => rw [hu] at hi; cases hi
        | oob => rw [hu] at hi; cases hi
        | ub => rw [hu] at hi; cases hi
    | panic => rw [hd] at h; cases h
    | oob => rw [hd] at h; cases h
    | ub => rw [hd] at h; cases h
  | panic => rw [hi] at h; cases h
  | oob => rw [hi] at h; cases h
  | ub => rw [hi] at h; cases h

/-- Cloning an information tag (declared size ≥ 8, in-memory extent `T` of `roundUp8 size` bytes) yields an equal tag:
    same declared size, same bytes up to that size - the padding is NOT cloned into the content. -/
theorem clone_identity (p : Profile) (T : Bytes) (size : Nat) (hs : 8 ≤ size) (hT : T.length = roundUp8 size)
    (hsz : le32 T 4 = size) (hlen : size < 2^32) :
    ∃ b, cloneDyn p .tag (genericDesc .tag) T = .ok b ∧ b.bytes.length = size ∧ le32 b.bytes 4 = size ∧
      b.bytes.drop 8 = slice T 8 (size - 8) ∧ b.bytes.take 4 = T.take 4 ∧ b.allocSize = roundUp8 size := by
  have g := roundUp8_ge size
  have hL : size < 4294967296 := hlen
  have hW := W64_eq
  unfold cloneDyn rd32
  rw [if_pos (show HK.tag.sizeOff + 4 ≤ T.length by simp [HK.sizeOff]; omega)]
  simp only [Res.bind_ok]
  rw [show le32 T HK.tag.sizeOff = size from hsz]
  have hpl : payloadLen p .tag size = .ok (size - 8) := by simp only [payloadLen]; rw [if_pos (by omega)]
  rw [hpl]
  simp only [Res.bind_ok]
  rw [if_neg (show ¬ size - 8 > T.length - HK.tag.hsize by simp [HK.hsize]; omega)]
  simp only [HK.hsize]
  have hsl : (slice T 8 (size - 8)).length = size - 8 := slice_length T 8 (size - 8) (by omega)
  have hfl : ([slice T 8 (size - 8)] : List Bytes).flatten.length = size - 8 := by simp [hsl]
  rw [newBoxed_generic_tag p (T.take 8) [slice T 8 (size - 8)] (by rw [hfl]; omega)]
  have hflat : ([slice T 8 (size - 8)] : List Bytes).flatten = slice T 8 (size - 8) := by simp
  rw [hflat, hsl]
  have e0 : 8 + (size - 8) = size := by omega
  rw [e0]
  have ht : (T.take 8).length = 8 := by simp [List.length_take]; omega
  have hp : (List.take 4 (List.take 8 T)).length = 4 := by simp [List.length_take]; omega
  have hpre : (List.take 4 (List.take 8 T) ++ enc32 size ++ List.drop (4 + 4) (List.take 8 T)).length = 8 := by
    simp [List.length_take, enc32_length]; omega
  refine ⟨_, rfl, ?_, ?_, ?_, ?_, rfl⟩
  · simp only [setSize, HK.sizeOff, List.length_append, hpre, hsl]; omega
  · simp only [setSize, HK.sizeOff]
    rw [List.append_assoc, List.append_assoc]
    have := le32_append_right (List.take 4 (List.take 8 T)) (enc32 size ++ (List.drop (4 + 4) (List.take 8 T) ++ slice T 8 (size - 8))) 0
    rw [hp] at this
    rw [this, le32_enc32]; omega
  · simp only [setSize, HK.sizeOff]
    rw [List.drop_append_of_le_length (by omega)]
    rw [List.drop_of_length_le (by omega)]
    simp
  · simp only [setSize, HK.sizeOff]
    rw [List.append_assoc, List.append_assoc, List.take_append_of_le_length (by omega)]
    simp [List.take_take]

/-! Non-vacuity: a 14-byte tag clones to a 14-byte tag (the two padding bytes are not part of the clone's content) -/
example : (cloneDyn .dev .tag (genericDesc .tag) [1,0,0,0, 14,0,0,0, 1,2,3,4,5,6, 9,9]).isOk = true := by decide
example : newBoxed .dev .tag (genericDesc .tag) (mbiHdr 7 0) [[1],[2,3]] =
    .ok ⟨[7,0,0,0, 11,0,0,0, 1,2,3], 16, 8, 16⟩ := by decide

end Mb2.C16
