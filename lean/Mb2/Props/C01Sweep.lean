import Mb2.Lemmas.Obs
import Mb2.Props.C01Parts
import Mb2.Props.C02
import Mb2.Props.C05
namespace Mb2.C01
open Mb2 Sweep

/-- what `get_tag` establishes about a typed view (collected from C03 / C15) -/
structure GoodView (p : Profile) (area : Bytes) (k : Kind) (v : View) : Prop where
  size8 : 8 ≤ v.size
  sov : v.sov = roundUp8 v.size
  fit : v.off + v.sov ≤ area.length
  len : (v.bytes area).length = v.sov
  cast : castTo p .tag k.desc v.size (v.size - 8) = .ok (v.sov, v.n)

theorem goodView_of_getTag (p : Profile) (area : Bytes) (k : Kind) (v : View)
    (hb : area.length % 8 = 0) (hlen : area.length < 2^62) (h : getTag p area k = .ok (some v)) :
    GoodView p area k v := by
  obtain ⟨it, hmem, hoff, hsize, _, hcast⟩ := C15.getTag_same_address p area k v h
  rw [C03.tags_eq_spec p .tag (Or.inl rfl) area hb hlen] at hmem
  have hi := C03.walk_items_inside .tag area _ 0 (by omega) it hmem
  obtain ⟨_, _, h3, _, h5, _, _⟩ := hi
  rw [h5, hsize] at hcast
  obtain ⟨_, hs8, hsov, hfit, hl⟩ := view_inside_tag p area k v hb hlen h
  exact ⟨hs8, hsov, hfit, hl, hcast⟩

theorem sizeOfVal_ge_fixed (k : Kind) (n : Nat) : k.desc.fixed ≤ k.desc.sizeOfVal n := by
  cases k <;> simp only [Kind.desc, sizedDesc, dstDesc, networkDesc, TyDesc.sizeOfVal, roundUp] <;> omega

theorem GoodView.fixed_le {p area k v} (g : GoodView p area k v) : k.desc.fixed ≤ v.sov := by
  have := (C15.cast_size p .tag k.desc v.size (v.size - 8) v.sov v.n g.cast).2.2.2
  rw [this]; exact sizeOfVal_ge_fixed k v.n

theorem GoodView.size_le {p area k v} (g : GoodView p area k v) : v.size ≤ v.sov := by
  rw [g.sov]; exact roundUp8_ge _

theorem GoodView.declared_len {p area k v} (g : GoodView p area k v) : (declared (v.bytes area) v).length = v.size := by
  unfold declared
  rw [List.length_take, g.len]
  have := g.size_le
  omega

theorem GoodView.fields {p area k v} (g : GoodView p area k v) : Obs.NoFault (fields (v.bytes area) k.fields) :=
  noFault_fields _ _ (fields_no_fault area k v g.fit g.fixed_le)

/-- a dynamically sized kind: the tail is exactly `[base, size)` -/
theorem GoodView.dst {p area k v} (g : GoodView p area k v) (base e : Nat) (hk : k.desc = dstDesc base e) (he : 0 < e)
    (hb8 : 8 ≤ base) : base ≤ v.size ∧ base + v.n * e = v.size := by
  have hc := g.cast
  rw [hk] at hc
  have := C05.dst_extent_ends_at_size p base e v.size v.sov v.n he g.size8 hb8 hc
  exact ⟨this.1, this.2.1⟩


/-! ### the bodies of the individual getters -/

theorem noFault_strS (T : Bytes) (v : View) (fixed n : Nat) (h : fixed + n ≤ (declared T v).length) :
    Obs.NoFault (strS T v fixed n) := by
  unfold strS
  exact noFault_resS_ok _ _ ⟨_, rdSlice_ok _ _ _ h⟩

theorem noFault_utf8S (T : Bytes) (v : View) (o n : Nat) (h : o + n ≤ T.length) : Obs.NoFault (utf8S T v o n) := by
  unfold utf8S
  exact noFault_resS_ok _ _ ⟨_, rdSlice_ok _ _ _ h⟩

theorem noFault_efiS (T : Bytes) (v : View) (hT : 16 + v.n ≤ T.length) : Obs.NoFault (efiS T v) := by
  unfold efiS
  refine noFault_append (noFault_append (noFault_t _) ?_) (noFault_t _)
  rw [C18.accept_iff T v (by omega)]
  by_cases c : le32 T 12 = 1 ∧ le32 T 8 ≥ 40 ∧ le32 T 8 % 8 = 0 ∧ v.n % le32 T 8 = 0
  · rw [if_pos c]
    show Obs.NoFault (t _ ++ _ ++ t _)
    refine noFault_append (noFault_append (noFault_t _) ?_) (noFault_t _)
    apply noFault_flatten_map
    intro i hi
    have hi' := List.mem_range.mp hi
    have hc : v.n / le32 T 8 * le32 T 8 = v.n := Nat.div_mul_cancel (Nat.dvd_of_mod_eq_zero c.2.2.2)
    obtain ⟨d, hd, _⟩ := C18.desc_inside T v (le32 T 8) (v.n / le32 T 8) i hT c.2.1 c.2.2.1 hc hi'
    exact noFault_resS_ok _ _ ⟨d, hd⟩
  · rw [if_neg c]; exact noFault_t _

theorem elfIter_end (T : Bytes) (v : View) (hT : 20 + v.n ≤ T.length) (num es : Nat) (h : elfOpen T v = .ok (num, es)) :
    (elfIter T es num 20).2 = .done ∨ (elfIter T es num 20).2 = .bad := by
  by_cases hes : es = 40 ∨ es = 64
  · left; exact (C19.sections_inside_tag T v hT num es h hes).1
  · have h40 : es ≠ 40 := fun e => hes (Or.inl e)
    have h64 : es ≠ 64 := fun e => hes (Or.inr e)
    cases num with
    | zero => left; rfl
    | succ n => right; rw [C19.iter_bad_size T es n 20 h40 h64]

theorem elfOpen_no_fault (T : Bytes) (v : View) (hT : 20 ≤ T.length) : elfOpen T v ≠ .oob ∧ elfOpen T v ≠ .ub := by
  rw [C19.open_iff T v hT]
  split <;> exact ⟨by simp, by simp⟩

theorem noFault_elfBody (T : Bytes) (v : View) (hT : 20 + v.n ≤ T.length) :
    Obs.NoFault (resO (fun (x : Nat × Nat) => t ("[" ++ String.join ((elfIter T x.2 x.1 20).1.map elfSecS)) ++ endS (elfIter T x.2 x.1 20).2)
      (elfOpen T v)) := by
  have hn := elfOpen_no_fault T v (by omega)
  apply noFault_resO _ _ hn.1 hn.2
  intro a ha
  obtain ⟨num, es⟩ := a
  have he := elfIter_end T v hT num es ha
  refine noFault_append (noFault_t _) (noFault_endS _ ?_ ?_)
  · rcases he with h | h <;> rw [h] <;> simp
  · rcases he with h | h <;> rw [h] <;> simp


/-- an outcome that is a value or a controlled panic -/
def Safe {α} (r : Res α) : Prop := r ≠ .oob ∧ r ≠ .ub

theorem safe_ok {α} (a : α) : Safe (Res.ok a) := ⟨by simp, by simp⟩
theorem safe_panic {α} : Safe (Res.panic : Res α) := ⟨by simp, by simp⟩
theorem safe_bind {α β} (x : Res α) (f : α → Res β) (hx : Safe x) (hf : ∀ a, x = .ok a → Safe (f a)) : Safe (x >>= f) := by
  cases x with
  | ok a => rw [Res.bind_ok]; exact hf a rfl
  | panic => rw [Res.bind_panic]; exact safe_panic
  | oob => exact absurd rfl hx.1
  | ub => exact absurd rfl hx.2
theorem safe_of_ok {α} {r : Res α} (h : ∃ a, r = .ok a) : Safe r := by obtain ⟨a, rfl⟩ := h; exact safe_ok a
theorem safe_of_or {α} {r : Res α} (h : r = .panic ∨ ∃ a, r = .ok a) : Safe r := by
  rcases h with h | h
  · rw [h]; exact safe_panic
  · exact safe_of_ok h

theorem safe_rd8 (T : Bytes) (o : Nat) (h : o + 1 ≤ T.length) : Safe (rd8 T o) := by unfold rd8; rw [if_pos h]; exact safe_ok _
theorem safe_rd32 (T : Bytes) (o : Nat) (h : o + 4 ≤ T.length) : Safe (rd32 T o) := by unfold rd32; rw [if_pos h]; exact safe_ok _
theorem safe_rd64 (T : Bytes) (o : Nat) (h : o + 8 ≤ T.length) : Safe (rd64 T o) := by unfold rd64; rw [if_pos h]; exact safe_ok _

theorem safe_fbByte (T : Bytes) (n i : Nat) (hT : 32 + n ≤ T.length) : Safe (fbByte T n i) :=
  safe_of_or (fb_byte_no_fault T n i hT)

theorem fbBufferType_safe (T : Bytes) (v : View) (hT : 32 + v.n ≤ T.length) : Safe (fbBufferType T v) := by
  unfold fbBufferType
  apply safe_bind _ _ (safe_rd8 T 29 (by omega))
  intro tb _
  cases hft : fbTypeOfByte tb with
  | none => exact safe_ok _
  | some k =>
    match k with
    | 0 =>
      simp only
      apply safe_bind _ _ (safe_fbByte T v.n 0 hT); intro lo _
      apply safe_bind _ _ (safe_fbByte T v.n 1 hT); intro hi _
      split
      · exact safe_ok _
      · exact safe_panic
    | 1 =>
      simp only
      apply safe_bind _ _ (safe_fbByte T v.n 0 hT); intro a _
      apply safe_bind _ _ (safe_fbByte T v.n 1 hT); intro b _
      apply safe_bind _ _ (safe_fbByte T v.n 2 hT); intro c _
      apply safe_bind _ _ (safe_fbByte T v.n 3 hT); intro d _
      apply safe_bind _ _ (safe_fbByte T v.n 4 hT); intro e _
      apply safe_bind _ _ (safe_fbByte T v.n 5 hT); intro f _
      exact safe_ok _
    | (n+2) => exact safe_ok _


theorem noFault_of_safe {α} (f : α → String) (r : Res α) (h : Safe r) : Obs.NoFault (resS f r) := noFault_resS f r h.1 h.2

theorem noFault_fbTypeS (T : Bytes) (v : View) (hT : 32 + v.n ≤ T.length) (hd : (declared T v).length = 32 + v.n) :
    Obs.NoFault (fbTypeS T v (fbBufferType T v)) := by
  have hs := fbBufferType_safe T v hT
  cases hr : fbBufferType T v with
  | ok r =>
    cases r with
    | error b => exact noFault_t _
    | ok ty =>
      cases ty with
      | indexed po num =>
        have := C05.palette_inside T v po num hr
        show Obs.NoFault (resS _ (rdSlice (declared T v) po (num * 3)))
        exact noFault_resS_ok _ _ ⟨_, rdSlice_ok _ _ _ (by rw [hd]; omega)⟩
      | rgb a b c d e f => exact noFault_t _
      | text => exact noFault_t _
  | panic => exact noFault_t _
  | oob => exact absurd hr hs.1
  | ub => exact absurd hr hs.2

theorem memoryAreas_safe (T : Bytes) (v : View) (hfit : 16 + 24 * v.n ≤ T.length) : Safe (memoryAreas T v) := by
  rw [C04.memoryAreas_eq T v hfit]
  split
  · exact safe_panic
  · exact safe_ok _

theorem noFault_vbeS (area : Bytes) (v : View) (g : Obs.NoFault (fields (v.bytes area) (Kind.fields .vbe)))
    (hfit : v.off + v.sov ≤ area.length) (hsov : 784 ≤ v.sov) : Obs.NoFault (vbeS (v.bytes area)) := by
  have hdec := C04.vbe_field_decodes area v hfit hsov
  rw [← C04.vbe_layout_eq_spec.1, ← C04.vbe_layout_eq_spec.2] at hdec
  unfold vbeS
  refine noFault_append (noFault_append (noFault_append (noFault_append (noFault_append (noFault_append g (noFault_t _)) ?_) (noFault_t _)) (noFault_t _)) ?_) (noFault_t _)
  · apply noFault_colonJoin
    intro r hr
    obtain ⟨f, hf, rfl⟩ := List.mem_map.mp hr
    exact ⟨_, hdec f (List.mem_append.mpr (Or.inl hf))⟩
  · apply noFault_colonJoin
    intro r hr
    rcases List.mem_append.mp hr with h | h
    · obtain ⟨f, hf, rfl⟩ := List.mem_map.mp h
      exact ⟨_, hdec f (List.mem_append.mpr (Or.inr hf))⟩
    · simp only [List.mem_cons, List.mem_nil_iff, or_false] at h
      rcases h with h | h <;> exact ⟨0, h⟩

theorem byteSum_safe (T : Bytes) (a n : Nat) (h : a + n ≤ T.length) : Safe (byteSum T a n) :=
  safe_of_ok (byteSum_no_fault T a n h)

theorem rsdp1Valid_safe (T : Bytes) (h : 28 ≤ T.length) : Safe (rsdp1Valid T) := by
  unfold rsdp1Valid
  exact safe_bind _ _ (byteSum_safe T 8 20 (by omega)) (fun _ _ => safe_ok _)

theorem rsdp2Valid_safe (T : Bytes) (h : 44 ≤ T.length) : Safe (rsdp2Valid T) := safe_of_ok (rsdp2_no_fault T h)

theorem noFault_rsdpS (T : Bytes) (v : View) (valid : Res Bool) (k : Kind) (hT : 23 ≤ T.length) (hv : Safe valid)
    (hf : Obs.NoFault (fields T k.fields)) : Obs.NoFault (rsdpS T v valid k) := by
  unfold rsdpS
  refine noFault_append (noFault_append (noFault_append (noFault_append (noFault_append (noFault_append (noFault_append
    (noFault_t _) (noFault_utf8S T v 8 8 (by omega))) (noFault_t _)) (noFault_of_safe _ _ hv)) (noFault_t _))
    (noFault_utf8S T v 17 6 (by omega))) (noFault_t _)) hf

theorem noFault_smbiosS (T : Bytes) (v : View) (hf : Obs.NoFault (fields T (Kind.fields .smbios)))
    (hd : 16 + v.n ≤ (declared T v).length) : Obs.NoFault (smbiosS T v) := by
  unfold smbiosS
  exact noFault_append (noFault_append (noFault_append hf (noFault_t _))
    (noFault_resS_ok _ _ ⟨_, rdSlice_ok _ _ _ hd⟩)) (noFault_t _)

theorem noFault_moduleS (T : Bytes) (v : View) (hf : Obs.NoFault (fields T (Kind.fields .module)))
    (hT : 16 ≤ T.length) (hd : 16 + v.n ≤ (declared T v).length) : Obs.NoFault (moduleS T v) := by
  unfold moduleS
  have hsz : ∃ a, (do let a ← rd32 T 8; let b ← rd32 T 12; pure (b - a) : Res Nat) = .ok a := by
    unfold rd32; rw [if_pos (by omega), if_pos (by omega)]; exact ⟨_, rfl⟩
  exact noFault_append (noFault_append (noFault_append (noFault_append (noFault_append (noFault_append (noFault_t _) hf)
    (noFault_fld _ _ hsz)) (noFault_t _)) (noFault_strS T v 16 v.n hd)) (noFault_t _)) (noFault_t _)

theorem noFault_elfSectionsS (T : Bytes) (v : View) (hT : 20 + v.n ≤ T.length) : Obs.NoFault (elfSectionsS T v) := by
  unfold elfSectionsS
  have hs : Safe (elfSectionsOpen T v) := by
    unfold elfSectionsOpen
    apply safe_bind _ _ (safe_rd32 T 12 (by omega)); intro es _
    apply safe_bind _ _ (safe_rd32 T 16 (by omega)); intro sh _
    split
    · exact safe_panic
    · exact elfOpen_no_fault T v (by omega)
  apply noFault_resO _ _ hs.1 hs.2
  intro a ha
  obtain ⟨num, es⟩ := a
  have hopen : elfOpen T v = .ok (num, es) := by
    unfold elfSectionsOpen rd32 at ha
    rw [if_pos (by omega), if_pos (by omega)] at ha
    simp only [Res.bind_ok] at ha
    split at ha
    · cases ha
    · exact ha
  have he := elfIter_end T v hT num es hopen
  refine noFault_append (noFault_t _) (noFault_endS _ ?_ ?_)
  · rcases he with h | h <;> rw [h] <;> simp
  · rcases he with h | h <;> rw [h] <;> simp

/-! ### modules -/

theorem goodView_of_item (p : Profile) (area : Bytes) (k : Kind) (it : Item) (v : View)
    (hmem : it ∈ (Spec.tagsOf .tag area).1) (hoff : v.off = it.off) (hsize : v.size = it.size)
    (hcast : castTo p .tag k.desc it.size it.pl = .ok (v.sov, v.n)) : GoodView p area k v := by
  have hi := C03.walk_items_inside .tag area _ 0 (by omega) it hmem
  obtain ⟨_, _, h3, h4, h5, _, _⟩ := hi
  rw [h5] at hcast
  have hsov := C15.cast_view_is_tag_extent p .tag rfl k.desc it.size v.sov v.n h3 hcast
  rw [← hsize] at hcast hsov h3
  have hfit : v.off + v.sov ≤ area.length := by rw [hoff, hsov, hsize]; exact h4
  exact ⟨h3, hsov, hfit, by unfold View.bytes; exact slice_length area v.off v.sov hfit, hcast⟩

theorem modules_go_good (p : Profile) (w : List Item × End) (items : List Item) :
    (∀ v ∈ (moduleViews.go p w items).1, ∃ it ∈ items, v.off = it.off ∧ v.size = it.size ∧
        castTo p .tag (Kind.desc .module) it.size it.pl = .ok (v.sov, v.n)) ∧
    ((moduleViews.go p w items).2 = w.2 ∨ (moduleViews.go p w items).2 = .bad) := by
  induction items with
  | nil => exact ⟨by intro v hv; simp [moduleViews.go] at hv, Or.inl (by simp [moduleViews.go])⟩
  | cons it rest ih =>
    unfold moduleViews.go
    by_cases ht : it.typ = 3
    · rw [if_pos ht]
      have hnf := cast_no_fault p .module it.size it.pl
      cases hc : castTo p .tag (Kind.desc .module) it.size it.pl with
      | ok r =>
        obtain ⟨sov, n⟩ := r
        simp only
        refine ⟨?_, ih.2⟩
        intro v hv
        rcases List.mem_cons.mp hv with h | h
        · subst h; exact ⟨it, by simp, rfl, rfl, hc⟩
        · obtain ⟨x, hx, hh⟩ := ih.1 v h
          exact ⟨x, by simp [hx], hh⟩
      | panic => exact ⟨by intro v hv; simp at hv, Or.inr rfl⟩
      | oob => exact absurd hc hnf.1
      | ub => exact absurd hc hnf.2
    · rw [if_neg ht]
      refine ⟨?_, ih.2⟩
      intro v hv
      obtain ⟨x, hx, hh⟩ := ih.1 v hv
      exact ⟨x, by simp [hx], hh⟩

theorem moduleViews_good (p : Profile) (area : Bytes) (hb : area.length % 8 = 0) (hlen : area.length < 2^62) :
    (∀ v ∈ (moduleViews p area).1, GoodView p area .module v) ∧
    ((moduleViews p area).2 = .done ∨ (moduleViews p area).2 = .bad) := by
  have hw := walk_no_fault p area hb hlen
  have hg := modules_go_good p (tagsOf p .tag area) (tagsOf p .tag area).1
  unfold moduleViews
  simp only
  constructor
  · intro v hv
    obtain ⟨it, hit, ho, hs, hc⟩ := hg.1 v hv
    rw [C03.tags_eq_spec p .tag (Or.inl rfl) area hb hlen] at hit
    exact goodView_of_item p area .module it v hit ho hs hc
  · rcases hg.2 with h | h
    · rw [h]; exact hw
    · right; exact h


/-! ### assembly -/

theorem efiG_good (p : Profile) (area : Bytes) (hb : area.length % 8 = 0) (hlen : area.length < 2^62) :
    Safe (efiMemoryMapTag p area) ∧ ∀ v, efiMemoryMapTag p area = .ok (some v) → GoodView p area .efiMmap v := by
  have h1 := getTag_no_fault p area .efiBs hb hlen
  have h2 := getTag_no_fault p area .efiMmap hb hlen
  unfold efiMemoryMapTag
  cases hbs : getTag p area .efiBs with
  | ok o =>
    cases o with
    | none => exact ⟨h2, fun v hv => goodView_of_getTag p area .efiMmap v hb hlen hv⟩
    | some w => exact ⟨safe_ok _, fun v hv => by simp at hv⟩
  | panic => exact ⟨safe_panic, fun v hv => by simp at hv⟩
  | oob => exact absurd hbs h1.1
  | ub => exact absurd hbs h1.2

/-- **C01, end to end.** For EVERY loaded region (any content, any size that is a multiple of 8) the complete sweep - the
    tag walk, all 22 typed getters, every field accessor, the string / SMBIOS / palette slices (taken from the tag's
    DECLARED size), the memory-map, EFI-map, ELF-section and module iterators drained to the end, both RSDP checksums,
    the deprecated `elf_sections()` and `Debug` - contains no `oob` and no `ub` piece: every observation is a value, an
    error or a controlled panic. This is the very function whose rendering the correspondence check compares with the
    real code on every SWEEP case. -/
theorem sweepLoaded_no_fault (p : Profile) (R : Bytes) (h8 : R.length % 8 = 0) (hlen : R.length < 2^62) :
    Obs.NoFault (sweepLoaded p R) := by
  have hb : (R.drop 8).length % 8 = 0 := by rw [List.length_drop]; omega
  have hl : (R.drop 8).length < 2^62 := by rw [List.length_drop]; omega
  have G : ∀ k v, getTag p (R.drop 8) k = .ok (some v) → GoodView p (R.drop 8) k v :=
    fun k v h => goodView_of_getTag p (R.drop 8) k v hb hl h
  have NF : ∀ k, Safe (getTag p (R.drop 8) k) := fun k => getTag_no_fault p (R.drop 8) k hb hl
  have simple : ∀ name k, Obs.NoFault (getter name (getTag p (R.drop 8) k) (fun v => fields (v.bytes (R.drop 8)) k.fields)) :=
    fun name k => noFault_getter _ _ _ (NF k).1 (NF k).2 (fun v h => (G k v h).fields)
  have hTags : Obs.NoFault (tagsS (tagsOf p .tag (R.drop 8))) := by
    unfold tagsS
    exact noFault_append (noFault_append (noFault_t _) (noFault_walkEndS _ (walk_no_fault p _ hb hl))) (noFault_t _)
  have hLoader : Obs.NoFault (getter "loader" (getTag p (R.drop 8) .loader) (fun v =>
      fields (v.bytes (R.drop 8)) (Kind.fields .loader) ++ t "name=" ++ strS (v.bytes (R.drop 8)) v 8 v.n ++ t ",")) := by
    refine noFault_getter _ _ _ (NF _).1 (NF _).2 (fun v h => ?_)
    have g := G _ v h
    have d := g.dst 8 1 rfl (by omega) (by omega)
    exact noFault_append (noFault_append (noFault_append g.fields (noFault_t _))
      (noFault_strS _ v 8 v.n (by rw [g.declared_len]; omega))) (noFault_t _)
  have hCmdline : Obs.NoFault (getter "cmdline" (getTag p (R.drop 8) .cmdline) (fun v =>
      t "cmdline=" ++ strS (v.bytes (R.drop 8)) v 8 v.n ++ t ",")) := by
    refine noFault_getter _ _ _ (NF _).1 (NF _).2 (fun v h => ?_)
    have g := G _ v h
    have d := g.dst 8 1 rfl (by omega) (by omega)
    exact noFault_append (noFault_append (noFault_t _) (noFault_strS _ v 8 v.n (by rw [g.declared_len]; omega))) (noFault_t _)
  have hEfi : Obs.NoFault (getter "efi_mmap" (efiMemoryMapTag p (R.drop 8)) (fun v => efiS (v.bytes (R.drop 8)) v)) := by
    have e := efiG_good p (R.drop 8) hb hl
    refine noFault_getter _ _ _ e.1.1 e.1.2 (fun v h => ?_)
    have g := e.2 v h
    have d := g.dst 16 1 rfl (by omega) (by omega)
    have := g.size_le
    exact noFault_efiS _ v (by rw [g.len]; omega)
  have hElf : Obs.NoFault (getter "elf" (getTag p (R.drop 8) .elf) (fun v => elfS (v.bytes (R.drop 8)) v)) := by
    refine noFault_getter _ _ _ (NF _).1 (NF _).2 (fun v h => ?_)
    have g := G _ v h
    have d := g.dst 20 1 rfl (by omega) (by omega)
    have := g.size_le
    unfold elfS
    exact noFault_append (noFault_append (noFault_append g.fields (noFault_t _))
      (noFault_elfBody _ v (by rw [g.len]; omega))) (noFault_t _)
  have hFb : Obs.NoFault (fbGetterS (R.drop 8) (getTag p (R.drop 8) .fb)) := by
    unfold fbGetterS
    refine noFault_append (noFault_append (noFault_t _) ?_) (noFault_t _)
    cases hg : getTag p (R.drop 8) .fb with
    | ok o =>
      cases o with
      | none => exact noFault_t _
      | some v =>
        have g := G _ v hg
        have d := g.dst 32 1 rfl (by omega) (by omega)
        have hsl := g.size_le
        have hT : 32 + v.n ≤ (v.bytes (R.drop 8)).length := by rw [g.len]; omega
        have hs := fbBufferType_safe (v.bytes (R.drop 8)) v hT
        have hty := noFault_fbTypeS (v.bytes (R.drop 8)) v hT (by rw [g.declared_len]; omega)
        simp only
        cases hr : fbBufferType (v.bytes (R.drop 8)) v with
        | ok r =>
          cases r with
          | error b => exact noFault_t _
          | ok ty =>
            simp only
            refine noFault_append (noFault_append (noFault_t _) ?_) (noFault_t _)
            unfold fbS
            rw [hr] at hty
            rw [hr]
            exact noFault_append (noFault_append (noFault_append g.fields (noFault_t _)) hty) (noFault_t _)
        | panic => exact noFault_t _
        | oob => exact absurd hr hs.1
        | ub => exact absurd hr hs.2
    | panic => exact noFault_t _
    | oob => exact absurd hg (NF _).1
    | ub => exact absurd hg (NF _).2
  have hMmap : Obs.NoFault (getter "mmap" (getTag p (R.drop 8) .mmap) (fun v => mmapS (v.bytes (R.drop 8)) v)) := by
    refine noFault_getter _ _ _ (NF _).1 (NF _).2 (fun v h => ?_)
    have g := G _ v h
    have d := g.dst 16 24 rfl (by omega) (by omega)
    have := g.size_le
    unfold mmapS
    exact noFault_append (noFault_append (noFault_append g.fields (noFault_t _))
      (noFault_of_safe _ _ (memoryAreas_safe _ v (by rw [g.len]; omega)))) (noFault_t _)
  have hMods : Obs.NoFault (modulesS (R.drop 8) (moduleViews p (R.drop 8))) := by
    have m := moduleViews_good p (R.drop 8) hb hl
    unfold modulesS
    refine noFault_append (noFault_append (noFault_append (noFault_t _) ?_) (noFault_endS _ ?_ ?_)) (noFault_t _)
    · apply noFault_flatten_map
      intro v hv
      have g := m.1 v hv
      have d := g.dst 16 1 rfl (by omega) (by omega)
      have := g.size_le
      exact noFault_moduleS _ v g.fields (by rw [g.len]; omega) (by rw [g.declared_len]; omega)
    · rcases m.2 with h | h <;> rw [h] <;> simp
    · rcases m.2 with h | h <;> rw [h] <;> simp
  have hRsdp1 : Obs.NoFault (getter "rsdp1" (getTag p (R.drop 8) .rsdp1) (fun v =>
      rsdpS (v.bytes (R.drop 8)) v (rsdp1Valid (v.bytes (R.drop 8))) .rsdp1)) := by
    refine noFault_getter _ _ _ (NF _).1 (NF _).2 (fun v h => ?_)
    have g := G _ v h
    have hf : 28 ≤ v.sov := g.fixed_le
    exact noFault_rsdpS _ v _ _ (by rw [g.len]; omega) (rsdp1Valid_safe _ (by rw [g.len]; omega)) g.fields
  have hRsdp2 : Obs.NoFault (getter "rsdp2" (getTag p (R.drop 8) .rsdp2) (fun v =>
      rsdpS (v.bytes (R.drop 8)) v (rsdp2Valid (v.bytes (R.drop 8))) .rsdp2)) := by
    refine noFault_getter _ _ _ (NF _).1 (NF _).2 (fun v h => ?_)
    have g := G _ v h
    have hf : 44 ≤ v.sov := g.fixed_le
    exact noFault_rsdpS _ v _ _ (by rw [g.len]; omega) (rsdp2Valid_safe _ (by rw [g.len]; omega)) g.fields
  have hSmbios : Obs.NoFault (getter "smbios" (getTag p (R.drop 8) .smbios) (fun v => smbiosS (v.bytes (R.drop 8)) v)) := by
    refine noFault_getter _ _ _ (NF _).1 (NF _).2 (fun v h => ?_)
    have g := G _ v h
    have d := g.dst 16 1 rfl (by omega) (by omega)
    exact noFault_smbiosS _ v g.fields (by rw [g.declared_len]; omega)
  have hVbe : Obs.NoFault (getter "vbe" (getTag p (R.drop 8) .vbe) (fun v => vbeS (v.bytes (R.drop 8)))) := by
    refine noFault_getter _ _ _ (NF _).1 (NF _).2 (fun v h => ?_)
    have g := G _ v h
    have hf : 784 ≤ v.sov := g.fixed_le
    exact noFault_vbeS _ v g.fields g.fit hf
  have hElfSecs : Obs.NoFault (elfSectionsGetterS (R.drop 8) (getTag p (R.drop 8) .elf)) := by
    unfold elfSectionsGetterS
    refine noFault_append (noFault_append (noFault_t _) ?_) (noFault_t _)
    cases hg : getTag p (R.drop 8) .elf with
    | ok o =>
      cases o with
      | none => exact noFault_t _
      | some v =>
        have g := G _ v hg
        have d := g.dst 20 1 rfl (by omega) (by omega)
        have := g.size_le
        exact noFault_elfSectionsS _ v (by rw [g.len]; omega)
    | panic => exact noFault_t _
    | oob => exact absurd hg (NF _).1
    | ub => exact absurd hg (NF _).2
  unfold sweepLoaded
  simp only []
  repeat' with_reducible apply noFault_append
  · exact hTags
  · exact simple _ _
  · exact simple _ _
  · exact hLoader
  · exact simple _ _
  · exact hCmdline
  · exact simple _ _
  · exact simple _ _
  · exact simple _ _
  · exact hEfi
  · exact simple _ _
  · exact simple _ _
  · exact hElf
  · exact hFb
  · exact simple _ _
  · exact hMmap
  · exact hMods
  · exact simple _ _
  · exact hRsdp1
  · exact hRsdp2
  · exact hSmbios
  · exact hVbe
  · exact hElfSecs
  · exact noFault_t _


/-- **C01 from the pointer.** For every memory content behind the pointer whose declared region is readable, the sweep of
    `load` + everything reachable from the loaded object produces no fault: the outcome of every call is a value, an
    error or a controlled panic. Holds in both build profiles. -/
theorem sweep_no_fault (p : Profile) (mem : Bytes) (hmem : mem.length ≥ 8 ∧ mem.length ≥ le32 mem 0) :
    Obs.NoFault (sweep p mem) := by
  unfold sweep
  rw [C02.load_eq p mem hmem]
  simp only
  have h32 := le32_lt mem 0
  by_cases c1 : le32 mem 0 < 8
  · rw [if_pos c1]; exact noFault_t _
  · rw [if_neg c1]
    by_cases c2 : le32 mem 0 % 8 ≠ 0
    · rw [if_pos c2]; exact noFault_t _
    · rw [if_neg c2]
      by_cases c3 : le32 mem (le32 mem 0 - 8) = 0 ∧ le32 mem (le32 mem 0 - 4) = 8
      · rw [if_pos c3]
        simp only
        refine noFault_append (noFault_t _) (sweepLoaded_no_fault p _ ?_ ?_)
        · rw [List.length_take]; omega
        · rw [List.length_take]; omega
      · rw [if_neg c3]; exact noFault_t _

/-- the rendered line of a fault-free observation is the concatenation of its text pieces (nothing is hidden by rendering) -/
theorem render_of_noFault (o : Obs) (h : Obs.NoFault o) :
    o.render = String.join (o.map fun x => match x with | .txt s => s | _ => "") := by
  unfold Obs.render
  congr 1
  apply List.map_congr_left
  intro x hx
  cases x with
  | txt s => rfl
  | oob => exact absurd rfl (h _ hx).1
  | ub => exact absurd rfl (h _ hx).2

/-! Non-vacuity: a minimal loadable region (header + end tag) satisfies the hypotheses and is swept completely. -/
example : ([16,0,0,0, 0,0,0,0, 0,0,0,0, 8,0,0,0] : Bytes).length ≥ 8 ∧
    ([16,0,0,0, 0,0,0,0, 0,0,0,0, 8,0,0,0] : Bytes).length ≥ le32 [16,0,0,0, 0,0,0,0, 0,0,0,0, 8,0,0,0] 0 := by decide
example : load .dev false [16,0,0,0, 0,0,0,0, 0,0,0,0, 8,0,0,0] = .ok (.ok ⟨0, 16, 16⟩) := by decide

end Mb2.C01
