/-
  Mb2.Props.FnsHtHdr — SOURCE = MODEL (part of the function-body tie, see `Mb2/Props/FnsBase.lean` and `Mb2/Rir.lean`).
  Theorems about terms GENERATED from /repo's working tree by tools/gen_fns.py (`Mb2/Gen/Fns.lean`).
-/

import Mb2.Props.FnsBase
open Mb2 Mb2.Rir

namespace Mb2.Fns

theorem ht_header_payload_len_eq (p : Profile) (d : Nat) (hd : d < W32) :
    evalO p [.int .u32 d] Gen.Fns.ht_header_payload_len = some (intRes .usize (payloadLen p .ht d)) := by
  simp [evalO, Gen.Fns.ht_header_payload_len, eval, binop, arith, payloadLen, castV, mod_W64_of_lt_W32 hd]
  split
  · simp [usub, *]
  · rfl

end Mb2.Fns
