/-
  C13 — Searching a binary image for the header is exact and total.
-/
import Mb2.Props.FnsFind
import Mb2.Spec
import Mb2.Lemmas.Arith
namespace Mb2.C13
open Mb2

theorem u8At_drop (b : Bytes) (i j : Nat) : u8At (b.drop i) j = u8At b (i + j) := by
  unfold u8At; simp [List.getD_eq_getElem?_getD, List.getElem?_drop]

theorem le32_drop (b : Bytes) (i : Nat) : le32 (b.drop i) 0 = le32 b i := by
  unfold le32; simp [u8At_drop, Nat.add_assoc]

theorem u8A_toArray (b : Bytes) (i : Nat) : Spec.u8A b.toArray i = u8At b i := by
  unfold Spec.u8A u8At; simp [Array.getD_eq_getD_getElem?, List.getD_eq_getElem?_getD]

theorem le32A_toArray (b : Bytes) (i : Nat) : Spec.le32A b.toArray i = le32 b i := by
  unfold Spec.le32A le32; simp [u8A_toArray]

/-- the linear scan of the model is the least-index search of the specification -/
theorem scan_eq_first (buf : Bytes) (w : Nat) (hw : w ≤ buf.length) :
    ∀ (l : Bytes) (i : Nat), l = buf.drop i →
      scanMagic l i w = (List.range' i (w - 3 - i)).find? (fun j => Spec.le32A buf.toArray j == HMAGIC) := by
  intro l
  induction l with
  | nil =>
    intro i hl
    have : buf.length ≤ i := by
      have := congrArg List.length hl; simp at this; omega
    have e : w - 3 - i = 0 := by omega
    simp [scanMagic, e]
  | cons a rest ih =>
    intro i hl
    unfold scanMagic
    by_cases h : i + 4 ≤ w
    · have e : w - 3 - i = (w - 3 - (i + 1)) + 1 := by omega
      rw [if_pos h, e, List.range'_succ, List.find?_cons, le32A_toArray, hl, le32_drop]
      have hrest : rest = buf.drop (i + 1) := by
        have := congrArg List.tail hl; simpa [List.tail_drop] using this
      by_cases hm : le32 buf i = HMAGIC
      · simp [hm]
      · rw [if_neg hm, ih (i+1) hrest]
        have hb : (le32 buf i == HMAGIC) = false := by simp [hm]
        rw [hb]
    · have e : w - 3 - i = 0 := by omega
      rw [if_neg h, e]; rfl

/-- what `find?` over `range'` means: the least index in the window whose four bytes are the magic -/
theorem first_some_iff (buf : Bytes) (w i : Nat) :
    Spec.firstMagic buf w = some i ↔
      (i + 4 ≤ w ∧ le32 buf i = HMAGIC ∧ ∀ j, j < i → le32 buf j ≠ HMAGIC) := by
  unfold Spec.firstMagic
  simp only [List.find?_range'_eq_some, le32A_toArray, List.mem_range'_1, beq_iff_eq, Bool.not_eq_eq_eq_not,
    Bool.not_true, beq_eq_false_iff_ne]
  constructor
  · rintro ⟨h1, h2, h3⟩
    exact ⟨by omega, h1, fun j hj => h3 j (by omega) hj⟩
  · rintro ⟨h1, h2, h3⟩
    exact ⟨h2, by omega, fun j _ hj => h3 j hj⟩

theorem first_none_iff (buf : Bytes) (w : Nat) :
    Spec.firstMagic buf w = none ↔ ∀ j, j + 4 ≤ w → le32 buf j ≠ HMAGIC := by
  unfold Spec.firstMagic
  simp only [List.find?_eq_none, List.mem_range', le32A_toArray, beq_iff_eq]
  constructor
  · intro h j hj; exact h j ⟨j, by omega, by omega⟩
  · rintro h j ⟨k, hk, rfl⟩; exact h _ (by omega)

/-- outcome of the model, projected to what the property fixes -/
def project : Res (Ex HLoadErr (Option (Nat × Nat))) → Option Spec.FindExpect
  | .ok (.ok none) => some .none_
  | .ok (.ok (some (i, l))) => some (.some_ i l)
  | .ok (.error _) => some .error
  | _ => none

/-- C13: for every buffer (8-aligned start), the modelled `find_header` never panics or faults and returns exactly
    what the specification prescribes: no header iff the magic does not occur in the first min(len, 8192) bytes;
    otherwise with `i` the first occurrence the sub-slice `[i, i + stored length)` when `i` is a multiple of 8 and
    the range lies inside the buffer, and an error when `i` is misaligned or the header is truncated. -/
theorem findHeader_meets_spec (buf : Bytes) : project (findHeader buf) = some (Spec.find buf) := by
  unfold findHeader Spec.find
  have hs := scan_eq_first buf (min buf.length 8192) (Nat.min_le_left _ _) buf 0 (by simp)
  have e : min buf.length 8192 - 3 - 0 = min buf.length 8192 - 3 := by omega
  rw [e] at hs
  simp only
  rw [hs]
  unfold Spec.firstMagic
  simp only
  cases (List.range' 0 (min buf.length 8192 - 3)).find? (fun i => Spec.le32A buf.toArray i == HMAGIC) with
  | none => rfl
  | some i =>
    simp only
    by_cases c1 : i % 8 ≠ 0
    · rw [if_pos c1, if_pos c1]; rfl
    · rw [if_neg c1, if_neg c1]
      by_cases c2 : i + 12 > buf.length
      · rw [if_pos c2, if_pos c2]; rfl
      · rw [if_neg c2, if_neg c2]
        by_cases c3 : i + le32 buf (i + 8) > buf.length
        · rw [if_pos c3, if_pos c3]; rfl
        · rw [if_neg c3, if_neg c3]; rfl

/-- no header is reported iff the magic does not occur in the window -/
theorem none_iff (buf : Bytes) :
    findHeader buf = .ok (.ok none) ↔ ∀ j, j + 4 ≤ min buf.length 8192 → le32 buf j ≠ HMAGIC := by
  rw [← first_none_iff]
  have h := findHeader_meets_spec buf
  unfold Spec.find at h
  constructor
  · intro hf
    rw [hf] at h
    simp only [project] at h
    cases hfm : Spec.firstMagic buf (min buf.length 8192) with
    | none => rfl
    | some i =>
      rw [hfm] at h
      simp only at h
      split at h <;> try split at h <;> try split at h
      all_goals simp at h
  · intro hfm
    unfold findHeader
    have hs := scan_eq_first buf (min buf.length 8192) (Nat.min_le_left _ _) buf 0 (by simp)
    have e : min buf.length 8192 - 3 - 0 = min buf.length 8192 - 3 := by omega
    rw [e] at hs
    simp only
    rw [hs]
    unfold Spec.firstMagic at hfm
    simp only at hfm
    rw [hfm]

/-- a returned sub-slice is the first occurrence, aligned, and inside the buffer -/
theorem some_sound (buf : Bytes) (i l : Nat) (h : findHeader buf = .ok (.ok (some (i, l)))) :
    i + 4 ≤ min buf.length 8192 ∧ le32 buf i = HMAGIC ∧ (∀ j, j < i → le32 buf j ≠ HMAGIC) ∧
    i % 8 = 0 ∧ l = le32 buf (i + 8) ∧ i + l ≤ buf.length := by
  have hm := findHeader_meets_spec buf
  rw [h] at hm
  simp only [project, Spec.find] at hm
  cases hfm : Spec.firstMagic buf (min buf.length 8192) with
  | none => rw [hfm] at hm; simp at hm
  | some k =>
    rw [hfm] at hm
    simp only at hm
    by_cases c1 : k % 8 ≠ 0
    · rw [if_pos c1] at hm; simp at hm
    · rw [if_neg c1] at hm
      by_cases c2 : k + 12 > buf.length
      · rw [if_pos c2] at hm; simp at hm
      · rw [if_neg c2] at hm
        by_cases c3 : k + le32 buf (k + 8) > buf.length
        · rw [if_pos c3] at hm; simp at hm
        · rw [if_neg c3] at hm
          simp only [Option.some.injEq, Spec.FindExpect.some_.injEq] at hm
          obtain ⟨hk, hl⟩ := hm
          subst hk
          have := (first_some_iff buf _ i).mp hfm
          exact ⟨this.1, this.2.1, this.2.2, by omega, hl, by omega⟩

/-! Non-vacuity -/
example : findHeader ([0,0,0,0,0,0,0,0, 0xd6,0x50,0x52,0xe8, 0,0,0,0, 8,0,0,0, 0,0,0,0]) = .ok (.ok (some (8, 8))) := by decide
example : findHeader [1,2,3] = .ok (.ok none) := by decide
example : findHeader ([0, 0xd6,0x50,0x52,0xe8, 0,0,0]) = .ok (.error (.memory .wrongAlignment)) := by decide

end Mb2.C13
