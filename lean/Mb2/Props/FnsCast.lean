/-
  Mb2.Props.FnsCast — SOURCE = MODEL for `DynSizedStructure::cast`, `TagIter::new`, `Header::set_size` of the four header
  kinds, and the pinned bodies of `clone_dyn`, `as_bytes`, `payload`, `header` (multiboot2-common).
-/
import Mb2.Props.FnsBase
import Mb2.Props.FnsGetters
import Mb2.Build
open Mb2 Mb2.Rir
set_option linter.unusedSimpArgs false
set_option maxRecDepth 8000

namespace Mb2.Fns

/-- `cast::<T>()`: panics unless `T::BASE_SIZE >= size_of::<H>()`, then panics unless `size_of_val(self) == size_of_val(t_ref)`,
    in BOTH profiles (no `debug_assert`), else the typed reference - the two gates of the model's `castTo` -/
theorem cast_eq (p : Profile) (base hs sovSelf sovT : Nat) (tref : V) :
    evalO p [.int .usize base, .int .usize hs, .int .usize sovSelf, .int .usize sovT, tref] Gen.Fns.cast =
      some (if ¬ base ≥ hs then .panic else if sovSelf ≠ sovT then .panic else .ok tref) := by
  by_cases h1 : hs ≤ base <;> by_cases h2 : sovSelf = sovT <;>
    simp [evalO, Gen.Fns.cast, eval, binop, arith, h1, h2]

/-- the same decision as the model: `castTo` -/
theorem castTo_decision (p : Profile) (k : HK) (t : TyDesc) (size pl : Nat) :
    castTo p k t size pl =
      if ¬ t.baseSize ≥ k.hsize then .panic
      else (t.dstLen p size) >>= fun n => if dynSizeOfVal k pl ≠ t.sizeOfVal n then .panic else .ok (t.sizeOfVal n, n) := by
  unfold castTo
  split
  · rfl
  · cases t.dstLen p size <;> rfl

/-- `TagIter::new`: asserts the 8-alignment of the buffer, starts at offset 0 -/
theorem tag_iter_new_eq (p : Profile) (ao : Nat) (mem : V) :
    evalO p [.int .usize ao, mem] Gen.Fns.tag_iter_new = some (if ao = 0 then .ok (.pair (.lit 0) mem) else .panic) := by
  by_cases h : ao = 0 <;> simp [evalO, Gen.Fns.tag_iter_new, eval, binop, arith, h]

/-- `set_size` of the three 8-byte headers: the size field becomes `total_size as u32` - nothing is rounded (`setSize`) -/
theorem tag_header_set_size_eq (p : Profile) (t : Nat) :
    evalO p [.int .usize t] Gen.Fns.tag_header_set_size = some (.ok (.pair .unit (.int .u32 (t % W32)))) := by
  simp [evalO, Gen.Fns.tag_header_set_size, eval, castV, set_other]
theorem bi_header_set_size_eq (p : Profile) (t : Nat) :
    evalO p [.int .usize t] Gen.Fns.bi_header_set_size = some (.ok (.pair .unit (.int .u32 (t % W32)))) := by
  simp [evalO, Gen.Fns.bi_header_set_size, eval, castV, set_other]
theorem ht_header_set_size_eq (p : Profile) (t : Nat) :
    evalO p [.int .usize t] Gen.Fns.ht_header_set_size = some (.ok (.pair .unit (.int .u32 (t % W32)))) := by
  simp [evalO, Gen.Fns.ht_header_set_size, eval, castV, set_other]

/-- `Multiboot2BasicHeader::set_size`: the length AND the checksum recomputed for it (`setSize .hb`) -/
theorem hb_header_set_size_eq (p : Profile) (t m a : Nat) (ha : a < W32) :
    evalO p [.int .usize t, .int .u32 m, .int .u32 a] Gen.Fns.hb_header_set_size =
      some (.ok (.pair (.pair .unit (.int .u32 (t % W32))) (.int .u32 (calcChecksum m a (t % W32))))) := by
  simp [evalO, Gen.Fns.hb_header_set_size, eval, castV, prim2, intPrim, set_other, calcChecksum, wsub32, Nat.mod_eq_of_lt ha]

theorem clone_dyn_is_new_boxed_of_payload :
    pinned Gen.Fns.clone_dyn_text
      "{let payload=&tag.payload()[..tag.header().payload_len()];new_boxed(tag.header().clone(),&[payload])}" = true := by decide
theorem dyn_as_bytes_is_size_of_val :
    pinned Gen.Fns.dyn_as_bytes_text
      "{let ptr=core::ptr::addr_of!(*self);let size=size_of_val(self);let slice=unsafe{slice::from_raw_parts(ptr.cast::<u8>(),size)};BytesRef::try_from(slice).unwrap()}" = true := by
  decide
theorem dyn_payload_is_behind_header :
    pinned Gen.Fns.dyn_payload_text "{let from=size_of::<Self::Header>();&self.as_bytes()[from..]}" = true := by decide
theorem dyn_header_is_at_start :
    pinned Gen.Fns.dyn_header_text "{let ptr=core::ptr::addr_of!(*self);unsafe{&*ptr.cast::<Self::Header>()}}" = true := by decide

end Mb2.Fns
