/-
  Mb2.Props.FnsLinked — SOURCE = MODEL across function boundaries.

  The translator LINKS separately translated bodies: the IR of `ref_from_slice` with its two calls replaced by the IR of
  `BytesRef::try_from` and of `ref_from_bytes`, whose `hdr.payload_len()` is in turn replaced by the IR of the header kind's
  `payload_len` (monomorphised: `ref_from_slice_tag / _ht / _bi / _hb`). The theorems state that the LINKED term - whose only
  inputs are the slice length, the alignment offset of its address, the declared size word and two opaque tokens - evaluates to
  exactly the model's `refFromSlice` for every slice: the chain  source -> model  (here)  -> specification
  (`C14.refFromSlice_meets_spec`) has no seam left on this path.
-/
import Mb2.Props.FnsBase
import Mb2.Header
import Mb2.Mbi
open Mb2 Mb2.Rir
set_option linter.unusedSimpArgs false

namespace Mb2.Fns

/-- the model's result as an IR value; `r` stands for the reference that is returned on success -/
def encRef (r : V) : Res (Ex MemErr Nat) → Res V
  | .ok (.error e) => .ok (.c1 "Err" (encMemErr e))
  | .ok (.ok _) => .ok (.c1 "Ok" r)
  | .panic => .panic | .oob => .oob | .ub => .ub

theorem le32_lt (b : Bytes) (o : Nat) : le32 b o < W32 := by
  unfold le32 u8At
  have h0 := (b.getD o 0).toNat_lt
  have h1 := (b.getD (o+1) 0).toNat_lt
  have h2 := (b.getD (o+2) 0).toNat_lt
  have h3 := (b.getD (o+3) 0).toNat_lt
  simp only [W32]; omega

section
variable (p : Profile) (addr ao : Nat) (bytes : Bytes) (bv r : V) (hao : ao = 0 ↔ addr % 8 = 0) (hlen : bytes.length < W64)
include hao hlen

theorem ref_from_slice_tag_linked_eq :
    evalO p [.int .usize bytes.length, .int .usize ao, bv, .int .u32 (le32 bytes 4), r] Gen.Fns.ref_from_slice_tag =
      some (encRef r (refFromSlice p .tag addr bytes)) := by
  have hd := mod_W64_of_lt_W32 (le32_lt bytes 4)
  unfold refFromSlice bytesRefTryFrom refFromBytes
  simp only [evalO, Gen.Fns.ref_from_slice_tag, Option.map, HK.hsize, HK.sizeOff]
  congr 1
  by_cases h1 : bytes.length < 8
  · simp [eval, binop, arith, tryV, h1, encRef, encMemErr]
  · have h1' : 8 ≤ bytes.length := by omega
    have hu : usub p W64 bytes.length 8 = .ok (bytes.length - 8) := by unfold usub; rw [if_pos h1']
    have hr : rd32 bytes 4 = .ok (le32 bytes 4) := by unfold rd32; rw [if_pos (by omega)]
    by_cases h2 : addr % 8 = 0
    · have hao0 : ao = 0 := hao.mpr h2
      by_cases h3 : bytes.length % 8 = 0
      · by_cases h4 : 8 ≤ le32 bytes 4
        · have hs : usub p W64 (le32 bytes 4) 8 = .ok (le32 bytes 4 - 8) := by unfold usub; rw [if_pos h4]
          by_cases h5 : le32 bytes 4 - 8 > bytes.length - 8 <;>
            simp [eval, binop, arith, tryV, castV, set_other, h1, h2, h3, h4, h5, hao0, hd, hu, hs, hr, payloadLen, encRef, encMemErr]
        · simp [eval, binop, arith, tryV, castV, set_other, h1, h2, h3, h4, hao0, hd, hu, hr, payloadLen, encRef]
      · simp [eval, binop, arith, tryV, set_other, h1, h2, h3, hao0, encRef, encMemErr]
    · have hao1 : ao ≠ 0 := fun h => h2 (hao.mp h)
      simp [eval, binop, arith, tryV, h1, h2, hao1, encRef, encMemErr]


theorem ref_from_slice_ht_linked_eq :
    evalO p [.int .usize bytes.length, .int .usize ao, bv, .int .u32 (le32 bytes 4), r] Gen.Fns.ref_from_slice_ht =
      some (encRef r (refFromSlice p .ht addr bytes)) := by
  have hd := mod_W64_of_lt_W32 (le32_lt bytes 4)
  unfold refFromSlice bytesRefTryFrom refFromBytes
  simp only [evalO, Gen.Fns.ref_from_slice_ht, Option.map, HK.hsize, HK.sizeOff]
  congr 1
  by_cases h1 : bytes.length < 8
  · simp [eval, binop, arith, tryV, h1, encRef, encMemErr]
  · have h1' : 8 ≤ bytes.length := by omega
    have hu : usub p W64 bytes.length 8 = .ok (bytes.length - 8) := by unfold usub; rw [if_pos h1']
    have hr : rd32 bytes 4 = .ok (le32 bytes 4) := by unfold rd32; rw [if_pos (by omega)]
    by_cases h2 : addr % 8 = 0
    · have hao0 : ao = 0 := hao.mpr h2
      by_cases h3 : bytes.length % 8 = 0
      · by_cases h4 : 8 ≤ le32 bytes 4
        · have hs : usub p W64 (le32 bytes 4) 8 = .ok (le32 bytes 4 - 8) := by unfold usub; rw [if_pos h4]
          by_cases h5 : le32 bytes 4 - 8 > bytes.length - 8 <;>
            simp [eval, binop, arith, tryV, castV, set_other, h1, h2, h3, h4, h5, hao0, hd, hu, hs, hr, payloadLen, encRef, encMemErr]
        · simp [eval, binop, arith, tryV, castV, set_other, h1, h2, h3, h4, hao0, hd, hu, hr, payloadLen, encRef]
      · simp [eval, binop, arith, tryV, set_other, h1, h2, h3, hao0, encRef, encMemErr]
    · have hao1 : ao ≠ 0 := fun h => h2 (hao.mp h)
      simp [eval, binop, arith, tryV, h1, h2, hao1, encRef, encMemErr]


theorem ref_from_slice_bi_linked_eq :
    evalO p [.int .usize bytes.length, .int .usize ao, bv, .int .u32 (le32 bytes 0), r] Gen.Fns.ref_from_slice_bi =
      some (encRef r (refFromSlice p .bi addr bytes)) := by
  have hd := mod_W64_of_lt_W32 (le32_lt bytes 0)
  unfold refFromSlice bytesRefTryFrom refFromBytes
  simp only [evalO, Gen.Fns.ref_from_slice_bi, Option.map, HK.hsize, HK.sizeOff]
  congr 1
  by_cases h1 : bytes.length < 8
  · simp [eval, binop, arith, tryV, h1, encRef, encMemErr]
  · have h1' : 8 ≤ bytes.length := by omega
    have hu : usub p W64 bytes.length 8 = .ok (bytes.length - 8) := by unfold usub; rw [if_pos h1']
    have hr : rd32 bytes 0 = .ok (le32 bytes 0) := by unfold rd32; rw [if_pos (by omega)]
    by_cases h2 : addr % 8 = 0
    · have hao0 : ao = 0 := hao.mpr h2
      by_cases h3 : bytes.length % 8 = 0
      · by_cases h5 : le32 bytes 0 - 8 > bytes.length - 8 <;>
          simp [eval, binop, arith, tryV, castV, prim2, intPrim, set_other, h1, h2, h3, h5, hao0, hd, hu, hr, payloadLen, encRef,
            encMemErr]
      · simp [eval, binop, arith, tryV, set_other, h1, h2, h3, hao0, encRef, encMemErr]
    · have hao1 : ao ≠ 0 := fun h => h2 (hao.mp h)
      simp [eval, binop, arith, tryV, h1, h2, hao1, encRef, encMemErr]

theorem ref_from_slice_hb_linked_eq :
    evalO p [.int .usize bytes.length, .int .usize ao, bv, .int .u32 (le32 bytes 8), r] Gen.Fns.ref_from_slice_hb =
      some (encRef r (refFromSlice p .hb addr bytes)) := by
  have hd := mod_W64_of_lt_W32 (le32_lt bytes 8)
  unfold refFromSlice bytesRefTryFrom refFromBytes
  simp only [evalO, Gen.Fns.ref_from_slice_hb, Option.map, HK.hsize, HK.sizeOff]
  congr 1
  by_cases h1 : bytes.length < 16
  · simp [eval, binop, arith, tryV, h1, encRef, encMemErr]
  · have h1' : 16 ≤ bytes.length := by omega
    have hu : usub p W64 bytes.length 16 = .ok (bytes.length - 16) := by unfold usub; rw [if_pos h1']
    have hr : rd32 bytes 8 = .ok (le32 bytes 8) := by unfold rd32; rw [if_pos (by omega)]
    by_cases h2 : addr % 8 = 0
    · have hao0 : ao = 0 := hao.mpr h2
      by_cases h3 : bytes.length % 8 = 0
      · by_cases h5 : le32 bytes 8 - 16 > bytes.length - 16 <;>
          simp [eval, binop, arith, tryV, castV, prim2, intPrim, set_other, h1, h2, h3, h5, hao0, hd, hu, hr, payloadLen, encRef,
            encMemErr]
      · simp [eval, binop, arith, tryV, set_other, h1, h2, h3, hao0, encRef, encMemErr]
    · have hao1 : ao ≠ 0 := fun h => h2 (hao.mp h)
      simp [eval, binop, arith, tryV, h1, h2, hao1, encRef, encMemErr]

end
/-! ### the two `load` functions, linked down to the size arithmetic

  `BootInformation::load` = null check, `ref_from_ptr` (slice of `total_size()` bytes, `BytesRef::try_from`, `ref_from_bytes`
  with `payload_len`), `has_valid_end_tag`; `Multiboot2Header::load` = the same with the basic header, then magic and
  `verify_checksum` (`calc_checksum` inlined). Inputs of the linked terms: the outcome of `NonNull::new`, the alignment offset
  of the pointer, the declared size word, the words the checks look at, two opaque tokens. -/

def encLoad (r : V) : Res (Ex LoadErr Loaded) → Res V
  | .ok (.error (.memory e)) => .ok (.c1 "Err" (.c1 "LoadError::Memory" (encMemErr e)))
  | .ok (.error .noEndTag) => .ok (.c1 "Err" (.c0 "LoadError::NoEndTag"))
  | .ok (.ok _) => .ok (.c1 "Ok" (.c1 "BootInformation::Self" r))
  | .panic => .panic | .oob => .oob | .ub => .ub

/-- the whole of `BootInformation::load`, from the source, IS the closed form `loadClosed` (= the model's `load`,
    `C02.load_eq_closed`, = the specification, `C02.load_meets_spec`) for an aligned non-null pointer ... -/
theorem mbi_load_linked_eq (p : Profile) (d etyp esize : Nat) (ptr bytes r : V) (hd : d < W32) (hs : esize < W32) :
    evalO p [.c1 "Some" ptr, .int .usize 0, bytes, .int .u32 d, r, .int .u32 etyp, .int .u32 esize] Gen.Fns.mbi_load_linked =
      some (encLoad r (loadClosed d etyp esize)) := by
  have e1 := mod_W64_of_lt_W32 hd
  have e2 := mod_W64_of_lt_W32 hs
  unfold loadClosed
  simp only [evalO, Gen.Fns.mbi_load_linked, Option.map]
  congr 1
  by_cases h1 : d < 8
  · simp [eval, binop, arith, tryV, prim2, okOr, mapErr, castV, set_other, e1, h1, encLoad, encMemErr]
  · have h1' : 8 ≤ d := by omega
    have hu : usub p W64 d 8 = .ok (d - 8) := by unfold usub; rw [if_pos h1']
    have hng : ¬ d - 8 > d - 8 := by omega
    by_cases h3 : d % 8 = 0
    · by_cases h4 : etyp = 0
      · by_cases h5 : esize = 8
        · subst h5
          simp [eval, binop, arith, tryV, prim2, okOr, mapErr, intPrim, unop, castV, set_other, e1, h1, h3, h4, hu,
            encLoad, encMemErr, (by decide : (8 : Nat) % W64 = 8)]
        · simp [eval, binop, arith, tryV, prim2, okOr, mapErr, intPrim, unop, castV, set_other, e1, e2, h1, h3, h4, h5, hu,
            encLoad, encMemErr]
      · simp [eval, binop, arith, tryV, prim2, okOr, mapErr, intPrim, unop, castV, set_other, e1, e2, h1, h3, h4, hu,
          encLoad, encMemErr]
    · simp [eval, binop, arith, tryV, prim2, okOr, mapErr, castV, set_other, e1, h1, h3, encLoad, encMemErr]

/-- ... and the null pointer is reported as such before anything is looked at -/
theorem mbi_load_linked_null_eq (p : Profile) (ao bytes d r etyp esize : V) :
    evalO p [.c0 "None", ao, bytes, d, r, etyp, esize] Gen.Fns.mbi_load_linked =
      some (.ok (.c1 "Err" (.c1 "LoadError::Memory" (encMemErr .null)))) := by
  simp [evalO, Gen.Fns.mbi_load_linked, eval, tryV, prim2, okOr, encMemErr]

def encHLoad (r : V) : Res (Ex HLoadErr HLoaded) → Res V
  | .ok (.error (.memory e)) => .ok (.c1 "Err" (.c1 "LoadError::Memory" (encMemErr e)))
  | .ok (.error .magicNotFound) => .ok (.c1 "Err" (.c0 "LoadError::MagicNotFound"))
  | .ok (.error .checksumMismatch) => .ok (.c1 "Err" (.c0 "LoadError::ChecksumMismatch"))
  | .ok (.ok _) => .ok (.c1 "Ok" (.c1 "Multiboot2Header::Self" r))
  | .panic => .panic | .oob => .oob | .ub => .ub

/-- the closed form of the model's `hload` (`C10.hload_eq`) for a defined architecture value -/
def hloadClosed (m a l c : Nat) : Res (Ex HLoadErr HLoaded) :=
  if l < 16 then .ok (.error (.memory .shorterThanHeader))
  else if l % 8 ≠ 0 then .ok (.error (.memory .missingPadding))
  else if m ≠ HMAGIC then .ok (.error .magicNotFound)
  else if calcChecksum m a l ≠ c then .ok (.error .checksumMismatch)
  else .ok (.ok ⟨m, a, l, c⟩)

theorem hdr_load_linked_eq (p : Profile) (m a l c : Nat) (ptr bytes r : V) (hl : l < W32) (ha : a < W32) :
    evalO p [.c1 "Some" ptr, .int .usize 0, bytes, .int .u32 l, r, .int .u32 m, .int .u32 a, .int .u32 c] Gen.Fns.hdr_load_linked =
      some (encHLoad r (hloadClosed m a l c)) := by
  have e1 := mod_W64_of_lt_W32 hl
  have e2 : a % W32 = a := Nat.mod_eq_of_lt ha
  unfold hloadClosed
  simp only [evalO, Gen.Fns.hdr_load_linked, Option.map]
  congr 1
  by_cases h1 : l < 16
  · simp [eval, binop, arith, tryV, prim2, okOr, mapErr, castV, set_other, e1, h1, encHLoad, encMemErr]
  · have h1' : 16 ≤ l := by omega
    have hu : usub p W64 l 16 = .ok (l - 16) := by unfold usub; rw [if_pos h1']
    by_cases h3 : l % 8 = 0
    · have hM : HMAGIC = 3897708758 := rfl
      rw [hM]
      by_cases h4 : m = 3897708758
      · have h4t : (m = 3897708758) = True := eq_true h4
        have hck : calcChecksum m a l = wsub32 (wsub32 (wsub32 0 m) a) l := rfl
        rw [hck]
        by_cases h5 : wsub32 (wsub32 (wsub32 0 m) a) l = c
        · have h5' := h5
          simp only [wsub32, Nat.zero_add] at h5'
          simp [eval, binop, arith, tryV, prim2, okOr, mapErr, intPrim, unop, castV, set_other, e1, e2, h1, h3, h4t, h5, h5', hu,
            encHLoad, encMemErr]
        · have h5' := h5
          simp only [wsub32, Nat.zero_add] at h5'
          simp [eval, binop, arith, tryV, prim2, okOr, mapErr, intPrim, unop, castV, set_other, e1, e2, h1, h3, h4t, h5, h5', hu,
            encHLoad, encMemErr]
      · simp [eval, binop, arith, tryV, prim2, okOr, mapErr, intPrim, unop, castV, set_other, e1, e2, h1, h3, h4, hu,
          encHLoad, encMemErr]
    · simp [eval, binop, arith, tryV, prim2, okOr, mapErr, castV, set_other, e1, h1, h3, encHLoad, encMemErr]

end Mb2.Fns
