/-
  Mb2.Props.FnsTblBase — helpers for the impl-block tables of `Gen.Fns` (see `FnsTbl*.lean`).
-/

import Mb2.Props.FnsBase
open Mb2 Mb2.Rir

namespace Mb2.Fns

/-- a generated impl-block table: (function name `->` return type, kind, translated body, inputs / source text, `let` aliases of opaque inputs) -/
abbrev ImplTable := Option (List (String × String × Option E × List String × List String))

/-- the translated body of the row called `name` -/
def tblRow (t : ImplTable) (name : String) : Option E :=
  match t with
  | none => none
  | some l => (l.find? (fun r => r.1 == name)).bind (fun r => r.2.2.1)

/-- the inputs of the row called `name` -/
def tblVars (t : ImplTable) (name : String) : List String :=
  match t with
  | none => []
  | some l => ((l.find? (fun r => r.1 == name)).map (fun r => r.2.2.2.1)).getD []

end Mb2.Fns
