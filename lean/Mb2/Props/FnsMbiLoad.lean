/-
  Mb2.Props.FnsMbiLoad — SOURCE = MODEL (part of the function-body tie, see `Mb2/Props/FnsBase.lean` and `Mb2/Rir.lean`).
  Theorems about terms GENERATED from /repo's working tree by tools/gen_fns.py (`Mb2/Gen/Fns.lean`).
-/

import Mb2.Props.FnsBase
open Mb2 Mb2.Rir

namespace Mb2.Fns

theorem mbi_load_eq (p : Profile) (ptr inner : V) (nn : Bool) (r : Ex MemErr Unit) (endOk : Bool) :
    evalO p [if nn then .c1 "Some" ptr else .c0 "None",
             (match r with | .ok () => .c1 "Ok" inner | .error e => .c1 "Err" (encMemErr e)),
             .bool endOk] Gen.Fns.mbi_load =
      some (.ok (if !nn then .c1 "Err" (.c1 "LoadError::Memory" (encMemErr .null))
                 else match r with
                   | .error e => .c1 "Err" (.c1 "LoadError::Memory" (encMemErr e))
                   | .ok () => if endOk then .c1 "Ok" (.c1 "BootInformation::Self" inner)
                               else .c1 "Err" (.c0 "LoadError::NoEndTag"))) := by
  cases nn <;> cases r <;> cases endOk <;>
    simp [evalO, Gen.Fns.mbi_load, eval, prim2, okOr, mapErr, tryV, unop, set_other, encMemErr]

/-- `has_valid_end_tag`: the decision is `typ == 0 && size == 8` on the tag header it looks at ... -/
theorem has_valid_end_tag_eq (p : Profile) (typ size : Nat) (hs : size < W32) :
    evalO p [.int .u32 typ, .int .u32 size] Gen.Fns.has_valid_end_tag =
      some (.ok (.bool (decide (typ = 0) && decide (size = 8)))) := by
  by_cases h1 : typ = 0 <;>
    simp [evalO, Gen.Fns.has_valid_end_tag, eval, binop, arith, castV, mod_W64_of_lt_W32 hs, h1]

/-- ... and the header it looks at is the one `size_of::<EndTag>()` bytes before the end of the payload, i.e. the LAST 8
    bytes of the declared region (the offset `8 + pl - 8` of the model's `load`): pinned on the source text of the pointer -/
theorem has_valid_end_tag_reads_last_8 :
    Gen.Fns.has_valid_end_tag = none ∨
      ("end_tag_ptr", "self.0.payload().as_ptr().add(self.0.header().payload_len()).sub(size_of::<EndTag>()).cast::<TagHeader>()")
        ∈ Gen.Fns.has_valid_end_tag_aliases := by
  decide

end Mb2.Fns
