/-
  Mb2.Props.FnsMbiLoad — SOURCE = MODEL (part of the function-body tie, see `Mb2/Props/FnsBase.lean` and `Mb2/Rir.lean`).
  Theorems about terms GENERATED from /repo's working tree by tools/gen_fns.py (`Mb2/Gen/Fns.lean`).
-/

import Mb2.Props.FnsBase
open Mb2 Mb2.Rir

namespace Mb2.Fns

theorem mbi_load_eq (p : Profile) (ptr inner : V) (nn : Bool) (r : Ex MemErr Unit) (endOk : Bool) :
    evalO p [if nn then .c1 "Some" ptr else .c0 "None",
             (match r with | .ok () => .c1 "Ok" inner | .error e => .c1 "Err" (encMemErr e)),
             .bool endOk] Gen.Fns.mbi_load =
      some (.ok (if !nn then .c1 "Err" (.c1 "LoadError::Memory" (encMemErr .null))
                 else match r with
                   | .error e => .c1 "Err" (.c1 "LoadError::Memory" (encMemErr e))
                   | .ok () => if endOk then .c1 "Ok" (.c1 "BootInformation::Self" inner)
                               else .c1 "Err" (.c0 "LoadError::NoEndTag"))) := by
  cases nn <;> cases r <;> cases endOk <;>
    simp [evalO, Gen.Fns.mbi_load, eval, prim2, okOr, mapErr, tryV, unop, set_other, encMemErr]

end Mb2.Fns
