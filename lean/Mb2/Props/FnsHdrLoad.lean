/-
  Mb2.Props.FnsHdrLoad — SOURCE = MODEL (part of the function-body tie, see `Mb2/Props/FnsBase.lean` and `Mb2/Rir.lean`).
  Theorems about terms GENERATED from /repo's working tree by tools/gen_fns.py (`Mb2/Gen/Fns.lean`).
-/

import Mb2.Props.FnsBase
open Mb2 Mb2.Rir

namespace Mb2.Fns

theorem hdr_load_eq (p : Profile) (ptr inner : V) (nn : Bool) (r : Ex MemErr Unit) (magic : Nat) (ckOk : Bool) :
    evalO p [if nn then .c1 "Some" ptr else .c0 "None",
             (match r with | .ok () => .c1 "Ok" inner | .error e => .c1 "Err" (encMemErr e)),
             .int .u32 magic, .bool ckOk] Gen.Fns.hdr_load =
      some (.ok (if !nn then .c1 "Err" (.c1 "LoadError::Memory" (encMemErr .null))
                 else match r with
                   | .error e => .c1 "Err" (.c1 "LoadError::Memory" (encMemErr e))
                   | .ok () => if magic ≠ HMAGIC then .c1 "Err" (.c0 "LoadError::MagicNotFound")
                               else if ckOk then .c1 "Ok" (.c1 "Multiboot2Header::Self" inner)
                               else .c1 "Err" (.c0 "LoadError::ChecksumMismatch"))) := by
  cases nn <;> cases r <;> cases ckOk <;>
    simp [evalO, Gen.Fns.hdr_load, eval, prim2, okOr, mapErr, tryV, unop, set_other, encMemErr, binop, arith, HMAGIC] <;>
    split <;> rfl

end Mb2.Fns
