/-
  Mb2.Props.Fns — SOURCE = MODEL for the decision / arithmetic core.

  `tools/gen_fns.py` translates function bodies of /repo's working tree into closed terms of the IR of `Mb2/Rir.lean`
  (`Mb2/Gen/Fns.lean`, regenerated on every run). Each theorem below states, for ALL argument values, that evaluating the
  translated body (`Rir.eval`, both build profiles) yields exactly what the hand-written model function yields. Together with
  the property theorems (which are about the model functions) this makes the model's decisions a checked consequence of what
  the source says now: a change of a guard, a constant, an operator, an integer width, an arm of a conversion table or of the
  order of two checks changes the generated term and breaks the corresponding proof obligation.

  A theorem is stated for `some` translations only (`evalO` maps over the `Option`): a body the translator cannot read is
  reported as lost coverage, not as an alarm.
-/

import Mb2.Gen.Fns
import Mb2.Common
import Mb2.Header
import Mb2.Mbi
import Mb2.Ids
import Mb2.Tags
import Mb2.HTags
import Mb2.Lemmas.Bits
import Mb2.Lemmas.Rir
open Mb2 Mb2.Rir

namespace Mb2.Fns

/-- a model result (`Res Nat`) as an IR value of integer type `t` -/
def intRes (t : Ty) (r : Res Nat) : Res V := r >>= fun n => .ok (.int t n)

@[simp] theorem intRes_ok (t : Ty) (n : Nat) : intRes t (.ok n) = .ok (.int t n) := rfl

@[simp] theorem intRes_panic (t : Ty) : intRes t .panic = .panic := rfl

@[simp] theorem intRes_oob (t : Ty) : intRes t .oob = .oob := rfl

@[simp] theorem intRes_ub (t : Ty) : intRes t .ub = .ub := rfl

/-- an untyped literal result takes the function's return type -/
def typed (t : Ty) : V → V
  | .lit n => .int t n
  | v => v

def encMemErr : MemErr → V
  | .null => .c0 "MemoryError::Null"
  | .wrongAlignment => .c0 "MemoryError::WrongAlignment"
  | .shorterThanHeader => .c0 "MemoryError::ShorterThanHeader"
  | .missingPadding => .c0 "MemoryError::MissingPadding"
  | .invalidReportedTotalSize => .c0 "MemoryError::InvalidReportedTotalSize"

theorem mod_W64_of_lt_W32 {d : Nat} (h : d < W32) : d % W64 = d :=
  Nat.mod_eq_of_lt (by simp only [W32, W64] at *; omega)

theorem and_not7_nat (s : Nat) (hs : s < W64) : s &&& (W64 - 1 - 7) = roundDown8 s := by
  have h := and_not7 (BitVec.ofNat 64 s)
  have h2 := congrArg BitVec.toNat h
  rw [shr_shl_toNat] at h2
  simp only [BitVec.toNat_and, BitVec.toNat_not, BitVec.toNat_ofNat] at h2
  have e : s % 2^64 = s := Nat.mod_eq_of_lt (by simpa [W64] using hs)
  rw [e] at h2
  unfold roundDown8
  rw [← h2]
  rfl

theorem uadd_lt (p : Profile) (w a b s : Nat) (hw : 0 < w) (h : uadd p w a b = .ok s) : s < w := by
  unfold uadd at h; split at h
  · cases h; assumption
  · cases p <;> simp at h; subst h; exact Nat.mod_lt _ hw

end Mb2.Fns
