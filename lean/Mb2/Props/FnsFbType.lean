/-
  Mb2.Props.FnsFbType — SOURCE = MODEL (part of the function-body tie, see `Mb2/Props/FnsBase.lean` and `Mb2/Rir.lean`).
  Theorems about terms GENERATED from /repo's working tree by tools/gen_fns.py (`Mb2/Gen/Fns.lean`).
-/

import Mb2.Props.FnsBase
open Mb2 Mb2.Rir

namespace Mb2.Fns

/-- `FramebufferTypeId::try_from(u8)` = `fbTypeOfByte` -/
theorem fb_type_try_from_eq (p : Profile) (b : Nat) :
    evalO p [.int .u8 b] Gen.Fns.fb_type_try_from =
      some (.ok (match fbTypeOfByte b with
                 | some 0 => .c1 "Ok" (.c0 "FramebufferTypeId::Indexed")
                 | some 1 => .c1 "Ok" (.c0 "FramebufferTypeId::RGB")
                 | some _ => .c1 "Ok" (.c0 "FramebufferTypeId::Text")
                 | none => .c1 "Err" (.c1 "UnknownFramebufferType" (.int .u8 b)))) := by
  simp only [evalO, Gen.Fns.fb_type_try_from, Option.map, fbTypeOfByte]
  by_cases h0 : b = 0
  · subst h0; simp [eval, binop, arith]
  · by_cases h1 : b = 1
    · subst h1; simp [eval, binop, arith]
    · by_cases h2 : b = 2
      · subst h2; simp [eval, binop, arith]
      · simp [eval, binop, arith, h0, h1, h2]

end Mb2.Fns
