/-
  Mb2.Props.FnsTblMbi — SOURCE = MODEL, whole impl blocks as tables (tools/gen_fns.py IMPL_TABLES -> `Gen.Fns.tbl_*`).
  Each theorem compares the table GENERATED from /repo's working tree - every function of the impl block in source order,
  its return type, its translated body and the inputs the body depends on - with the expected one: a forwarder that names
  another tag type or field, a changed body, and any function added to or removed from the block breaks it.
-/

import Mb2.Props.FnsTblBase
open Mb2 Mb2.Rir

namespace Mb2.Fns

set_option maxRecDepth 8000
set_option linter.unusedSimpArgs false

-- BEGIN TABLES (generated once by a script from the unchanged tree, then REVIEWED row by row)
theorem tbl_mbi_eq : Gen.Fns.tbl_mbi = some [
  ("load->Result<Self,LoadError>", "covered", none, [], []),
  ("has_valid_end_tag->bool", "covered", none, [], []),
  ("start_address->usize", "ir", some (.cast (.var 0) .usize), ["self.as_ptr()"], []),
  ("as_ptr->*const()", "ir", some (.var 0), ["core::ptr::addr_of!(*self.0).cast()"], []),
  ("end_address->usize", "ir", some (.bin .add (.var 0) (.var 1)), ["self.start_address()", "self.total_size()"], []),
  ("total_size->usize", "ir", some (.cast (.var 0) .usize), ["self.0.header().total_size"], []),
  ("apm_tag->Option<&ApmTag>", "ir", some (.var 0), ["self.get_tag::<ApmTag>()"], []),
  ("basic_memory_info_tag->Option<&BasicMemoryInfoTag>", "ir", some (.var 0), ["self.get_tag::<BasicMemoryInfoTag>()"], []),
  ("boot_loader_name_tag->Option<&BootLoaderNameTag>", "ir", some (.var 0), ["self.get_tag::<BootLoaderNameTag>()"], []),
  ("bootdev_tag->Option<&BootdevTag>", "ir", some (.var 0), ["self.get_tag::<BootdevTag>()"], []),
  ("command_line_tag->Option<&CommandLineTag>", "ir", some (.var 0), ["self.get_tag::<CommandLineTag>()"], []),
  ("efi_bs_not_exited_tag->Option<&EFIBootServicesNotExitedTag>", "ir", some (.var 0), ["self.get_tag::<EFIBootServicesNotExitedTag>()"], []),
  ("efi_memory_map_tag->Option<&EFIMemoryMapTag>", "covered", none, [], []),
  ("efi_sdt32_tag->Option<&EFISdt32Tag>", "ir", some (.var 0), ["self.get_tag::<EFISdt32Tag>()"], []),
  ("efi_sdt64_tag->Option<&EFISdt64Tag>", "ir", some (.var 0), ["self.get_tag::<EFISdt64Tag>()"], []),
  ("efi_ih32_tag->Option<&EFIImageHandle32Tag>", "ir", some (.var 0), ["self.get_tag::<EFIImageHandle32Tag>()"], []),
  ("efi_ih64_tag->Option<&EFIImageHandle64Tag>", "ir", some (.var 0), ["self.get_tag::<EFIImageHandle64Tag>()"], []),
  ("elf_sections->Option<ElfSectionIter>", "covered", none, [], []),
  ("elf_sections_tag->Option<&ElfSectionsTag>", "ir", some (.var 0), ["self.get_tag()"], []),
  ("framebuffer_tag->Option<Result<&FramebufferTag,UnknownFramebufferType>>", "covered", none, [], []),
  ("load_base_addr_tag->Option<&ImageLoadPhysAddrTag>", "ir", some (.var 0), ["self.get_tag::<ImageLoadPhysAddrTag>()"], []),
  ("memory_map_tag->Option<&MemoryMapTag>", "ir", some (.var 0), ["self.get_tag::<MemoryMapTag>()"], []),
  ("module_tags->ModuleIter", "covered", none, [], []),
  ("network_tag->Option<&NetworkTag>", "ir", some (.var 0), ["self.get_tag::<NetworkTag>()"], []),
  ("rsdp_v1_tag->Option<&RsdpV1Tag>", "ir", some (.var 0), ["self.get_tag::<RsdpV1Tag>()"], []),
  ("rsdp_v2_tag->Option<&RsdpV2Tag>", "ir", some (.var 0), ["self.get_tag::<RsdpV2Tag>()"], []),
  ("smbios_tag->Option<&SmbiosTag>", "ir", some (.var 0), ["self.get_tag::<SmbiosTag>()"], []),
  ("vbe_info_tag->Option<&VBEInfoTag>", "ir", some (.var 0), ["self.get_tag::<VBEInfoTag>()"], []),
  ("get_tag->Option<&'aT>", "covered", none, [], []),
  ("tags->TagIter", "covered", none, [], [])] := rfl

theorem tbl_bih_eq : Gen.Fns.tbl_bih = some [
  ("new->Self", "ir", some (.pair (.var 0) (.lit 0)), ["total_size"], []),
  ("total_size->u32", "ir", some (.var 0), ["self.total_size"], [])] := rfl

theorem tbl_tag_header_eq : Gen.Fns.tbl_tag_header = some [
  ("new->Self", "ir", some (.pair (.var 0) (.var 1)), ["typ.into()", "size"], [])] := rfl

theorem tbl_dyn_eq : Gen.Fns.tbl_dyn = some [
  ("ref_from_bytes->Result<&Self,MemoryError>", "covered", none, [], []),
  ("ref_from_slice->Result<&Self,MemoryError>", "covered", none, [], []),
  ("ref_from_ptr->Result<&'aSelf,MemoryError>", "covered", none, [], []),
  ("header->&H", "ir", some (.var 0), ["self.header"], []),
  ("payload->&[u8]", "ir", some (.var 0), ["self.payload"], []),
  ("cast->&T", "covered", none, [], [])] := rfl

theorem tbl_bytes_ref_deref_eq : Gen.Fns.tbl_bytes_ref_deref = some [
  ("deref->&Self::Target", "ir", some (.var 0), ["self.bytes"], [])] := rfl

theorem tbl_maybe_dyn_sized_eq : Gen.Fns.tbl_maybe_dyn_sized = some [
  ("dst_len->Self::Metadata", "decl", none, [], []),
  ("header->&Self::Header", "covered", none, [], []),
  ("payload->&[u8]", "covered", none, [], []),
  ("as_bytes->BytesRef<Self::Header>", "covered", none, [], []),
  ("as_ptr->*constSelf::Header", "ir", some (.var 0), ["self.as_bytes().as_ptr().cast()"], [])] := rfl

theorem tbl_header_trait_eq : Gen.Fns.tbl_header_trait = some [
  ("payload_len->usize", "decl", none, [], []),
  ("total_size->usize", "covered", none, [], []),
  ("set_size->()", "decl", none, [], [])] := rfl
-- END TABLES

/-! ### what the pinned rows mean -/

/-- the eighteen plain typed getters of `BootInformation` are `get_tag::<T>()` at the tag type their return type names
    (`get_tag` = first tag in walk order whose type is `T::ID`: `mbi_get_tag_text`; `T::ID` = the specification's number:
    `Layout.ids_match`) -/
theorem mbi_typed_getters_forward :
    ∀ gt ∈ [("apm_tag", "ApmTag"), ("basic_memory_info_tag", "BasicMemoryInfoTag"), ("boot_loader_name_tag", "BootLoaderNameTag"),
            ("bootdev_tag", "BootdevTag"), ("command_line_tag", "CommandLineTag"),
            ("efi_bs_not_exited_tag", "EFIBootServicesNotExitedTag"), ("efi_sdt32_tag", "EFISdt32Tag"),
            ("efi_sdt64_tag", "EFISdt64Tag"), ("efi_ih32_tag", "EFIImageHandle32Tag"), ("efi_ih64_tag", "EFIImageHandle64Tag"),
            ("load_base_addr_tag", "ImageLoadPhysAddrTag"), ("memory_map_tag", "MemoryMapTag"), ("network_tag", "NetworkTag"),
            ("rsdp_v1_tag", "RsdpV1Tag"), ("rsdp_v2_tag", "RsdpV2Tag"), ("smbios_tag", "SmbiosTag"), ("vbe_info_tag", "VBEInfoTag")],
      tblRow Gen.Fns.tbl_mbi (gt.1 ++ "->Option<&" ++ gt.2 ++ ">") = some (.var 0) ∧
      tblVars Gen.Fns.tbl_mbi (gt.1 ++ "->Option<&" ++ gt.2 ++ ">") = ["self.get_tag::<" ++ gt.2 ++ ">()"] := by
  rw [tbl_mbi_eq]; decide

/-- `elf_sections_tag` leaves the type to inference: it is the return type -/
theorem mbi_elf_sections_tag_forward :
    tblRow Gen.Fns.tbl_mbi "elf_sections_tag->Option<&ElfSectionsTag>" = some (.var 0) ∧
    tblVars Gen.Fns.tbl_mbi "elf_sections_tag->Option<&ElfSectionsTag>" = ["self.get_tag()"] := by
  rw [tbl_mbi_eq]; decide

/-- `end_address()` = `start_address() + total_size()` -/
theorem mbi_end_address_eq (p : Profile) (s t : Nat) (h : s + t < W64) :
    evalO p [.int .usize s, .int .usize t] (tblRow Gen.Fns.tbl_mbi "end_address->usize") = some (.ok (.int .usize (s + t))) := by
  rw [tbl_mbi_eq]
  simp [tblRow, List.find?, evalO, eval, binop, arith, uadd, h]

end Mb2.Fns
