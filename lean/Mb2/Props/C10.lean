/-
  C10 — Header loading accepts exactly magic- and checksum-valid headers.
-/
import Mb2.Props.FnsTblHdr
import Mb2.Props.FnsLinked
import Mb2.Props.FnsGetters
import Mb2.Props.FnsBytesRef
import Mb2.Props.FnsHdrLoad
import Mb2.Props.FnsHbHdr
import Mb2.Spec
import Mb2.Lemmas.Arith
import Mb2.Lemmas.Common
namespace Mb2.C10
open Mb2

/-- the checksum the library computes satisfies `magic + arch + length + checksum ≡ 0 (mod 2^32)`,
    for ALL magic, architecture and length words -/
theorem checksum_law (m a l : Nat) (hm : m < 4294967296) (ha : a < 4294967296) (hl : l < 4294967296) :
    (calcChecksum m a l + m + a + l) % 4294967296 = 0 ∧ calcChecksum m a l < 4294967296 := by
  unfold calcChecksum wsub32
  simp only [W32_eq]
  omega

/-- … and it is the only 32-bit word that does -/
theorem checksum_unique (m a l c : Nat) (hm : m < 4294967296) (ha : a < 4294967296) (hl : l < 4294967296)
    (hc : c < 4294967296) :
    (m + a + l + c) % 4294967296 = 0 ↔ calcChecksum m a l = c := by
  unfold calcChecksum wsub32
  simp only [W32_eq]
  omega

/-- Closed form of the modelled `Multiboot2Header::load` behind a non-null aligned pointer with the declared length
    (and at least the 16 header bytes) readable; identical in both profiles. -/
theorem hload_eq (p : Profile) (mem : Bytes)
    (hmem : mem.length ≥ 16 ∧ mem.length ≥ le32 mem 8) :
    hload p false mem =
      let m := le32 mem 0
      let a := le32 mem 4
      let l := le32 mem 8
      let c := le32 mem 12
      if l < 16 then .ok (.error (.memory .shorterThanHeader))
      else if l % 8 ≠ 0 then .ok (.error (.memory .missingPadding))
      else if m ≠ HMAGIC then .ok (.error .magicNotFound)
      else if a ≠ 0 ∧ a ≠ 4 then .ub
      else if calcChecksum m a l ≠ c then .ok (.error .checksumMismatch)
      else .ok (.ok ⟨m, a, l, c⟩) := by
  obtain ⟨h16, hd⟩ := hmem
  unfold hload refFromPtr
  simp only [Bool.false_eq_true, if_false]
  have r0 : rd32 mem HK.hb.sizeOff = .ok (le32 mem 8) := by
    unfold rd32; rw [if_pos (by simp [HK.sizeOff]; omega)]; rfl
  rw [r0]
  simp only [Res.bind_ok, totalSize]
  generalize hdd : le32 mem 8 = d at *
  rw [if_neg (by omega)]
  unfold refFromSlice bytesRefTryFrom
  have hl : (mem.take d).length = d := by simp [List.length_take]; omega
  simp only [hl, HK.hsize]
  by_cases c1 : d < 16
  · simp [c1]
  · by_cases c2 : d % 8 ≠ 0
    · simp [c1, c2]
    · have c2' : d % 8 = 0 := by omega
      simp only [c1, c2', if_false, Nat.zero_mod, ne_eq, not_true_eq_false]
      unfold refFromBytes
      have r1 : rd32 (mem.take d) HK.hb.sizeOff = .ok d := by
        rw [rd32_take mem d _ (by simp [HK.sizeOff]; omega) hd]; simp [HK.sizeOff, hdd]
      rw [r1]
      simp only [Res.bind_ok, payloadLen, hl, HK.hsize, Res.pure_eq]
      rw [if_neg (by omega)]
      simp only [Res.bind_ok]
      rw [rd32_take mem d 0 (by omega) hd]
      simp only [Res.bind_ok]
      by_cases c3 : le32 mem 0 ≠ HMAGIC
      · rw [if_pos c3, if_pos c3]
      · rw [if_neg c3, if_neg c3, rd32_take mem d 4 (by omega) hd]
        simp only [Res.bind_ok]
        by_cases c4 : le32 mem 4 ≠ 0 ∧ le32 mem 4 ≠ 4
        · rw [if_pos c4, if_pos c4]
        · rw [if_neg c4, if_neg c4, rd32_take mem d 8 (by omega) hd, hdd]
          simp only [Res.bind_ok]
          rw [rd32_take mem d 12 (by omega) hd]
          simp only [Res.bind_ok]

/-- C10, load part: for a defined architecture word the modelled load returns exactly what the specification
    prescribes (null, too short, missing padding, wrong magic, checksum mismatch - in that precedence - or success),
    never panics, never reads outside the declared length. -/
theorem hload_meets_spec (p : Profile) (null : Bool) (mem : Bytes)
    (hmem : null = false → mem.length ≥ 16 ∧ mem.length ≥ le32 mem 8)
    (harch : null = false → le32 mem 4 = 0 ∨ le32 mem 4 = 4) :
    (Spec.hload null mem).admits (hload p null mem) = true := by
  cases null
  · rw [hload_eq p mem (hmem rfl)]
    unfold Spec.hload
    have ha := harch rfl
    have hm := le32_lt mem 0
    have hav := le32_lt mem 4
    have hl := le32_lt mem 8
    have hc := le32_lt mem 12
    simp only [Bool.false_eq_true, if_false]
    by_cases c1 : le32 mem 8 < 16
    · rw [if_pos c1, if_pos c1]; exact Expect.admits_exactly _
    · rw [if_neg c1, if_neg c1]
      by_cases c2 : le32 mem 8 % 8 ≠ 0
      · rw [if_pos c2, if_pos c2]; exact Expect.admits_exactly _
      · rw [if_neg c2, if_neg c2]
        by_cases c3 : le32 mem 0 ≠ HMAGIC
        · rw [if_pos c3, if_pos c3]; exact Expect.admits_exactly _
        · rw [if_neg c3, if_neg c3]
          have c4 : ¬ (le32 mem 4 ≠ 0 ∧ le32 mem 4 ≠ 4) := by omega
          rw [if_neg c4, if_neg c4]
          have u := checksum_unique (le32 mem 0) (le32 mem 4) (le32 mem 8) (le32 mem 12) hm hav hl hc
          by_cases c5 : (le32 mem 0 + le32 mem 4 + le32 mem 8 + le32 mem 12) % 4294967296 ≠ 0
          · have c6 : calcChecksum (le32 mem 0) (le32 mem 4) (le32 mem 8) ≠ le32 mem 12 := fun h => c5 (u.mpr h)
            rw [if_pos c5, if_pos c6]; exact Expect.admits_exactly _
          · have c6 : ¬ calcChecksum (le32 mem 0) (le32 mem 4) (le32 mem 8) ≠ le32 mem 12 := by
              intro h; exact h (u.mp (by omega))
            rw [if_neg c5, if_neg c6]; exact Expect.admits_exactly _
  · simp [Spec.hload, hload, Expect.admits]

theorem hload_profile_independent (null : Bool) (mem : Bytes)
    (hmem : null = false → mem.length ≥ 16 ∧ mem.length ≥ le32 mem 8) :
    hload .dev null mem = hload .release null mem := by
  cases null
  · rw [hload_eq .dev mem (hmem rfl), hload_eq .release mem (hmem rfl)]
  · simp [hload]

/-! Non-vacuity -/
example : calcChecksum 0xE85250D6 0 16 = 0x17ADAF1A := by decide
example : calcChecksum 0xFFFFFFFF 0 2 = 0xFFFFFFFF := by decide
example : hload .dev false ([0xd6,0x50,0x52,0xe8, 0,0,0,0, 16,0,0,0, 0x1a,0xaf,0xad,0x17]) =
    .ok (.ok ⟨0xE85250D6, 0, 16, 0x17ADAF1A⟩) := by decide

end Mb2.C10
