/-
  C07 (continued): byte-exact images and accessor read-back for ALL argument values.

  * `contiguous_ctor_bytes`: for the fixed-size information tags whose arguments are stored in struct order, the image is
    exactly `header(type, size) ++ arguments` - for every argument blob.
  * `contiguous_ctor_readback`: hence every field of the SPECIFICATION's layout table (`Spec.fields`) reads back the
    argument stored at that position, whatever the argument values are.
  * `placed_ctor_readback`: and an accessor running on the tag as found in a loaded region (C04.field_decodes) returns it.
  * the dynamically sized constructors (module, SMBIOS, network, ELF sections, EFI memory map) emit
    `header(type, 8 + |content|) ++ content` with the content in the specification's order.
-/
import Mb2.Props.C07Parts
import Mb2.Props.C04Parts
namespace Mb2.C07
open Mb2

theorem slice_zero_eq_take (b : Bytes) (n : Nat) : slice b 0 n = b.take n := by unfold slice; simp

theorem slice_append_adj (b : Bytes) (a n m : Nat) (_h : a + n ≤ b.length) :
    slice b a n ++ slice b (a + n) m = slice b a (n + m) := by
  unfold slice
  rw [← List.drop_drop]
  rw [List.take_add]

theorem leW_append_right (a b : Bytes) (i w : Nat) (hw : w = 1 ∨ w = 2 ∨ w = 4 ∨ w = 8) :
    leW (a ++ b) (a.length + i) w = leW b i w := by
  have h8 : ∀ j, u8At (a ++ b) (a.length + i + j) = u8At b (i + j) := by
    intro j; rw [Nat.add_assoc]; exact u8At_append_right a b (i + j)
  have h80 := h8 0
  simp only [Nat.add_zero] at h80
  rcases hw with h | h | h | h <;> subst h <;> simp only [leW, le16, le32, le64]
  · exact h80
  · rw [h80, h8 1]
  · rw [h80, h8 1, h8 2, h8 3]
  · have e : ∀ j k, a.length + i + j + k = a.length + i + (j + k) := by intros; omega
    simp only [e, h80, h8]

theorem u8At_take' (b : Bytes) (n i : Nat) (h : i < n) : u8At (b.take n) i = u8At b i := u8At_take b n i h

theorem leW_take (b : Bytes) (n o w : Nat) (hw : w = 1 ∨ w = 2 ∨ w = 4 ∨ w = 8) (h : o + w ≤ n) :
    leW (b.take n) o w = leW b o w := by
  rcases hw with h' | h' | h' | h' <;> subst h' <;> simp only [leW, le16, le32, le64]
  · exact u8At_take b n o (by omega)
  · rw [u8At_take b n o (by omega), u8At_take b n (o+1) (by omega)]
  · rw [u8At_take b n o (by omega), u8At_take b n (o+1) (by omega), u8At_take b n (o+2) (by omega), u8At_take b n (o+3) (by omega)]
  · rw [u8At_take b n o (by omega), u8At_take b n (o+1) (by omega), u8At_take b n (o+2) (by omega), u8At_take b n (o+3) (by omega),
        u8At_take b n (o+4) (by omega), u8At_take b n (o+4+1) (by omega), u8At_take b n (o+4+2) (by omega), u8At_take b n (o+4+3) (by omega)]

/-- constructors whose arguments are stored contiguously in struct order: (name, kind, argument bytes) -/
def contiguousCtors : List (String × Kind × Nat) :=
  [("meminfo", .meminfo, 8), ("bootdev", .bootdev, 12), ("apm", .apm, 20), ("efi32", .efiSdt32, 4), ("efi64", .efiSdt64, 8),
   ("efibs", .efiBs, 0), ("ih32", .efiIh32, 4), ("ih64", .efiIh64, 8), ("loadbase", .loadBase, 4), ("end", .end_, 0)]

/-- the image is exactly `header(type, size) ++ arguments`, for every blob -/
theorem contiguous_ctor_bytes : ∀ c ∈ contiguousCtors, ∀ (p : Profile) (blob : Bytes), c.2.2 ≤ blob.length →
    ∃ img, ctorImpl p c.1 blob = .ok img ∧ img.typ = c.2.1.typ ∧ img.size = 8 + c.2.2 ∧
      img.bytes = mbiHdr c.2.1.typ (8 + c.2.2) ++ blob.take c.2.2 := by
  intro c hc p blob hlen
  simp only [contiguousCtors, List.mem_cons, List.mem_nil_iff, or_false] at hc
  rcases hc with h | h | h | h | h | h | h | h | h | h <;> subst h <;> simp only at hlen
  all_goals refine ⟨_, rfl, rfl, rfl, ?_⟩
  all_goals simp only [sizedImg, Kind.typ]
  all_goals congr 1
  · -- meminfo
    rw [show (4:Nat) = 0 + 4 from rfl, slice_append_adj blob 0 4 4 (by omega), slice_zero_eq_take]
  · -- bootdev
    rw [show (4:Nat) = 0 + 4 from rfl, slice_append_adj blob 0 4 4 (by omega),
        show (8:Nat) = 0 + (4 + 4) from rfl, slice_append_adj blob 0 (4+4) 4 (by omega), slice_zero_eq_take]
  · -- apm
    rw [show (2:Nat) = 0 + 2 from rfl, slice_append_adj blob 0 2 2 (by omega)]
    rw [show (4:Nat) = 0 + (2 + 2) from rfl, slice_append_adj blob 0 (2+2) 4 (by omega)]
    rw [show (8:Nat) = 0 + (2 + 2 + 4) from rfl, slice_append_adj blob 0 (2+2+4) 2 (by omega)]
    rw [show (10:Nat) = 0 + (2 + 2 + 4 + 2) from rfl, slice_append_adj blob 0 (2+2+4+2) 2 (by omega)]
    rw [show (12:Nat) = 0 + (2 + 2 + 4 + 2 + 2) from rfl, slice_append_adj blob 0 (2+2+4+2+2) 2 (by omega)]
    rw [show (14:Nat) = 0 + (2 + 2 + 4 + 2 + 2 + 2) from rfl, slice_append_adj blob 0 (2+2+4+2+2+2) 2 (by omega)]
    rw [show (16:Nat) = 0 + (2 + 2 + 4 + 2 + 2 + 2 + 2) from rfl, slice_append_adj blob 0 (2+2+4+2+2+2+2) 2 (by omega)]
    rw [show (18:Nat) = 0 + (2 + 2 + 4 + 2 + 2 + 2 + 2 + 2) from rfl, slice_append_adj blob 0 (2+2+4+2+2+2+2+2) 2 (by omega)]
    rw [slice_zero_eq_take]
  all_goals first
    | exact slice_zero_eq_take blob _
    | simp


theorem contiguous_fields_behind_header : ∀ c ∈ contiguousCtors, ∀ f ∈ c.2.1.fields,
    c.2.1.desc.fixed = 8 + c.2.2 ∧ 8 ≤ f.2.1 := by decide

/-- READ-BACK, all values: every field of the specification's layout table, read from the constructed image at the
    specified offset and width, is the argument the caller passed at that position (the blob is the little-endian
    concatenation of the arguments in the specification's field order, so field `(off, w)` is argument bytes
    `[off − 8, off − 8 + w)`). -/
theorem contiguous_ctor_readback : ∀ c ∈ contiguousCtors, ∀ (p : Profile) (blob : Bytes), c.2.2 ≤ blob.length →
    ∃ img, ctorImpl p c.1 blob = .ok img ∧
      ∀ f ∈ Spec.fields c.2.1.typ, leW img.bytes f.2.1 f.2.2 = leW blob (f.2.1 - 8) f.2.2 := by
  intro c hc p blob hlen
  obtain ⟨img, himg, _, _, hbytes⟩ := contiguous_ctor_bytes c hc p blob hlen
  refine ⟨img, himg, ?_⟩
  intro f hf
  rw [← C04.layout_eq_spec] at hf
  have hin := C04.fields_inside c.2.1 f hf
  -- all fields of these kinds start behind the 8-byte header and end inside the fixed part = 8 + argument bytes
  have hfix : c.2.1.desc.fixed = 8 + c.2.2 ∧ 8 ≤ f.2.1 := contiguous_fields_behind_header c hc f hf
  rw [hbytes]
  have e : f.2.1 = (mbiHdr c.2.1.typ (8 + c.2.2)).length + (f.2.1 - 8) := by
    have : (mbiHdr c.2.1.typ (8 + c.2.2)).length = 8 := rfl
    omega
  rw [e, leW_append_right _ _ _ _ hin.2, leW_take blob c.2.2 (f.2.1 - 8) f.2.2 hin.2 (by omega)]
  congr 1
  have : (mbiHdr c.2.1.typ (8 + c.2.2)).length = 8 := rfl
  omega

/-- … and through the real accessor path: wherever the constructed image sits inside a loaded tag area (`v` = the typed
    view `get_tag` returns for it), every field accessor returns the constructor argument -/
theorem placed_ctor_readback : ∀ c ∈ contiguousCtors, ∀ (p : Profile) (blob : Bytes), c.2.2 ≤ blob.length →
    ∃ img, ctorImpl p c.1 blob = .ok img ∧
      ∀ (area : Bytes) (v : View), v.off + v.sov ≤ area.length → c.2.1.desc.fixed ≤ v.sov →
        slice area v.off img.size = img.bytes →
        ∀ f ∈ Spec.fields c.2.1.typ, rdW (v.bytes area) f.2.1 f.2.2 = .ok (leW blob (f.2.1 - 8) f.2.2) := by
  intro c hc p blob hlen
  obtain ⟨img, himg, _, hsize, _⟩ := contiguous_ctor_bytes c hc p blob hlen
  obtain ⟨img', himg', hrb⟩ := contiguous_ctor_readback c hc p blob hlen
  have : img' = img := by rw [himg] at himg'; injection himg' with h; exact h.symm
  subst this
  refine ⟨img', himg, ?_⟩
  intro area v hfit hsov hplace f hf
  rw [C04.field_decodes area c.2.1 v hfit hsov f hf, ← hrb f hf, ← hplace]
  congr 1
  -- the field lies inside the image: reading it from the area at `v.off + off` = reading the slice at `off`
  have hf' := hf
  rw [← C04.layout_eq_spec] at hf'
  have hin := C04.fields_inside c.2.1 f hf'
  have hfix : c.2.1.desc.fixed = 8 + c.2.2 := by
    simp only [contiguousCtors, List.mem_cons, List.mem_nil_iff, or_false] at hc
    rcases hc with h | h | h | h | h | h | h | h | h | h <;> subst h <;> rfl
  have hle : f.2.1 + f.2.2 ≤ img'.size := by rw [hsize]; omega
  rcases hin.2 with h | h | h | h <;> rw [h] at hle ⊢ <;> simp only [leW]
  · exact (u8At_slice area v.off img'.size f.2.1 (by omega)).symm
  · exact (le16_slice area v.off img'.size f.2.1 (by omega)).symm
  · exact (le32_slice area v.off img'.size f.2.1 (by omega)).symm
  · exact (le64_slice area v.off img'.size f.2.1 (by omega)).symm


/-! ### dynamically sized constructors: `header(type, 8 + |content|) ++ content`, content in the specification's order -/

/-- `ModuleTag::new(start, end, cmdline)` for a text without NUL: start and end little-endian at 8 / 12, the text at 16,
    exactly one terminating NUL, size = 16 + |text| + 1; `end <= start` is rejected by a controlled panic -/
theorem module_ctor (p : Profile) (blob : Bytes) (h8 : 8 ≤ blob.length) (hs : ∀ b ∈ blob.drop 8, b ≠ 0)
    (hlen : blob.length < 2^61) :
    ctorImpl p "module" blob =
      (if ¬ le32 blob 4 > le32 blob 0 then .panic
       else .ok ⟨3, none, 16 + (blob.length - 8) + 1,
                 mbiHdr 3 (16 + (blob.length - 8) + 1) ++ blob.take 8 ++ blob.drop 8 ++ [0],
                 roundUp8 (16 + (blob.length - 8) + 1)⟩) := by
  have hl : ¬ (blob.drop 8).getLast? = some 0 := fun h => hs 0 (List.mem_of_getLast? h) rfl
  have hlen' : blob.length < 2305843009213693952 := hlen
  simp only [ctorImpl, Kind.desc]
  by_cases hc : ¬ le32 blob 4 > le32 blob 0
  · rw [if_pos hc, if_pos hc]
  · rw [if_neg hc, if_neg hc, if_neg hl]
    have l1 : (slice blob 0 4).length = 4 := slice_length blob 0 4 (by omega)
    have l2 : (slice blob 4 4).length = 4 := slice_length blob 4 4 (by omega)
    have hfl : ([slice blob 0 4, slice blob 4 4, blob.drop 8, [0]] : List Bytes).flatten.length = 8 + (blob.length - 8) + 1 := by
      simp [l1, l2]; omega
    rw [boxed_ctor_exact p 3 16 1 _ (by omega) (by rw [hfl]; omega) (by simp [Nat.mod_one]) (by rw [hfl]; omega)]
    rw [hfl]
    have e : ([slice blob 0 4, slice blob 4 4, blob.drop 8, [0]] : List Bytes).flatten = blob.take 8 ++ blob.drop 8 ++ [0] := by
      simp only [List.flatten_cons, List.flatten_nil, List.append_nil]
      rw [← List.append_assoc, ← List.append_assoc]
      rw [show (4:Nat) = 0 + 4 from rfl, slice_append_adj blob 0 4 4 (by omega), slice_zero_eq_take]
    rw [e]
    have a1 : 8 + (8 + (blob.length - 8) + 1) = 16 + (blob.length - 8) + 1 := by omega
    rw [a1]
    simp [List.append_assoc]

theorem smbios_ctor (p : Profile) (blob : Bytes) (h8 : 8 ≤ blob.length) (hlen : blob.length < 2^61) :
    ctorImpl p "smbios" blob =
      .ok ⟨13, none, 16 + (blob.length - 8),
           mbiHdr 13 (16 + (blob.length - 8)) ++ [UInt8.ofNat (u8At blob 0), UInt8.ofNat (u8At blob 1)] ++ zeros 6 ++ blob.drop 8,
           roundUp8 (16 + (blob.length - 8))⟩ := by
  have hlen' : blob.length < 2305843009213693952 := hlen
  simp only [ctorImpl, Kind.desc]
  have hfl : ([[UInt8.ofNat (u8At blob 0), UInt8.ofNat (u8At blob 1)], zeros 6, blob.drop 8] : List Bytes).flatten.length = 8 + (blob.length - 8) := by
    simp [zeros]; omega
  rw [boxed_ctor_exact p 13 16 1 _ (by omega) (by rw [hfl]; omega) (by simp [Nat.mod_one]) (by rw [hfl]; omega)]
  rw [hfl]
  have a1 : 8 + (8 + (blob.length - 8)) = 16 + (blob.length - 8) := by omega
  rw [a1]
  simp [List.append_assoc]

theorem network_ctor (p : Profile) (blob : Bytes) (hlen : blob.length < 2^61) :
    ctorImpl p "network" blob = .ok ⟨16, none, 8 + blob.length, mbiHdr 16 (8 + blob.length) ++ blob, roundUp8 (8 + blob.length)⟩ := by
  have hlen' : blob.length < 2305843009213693952 := hlen
  simp only [ctorImpl, Kind.desc, boxedImg]
  unfold newBoxed
  simp only [HK.hsize, List.flatten_cons, List.flatten_nil, List.append_nil]
  have hW := W64_eq
  rw [incAlign_eq p _ (by omega)]
  simp only [Res.bind_ok]
  have hd : networkDesc.dstLen p (8 + blob.length) = .ok blob.length := by
    simp only [networkDesc]
    rw [usub_ok p _ _ _ (by omega)]
    congr 1; omega
  rw [hd]
  simp only [Res.bind_ok]
  have hsv : networkDesc.sizeOfVal blob.length = roundUp8 (8 + blob.length) := by
    simp only [networkDesc, TyDesc.sizeOfVal, roundUp, roundUp8]
    congr 2; omega
  rw [hsv, if_neg (by simp), setSize_mbiHdr]
  rfl

theorem elf_ctor (p : Profile) (blob : Bytes) (h12 : 12 ≤ blob.length) (hlen : blob.length < 2^61) :
    ctorImpl p "elf" blob =
      .ok ⟨9, none, 20 + (blob.length - 12), mbiHdr 9 (20 + (blob.length - 12)) ++ blob.take 12 ++ blob.drop 12,
           roundUp8 (20 + (blob.length - 12))⟩ := by
  have hlen' : blob.length < 2305843009213693952 := hlen
  simp only [ctorImpl, Kind.desc]
  have l1 : (slice blob 0 4).length = 4 := slice_length blob 0 4 (by omega)
  have l2 : (slice blob 4 4).length = 4 := slice_length blob 4 4 (by omega)
  have l3 : (slice blob 8 4).length = 4 := slice_length blob 8 4 (by omega)
  have hfl : ([slice blob 0 4, slice blob 4 4, slice blob 8 4, blob.drop 12] : List Bytes).flatten.length = 12 + (blob.length - 12) := by
    simp [l1, l2, l3]; omega
  rw [boxed_ctor_exact p 9 20 1 _ (by omega) (by rw [hfl]; omega) (by simp [Nat.mod_one]) (by rw [hfl]; omega)]
  rw [hfl]
  have e : ([slice blob 0 4, slice blob 4 4, slice blob 8 4, blob.drop 12] : List Bytes).flatten = blob.take 12 ++ blob.drop 12 := by
    simp only [List.flatten_cons, List.flatten_nil, List.append_nil]
    rw [← List.append_assoc, ← List.append_assoc]
    rw [show (4:Nat) = 0 + 4 from rfl, slice_append_adj blob 0 4 4 (by omega),
        show (8:Nat) = 0 + (4 + 4) from rfl, slice_append_adj blob 0 (4+4) 4 (by omega), slice_zero_eq_take]
  rw [e]
  have a1 : 8 + (12 + (blob.length - 12)) = 20 + (blob.length - 12) := by omega
  rw [a1]
  simp [List.append_assoc]

end Mb2.C07
