/-
  C05 — Variable-length tag contents have exactly the extent the tag size implies.
-/
import Mb2.Props.FnsEfi
import Mb2.Props.FnsTblEfi
import Mb2.Props.FnsTblTags
import Mb2.Props.FnsGetters
import Mb2.Props.FnsElfIter
import Mb2.Props.FnsFb
import Mb2.Props.FnsDstMbi
import Mb2.Props.FnsDstHdr
import Mb2.Tags
import Mb2.Props.C15
import Mb2.Lemmas.Arith
namespace Mb2.C05
open Mb2

/-- the variable-length kinds of the boot information with their fixed part and element size -/
def varKinds : List (Kind × Nat × Nat) :=
  [(.cmdline, 8, 1), (.loader, 8, 1), (.module, 16, 1), (.mmap, 16, 24), (.efiMmap, 16, 1), (.elf, 20, 1), (.smbios, 16, 1),
   (.fb, 32, 1)]

theorem varKinds_desc : ∀ x ∈ varKinds, x.1.desc = dstDesc x.2.1 x.2.2 := by
  intro x hx
  simp only [varKinds, List.mem_cons, List.mem_nil_iff, or_false] at hx
  rcases hx with h | h | h | h | h | h | h | h <;> subst h <;> rfl

/-- For every variable-length kind with fixed part `base` and element size `e`, and every declared size ≥ 8:
    the typed view exists iff `size ≥ base` and `(size − base) % e = 0` (otherwise: controlled panic); then the exposed
    tail has exactly `(size − base)/e` elements, i.e. it is `[base, size)` - no padding, nothing of the next tag -
    and the view spans the tag's rounded extent. Holds in both profiles. -/
theorem dst_view_exact (p : Profile) (base e size : Nat) (he : 0 < e) (hs : 8 ≤ size) (hb8 : 8 ≤ base) :
    castTo p .tag (dstDesc base e) size (size - 8) =
      (if size < base ∨ (size - base) % e ≠ 0 then .panic
       else .ok (roundUp8 size, (size - base) / e)) := by
  unfold castTo
  have hbs : (dstDesc base e).baseSize = base := rfl
  rw [if_neg (by rw [hbs]; simp [HK.hsize]; omega)]
  by_cases h1 : size < base
  · have : (dstDesc base e).dstLen p size = .panic := by unfold dstDesc; simp only; rw [if_pos h1]
    rw [this, if_pos (Or.inl h1)]; rfl
  · by_cases h2 : (size - base) % e ≠ 0
    · have : (dstDesc base e).dstLen p size = .panic := by unfold dstDesc; simp only; rw [if_neg h1, if_pos h2]
      rw [this, if_pos (Or.inr h2)]; rfl
    · obtain ⟨n, hn, hsov⟩ := C15.dst_truthful base e size (by omega) (by omega) he p
      have hn' : (dstDesc base e).dstLen p size = .ok ((size - base) / e) := by
        unfold dstDesc; simp only; rw [if_neg h1, if_neg h2]
      have : n = (size - base) / e := by rw [hn] at hn'; injection hn'
      subst this
      rw [hn', if_neg (by omega)]
      simp only [Res.bind_ok]
      have hd : dynSizeOfVal .tag (size - 8) = roundUp8 size := by
        unfold dynSizeOfVal; simp only [HK.hsize]; congr 1; omega
      rw [hd, hsov, if_neg (by simp)]

/-- the exposed extent ends exactly at the declared size: `base + n·e = size` -/
theorem dst_extent_ends_at_size (p : Profile) (base e size sov n : Nat) (he : 0 < e) (hs : 8 ≤ size) (hb8 : 8 ≤ base)
    (h : castTo p .tag (dstDesc base e) size (size - 8) = .ok (sov, n)) :
    base ≤ size ∧ base + n * e = size ∧ sov = roundUp8 size ∧ size ≤ sov := by
  rw [dst_view_exact p base e size he hs hb8] at h
  by_cases c : size < base ∨ (size - base) % e ≠ 0
  · rw [if_pos c] at h; cases h
  · rw [if_neg c] at h
    injection h with h; injection h with h1 h2
    subst h1; subst h2
    have hm : (size - base) % e = 0 := by omega
    have := Nat.div_mul_cancel (Nat.dvd_of_mod_eq_zero hm)
    exact ⟨by omega, by omega, rfl, roundUp8_ge size⟩

/-- the framebuffer palette `[34, 34 + 3·n)` is handed out only when it lies inside the buffer `[32, size)` -/
theorem palette_inside (T : Bytes) (v : View) (po num : Nat)
    (h : fbBufferType T v = .ok (.ok (.indexed po num))) : po = 34 ∧ 34 + 3 * num ≤ 32 + v.n := by
  unfold fbBufferType at h
  cases h0 : rd8 T 29 with
  | ok tb =>
    rw [h0] at h
    simp only [Res.bind_ok] at h
    cases hf : fbTypeOfByte tb with
    | none => rw [hf] at h; simp at h
    | some k =>
      rw [hf] at h
      match k, h with
      | 0, h =>
        simp only at h
        cases h1 : fbByte T v.n 0 with
        | ok lo =>
          rw [h1] at h; simp only [Res.bind_ok] at h
          cases h2 : fbByte T v.n 1 with
          | ok hi =>
            rw [h2] at h; simp only [Res.bind_ok] at h
            by_cases c : 2 + (hi * 256 + lo) * 3 ≤ v.n
            · rw [if_pos c] at h
              simp only [Res.pure_eq] at h
              injection h with h; injection h with h; injection h with h3 h4
              subst h3; subst h4
              exact ⟨rfl, by omega⟩
            · rw [if_neg c] at h; cases h
          | panic => rw [h2] at h; cases h
          | oob => rw [h2] at h; cases h
          | ub => rw [h2] at h; cases h
        | panic => rw [h1] at h; cases h
        | oob => rw [h1] at h; cases h
        | ub => rw [h1] at h; cases h
      | 1, h =>
        simp only at h
        exfalso
        revert h
        cases fbByte T v.n 0 <;> simp
        cases fbByte T v.n 1 <;> simp
        cases fbByte T v.n 2 <;> simp
        cases fbByte T v.n 3 <;> simp
        cases fbByte T v.n 4 <;> simp
        cases fbByte T v.n 5 <;> simp
      | (k+2), h => simp at h
  | panic => rw [h0] at h; cases h
  | oob => rw [h0] at h; cases h
  | ub => rw [h0] at h; cases h

/-! Non-vacuity -/
example : castTo .dev .tag (Kind.desc .mmap) 64 56 = .ok (64, 2) := by decide
example : castTo .dev .tag (Kind.desc .mmap) 63 55 = .panic := by decide
example : castTo .release .tag (Kind.desc .cmdline) 13 5 = .ok (16, 5) := by decide

end Mb2.C05
