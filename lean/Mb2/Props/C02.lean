/-
  C02 — Loading accepts exactly the well-formed boot informations.
-/
import Mb2.Props.FnsTblMbi
import Mb2.Props.FnsLinked
import Mb2.Props.FnsGetters
import Mb2.Props.FnsBytesRef
import Mb2.Props.FnsMbiLoad
import Mb2.Props.FnsBiHdr
import Mb2.Spec
import Mb2.Lemmas.Arith
import Mb2.Lemmas.Common
namespace Mb2.C02
open Mb2

/-- Closed form of the modelled `BootInformation::load` behind a non-null, 8-aligned pointer whose declared region
    (and at least the 8 header bytes) is readable: exactly the decision sequence of the property, identical in both
    build profiles. -/
theorem load_eq (p : Profile) (mem : Bytes)
    (hmem : mem.length ≥ 8 ∧ mem.length ≥ le32 mem 0) :
    load p false mem =
      let t := le32 mem 0
      if t < 8 then .ok (.error (.memory .shorterThanHeader))
      else if t % 8 ≠ 0 then .ok (.error (.memory .missingPadding))
      else if le32 mem (t - 8) = 0 ∧ le32 mem (t - 4) = 8 then .ok (.ok ⟨0, t, t⟩)
      else .ok (.error .noEndTag) := by
  obtain ⟨h8, hd⟩ := hmem
  unfold load refFromPtr
  simp only [Bool.false_eq_true, if_false]
  have r0 : rd32 mem HK.bi.sizeOff = .ok (le32 mem 0) := by
    unfold rd32; rw [if_pos (by simp [HK.sizeOff]; omega)]; rfl
  rw [r0]
  simp only [Res.bind_ok, totalSize]
  generalize hdd : le32 mem 0 = d at *
  rw [if_neg (by omega)]
  unfold refFromSlice bytesRefTryFrom
  have hl : (mem.take d).length = d := by simp [List.length_take]; omega
  simp only [hl, HK.hsize]
  by_cases c1 : d < 8
  · simp [c1]
  · by_cases c2 : d % 8 ≠ 0
    · simp [c1, c2]
    · have c2' : d % 8 = 0 := by omega
      simp only [c1, c2', if_false, Nat.zero_mod, ne_eq, not_true_eq_false]
      unfold refFromBytes
      have r1 : rd32 (mem.take d) HK.bi.sizeOff = .ok d := by
        rw [rd32_take mem d _ (by simp [HK.sizeOff]; omega) hd]; simp [HK.sizeOff, hdd]
      rw [r1]
      simp only [Res.bind_ok, payloadLen, hl, HK.hsize, Res.pure_eq]
      rw [if_neg (by omega)]
      simp only [Res.bind_ok]
      have r2 : rd32 (mem.take d) 0 = .ok d := by
        rw [rd32_take mem d 0 (by omega) hd]; simp [hdd]
      rw [r2]
      simp only [Res.bind_ok]
      have e : 8 + (d - 8) - 8 = d - 8 := by omega
      rw [e, rd32_take mem d (d-8) (by omega) hd]
      simp only [Res.bind_ok]
      have e2 : d - 8 + 4 = d - 4 := by omega
      rw [e2, rd32_take mem d (d-4) (by omega) hd]
      simp only [Res.bind_ok]

/-- C02, full statement: for every profile, null or not, and every memory content behind the pointer, the modelled
    load produces exactly the outcome the specification prescribes (null pointer, shorter-than-header, missing
    padding, missing end tag - in that precedence - or success with start = pointer, end = pointer + declared size,
    total = declared size). In particular it never panics and never reads outside the declared region. -/
theorem load_meets_spec (p : Profile) (null : Bool) (mem : Bytes)
    (hmem : null = false → mem.length ≥ 8 ∧ mem.length ≥ le32 mem 0) :
    (Spec.load null mem).admits (load p null mem) = true := by
  cases null
  · rw [load_eq p mem (hmem rfl)]
    unfold Spec.load
    simp only [Bool.false_eq_true, if_false]
    by_cases c1 : le32 mem 0 < 8
    · simp [c1, Expect.admits]
    · by_cases c2 : le32 mem 0 % 8 ≠ 0
      · simp [c1, c2, Expect.admits]
      · by_cases c3 : le32 mem (le32 mem 0 - 8) = 0 ∧ le32 mem (le32 mem 0 - 4) = 8
        · simp [c1, c2, c3, Expect.admits]
        · simp [c1, c2, c3, Expect.admits]
  · simp [Spec.load, load, Expect.admits]

/-- the outcome does not depend on the build profile -/
theorem load_profile_independent (null : Bool) (mem : Bytes)
    (hmem : null = false → mem.length ≥ 8 ∧ mem.length ≥ le32 mem 0) :
    load .dev null mem = load .release null mem := by
  cases null
  · rw [load_eq .dev mem (hmem rfl), load_eq .release mem (hmem rfl)]
  · simp [load]

/-- never a panic, never a read outside the declared region -/
theorem load_no_panic_no_oob (p : Profile) (null : Bool) (mem : Bytes)
    (hmem : null = false → mem.length ≥ 8 ∧ mem.length ≥ le32 mem 0) :
    ∃ r, load p null mem = .ok r := by
  cases null
  · rw [load_eq p mem (hmem rfl)]
    simp only
    split
    · exact ⟨_, rfl⟩
    · split
      · exact ⟨_, rfl⟩
      · split <;> exact ⟨_, rfl⟩
  · exact ⟨.error (.memory .null), by simp [load]⟩

/-- success iff declared size ≥ 8, a multiple of 8, and the last 8 bytes are an end tag -/
theorem load_success_iff (p : Profile) (mem : Bytes)
    (hmem : mem.length ≥ 8 ∧ mem.length ≥ le32 mem 0) :
    (∃ l, load p false mem = .ok (.ok l)) ↔
      (le32 mem 0 ≥ 8 ∧ le32 mem 0 % 8 = 0 ∧ le32 mem (le32 mem 0 - 8) = 0 ∧ le32 mem (le32 mem 0 - 4) = 8) := by
  rw [load_eq p mem hmem]
  simp only
  by_cases c1 : le32 mem 0 < 8
  · simp [c1]; omega
  · by_cases c2 : le32 mem 0 % 8 ≠ 0
    · simp [c1, c2]
    · by_cases c3 : le32 mem (le32 mem 0 - 8) = 0 ∧ le32 mem (le32 mem 0 - 4) = 8
      · simp [c1, c2, c3]; omega
      · simp only [c1, c2, c3, if_false]
        constructor
        · rintro ⟨l, h⟩; exact absurd h (by simp)
        · intro h; exact h.2.2.elim

/-! Non-vacuity -/
example : load .dev false [16,0,0,0, 0,0,0,0, 0,0,0,0, 8,0,0,0] = .ok (.ok ⟨0, 16, 16⟩) := by decide
example : load .dev false [4,0,0,0, 0,0,0,0] = .ok (.error (.memory .shorterThanHeader)) := by decide
example : load .release false [16,0,0,0, 0,0,0,0, 1,0,0,0, 8,0,0,0] = .ok (.error .noEndTag) := by decide

/-- `load` depends on the memory only through the declared size and the last 8 bytes of the declared region -/
theorem load_eq_closed (p : Profile) (mem : Bytes) (hmem : mem.length ≥ 8 ∧ mem.length ≥ le32 mem 0) :
    load p false mem = loadClosed (le32 mem 0) (le32 mem (le32 mem 0 - 8)) (le32 mem (le32 mem 0 - 4)) := by
  rw [load_eq p mem hmem]; rfl

end Mb2.C02
