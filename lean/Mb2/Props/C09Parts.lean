/-
  C09 — Header parsing never reads outside the declared header (under the hypothesis that enumerated fields hold
  defined values: the model says `ub` otherwise, see C08).
-/
import Mb2.HTags
import Mb2.Lemmas.Tags
import Mb2.Props.C03
import Mb2.Props.C10
import Mb2.Props.C11Parts
import Mb2.Props.C15
namespace Mb2.C09
open Mb2

/-- loading never faults or panics (C10.hload_eq); the walk over the tag area ends `done` or in a controlled panic -/
theorem walk_no_fault (p : Profile) (area : Bytes) (hb : area.length % 8 = 0) (hlen : area.length < 2^62) :
    (tagsOf p .ht area).2 = .done ∨ (tagsOf p .ht area).2 = .bad := by
  rw [C11.tag_iter_is_spec_walk p area hb hlen]
  exact specWalk_end .ht area _ _

/-- a malformed tag size (below 8, or leaving the declared length) ends the walk in a controlled panic in BOTH profiles
    - although `HeaderTagHeader::payload_len` subtracts unchecked (dev: overflow panic; release: the wrapped length is
    caught by the slice bounds check / `ref_from_slice(..).unwrap()`); this is `C03.next_is_walk_step` at kind `ht` -/
theorem bad_size_panics (p : Profile) (area : Bytes) (off : Nat)
    (hb : area.length % 8 = 0) (hlen : area.length < 2^62) (ho : off % 8 = 0) (hlt : off < area.length)
    (hbad : le32 area (off + 4) < 8 ∨ off + roundUp8 (le32 area (off + 4)) > area.length) :
    tagIterNext p .ht area off = .panic := by
  rw [C03.next_is_walk_step p .ht (Or.inr (Or.inl rfl)) area off hb hlen ho (by omega)]
  rw [if_neg (by omega)]
  simp only
  rw [if_pos hbad]

theorem cast_no_fault (p : Profile) (k : HKind) (size pl : Nat) :
    castTo p .ht k.desc size pl ≠ .oob ∧ castTo p .ht k.desc size pl ≠ .ub := by
  unfold castTo
  by_cases h1 : ¬ k.desc.baseSize ≥ HK.ht.hsize
  · rw [if_pos h1]; exact ⟨by simp, by simp⟩
  · rw [if_neg h1]
    have hd : (∃ n, k.desc.dstLen p size = .ok n) ∨ k.desc.dstLen p size = .panic := by
      cases k <;> simp only [HKind.desc, sizedDesc, infoReqDesc]
      all_goals first
        | exact Or.inl ⟨_, rfl⟩
        | (unfold usub
           by_cases c : 8 ≤ size
           · rw [if_pos c]; simp only [Res.bind_ok]
             by_cases c2 : (size - 8) % 4 ≠ 0
             · right; rw [if_pos c2]
             · left; rw [if_neg c2]; exact ⟨_, rfl⟩
           · rw [if_neg c]
             cases p
             · right; rfl
             · simp only [Res.bind_ok]
               by_cases c2 : (size + W64 - 8) % W64 % 4 ≠ 0
               · right; rw [if_pos c2]
               · left; rw [if_neg c2]; exact ⟨_, rfl⟩)
    rcases hd with ⟨n, hn⟩ | hn
    · rw [hn]; simp only [Res.bind_ok]
      by_cases c : dynSizeOfVal .ht pl ≠ k.desc.sizeOfVal n
      · rw [if_pos c]; exact ⟨by simp, by simp⟩
      · rw [if_neg c]; exact ⟨by simp, by simp⟩
    · rw [hn]; exact ⟨by simp, by simp⟩

/-- every typed getter of the header: a view, nothing, or a controlled panic -/
theorem hgetTag_no_fault (p : Profile) (area : Bytes) (k : HKind) (hb : area.length % 8 = 0) (hlen : area.length < 2^62) :
    hgetTag p area k ≠ .oob ∧ hgetTag p area k ≠ .ub := by
  have hw := walk_no_fault p area hb hlen
  unfold hgetTag
  simp only
  cases hf : (tagsOf p .ht area).1.find? (fun it => it.typ == k.typ) with
  | none =>
    simp only
    rcases hw with h | h <;> rw [h] <;> exact ⟨by simp, by simp⟩
  | some it =>
    simp only
    have := cast_no_fault p k it.size it.pl
    cases hc : castTo p .ht k.desc it.size it.pl with
    | ok r => exact ⟨by simp, by simp⟩
    | panic => exact ⟨by simp, by simp⟩
    | oob => exact absurd hc this.1
    | ub => exact absurd hc this.2

/-- every typed view lies inside its tag, which lies inside the declared header length -/
theorem view_inside_tag (p : Profile) (area : Bytes) (k : HKind) (v : View)
    (hb : area.length % 8 = 0) (hlen : area.length < 2^62) (h : hgetTag p area k = .ok (some v)) :
    v.off % 8 = 0 ∧ 8 ≤ v.size ∧ v.sov = roundUp8 v.size ∧ v.off + v.sov ≤ area.length ∧ (v.bytes area).length = v.sov := by
  obtain ⟨pre, it, post, hl, _, hoff, hsize, _, hcast⟩ := (C11.hgetTag_first p area k).1 v h
  have hmem : it ∈ (tagsOf p .ht area).1 := by rw [hl]; simp
  rw [C11.tag_iter_is_spec_walk p area hb hlen] at hmem
  have hi := C03.walk_items_inside .ht area _ 0 (by omega) it hmem
  obtain ⟨h1, _, h3, h4, h5, _, _⟩ := hi
  rw [h5] at hcast
  have hsov := C15.cast_view_is_tag_extent p .ht rfl k.desc it.size v.sov v.n h3 hcast
  rw [← hoff, ← hsize]
  refine ⟨h1, h3, hsov, by rw [hsov]; exact h4, ?_⟩
  unfold View.bytes
  exact slice_length area v.off v.sov (by rw [← hoff, hsov]; exact h4)

/-- the information-request words are read inside the tag -/
theorem inforeq_words_inside (T : Bytes) (size n i : Nat) (hT : roundUp8 size ≤ T.length) (hn : 8 + n * 4 = size) (hi : i < n) :
    ∃ x, rd32 T (8 + 4 * i) = .ok x := by
  have g := roundUp8_ge size
  unfold rd32
  exact ⟨_, by rw [if_pos (by omega)]⟩

/-- termination: at most `len/8` tags -/
theorem walk_bounded (p : Profile) (area : Bytes) (hb : area.length % 8 = 0) (hlen : area.length < 2^62) :
    (tagsOf p .ht area).1.length ≤ area.length / 8 := by
  rw [C11.tag_iter_is_spec_walk p area hb hlen]
  have := C03.walk_length_le .ht area (area.length / 8 + 1) 0 (by omega)
  simpa [Spec.tagsOf] using this

end Mb2.C09
