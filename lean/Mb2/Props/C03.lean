/-
  C03 — Tag iteration reproduces the specification's tag walk, zero-copy.
-/
import Mb2.Props.FnsTblFixed
import Mb2.Props.FnsTblMbi
import Mb2.Props.FnsTblTags
import Mb2.Props.FnsDstMbi
import Mb2.Props.FnsLinked
import Mb2.Props.FnsCast
import Mb2.Props.FnsGetters
import Mb2.Props.FnsIter
import Mb2.Props.FnsAlign
import Mb2.Props.FnsTagHdr
import Mb2.Spec
import Mb2.Lemmas.Arith
import Mb2.Lemmas.Common
import Mb2.Lemmas.Iter
import Mb2.Tags
import Mb2.Props.C05
namespace Mb2.C03
open Mb2

/-- the three tag-header kinds an iterator exists for -/
def IterKind (k : HK) : Prop := k = .tag ∨ k = .ht ∨ k = .dummy

/-- One step: on an 8-aligned position inside a buffer that is a multiple of 8 long, the line-by-line model of
    `TagIter::next` is exactly one step of the specification's walk, in both build profiles: end of buffer → `None`;
    size below 8 or a tag leaving the buffer → controlled panic; otherwise the tag at that very offset with the stored
    type and size, `size − 8` payload bytes, and the next position `off + roundUp8 size`. -/
theorem next_is_walk_step (p : Profile) (k : HK) (hk : IterKind k) (buf : Bytes) (off : Nat)
    (hb : buf.length % 8 = 0) (hlen : buf.length < 2^62) (ho : off % 8 = 0) (hle : off ≤ buf.length) :
    tagIterNext p k buf off =
      if off = buf.length then .ok none
      else
        let size := le32 buf (off+4)
        if size < 8 ∨ off + roundUp8 size > buf.length then .panic
        else .ok (some (⟨off, tagTyp k buf off, size, size - 8⟩, off + roundUp8 size)) :=
  tagIterNext_eq p k hk buf off hb hlen ho hle

/-- Draining the model iterator from any aligned position equals the specification's walk from there. -/
theorem drain_eq_walk (p : Profile) (k : HK) (hk : IterKind k) (buf : Bytes)
    (hb : buf.length % 8 = 0) (hlen : buf.length < 2^62) :
    ∀ fuel off, off % 8 = 0 → off ≤ buf.length → drain p k buf fuel off = Spec.walk k buf fuel off := by
  intro fuel
  induction fuel with
  | zero => intros; rfl
  | succ n ih =>
    intro off ho hle
    unfold drain Spec.walk
    rw [tagIterNext_eq p k hk buf off hb hlen ho hle]
    by_cases h1 : off = buf.length
    · simp [h1]
    · simp only [h1, if_false]
      by_cases hc : le32 buf (off+4) < 8 ∨ off + roundUp8 (le32 buf (off+4)) > buf.length
      · simp [hc]
      · simp only [hc, if_false]
        have m := roundUp8_mod (le32 buf (off+4))
        rw [ih (off + roundUp8 (le32 buf (off+4))) (by omega) (by omega)]

/-- C03 (1): the tags the iterator yields are exactly the tags of the specification's walk, with the same ending
    (`done` = clean end, `bad` = controlled panic); never a fault. -/
theorem tags_eq_spec (p : Profile) (k : HK) (hk : IterKind k) (buf : Bytes)
    (hb : buf.length % 8 = 0) (hlen : buf.length < 2^62) :
    tagsOf p k buf = Spec.tagsOf k buf :=
  drain_eq_walk p k hk buf hb hlen _ 0 (by omega) (by omega)

/-- C03 (3) termination: the walk needs at most `(len − off)/8 + 1` steps; more fuel never changes the result,
    so the `fuel = 0` branch of the definitions is unreachable from `tagsOf`. -/
theorem walk_fuel_irrelevant (k : HK) (buf : Bytes) :
    ∀ fuel fuel' off, off ≤ buf.length → fuel ≥ (buf.length - off) / 8 + 1 → fuel' ≥ (buf.length - off) / 8 + 1 →
      Spec.walk k buf fuel off = Spec.walk k buf fuel' off := by
  intro fuel
  induction fuel with
  | zero => intro fuel' off _ h; omega
  | succ n ih =>
    intro fuel' off hle h1 h2
    cases fuel' with
    | zero => omega
    | succ m =>
      unfold Spec.walk
      by_cases e : off = buf.length
      · simp [e]
      · simp only [e, if_false]
        by_cases hc : le32 buf (off+4) < 8 ∨ off + roundUp8 (le32 buf (off+4)) > buf.length
        · simp [hc]
        · simp only [hc, if_false]
          have g := roundUp8_ge (le32 buf (off+4))
          rw [ih m (off + roundUp8 (le32 buf (off+4))) (by omega) (by omega) (by omega)]

/-- the number of yielded tags is bounded by the buffer length / 8 -/
theorem walk_length_le (k : HK) (buf : Bytes) :
    ∀ fuel off, off ≤ buf.length → (Spec.walk k buf fuel off).1.length ≤ (buf.length - off) / 8 := by
  intro fuel
  induction fuel with
  | zero => intro off _; simp [Spec.walk]
  | succ n ih =>
    intro off hle
    unfold Spec.walk
    by_cases e : off = buf.length
    · simp [e]
    · simp only [e, if_false]
      by_cases hc : le32 buf (off+4) < 8 ∨ off + roundUp8 (le32 buf (off+4)) > buf.length
      · simp [hc]
      · simp only [hc, if_false, List.length_cons]
        have g := roundUp8_ge (le32 buf (off+4))
        have := ih (off + roundUp8 (le32 buf (off+4))) (by omega)
        omega

/-- C03 (2): every yielded tag lies inside the buffer: `[off, off + roundUp8 size)`, 8-aligned, payload `size − 8`. -/
theorem walk_items_inside (k : HK) (buf : Bytes) :
    ∀ fuel off, off % 8 = 0 → ∀ it ∈ (Spec.walk k buf fuel off).1,
      it.off % 8 = 0 ∧ off ≤ it.off ∧ 8 ≤ it.size ∧ it.off + roundUp8 it.size ≤ buf.length ∧ it.pl = it.size - 8 ∧
      it.size = le32 buf (it.off + 4) ∧ it.typ = tagTyp k buf it.off := by
  intro fuel
  induction fuel with
  | zero => intro off _ it h; simp [Spec.walk] at h
  | succ n ih =>
    intro off ho it h
    unfold Spec.walk at h
    by_cases e : off = buf.length
    · simp [e] at h
    · simp only [e, if_false] at h
      by_cases hc : le32 buf (off+4) < 8 ∨ off + roundUp8 (le32 buf (off+4)) > buf.length
      · simp [hc] at h
      · simp only [hc, if_false, List.mem_cons] at h
        have m := roundUp8_mod (le32 buf (off+4))
        have g := roundUp8_ge (le32 buf (off+4))
        rcases h with h | h
        · subst h; simp only; exact ⟨ho, Nat.le_refl _, by omega, by omega, trivial, trivial, trivial⟩
        · have := ih (off + roundUp8 (le32 buf (off+4))) (by omega) it h
          exact ⟨this.1, by omega, this.2.2⟩

/-! ### histories: arbitrary interleavings of next / clone / fresh on a pool of iterators -/

/-- concrete iterator at offset `off` corresponds to abstract index `j`: the spec walk from `off` is the suffix -/
def Rel (k : HK) (buf : Bytes) (items : List Item) (e : End) : Option Nat → Option Nat → Prop
  | none, none => True
  | some off, some j => off % 8 = 0 ∧ off ≤ buf.length ∧
      ∃ fuel, fuel ≥ (buf.length - off) / 8 + 1 ∧ Spec.walk k buf fuel off = (items.drop j, e)
  | _, _ => False

def PoolRel (k : HK) (buf : Bytes) (items : List Item) (e : End) (cp ap : List (Option Nat)) : Prop :=
  cp.length = ap.length ∧ ∀ i, Rel k buf items e (cp.getD i none) (ap.getD i none)

theorem poolRel_append {k buf items e cp ap} (h : PoolRel k buf items e cp ap) (a b : Option Nat)
    (hr : Rel k buf items e a b) : PoolRel k buf items e (cp ++ [a]) (ap ++ [b]) := by
  refine ⟨by simp [h.1], fun i => ?_⟩
  by_cases hi : i < cp.length
  · have hi' : i < ap.length := h.1 ▸ hi
    have := h.2 i
    simpa [List.getD_eq_getElem?_getD, List.getElem?_append_left hi, List.getElem?_append_left hi'] using this
  · by_cases he : i = cp.length
    · have he' : i = ap.length := h.1 ▸ he
      have e1 : (cp ++ [a]).getD i none = a := by subst he; simp [List.getD_eq_getElem?_getD]
      have e2 : (ap ++ [b]).getD i none = b := by subst he'; simp [List.getD_eq_getElem?_getD]
      rw [e1, e2]; exact hr
    · have h1 : (cp ++ [a]).getD i none = none := by
        rw [List.getD_eq_getElem?_getD, List.getElem?_eq_none (by simp; omega)]; rfl
      have h2 : (ap ++ [b]).getD i none = none := by
        have := h.1
        rw [List.getD_eq_getElem?_getD, List.getElem?_eq_none (by simp; omega)]; rfl
      rw [h1, h2]; trivial

theorem poolRel_set {k buf items e cp ap} (h : PoolRel k buf items e cp ap) (i : Nat) (a b : Option Nat)
    (hr : Rel k buf items e a b) : PoolRel k buf items e (cp.set i a) (ap.set i b) := by
  refine ⟨by simp [h.1], fun j => ?_⟩
  by_cases hj : j = i
  · subst hj
    by_cases hi : j < cp.length
    · have hi' : j < ap.length := h.1 ▸ hi
      simp [List.getD_eq_getElem?_getD, List.getElem?_set_self hi, List.getElem?_set_self hi']; exact hr
    · have hi' : ¬ j < ap.length := h.1 ▸ hi
      have := h.2 j
      simpa [List.getD_eq_getElem?_getD, List.getElem?_set, hi, hi'] using this
  · have := h.2 j
    have hne : i ≠ j := fun x => hj x.symm
    simpa [List.getD_eq_getElem?_getD, List.getElem?_set_ne hne] using this

/-- single-step refinement -/
theorem step_refines (p : Profile) (k : HK) (hk : IterKind k) (buf : Bytes)
    (hb : buf.length % 8 = 0) (hlen : buf.length < 2^62) (items : List Item) (e : End)
    (h0 : Rel k buf items e (some 0) (some 0))
    (cp ap : List (Option Nat)) (h : PoolRel k buf items e cp ap) (op : IterOp) :
    (poolStep p k buf cp op).2 = (Spec.absStep items e ap op).2 ∧
    PoolRel k buf items e (poolStep p k buf cp op).1 (Spec.absStep items e ap op).1 := by
  cases op with
  | fresh =>
    exact ⟨rfl, poolRel_append h _ _ h0⟩
  | clone i => exact ⟨rfl, poolRel_append h _ _ (h.2 i)⟩
  | next i =>
    have hr := h.2 i
    simp only [poolStep, Spec.absStep]
    cases hc : cp.getD i none with
    | none =>
      cases ha : ap.getD i none with
      | none => simp only; exact ⟨trivial, h⟩
      | some j => rw [hc, ha] at hr; exact hr.elim
    | some off =>
      cases ha : ap.getD i none with
      | none => rw [hc, ha] at hr; exact hr.elim
      | some j =>
        rw [hc, ha] at hr
        obtain ⟨ho, hle, fuel, hf, hw⟩ := hr
        simp only
        rw [tagIterNext_eq p k hk buf off hb hlen ho hle]
        cases fuel with
        | zero => omega
        | succ n =>
          unfold Spec.walk at hw
          by_cases e1 : off = buf.length
          · simp only [e1, if_true] at hw ⊢
            have hd : items.drop j = [] := (Prod.mk.inj hw).1.symm
            have he : e = .done := (Prod.mk.inj hw).2.symm
            have hj : items[j]? = none := by
              rw [List.getElem?_eq_none]; exact List.drop_eq_nil_iff.mp hd
            subst he
            simp only [hj, if_true]
            exact ⟨trivial, h⟩
          · simp only [e1, if_false] at hw ⊢
            by_cases hcnd : le32 buf (off+4) < 8 ∨ off + roundUp8 (le32 buf (off+4)) > buf.length
            · simp only [hcnd, if_true] at hw ⊢
              have hd : items.drop j = [] := (Prod.mk.inj hw).1.symm
              have he : e = .bad := (Prod.mk.inj hw).2.symm
              have hj : items[j]? = none := by
                rw [List.getElem?_eq_none]; exact List.drop_eq_nil_iff.mp hd
              subst he
              simp only [hj, show ¬ (End.bad = End.done) by decide, if_false]
              exact ⟨trivial, poolRel_set h i none none trivial⟩
            · simp only [hcnd, if_false] at hw ⊢
              have hd := (Prod.mk.inj hw).1
              have he := (Prod.mk.inj hw).2
              have hj : items[j]? = some ⟨off, tagTyp k buf off, le32 buf (off+4), le32 buf (off+4) - 8⟩ := by
                have := congrArg List.head? hd
                simpa [List.head?_drop] using this.symm
              have htl : items.drop (j+1) = (Spec.walk k buf n (off + roundUp8 (le32 buf (off+4)))).1 := by
                have := congrArg List.tail hd
                simpa [List.tail_drop] using this.symm
              simp only [hj]
              have g := roundUp8_ge (le32 buf (off+4))
              have m := roundUp8_mod (le32 buf (off+4))
              refine ⟨trivial, poolRel_set h i _ _ ⟨by omega, by omega, n, by omega, ?_⟩⟩
              rw [htl, ← he]

/-- refinement of whole runs from related pools -/
theorem run_refines (p : Profile) (k : HK) (hk : IterKind k) (buf : Bytes)
    (hb : buf.length % 8 = 0) (hlen : buf.length < 2^62) (items : List Item) (e : End)
    (h0 : Rel k buf items e (some 0) (some 0)) (ops : List IterOp) :
    ∀ cp ap, PoolRel k buf items e cp ap → poolRun p k buf cp ops = Spec.absRun items e ap ops := by
  induction ops with
  | nil => intros; rfl
  | cons op ops ih =>
    intro cp ap hp
    have hs := step_refines p k hk buf hb hlen items e h0 cp ap hp op
    simp only [poolRun, Spec.absRun]
    rw [hs.1, ih _ _ hs.2]

/-- C03 (4), history invariant: for EVERY sequence of `next` / `clone` / fresh-iterator operations on a pool of
    iterators over one tag area, what the model of the code observes equals what the abstract pool over the
    specification's walk observes: each iterator is at an index of the walk and yields the walk's suffix; a clone
    continues from the same index; after the end is reported every further `next` reports it again (the abstract
    state is unchanged by `none`); a walk that ends `bad` gives a controlled panic; no operation faults. -/
theorem history_refines (p : Profile) (k : HK) (hk : IterKind k) (buf : Bytes)
    (hb : buf.length % 8 = 0) (hlen : buf.length < 2^62) (ops : List IterOp) :
    poolRun p k buf [some 0] ops = Spec.absRun (Spec.tagsOf k buf).1 (Spec.tagsOf k buf).2 [some 0] ops := by
  have h0 : Rel k buf (Spec.tagsOf k buf).1 (Spec.tagsOf k buf).2 (some 0) (some 0) :=
    ⟨by omega, by omega, buf.length / 8 + 1, by omega, by simp [Spec.tagsOf]⟩
  have hp : PoolRel k buf (Spec.tagsOf k buf).1 (Spec.tagsOf k buf).2 [some 0] [some 0] := by
    refine ⟨rfl, fun i => ?_⟩
    cases i with
    | zero => exact h0
    | succ n => simp [List.getD_eq_getElem?_getD, Rel]
  exact run_refines p k hk buf hb hlen _ _ h0 ops _ _ hp

/-- the module iterator of `multiboot2` is `find` over the tag iterator: on the abstract side, the sub-sequence of
    the walk with type 3; stated here on lists -/
theorem abs_exhausted_stays (items : List Item) (pool : List (Option Nat)) (i j : Nat)
    (h : pool.getD i none = some j) (hj : items.length ≤ j) :
    Spec.absStep items .done pool (.next i) = (pool, .none) := by
  simp only [Spec.absStep, h, List.getElem?_eq_none hj, if_true]

/-! Non-vacuity -/
example : tagsOf .dev .tag [1,0,0,0, 8,0,0,0,  0,0,0,0, 8,0,0,0] = ([⟨0,1,8,0⟩, ⟨8,0,8,0⟩], .done) := by decide
example : tagsOf .release .ht [1,0,0,0, 4,0,0,0,  0,0,0,0, 8,0,0,0] = ([], .bad) := by decide
example : tagsOf .dev .tag [1,0,0,0, 12,0,0,0, 9,9,9,9, 0,0,0,0] = ([⟨0,1,12,4⟩], .done) := by decide
example : poolRun .dev .tag [1,0,0,0, 8,0,0,0] [some 0] [.next 0, .clone 0, .next 0, .next 1, .fresh, .next 2]
    = [.item ⟨0,1,8,0⟩, .cloned, .none, .none, .fresh, .item ⟨0,1,8,0⟩] := by decide


/-- the view the module iterator hands out for a module tag of the walk -/
def modView (it : Item) : View := ⟨it.off, it.size, roundUp8 it.size, it.size - 16⟩

/-- the module iterator over a list of walk items: exactly the module-typed items, in order, each as its typed view, as
    long as every module tag is at least the 16-byte fixed part long -/
theorem modules_go (p : Profile) (w : List Item × End) (items : List Item)
    (hit : ∀ it ∈ items, 8 ≤ it.size ∧ it.pl = it.size - 8) (hsz : ∀ it ∈ items, it.typ = 3 → 16 ≤ it.size) :
    moduleViews.go p w items = ((items.filter (fun it => it.typ = 3)).map modView, w.2) := by
  induction items with
  | nil => simp [moduleViews.go]
  | cons it rest ih =>
    have ih' := ih (fun x hx => hit x (by simp [hx])) (fun x hx => hsz x (by simp [hx]))
    unfold moduleViews.go
    by_cases ht : it.typ = 3
    · have h16 := hsz it (by simp) ht
      obtain ⟨h8, hpl⟩ := hit it (by simp)
      have hc : castTo p .tag (Kind.desc .module) it.size it.pl = .ok (roundUp8 it.size, it.size - 16) := by
        rw [hpl]
        have := C05.dst_view_exact p 16 1 it.size (by omega) h8 (by omega)
        rw [if_neg (by omega)] at this
        simpa [Kind.desc] using this
      rw [if_pos ht, hc, ih']
      simp [ht, modView]
    · rw [if_neg ht, ih']
      simp [ht]

/-- C03 (5): the module iterator yields exactly the module tags (type 3) of the specification's walk, in walk order, each
    located at the walk's offset with the stored size, and ends the way the walk ends (clean end or controlled panic).
    (A module tag shorter than its 16-byte fixed part is a controlled panic of the cast - see `C05.dst_view_exact`.) -/
theorem modules_eq_filter (p : Profile) (area : Bytes) (hb : area.length % 8 = 0) (hlen : area.length < 2^62)
    (hsz : ∀ it ∈ (Spec.tagsOf .tag area).1, it.typ = 3 → 16 ≤ it.size) :
    moduleViews p area =
      (((Spec.tagsOf .tag area).1.filter (fun it => it.typ = 3)).map modView, (Spec.tagsOf .tag area).2) := by
  unfold moduleViews
  simp only
  rw [tags_eq_spec p .tag (Or.inl rfl) area hb hlen]
  apply modules_go p _ _ _ hsz
  intro it h
  have := walk_items_inside .tag area _ 0 (by omega) it h
  exact ⟨this.2.2.1, this.2.2.2.2.1⟩

example : moduleViews .dev ([3,0,0,0, 17,0,0,0, 1,0,0,0, 2,0,0,0, 0,0,0,0, 0,0,0,0,  0,0,0,0, 8,0,0,0]) =
    ([⟨0, 17, 24, 1⟩], .done) := by decide

end Mb2.C03
