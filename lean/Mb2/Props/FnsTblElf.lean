/-
  Mb2.Props.FnsTblElf — SOURCE = MODEL, whole impl blocks as tables (tools/gen_fns.py IMPL_TABLES -> `Gen.Fns.tbl_*`).
  Each theorem compares the table GENERATED from /repo's working tree - every function of the impl block in source order,
  its return type, its translated body and the inputs the body depends on - with the expected one: a forwarder that names
  another tag type or field, a changed body, and any function added to or removed from the block breaks it.
-/

import Mb2.Props.FnsTblBase
import Mb2.Props.FnsCtor
open Mb2 Mb2.Rir

namespace Mb2.Fns

set_option maxRecDepth 8000
set_option linter.unusedSimpArgs false

-- BEGIN TABLES (generated once by a script from the unchanged tree, then REVIEWED row by row)
theorem tbl_elf_section_eq : Gen.Fns.tbl_elf_section = some [
  ("section_type->ElfSectionType", "covered", none, [], []),
  ("section_type_raw->u32", "ir", some (.var 0), ["self.get().typ()"], []),
  ("name->Result<&str,Utf8Error>", "text", none, ["{use core::{slice,str};let name_ptr=unsafe{self.string_table().offset(self.get().name_index()as isize)};let strlen={let mut len=0;while unsafe{*name_ptr.offset(len)}!=0{len+=1;}len as usize};str::from_utf8(unsafe{slice::from_raw_parts(name_ptr,strlen)})}"], []),
  ("start_address->u64", "ir", some (.var 0), ["self.get().addr()"], []),
  ("end_address->u64", "covered", none, [], []),
  ("size->u64", "ir", some (.var 0), ["self.get().size()"], []),
  ("addralign->u64", "ir", some (.var 0), ["self.get().addralign()"], []),
  ("flags->ElfSectionFlags", "ir", some (.var 0), ["ElfSectionFlags::from_bits_truncate(self.get().flags())"], []),
  ("is_allocated->bool", "ir", some (.var 0), ["self.flags().contains(ElfSectionFlags::ALLOCATED)"], []),
  ("get->&dynElfSectionInner", "covered", none, [], []),
  ("string_table->*constu8", "text", none, ["{let addr=match self.entry_size{40=>(*(self.string_section as*const ElfSectionInner32)).addr as usize,64=>(*(self.string_section as*const ElfSectionInner64)).addr as usize,s=>panic!(\"...\",s),};addr as*const _}"], [])] := rfl

theorem tbl_elf32_eq : Gen.Fns.tbl_elf32 = some [
  ("name_index->u32", "ir", some (.var 0), ["self.name_index"], []),
  ("typ->u32", "ir", some (.var 0), ["self.typ"], []),
  ("flags->u64", "ir", some (.var 0), ["self.flags.into()"], []),
  ("addr->u64", "ir", some (.var 0), ["self.addr.into()"], []),
  ("size->u64", "ir", some (.var 0), ["self.size.into()"], []),
  ("addralign->u64", "ir", some (.var 0), ["self.addralign.into()"], [])] := rfl

theorem tbl_elf64_eq : Gen.Fns.tbl_elf64 = some [
  ("name_index->u32", "ir", some (.var 0), ["self.name_index"], []),
  ("typ->u32", "ir", some (.var 0), ["self.typ"], []),
  ("flags->u64", "ir", some (.var 0), ["self.flags"], []),
  ("addr->u64", "ir", some (.var 0), ["self.addr"], []),
  ("size->u64", "ir", some (.var 0), ["self.size"], []),
  ("addralign->u64", "ir", some (.var 0), ["self.addralign"], [])] := rfl

theorem tbl_elf_inner_trait_eq : Gen.Fns.tbl_elf_inner_trait = some [
  ("name_index->u32", "decl", none, [], []),
  ("typ->u32", "decl", none, [], []),
  ("flags->u64", "decl", none, [], []),
  ("addr->u64", "decl", none, [], []),
  ("size->u64", "decl", none, [], []),
  ("addralign->u64", "decl", none, [], [])] := rfl

theorem tbl_elf_iter_eq : Gen.Fns.tbl_elf_iter = some [
  ("next->Option<ElfSection<'a>>", "covered", none, [], []),
  ("size_hint->(usize,Option<usize>)", "ir", some (.pair (.cast (.var 0) .usize) (.c1 "Some" (.cast (.var 0) .usize))), ["self.remaining_sections"], [])] := rfl

theorem tbl_elf_iter_len_eq : Gen.Fns.tbl_elf_iter_len = some [
  ("len->usize", "ir", some (.cast (.var 0) .usize), ["self.remaining_sections"], [])] := rfl

theorem tbl_elf_tag_eq : Gen.Fns.tbl_elf_tag = some [
  ("new->Box<Self>", "ir", some (.letIn 101 (.pair (.lit 9) (.cast (.lit 0) .u32)) (.c1 "new_boxed" (.pair (.var 101) (.pair (.var 0) (.pair (.var 1) (.pair (.var 2) (.var 3))))))), ["number_of_sections.to_ne_bytes()", "entry_size.to_ne_bytes()", "shndx.to_ne_bytes()", "sections"], ["let number_of_sections=number_of_sections.to_ne_bytes()", "let entry_size=entry_size.to_ne_bytes()", "let shndx=shndx.to_ne_bytes()"]),
  ("sections->ElfSectionIter", "covered", none, [], []),
  ("number_of_sections->u32", "ir", some (.var 0), ["self.number_of_sections"], []),
  ("entry_size->u32", "ir", some (.var 0), ["self.entry_size"], []),
  ("shndx->u32", "ir", some (.var 0), ["self.shndx"], [])] := rfl
-- END TABLES

/-! ### what the pinned rows mean -/

/-- `size_hint()` = `(remaining, Some(remaining))` and `len()` = `remaining` (the model's `rem` countdown) -/
theorem elf_iter_size_hint_eq (p : Profile) (r : Nat) (hr : r < W32) :
    evalO p [.int .u32 r] (tblRow Gen.Fns.tbl_elf_iter "size_hint->(usize,Option<usize>)") =
      some (.ok (.pair (.int .usize r) (.c1 "Some" (.int .usize r)))) ∧
    evalO p [.int .u32 r] (tblRow Gen.Fns.tbl_elf_iter_len "len->usize") = some (.ok (.int .usize r)) := by
  rw [tbl_elf_iter_eq, tbl_elf_iter_len_eq]
  simp [tblRow, List.find?, evalO, eval, castV, mod_W64_of_lt_W32 hr]

/-- `ElfSectionsTag::new`: header (type 9, size patched by `new_boxed`) and the content slices in the order of the
    struct: count, entry size, string-table index, section bytes -/
theorem elf_tag_new_eq (p : Profile) (n es sh secs : V) :
    evalO p [n, es, sh, secs] (tblRow Gen.Fns.tbl_elf_tag "new->Box<Self>") =
      some (.ok (.c1 "new_boxed" (.pair (mbiHdrV (Kind.typ .elf) 0) (.pair n (.pair es (.pair sh secs)))))) ∧
    tblVars Gen.Fns.tbl_elf_tag "new->Box<Self>" =
      ["number_of_sections.to_ne_bytes()", "entry_size.to_ne_bytes()", "shndx.to_ne_bytes()", "sections"] := by
  rw [tbl_elf_tag_eq]
  simp [tblRow, tblVars, List.find?, evalO, eval, castV, set_other, mbiHdrV, Kind.typ, w32_small]

/-- the flag bits `ElfSection::flags()` keeps (`from_bits_truncate`): writable 1, allocated 2, executable 4 - the model's
    `fl % 8`; `is_allocated()` tests bit 2 -/
theorem elf_section_flags_bits :
    Gen.Fns.bitflags.map (·.lookup "ElfSectionFlags") =
      some (some ("u64", [("WRITABLE", 1), ("ALLOCATED", 2), ("EXECUTABLE", 4)])) := by decide

end Mb2.Fns
