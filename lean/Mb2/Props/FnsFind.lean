/-
  Mb2.Props.FnsFind — SOURCE = MODEL for the decision sequence of `Multiboot2Header::find_header` (header.rs).

  Opaque inputs (named by their source text, which therefore pins the window `..min(8192)`, the offsets `+8 .. +12` of the length
  word and the sub-slice `magic_index .. magic_index + length`): the alignment offset of the buffer, its length, the result of
  the `windows(4).position(..)` scan, of `buffer.get(+8..+12)`, the decoded length and the checked sub-slice.
  The theorem states the order of the decisions of the model's `findHeader`: buffer alignment, no magic -> `Ok(None)`, misaligned
  magic -> error, length word outside the buffer -> error, header outside the buffer -> error, else the sub-slice and the index.
-/
import Mb2.Props.FnsBase
open Mb2 Mb2.Rir
set_option linter.unusedSimpArgs false

namespace Mb2.Fns

def optV' (name : String) : Option V → V
  | none => .c0 "None"
  | some v => .c1 name v

def findDecision (ao : Nat) (pos : Option Nat) (get : Option V) (sub : Option V) : V :=
  let err (e : MemErr) : V := .c1 "Err" (.c1 "LoadError::Memory" (encMemErr e))
  if ao ≠ 0 then err .wrongAlignment
  else match pos with
    | none => .c1 "Ok" (.c0 "None")
    | some i =>
      if i % 8 ≠ 0 then err .wrongAlignment
      else match get with
        | none => err .missingPadding
        | some _ => match sub with
          | none => err .invalidReportedTotalSize
          | some h => .c1 "Ok" (.c1 "Some" (.pair h (.int .u32 i)))

theorem find_header_eq (p : Profile) (ao len : Nat) (w hl : V) (pos : Option Nat) (get sub : Option V)
    (hpos : ∀ i, pos = some i → i < W32) :
    evalO p [.int .usize ao, .int .usize len, w, optV' "Some" (pos.map (V.int .usize)), optV' "Some" get, .c1 "Ok" hl,
             optV' "Some" sub] Gen.Fns.find_header =
      some (.ok (findDecision ao pos get sub)) := by
  have hmin : min len 8192 ≤ len := Nat.min_le_left _ _
  have hmin' : (if len ≤ 8192 then len else 8192) ≤ len := by split <;> omega
  by_cases h0 : ao = 0
  · cases pos with
    | none =>
      simp [evalO, Gen.Fns.find_header, eval, binop, arith, prim2, intPrim, isC, prim1, set_other, findDecision, optV', h0, hmin']
    | some i =>
      have hi : i % W32 = i := Nat.mod_eq_of_lt (hpos i rfl)
      by_cases h8 : i % 8 = 0
      · cases get with
        | none =>
          simp [evalO, Gen.Fns.find_header, eval, binop, arith, prim2, intPrim, isC, prim1, okOr, tryV, set_other, findDecision,
            optV', encMemErr, h0, h8, hmin']
        | some g =>
          cases sub with
          | none =>
            simp [evalO, Gen.Fns.find_header, eval, binop, arith, prim2, intPrim, isC, prim1, okOr, tryV, set_other,
              findDecision, optV', encMemErr, h0, h8, hmin']
          | some h =>
            simp [evalO, Gen.Fns.find_header, eval, binop, arith, prim2, intPrim, isC, prim1, okOr, tryV, set_other, castV,
              findDecision, optV', encMemErr, h0, h8, hi, hmin']
      · simp [evalO, Gen.Fns.find_header, eval, binop, arith, prim2, intPrim, isC, prim1, set_other, findDecision, optV',
          encMemErr, h0, h8, hmin']
  · simp [evalO, Gen.Fns.find_header, eval, binop, arith, findDecision, encMemErr, h0]

/-- the model's result as an IR value (the sub-slice is represented by its length) -/
def encFind : Res (Ex HLoadErr (Option (Nat × Nat))) → V
  | .ok (.ok none) => .c1 "Ok" (.c0 "None")
  | .ok (.ok (some (i, l))) => .c1 "Ok" (.c1 "Some" (.pair (.lit l) (.int .u32 i)))
  | .ok (.error (.memory e)) => .c1 "Err" (.c1 "LoadError::Memory" (encMemErr e))
  | _ => .stuck

/-- the MODEL's `find_header` IS this decision sequence, with the opaque inputs read as: the scan over the first
    `min len 8192` bytes, "the four bytes at +8..+12 exist", "the header `i .. i + length` lies inside the buffer" -/
theorem findHeaderAt_eq_decision (addr : Nat) (buf : Bytes) :
    encFind (findHeaderAt addr buf) =
      findDecision (addr % 8) (scanMagic buf 0 (min buf.length 8192))
        ((scanMagic buf 0 (min buf.length 8192)).bind fun i => if i + 12 > buf.length then none else some .unit)
        ((scanMagic buf 0 (min buf.length 8192)).bind fun i =>
          if i + le32 buf (i + 8) > buf.length then none else some (.lit (le32 buf (i + 8)))) := by
  unfold findHeaderAt findHeader findDecision
  by_cases h0 : addr % 8 = 0
  · simp only [h0, ne_eq, not_true_eq_false, if_false]
    cases hs : scanMagic buf 0 (min buf.length 8192) with
    | none => simp [encFind]
    | some i =>
      simp only [Option.bind]
      by_cases h8 : i % 8 = 0
      · by_cases h12 : i + 12 > buf.length
        · simp [encFind, encMemErr, h8, h12]
        · by_cases hl : i + le32 buf (i + 8) > buf.length
          · simp [encFind, encMemErr, h8, h12, hl]
          · simp [encFind, h8, h12, hl]
      · simp [encFind, encMemErr, h8]
  · simp [encFind, encMemErr, h0]

end Mb2.Fns
