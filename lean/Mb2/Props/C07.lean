/-
  C07 — Every tag constructor emits the spec-exact binary image.
  `C07Parts`: type / size / length facts of every constructor; `C07More`: byte-exact images and accessor read-back for all
  argument values; `Layout`: the source-derived ID and layout facts.
-/
import Mb2.Props.FnsTblFixed
import Mb2.Props.FnsTblMbi
import Mb2.Props.FnsTblHdr
import Mb2.Props.FnsTblTags
import Mb2.Props.FnsTblElf
import Mb2.Props.FnsTblEfi
import Mb2.Props.FnsGetters
import Mb2.Props.FnsBoxedCtor
import Mb2.Props.FnsCast
import Mb2.Props.FnsCtor
import Mb2.Props.C07Parts
import Mb2.Props.C07More
import Mb2.Props.Layout
