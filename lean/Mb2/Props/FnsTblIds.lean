/-
  Mb2.Props.FnsTblIds — SOURCE = MODEL, whole impl blocks as tables (tools/gen_fns.py IMPL_TABLES -> `Gen.Fns.tbl_*`).
  Each theorem compares the table GENERATED from /repo's working tree - every function of the impl block in source order,
  its return type, its translated body and the inputs the body depends on - with the expected one: a forwarder that names
  another tag type or field, a changed body, and any function added to or removed from the block breaks it.
-/

import Mb2.Props.FnsTblBase
open Mb2 Mb2.Rir

namespace Mb2.Fns

set_option maxRecDepth 8000
set_option linter.unusedSimpArgs false

-- BEGIN TABLES (generated once by a script from the unchanged tree, then REVIEWED row by row)
theorem tbl_tag_type_id_eq : Gen.Fns.tbl_tag_type_id = some [
  ("new->Self", "ir", some (.c1 "TagTypeId::Self" (.var 0)), ["val"], [])] := rfl

theorem tbl_id_from_u32_eq : Gen.Fns.tbl_id_from_u32 = some [
  ("from->Self", "ir", some (.var 0), ["core::mem::transmute(value)"], [])] := rfl

theorem tbl_u32_from_id_eq : Gen.Fns.tbl_u32_from_id = some [
  ("from->Self", "ir", some (.var 0), ["value.0"], [])] := rfl

theorem tbl_type_from_id_eq : Gen.Fns.tbl_type_from_id = some [
  ("from->Self", "ir", some (.var 0), ["Self::from(value)"], ["let value=u32::from(value)"])] := rfl

theorem tbl_id_from_type_eq : Gen.Fns.tbl_id_from_type = some [
  ("from->Self", "ir", some (.var 0), ["Self::from(value)"], ["let value=u32::from(value)"])] := rfl

theorem tbl_type_eq_id_eq : Gen.Fns.tbl_type_eq_id = some [
  ("eq->bool", "ir", some (.bin .eq (.var 0) (.var 1)), ["u32::from(*self)", "u32::from(*other)"], ["let this=u32::from(*self)", "let that=u32::from(*other)"])] := rfl

theorem tbl_id_eq_type_eq : Gen.Fns.tbl_id_eq_type = some [
  ("eq->bool", "ir", some (.var 0), ["other.eq(self)"], [])] := rfl

theorem tbl_id_eq_u32_eq : Gen.Fns.tbl_id_eq_u32 = some [
  ("eq->bool", "ir", some (.bin .eq (.var 0) (.var 1)), ["u32::from(*self)", "other"], ["let this=u32::from(*self)"])] := rfl

theorem tbl_u32_eq_id_eq : Gen.Fns.tbl_u32_eq_id = some [
  ("eq->bool", "ir", some (.var 0), ["other.eq(self)"], [])] := rfl

theorem tbl_type_eq_u32_eq : Gen.Fns.tbl_type_eq_u32 = some [
  ("eq->bool", "ir", some (.bin .eq (.var 0) (.var 1)), ["u32::from(*self)", "other"], ["let this=u32::from(*self)"])] := rfl

theorem tbl_u32_eq_type_eq : Gen.Fns.tbl_u32_eq_type = some [
  ("eq->bool", "ir", some (.var 0), ["other.eq(self)"], [])] := rfl

theorem tbl_mid_from_u32_eq : Gen.Fns.tbl_mid_from_u32 = some [
  ("from->Self", "ir", some (.c1 "MemoryAreaTypeId::Self" (.var 0)), ["value"], [])] := rfl

theorem tbl_u32_from_mid_eq : Gen.Fns.tbl_u32_from_mid = some [
  ("from->Self", "ir", some (.var 0), ["value.0"], [])] := rfl

theorem tbl_mid_eq_mtype_eq : Gen.Fns.tbl_mid_eq_mtype = some [
  ("eq->bool", "ir", some (.var 0), ["self.0.eq(&val)"], ["let val=(*other).into()", "let val=(*other).into().0"])] := rfl

theorem tbl_mtype_eq_mid_eq : Gen.Fns.tbl_mtype_eq_mid = some [
  ("eq->bool", "ir", some (.var 0), ["other.0.eq(&val)"], ["let val=(*self).into()", "let val=(*self).into().0"])] := rfl
-- END TABLES


/-! ### what the pinned rows mean -/

/-- `TagType == TagTypeId` compares the two 32-bit numbers (`u32::from` of both sides: `u32_from_tag_type_eq`, and the
    transparent wrapper's `.0`); the mirrored impl delegates to it -/
theorem tag_type_eq_id_eq (p : Profile) (a b : Nat) :
    evalO p [.int .u32 a, .int .u32 b] (tblRow Gen.Fns.tbl_type_eq_id "eq->bool") = some (.ok (.bool (decide (a = b)))) ∧
    tblVars Gen.Fns.tbl_type_eq_id "eq->bool" = ["u32::from(*self)", "u32::from(*other)"] ∧
    tblVars Gen.Fns.tbl_id_eq_type "eq->bool" = ["other.eq(self)"] := by
  rw [tbl_type_eq_id_eq, tbl_id_eq_type_eq]
  simp [tblRow, tblVars, List.find?, evalO, eval, binop, arith, set_other]

/-- `TagTypeId <-> TagType` go through the number: `Self::from(u32::from(value))` in both directions; `TagTypeId <-> u32`
    is the transparent wrapper (`transmute` / `.0`) -/
theorem tag_type_id_conversions_via_u32 :
    Gen.Fns.tbl_type_from_id = some [("from->Self", "ir", some (.var 0), ["Self::from(value)"], ["let value=u32::from(value)"])] ∧
    Gen.Fns.tbl_id_from_type = some [("from->Self", "ir", some (.var 0), ["Self::from(value)"], ["let value=u32::from(value)"])] ∧
    tblVars Gen.Fns.tbl_id_from_u32 "from->Self" = ["core::mem::transmute(value)"] ∧
    tblVars Gen.Fns.tbl_u32_from_id "from->Self" = ["value.0"] := by
  rw [tbl_type_from_id_eq, tbl_id_from_type_eq, tbl_id_from_u32_eq, tbl_u32_from_id_eq]
  refine ⟨rfl, rfl, ?_, ?_⟩ <;> decide

end Mb2.Fns
