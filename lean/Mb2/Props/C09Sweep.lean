/-
  C09, end to end: the complete sweep of a header (`HSweep.hsweep` - the function the correspondence check compares with
  the real code on every HSWEEP case) produces no `oob` piece and, when the enumerated fields hold defined values (the
  hypothesis of the property), no `ub` piece either.
-/
import Mb2.Lemmas.Obs
import Mb2.Props.C09Parts
import Mb2.Props.C01Sweep
namespace Mb2.C09
open Mb2 Sweep HSweep C01

/-- the property's hypothesis on the enumerated fields of the walked tags: type ≤ 10, flags ≤ 1, console flags ≤ 1,
    relocation preference ≤ 2 (the architecture is checked separately, it lives in the basic header) -/
def EnumsDefined (area : Bytes) : Prop :=
  ∀ it ∈ (Spec.tagsOf .ht area).1, it.typ ≤ 10 ∧ le16 area (it.off + 2) ≤ 1 ∧
    (it.typ = 4 → le32 area (it.off + 8) ≤ 1) ∧ (it.typ = 10 → le32 area (it.off + 20) ≤ 2)

structure GoodHView (p : Profile) (area : Bytes) (k : HKind) (v : View) : Prop where
  size8 : 8 ≤ v.size
  sov : v.sov = roundUp8 v.size
  fit : v.off + v.sov ≤ area.length
  len : (v.bytes area).length = v.sov
  cast : castTo p .ht k.desc v.size (v.size - 8) = .ok (v.sov, v.n)
  item : ∃ it ∈ (Spec.tagsOf .ht area).1, it.off = v.off ∧ it.typ = k.typ

theorem goodHView (p : Profile) (area : Bytes) (k : HKind) (v : View)
    (hb : area.length % 8 = 0) (hlen : area.length < 2^62) (h : hgetTag p area k = .ok (some v)) :
    GoodHView p area k v := by
  obtain ⟨pre, it, post, hl, htyp, hoff, hsize, _, hcast⟩ := (C11.hgetTag_first p area k).1 v h
  have hmem : it ∈ (tagsOf p .ht area).1 := by rw [hl]; simp
  rw [C11.tag_iter_is_spec_walk p area hb hlen] at hmem
  have hi := C03.walk_items_inside .ht area _ 0 (by omega) it hmem
  obtain ⟨_, _, h3, _, h5, _, _⟩ := hi
  rw [h5, hsize] at hcast
  obtain ⟨_, hs8, hsov, hfit, hlv⟩ := view_inside_tag p area k v hb hlen h
  exact ⟨hs8, hsov, hfit, hlv, hcast, it, hmem, hoff, htyp⟩

theorem hsizeOfVal_ge_fixed (k : HKind) (n : Nat) : k.desc.fixed ≤ k.desc.sizeOfVal n := by
  cases k <;> simp only [HKind.desc, sizedDesc, infoReqDesc, TyDesc.sizeOfVal, roundUp] <;> omega

theorem GoodHView.fixed_le {p area k v} (g : GoodHView p area k v) : k.desc.fixed ≤ v.sov := by
  have := (C15.cast_size p .ht k.desc v.size (v.size - 8) v.sov v.n g.cast).2.2.2
  rw [this]; exact hsizeOfVal_ge_fixed k v.n

theorem GoodHView.fieldsOk {p area k v} (g : GoodHView p area k v) : Obs.NoFault (fields (v.bytes area) k.fields) := by
  apply noFault_fields
  intro f hf
  have := C11.fields_inside k f hf
  exact ⟨_, rdW_slice area v.off v.sov f.2.1 f.2.2 this.2 (by have := g.fixed_le; omega) g.fit⟩

theorem GoodHView.commonOk {p area k v} (g : GoodHView p area k v) : Obs.NoFault (common (v.bytes area)) := by
  unfold HSweep.common
  apply noFault_fields
  have h8 : 8 ≤ v.sov := by rw [g.sov]; have := roundUp8_ge v.size; have := g.size8; omega
  intro f hf
  simp only [List.mem_cons, List.mem_nil_iff, or_false] at hf
  rcases hf with h | h | h <;> subst h
  · exact ⟨_, rdW_slice area v.off v.sov 0 2 (by simp) (by omega) g.fit⟩
  · exact ⟨_, rdW_slice area v.off v.sov 2 2 (by simp) (by omega) g.fit⟩
  · exact ⟨_, rdW_slice area v.off v.sov 4 4 (by simp) (by omega) g.fit⟩

/-- under the hypothesis on the enumerated fields, `enumOk` holds for every view a getter returns -/
theorem GoodHView.enumsOk {p area k v} (g : GoodHView p area k v) (he : EnumsDefined area) :
    enumOk k (v.bytes area) = true := by
  obtain ⟨it, hmem, hoff, htyp⟩ := g.item
  obtain ⟨e1, e2, e3, e4⟩ := he it hmem
  have hi := C03.walk_items_inside .ht area _ 0 (by omega) it hmem
  have htt : it.typ = le16 area it.off := hi.2.2.2.2.2.2
  have h8 : 8 ≤ v.sov := by rw [g.sov]; have := roundUp8_ge v.size; have := g.size8; omega
  have hfix := g.fixed_le
  have l0 : le16 (v.bytes area) 0 = le16 area v.off := by
    unfold View.bytes; rw [le16_slice area v.off v.sov 0 (by omega)]; simp
  have l2 : le16 (v.bytes area) 2 = le16 area (v.off + 2) := by
    unfold View.bytes; rw [le16_slice area v.off v.sov 2 (by omega)]
  unfold Mb2.enumOk
  rw [l0, l2, ← hoff, ← htt]
  have b1 : decide (it.typ ≤ 10) = true := decide_eq_true e1
  have b2 : decide (le16 area (it.off + 2) ≤ 1) = true := decide_eq_true e2
  rw [b1, b2]
  simp only [Bool.true_and]
  cases k <;> simp only
  · -- console
    have : 12 ≤ v.sov := by simpa [HKind.desc, sizedDesc] using hfix
    have l8 : le32 (v.bytes area) 8 = le32 area (v.off + 8) := by
      unfold View.bytes; rw [le32_slice area v.off v.sov 8 (by omega)]
    rw [l8, ← hoff]
    exact decide_eq_true (e3 (by rw [htyp]; rfl))
  · -- reloc
    have : 24 ≤ v.sov := by simpa [HKind.desc, sizedDesc] using hfix
    have l20 : le32 (v.bytes area) 20 = le32 area (v.off + 20) := by
      unfold View.bytes; rw [le32_slice area v.off v.sov 20 (by omega)]
    rw [l20, ← hoff]
    exact decide_eq_true (e4 (by rw [htyp]; rfl))


theorem noFault_simpleBody {p area k v} (g : GoodHView p area k v) (he : EnumsDefined area) :
    Obs.NoFault (simpleBody k (v.bytes area)) := by
  unfold simpleBody
  rw [if_pos (g.enumsOk he)]
  exact noFault_append (noFault_append g.commonOk g.fieldsOk) (noFault_t _)

theorem noFault_inforeqBody {p area v} (g : GoodHView p area .inforeq v) (he : EnumsDefined area) :
    Obs.NoFault (inforeqBody (v.bytes area) v) := by
  unfold inforeqBody
  rw [if_pos (g.enumsOk he)]
  refine noFault_append (noFault_append (noFault_append g.commonOk (noFault_t _)) ?_) (noFault_t _)
  apply noFault_colonJoin
  intro r hr
  obtain ⟨i, hi, rfl⟩ := List.mem_map.mp hr
  have hi' := List.mem_range.mp hi
  -- the cast fixed `n = (size − 8)/4` with no remainder
  have hc := g.cast
  have hk : HKind.desc .inforeq = infoReqDesc := rfl
  rw [hk, C11.info_request_count p v.size g.size8] at hc
  by_cases c : (v.size - 8) % 4 ≠ 0
  · rw [if_pos c] at hc; cases hc
  · rw [if_neg c] at hc
    injection hc with hc; injection hc with h1 h2
    have hn : 8 + v.n * 4 = v.size := by
      have := g.size8
      have hm : (v.size - 8) % 4 = 0 := by omega
      have := Nat.div_mul_cancel (Nat.dvd_of_mod_eq_zero hm)
      omega
    exact inforeq_words_inside (v.bytes area) v.size v.n i (by rw [g.len, g.sov]; exact Nat.le_refl _) hn hi'

/-- **C09, end to end (loaded header).** For every header region whose tags carry defined enumerated values, the whole
    sweep - tag walk, all ten typed getters, every field accessor, the information-request list, `Debug` - contains no
    `oob` and no `ub` piece. -/
theorem hsweepLoaded_no_fault (p : Profile) (R : Bytes) (hl : HLoaded) (h8 : R.length % 8 = 0) (hlen : R.length < 2^62)
    (he : EnumsDefined (R.drop 16)) : Obs.NoFault (hsweepLoaded p R hl) := by
  have hb : (R.drop 16).length % 8 = 0 := by rw [List.length_drop]; omega
  have hlt : (R.drop 16).length < 2^62 := by rw [List.length_drop]; omega
  have hw := walk_no_fault p (R.drop 16) hb hlt
  have NF : ∀ k, Safe (hgetTag p (R.drop 16) k) := fun k => hgetTag_no_fault p (R.drop 16) k hb hlt
  have G : ∀ k v, hgetTag p (R.drop 16) k = .ok (some v) → GoodHView p (R.drop 16) k v :=
    fun k v h => goodHView p (R.drop 16) k v hb hlt h
  have hHead : Obs.NoFault (headS (R.drop 16) (tagsOf p .ht (R.drop 16)) hl) := by
    unfold headS
    exact noFault_append (noFault_append (noFault_t _) (noFault_walkEndS _ hw)) (noFault_t _)
  have hgOk : ∀ name g body, Safe g → (∀ v, g = .ok (some v) → Obs.NoFault (body v)) → Obs.NoFault (HSweep.hgetter name g body) := by
    intro name g body hs hbdy
    unfold HSweep.hgetter
    refine noFault_append (noFault_append (noFault_t _) ?_) (noFault_t _)
    cases g with
    | ok o =>
      cases o with
      | none => exact noFault_t _
      | some v => exact noFault_append (noFault_append (noFault_t _) (hbdy v rfl)) (noFault_t _)
    | panic => exact noFault_t _
    | oob => exact absurd rfl hs.1
    | ub => exact absurd rfl hs.2
  have simple : ∀ name k, Obs.NoFault (hgetter name (hgetTag p (R.drop 16) k) (fun v => simpleBody k (v.bytes (R.drop 16)))) :=
    fun name k => hgOk _ _ _ (NF k) (fun v h => noFault_simpleBody (G k v h) he)
  have hInfo : Obs.NoFault (hgetter "inforeq" (hgetTag p (R.drop 16) .inforeq) (fun v => inforeqBody (v.bytes (R.drop 16)) v)) :=
    hgOk _ _ _ (NF _) (fun v h => noFault_inforeqBody (G _ v h) he)
  -- no walked tag has an undeclared type value
  have hany : (tagsOf p .ht (R.drop 16)).1.any (fun it => it.typ > 10) = false := by
    rw [C11.tag_iter_is_spec_walk p (R.drop 16) hb hlt]
    rw [List.any_eq_false]
    intro it hit
    have := (he it hit).1
    simp only [gt_iff_lt, decide_eq_true_eq]
    omega
  unfold hsweepLoaded
  simp only []
  rw [if_neg (by rw [hany]; simp)]
  repeat' with_reducible apply noFault_append
  · exact hHead
  · exact hInfo
  · exact simple _ _
  · exact simple _ _
  · exact simple _ _
  · exact simple _ _
  · exact simple _ _
  · exact simple _ _
  · exact simple _ _
  · exact simple _ _
  · exact simple _ _
  · exact noFault_t _

/-- **C09 from the pointer.** For every memory content behind the pointer whose declared header length is readable, whose
    architecture field holds a defined value and whose tags hold defined enumerated values, `load` followed by every
    accessor / getter / iterator / Debug yields values, errors or controlled panics only - never a read outside the declared
    length, never an undefined enum value. Both build profiles. -/
theorem hsweep_no_fault (p : Profile) (mem : Bytes) (hmem : mem.length ≥ 16 ∧ mem.length ≥ le32 mem 8)
    (harch : le32 mem 4 = 0 ∨ le32 mem 4 = 4)
    (he : EnumsDefined ((mem.take (le32 mem 8)).drop 16)) : Obs.NoFault (hsweep p mem) := by
  unfold hsweep
  rw [C10.hload_eq p mem hmem]
  simp only
  have h32 := le32_lt mem 8
  by_cases c1 : le32 mem 8 < 16
  · rw [if_pos c1]; exact noFault_t _
  · rw [if_neg c1]
    by_cases c2 : le32 mem 8 % 8 ≠ 0
    · rw [if_pos c2]; exact noFault_t _
    · rw [if_neg c2]
      by_cases c3 : le32 mem 0 ≠ HMAGIC
      · rw [if_pos c3]; exact noFault_t _
      · rw [if_neg c3, if_neg (by omega)]
        by_cases c5 : calcChecksum (le32 mem 0) (le32 mem 4) (le32 mem 8) ≠ le32 mem 12
        · rw [if_pos c5]; exact noFault_t _
        · rw [if_neg c5]
          simp only
          refine hsweepLoaded_no_fault p _ _ ?_ ?_ he
          · rw [List.length_take]; omega
          · rw [List.length_take]; omega

/-! Non-vacuity: the minimal valid header (16 bytes + end tag) satisfies all hypotheses. -/
example : EnumsDefined (([0xd6,0x50,0x52,0xe8, 0,0,0,0, 24,0,0,0, 0x12,0xaf,0xad,0x17, 0,0,0,0, 8,0,0,0] : Bytes).take 24 |>.drop 16) := by
  intro it hit
  have : it = ⟨0, 0, 8, 0⟩ := by
    have h : (Spec.tagsOf .ht ([0,0,0,0, 8,0,0,0] : Bytes)).1 = [⟨0, 0, 8, 0⟩] := by decide
    have e : (([0xd6,0x50,0x52,0xe8, 0,0,0,0, 24,0,0,0, 0x12,0xaf,0xad,0x17, 0,0,0,0, 8,0,0,0] : Bytes).take 24 |>.drop 16) = [0,0,0,0, 8,0,0,0] := by decide
    rw [e, h] at hit
    simpa using hit
  subst this
  decide

end Mb2.C09
