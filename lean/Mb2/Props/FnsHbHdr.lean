/-
  Mb2.Props.FnsHbHdr — SOURCE = MODEL (part of the function-body tie, see `Mb2/Props/FnsBase.lean` and `Mb2/Rir.lean`).
  Theorems about terms GENERATED from /repo's working tree by tools/gen_fns.py (`Mb2/Gen/Fns.lean`).
-/

import Mb2.Props.FnsBase
open Mb2 Mb2.Rir

namespace Mb2.Fns

theorem hb_header_payload_len_eq (p : Profile) (d : Nat) (hd : d < W32) :
    evalO p [.int .u32 d] Gen.Fns.hb_header_payload_len = some (intRes .usize (payloadLen p .hb d)) := by
  simp [evalO, Gen.Fns.hb_header_payload_len, eval, prim2, intPrim, payloadLen, castV, mod_W64_of_lt_W32 hd]

theorem hb_header_total_size_eq (p : Profile) (d : Nat) (hd : d < W32) :
    evalO p [.int .u32 d] Gen.Fns.hb_header_total_size = some (intRes .usize (totalSize p .hb d)) := by
  simp [evalO, Gen.Fns.hb_header_total_size, eval, totalSize, castV, mod_W64_of_lt_W32 hd]

theorem calc_checksum_eq (p : Profile) (m a l : Nat) (ha : a < W32) :
    evalO p [.int .u32 m, .int .u32 a, .int .u32 l] Gen.Fns.calc_checksum = some (.ok (.int .u32 (calcChecksum m a l))) := by
  simp [evalO, Gen.Fns.calc_checksum, eval, prim2, intPrim, castV, calcChecksum, wsub32, Nat.mod_eq_of_lt ha]

theorem verify_checksum_eq (p : Profile) (m a l ck : Nat) (ha : a < W32) :
    evalO p [.int .u32 m, .int .u32 a, .int .u32 l, .int .u32 ck] Gen.Fns.verify_checksum =
      some (.ok (.bool (decide (calcChecksum m a l = ck)))) := by
  simp [evalO, Gen.Fns.verify_checksum, eval, prim2, intPrim, castV, calcChecksum, wsub32, Nat.mod_eq_of_lt ha, binop, arith,
    set_other]

end Mb2.Fns
