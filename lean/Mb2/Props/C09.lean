/-
  C09 — Header parsing never reads outside the declared header.
  `C09Parts`: per-entry-point theorems; `C09Sweep`: the end-to-end theorem about `HSweep.hsweep`.
-/
import Mb2.Props.FnsLinked
import Mb2.Props.FnsGetters
import Mb2.Props.FnsCast
import Mb2.Props.FnsBytesRef
import Mb2.Props.FnsHtHdr
import Mb2.Props.FnsDstHdr
import Mb2.Props.FnsIter
import Mb2.Props.C09Parts
import Mb2.Props.C09Sweep
