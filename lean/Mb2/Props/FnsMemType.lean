/-
  Mb2.Props.FnsMemType — SOURCE = MODEL (part of the function-body tie, see `Mb2/Props/FnsBase.lean` and `Mb2/Rir.lean`).
  Theorems about terms GENERATED from /repo's working tree by tools/gen_fns.py (`Mb2/Gen/Fns.lean`).
-/

import Mb2.Props.FnsBase
open Mb2 Mb2.Rir

namespace Mb2.Fns

def encMemType : MemoryAreaType → V
  | .available => .c0 "MemoryAreaType::Available" | .reserved => .c0 "MemoryAreaType::Reserved"
  | .acpiAvailable => .c0 "MemoryAreaType::AcpiAvailable" | .reservedHibernate => .c0 "MemoryAreaType::ReservedHibernate"
  | .defective => .c0 "MemoryAreaType::Defective"
  | .custom c => .c1 "MemoryAreaType::Custom" (.int .u32 c.toNat)

/-- `impl From<MemoryAreaTypeId> for MemoryAreaType` = `MemoryAreaType.ofU32` -/
theorem mem_type_from_id_eq (p : Profile) (v : UInt32) :
    evalO p [.int .u32 v.toNat] Gen.Fns.mem_type_from_id = some (.ok (encMemType (MemoryAreaType.ofU32 v))) := by
  simp only [evalO, Gen.Fns.mem_type_from_id, Option.map]
  unfold MemoryAreaType.ofU32
  split
  all_goals first
    | (simp [eval, binop, arith, encMemType]; done)
    | skip
  simp only [← UInt32.toNat_inj, UInt32.toNat_ofNat, Nat.reducePow, Nat.reduceMod] at *
  generalize hn : v.toNat = n at *
  have henv : (Env.set (envOf [V.int Ty.u32 n]) 101 (V.int Ty.u32 n)) 101 = V.int Ty.u32 n := set_same _ _ _
  rw [eval_let_var]
  simp only [envOf_zero]
  repeat (rw [eval_arm_lit p _ 101 _ n .u32 _ _ henv, if_neg (by assumption)])
  simp [eval, encMemType, hn]

/-- `impl From<MemoryAreaType> for MemoryAreaTypeId` = `MemoryAreaType.toU32` -/
theorem id_from_mem_type_eq (p : Profile) (t : MemoryAreaType) :
    (evalO p [encMemType t] Gen.Fns.id_from_mem_type).map (fun r => r >>= fun v => .ok (typed .u32 v)) =
      some (.ok (.int .u32 t.toU32.toNat)) := by
  cases t <;>
    simp [evalO, Gen.Fns.id_from_mem_type, eval, prim2, isC, encMemType, typed, MemoryAreaType.toU32]

end Mb2.Fns
