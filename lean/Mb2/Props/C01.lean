/-
  C01 — Boot-information parsing never reads outside the loaded structure.
  `C01Parts` holds the per-entry-point theorems, `C01Sweep` the end-to-end theorem `sweep_no_fault` about the very function
  the correspondence check ties to the real code (`Sweep.sweep`).
-/
import Mb2.Props.FnsTblElf
import Mb2.Props.FnsTblMbi
import Mb2.Props.Layout
import Mb2.Props.FnsGetters
import Mb2.Props.FnsCast
import Mb2.Props.FnsFb
import Mb2.Props.FnsElfIter
import Mb2.Props.FnsIter
import Mb2.Props.FnsDstMbi
import Mb2.Props.FnsEfi
import Mb2.Props.FnsElfOpen
import Mb2.Props.FnsMisc
import Mb2.Props.C01Parts
import Mb2.Props.C01Sweep
