/-
  Layout — the SOURCE-DERIVED tie. `Mb2/Gen/Source.lean` is regenerated from the Rust sources of /repo on every run
  (tools/gen_source.py: repr(C) / packed / align(N) layout of every tag struct, the `Tag::ID` constants, the `BASE_SIZE`
  constants, the field each one-line accessor returns). The theorems below compare those facts with the hand-written model
  tables (`Kind.typ`, `Kind.desc`, `Kind.fields`, `HKind.*`, the VBE tables) - which `C04.layout_eq_spec`,
  `C04.fixed_size_eq_spec`, `C11.layout_eq_spec` tie to the specification's tables. So a change of the source that moves a
  field, swaps two accessors, changes an ID or a BASE_SIZE breaks a theorem here even before any input is generated.
  A fact the translator could not derive is `none` and agrees with everything (a refactor it does not understand is not an
  alarm); `derived_count` shows how many facts are live.
-/
import Mb2.Gen.Source
import Mb2.Tags
import Mb2.HTags
namespace Mb2.Layout
open Mb2 Mb2.Gen

/-- a derived fact agrees with the model value -/
def agrees {α} [BEq α] (g : Option α) (m : α) : Bool :=
  match g with
  | none => true
  | some x => x == m

def agreesAll {α} [BEq α] : List (Option α) → List α → Bool
  | [], [] => true
  | g :: gs, m :: ms => agrees g m && agreesAll gs ms
  | _, _ => false

def shift (d : Nat) (g : Option (Nat × Nat)) : Option (Nat × Nat) := g.map fun (o, w) => (o + d, w)

/-- the unsized tail: a dynamically sized struct's tail starts at the model's fixed part and has the model's element size; a
    sized struct has none -/
def tailAgrees (g : Option (Nat × Nat)) (fixed : Nat) (elem : Option Nat) : Bool :=
  match elem with
  | some el => agrees g (fixed, el)
  | none => g.isNone

/-- end of the last field = the unpadded fixed part -/
def fixedEnd (g : Option (List (Nat × Nat))) : Option Nat := g.map fun l => l.foldl (fun acc (o, w) => max acc (o + w)) 0

/-! ### boot-information tags -/

/-- (kind, derived ID, derived BASE_SIZE, derived end of the fixed fields, derived (tail offset, element size)) -/
def kindFacts : List (Kind × Option Nat × Option Nat × Option Nat × Option (Nat × Nat)) :=
  [(.end_, EndTag_id, EndTag_base, fixedEnd EndTag_fields, EndTag_tail),
   (.cmdline, CommandLineTag_id, CommandLineTag_base, fixedEnd CommandLineTag_fields, CommandLineTag_tail),
   (.loader, BootLoaderNameTag_id, BootLoaderNameTag_base, fixedEnd BootLoaderNameTag_fields, BootLoaderNameTag_tail),
   (.module, ModuleTag_id, ModuleTag_base, fixedEnd ModuleTag_fields, ModuleTag_tail),
   (.meminfo, BasicMemoryInfoTag_id, BasicMemoryInfoTag_base, fixedEnd BasicMemoryInfoTag_fields, BasicMemoryInfoTag_tail),
   (.bootdev, BootdevTag_id, BootdevTag_base, fixedEnd BootdevTag_fields, BootdevTag_tail),
   (.mmap, MemoryMapTag_id, MemoryMapTag_base, fixedEnd MemoryMapTag_fields, MemoryMapTag_tail),
   (.vbe, VBEInfoTag_id, VBEInfoTag_base, fixedEnd VBEInfoTag_fields, VBEInfoTag_tail),
   (.fb, FramebufferTag_id, FramebufferTag_base, fixedEnd FramebufferTag_fields, FramebufferTag_tail),
   (.elf, ElfSectionsTag_id, ElfSectionsTag_base, fixedEnd ElfSectionsTag_fields, ElfSectionsTag_tail),
   (.apm, ApmTag_id, ApmTag_base, fixedEnd ApmTag_fields, ApmTag_tail),
   (.efiSdt32, EFISdt32Tag_id, EFISdt32Tag_base, fixedEnd EFISdt32Tag_fields, EFISdt32Tag_tail),
   (.efiSdt64, EFISdt64Tag_id, EFISdt64Tag_base, fixedEnd EFISdt64Tag_fields, EFISdt64Tag_tail),
   (.smbios, SmbiosTag_id, SmbiosTag_base, fixedEnd SmbiosTag_fields, SmbiosTag_tail),
   (.rsdp1, RsdpV1Tag_id, RsdpV1Tag_base, fixedEnd RsdpV1Tag_fields, RsdpV1Tag_tail),
   (.rsdp2, RsdpV2Tag_id, RsdpV2Tag_base, fixedEnd RsdpV2Tag_fields, RsdpV2Tag_tail),
   (.network, NetworkTag_id, NetworkTag_base, fixedEnd NetworkTag_fields, NetworkTag_tail),
   (.efiMmap, EFIMemoryMapTag_id, EFIMemoryMapTag_base, fixedEnd EFIMemoryMapTag_fields, EFIMemoryMapTag_tail),
   (.efiBs, EFIBootServicesNotExitedTag_id, EFIBootServicesNotExitedTag_base, fixedEnd EFIBootServicesNotExitedTag_fields,
     EFIBootServicesNotExitedTag_tail),
   (.efiIh32, EFIImageHandle32Tag_id, EFIImageHandle32Tag_base, fixedEnd EFIImageHandle32Tag_fields, EFIImageHandle32Tag_tail),
   (.efiIh64, EFIImageHandle64Tag_id, EFIImageHandle64Tag_base, fixedEnd EFIImageHandle64Tag_fields, EFIImageHandle64Tag_tail),
   (.loadBase, ImageLoadPhysAddrTag_id, ImageLoadPhysAddrTag_base, fixedEnd ImageLoadPhysAddrTag_fields, ImageLoadPhysAddrTag_tail)]

/-- all 22 kinds are covered -/
theorem kindFacts_complete : ∀ k : Kind, k ∈ kindFacts.map (·.1) := by intro k; cases k <;> decide

/-- the `Tag::ID` constant of every tag struct is the model's (= the specification's) type number -/
theorem ids_match : ∀ e ∈ kindFacts, agrees e.2.1 e.1.typ = true := by decide

/-- every `BASE_SIZE` constant is the model's -/
theorem base_sizes_match : ∀ e ∈ kindFacts, agrees e.2.2.1 e.1.desc.baseSize = true := by decide

/-- the fixed fields of every struct end where the model's fixed part ends; a dynamically sized struct's tail starts there
    and has the model's element size -/
theorem fixed_parts_match : ∀ e ∈ kindFacts,
    agrees e.2.2.2.1 e.1.desc.fixed = true ∧ tailAgrees e.2.2.2.2 e.1.desc.fixed e.1.desc.elem = true := by decide

/-- the field each accessor returns, in the order of the model's `Kind.fields` -/
def accFacts : List (Kind × List (Option (Nat × Nat))) :=
  [(.apm, [ApmTag_acc_version, ApmTag_acc_cseg, ApmTag_acc_offset, ApmTag_acc_cset_16, ApmTag_acc_dseg, ApmTag_acc_flags,
           ApmTag_acc_cseg_len, ApmTag_acc_cseg_16_len, ApmTag_acc_dseg_len]),
   (.meminfo, [BasicMemoryInfoTag_acc_memory_lower, BasicMemoryInfoTag_acc_memory_upper]),
   (.bootdev, [BootdevTag_acc_biosdev, BootdevTag_acc_slice, BootdevTag_acc_part]),
   (.efiIh32, [EFIImageHandle32Tag_acc_image_handle]),
   (.efiIh64, [EFIImageHandle64Tag_acc_image_handle]),
   (.efiSdt32, [EFISdt32Tag_acc_sdt_address]),
   (.efiSdt64, [EFISdt64Tag_acc_sdt_address]),
   (.loadBase, [ImageLoadPhysAddrTag_acc_load_base_addr]),
   (.module, [ModuleTag_acc_start_address, ModuleTag_acc_end_address]),
   (.mmap, [MemoryMapTag_acc_entry_size, MemoryMapTag_acc_entry_version]),
   (.elf, [ElfSectionsTag_acc_number_of_sections, ElfSectionsTag_acc_entry_size, ElfSectionsTag_acc_shndx]),
   (.fb, [FramebufferTag_acc_address, FramebufferTag_acc_pitch, FramebufferTag_acc_width, FramebufferTag_acc_height,
          FramebufferTag_acc_bpp]),
   (.smbios, [SmbiosTag_acc_major, SmbiosTag_acc_minor]),
   (.rsdp1, [RsdpV1Tag_acc_revision, RsdpV1Tag_acc_rsdt_address]),
   (.rsdp2, [RsdpV2Tag_acc_revision, RsdpV2Tag_acc_xsdt_address, RsdpV2Tag_acc_ext_checksum]),
   (.loader, [TagHeader_fld_typ, TagHeader_fld_size]),
   (.vbe, [VBEInfoTag_acc_mode, VBEInfoTag_acc_interface_segment, VBEInfoTag_acc_interface_offset,
           VBEInfoTag_acc_interface_length])]

/-- every accessor of every kind returns the field at the offset and width the model (and, by `C04.layout_eq_spec`, the
    specification) gives it -/
theorem accessors_match : ∀ e ∈ accFacts, agreesAll e.2 (e.1.fields.map (·.2)) = true := by decide

/-- fields the model reads at fixed offsets without a plain accessor: EFI map descriptor size / version, framebuffer type
    byte, RSDP signature / OEM id / length, memory-area entries, the two headers -/
theorem direct_fields_match :
    agrees EFIMemoryMapTag_fld_desc_size (8, 4) ∧ agrees EFIMemoryMapTag_fld_desc_version (12, 4) ∧
    agrees FramebufferTag_fld_framebuffer_type (29, 1) ∧
    agrees RsdpV1Tag_fld_signature (8, 8) ∧ agrees RsdpV1Tag_fld_oem_id (17, 6) ∧
    agrees RsdpV2Tag_fld_signature (8, 8) ∧ agrees RsdpV2Tag_fld_oem_id (17, 6) ∧ agrees RsdpV2Tag_fld_length (28, 4) ∧
    agrees MemoryArea_fld_base_addr (0, 8) ∧ agrees MemoryArea_fld_length (8, 8) ∧ agrees MemoryArea_fld_typ (16, 4) ∧
    agrees MemoryArea_size (24, 8) ∧
    agrees TagHeader_fld_typ (0, 4) ∧ agrees TagHeader_fld_size (HK.tag.sizeOff, 4) ∧ agrees TagHeader_size (HK.tag.hsize, 8) ∧
    agrees BootInformationHeader_fld_total_size (HK.bi.sizeOff, 4) ∧ agrees BootInformationHeader_size (HK.bi.hsize, 8) := by decide

/-- the two ELF section-header layouts (`#[repr(C, packed)]`): the fields `elfSecAt`, `elfName` and `elfStrTabAddr` read, at
    the offsets and widths they read them (ELF32: name 0, type 4, flags 8, address 12, size 20, alignment 32, all 4 bytes wide,
    entries of 40 bytes; ELF64: name 0/4, type 4/4, flags 8/8, address 16/8, size 32/8, alignment 48/8, entries of 64 bytes);
    the accessor bodies return exactly these fields (`Fns.tbl_elf32_eq`, `Fns.tbl_elf64_eq`) -/
theorem elf_inner_layouts_match :
    agrees ElfSectionInner32_fld_name_index (0, 4) ∧ agrees ElfSectionInner32_fld_typ (4, 4) ∧
    agrees ElfSectionInner32_fld_flags (8, 4) ∧ agrees ElfSectionInner32_fld_addr (12, 4) ∧
    agrees ElfSectionInner32_fld_size (20, 4) ∧ agrees ElfSectionInner32_fld_addralign (32, 4) ∧
    agrees ElfSectionInner32_size (40, 1) ∧
    agrees ElfSectionInner64_fld_name_index (0, 4) ∧ agrees ElfSectionInner64_fld_typ (4, 4) ∧
    agrees ElfSectionInner64_fld_flags (8, 8) ∧ agrees ElfSectionInner64_fld_addr (16, 8) ∧
    agrees ElfSectionInner64_fld_size (32, 8) ∧ agrees ElfSectionInner64_fld_addralign (48, 8) ∧
    agrees ElfSectionInner64_size (64, 1) := by decide

/-- the VBE control / mode blocks: the fields in the order the model lists them (`vbeControlFields` splits the 4-byte
    signature into bytes, `vbeModeFields` splits each 2-byte colour field into mask size and position) -/
def vbeControlFacts : List (Option (Nat × Nat)) :=
  [VBEControlInfo_fld_version, VBEControlInfo_fld_oem_string_ptr, VBEControlInfo_fld_capabilities,
   VBEControlInfo_fld_mode_list_ptr, VBEControlInfo_fld_total_memory, VBEControlInfo_fld_oem_software_revision,
   VBEControlInfo_fld_oem_vendor_name_ptr, VBEControlInfo_fld_oem_product_name_ptr,
   VBEControlInfo_fld_oem_product_revision_ptr].map (shift 16)

theorem vbe_control_matches :
    agrees (shift 16 VBEControlInfo_fld_signature) (16, 4) = true ∧
    agreesAll vbeControlFacts (vbeControlFields.drop 4) = true ∧
    agrees VBEInfoTag_acc_control_info (16, 512) = true ∧ agrees VBEInfoTag_acc_mode_info (528, 256) = true := by decide

def vbeModeFacts : List (Option (Nat × Nat)) :=
  [VBEModeInfo_fld_mode_attributes, VBEModeInfo_fld_window_a_attributes, VBEModeInfo_fld_window_b_attributes,
   VBEModeInfo_fld_window_granularity, VBEModeInfo_fld_window_size, VBEModeInfo_fld_window_a_segment,
   VBEModeInfo_fld_window_b_segment, VBEModeInfo_fld_window_function_ptr, VBEModeInfo_fld_pitch,
   VBEModeInfo_fld_resolution_0, VBEModeInfo_fld_resolution_1, VBEModeInfo_fld_character_size_0,
   VBEModeInfo_fld_character_size_1, VBEModeInfo_fld_number_of_planes, VBEModeInfo_fld_bpp, VBEModeInfo_fld_number_of_banks,
   VBEModeInfo_fld_memory_model, VBEModeInfo_fld_bank_size, VBEModeInfo_fld_number_of_image_pages].map (shift 528)

/-- a 2-byte colour field = (mask size byte, position byte) -/
def colourField (g : Option (Nat × Nat)) : List (Option (Nat × Nat)) :=
  [ (do let f ← g; let s ← VBEField_fld_size; pure (f.1 + s.1 + 528, s.2)),
    (do let f ← g; let p ← VBEField_fld_position; pure (f.1 + p.1 + 528, p.2)) ]

theorem vbe_mode_matches :
    agreesAll (vbeModeFacts ++ colourField VBEModeInfo_fld_red_field ++ colourField VBEModeInfo_fld_green_field ++
               colourField VBEModeInfo_fld_blue_field ++ colourField VBEModeInfo_fld_reserved_field ++
               [VBEModeInfo_fld_direct_color_attributes, VBEModeInfo_fld_framebuffer_base_ptr,
                VBEModeInfo_fld_offscreen_memory_offset, VBEModeInfo_fld_offscreen_memory_size].map (shift 528))
      vbeModeFields = true := by decide

/-! ### header tags -/

def hkindFacts : List (HKind × Option Nat × Option Nat × Option Nat × Option (Nat × Nat)) :=
  [(.end_, EndHeaderTag_id, EndHeaderTag_base, fixedEnd EndHeaderTag_fields, EndHeaderTag_tail),
   (.inforeq, InformationRequestHeaderTag_id, InformationRequestHeaderTag_base, fixedEnd InformationRequestHeaderTag_fields,
     InformationRequestHeaderTag_tail),
   (.address, AddressHeaderTag_id, AddressHeaderTag_base, fixedEnd AddressHeaderTag_fields, AddressHeaderTag_tail),
   (.entry, EntryAddressHeaderTag_id, EntryAddressHeaderTag_base, fixedEnd EntryAddressHeaderTag_fields, EntryAddressHeaderTag_tail),
   (.console, ConsoleHeaderTag_id, ConsoleHeaderTag_base, fixedEnd ConsoleHeaderTag_fields, ConsoleHeaderTag_tail),
   (.fb, FramebufferHeaderTag_id, FramebufferHeaderTag_base, fixedEnd FramebufferHeaderTag_fields, FramebufferHeaderTag_tail),
   (.modalign, ModuleAlignHeaderTag_id, ModuleAlignHeaderTag_base, fixedEnd ModuleAlignHeaderTag_fields, ModuleAlignHeaderTag_tail),
   (.efibs, EfiBootServiceHeaderTag_id, EfiBootServiceHeaderTag_base, fixedEnd EfiBootServiceHeaderTag_fields,
     EfiBootServiceHeaderTag_tail),
   (.efi32, EntryEfi32HeaderTag_id, EntryEfi32HeaderTag_base, fixedEnd EntryEfi32HeaderTag_fields, EntryEfi32HeaderTag_tail),
   (.efi64, EntryEfi64HeaderTag_id, EntryEfi64HeaderTag_base, fixedEnd EntryEfi64HeaderTag_fields, EntryEfi64HeaderTag_tail),
   (.reloc, RelocatableHeaderTag_id, RelocatableHeaderTag_base, fixedEnd RelocatableHeaderTag_fields, RelocatableHeaderTag_tail)]

theorem hkindFacts_complete : ∀ k : HKind, k ∈ hkindFacts.map (·.1) := by intro k; cases k <;> decide

theorem hids_match : ∀ e ∈ hkindFacts, agrees e.2.1 e.1.typ = true := by decide

theorem hbase_sizes_match : ∀ e ∈ hkindFacts, agrees e.2.2.1 e.1.desc.baseSize = true := by decide

theorem hfixed_parts_match : ∀ e ∈ hkindFacts,
    agrees e.2.2.2.1 e.1.desc.fixed = true ∧ tailAgrees e.2.2.2.2 e.1.desc.fixed e.1.desc.elem = true := by decide

def haccFacts : List (HKind × List (Option (Nat × Nat))) :=
  [(.address, [AddressHeaderTag_acc_header_addr, AddressHeaderTag_acc_load_addr, AddressHeaderTag_acc_load_end_addr,
               AddressHeaderTag_acc_bss_end_addr]),
   (.entry, [EntryAddressHeaderTag_acc_entry_addr]),
   (.efi32, [EntryEfi32HeaderTag_acc_entry_addr]),
   (.efi64, [EntryEfi64HeaderTag_acc_entry_addr]),
   (.console, [ConsoleHeaderTag_acc_console_flags]),
   (.fb, [FramebufferHeaderTag_acc_width, FramebufferHeaderTag_acc_height, FramebufferHeaderTag_acc_depth]),
   (.reloc, [RelocatableHeaderTag_acc_min_addr, RelocatableHeaderTag_acc_max_addr, RelocatableHeaderTag_acc_align,
             RelocatableHeaderTag_acc_preference])]

theorem haccessors_match : ∀ e ∈ haccFacts, agreesAll e.2 (e.1.fields.map (·.2)) = true := by decide

theorem header_fields_match :
    agrees HeaderTagHeader_fld_typ (0, 2) ∧ agrees HeaderTagHeader_fld_flags (2, 2) ∧
    agrees HeaderTagHeader_fld_size (HK.ht.sizeOff, 4) ∧ agrees (HeaderTagHeader_size.map (·.1)) HK.ht.hsize ∧
    agrees Multiboot2BasicHeader_fld_header_magic (0, 4) ∧ agrees Multiboot2BasicHeader_fld_arch (4, 4) ∧
    agrees Multiboot2BasicHeader_fld_length (HK.hb.sizeOff, 4) ∧ agrees Multiboot2BasicHeader_fld_checksum (12, 4) ∧
    agrees (Multiboot2BasicHeader_size.map (·.1)) HK.hb.hsize := by decide

/-- how many of the requested facts the translator derived from the current source (non-vacuity of the tie) -/
def derivedCount : Nat :=
  (kindFacts.map fun e => e.2.1.isSome.toNat + e.2.2.1.isSome.toNat + e.2.2.2.1.isSome.toNat).sum +
  (accFacts.map fun e => (e.2.map fun g => g.isSome.toNat).sum).sum +
  (hkindFacts.map fun e => e.2.1.isSome.toNat + e.2.2.1.isSome.toNat + e.2.2.2.1.isSome.toNat).sum +
  (haccFacts.map fun e => (e.2.map fun g => g.isSome.toNat).sum).sum +
  ((vbeControlFacts ++ vbeModeFacts).map fun g => g.isSome.toNat).sum

end Mb2.Layout
