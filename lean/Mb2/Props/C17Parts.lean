/-
  C17 — String tags round-trip text and apply the NUL / UTF-8 rules within the tag size.
-/
import Mb2.Tags
import Mb2.Build
import Mb2.Lemmas.Arith
namespace Mb2.C17
open Mb2

/-- parsing characterisation, for ANY content bytes (= the bytes `[fixed, size)` of the tag): the text is the bytes
    before the first NUL when they are valid UTF-8; no NUL → MissingNul; invalid → Utf8. Never a panic, and the text
    (plus its terminator) lies inside the given bytes. -/
theorem parse_spec (bytes : Bytes) :
    (∀ i, parseStr bytes = .ok i →
        i < bytes.length ∧ bytes.getD i 1 = 0 ∧ (∀ j, j < i → bytes.getD j 0 ≠ 0) ∧ validUtf8 (bytes.take i) = true) ∧
    (parseStr bytes = .error .missingNul ↔ ∀ j, j < bytes.length → bytes.getD j 0 ≠ 0) ∧
    (parseStr bytes = .error .utf8 → ∃ i, i < bytes.length ∧ bytes.getD i 1 = 0 ∧ (∀ j, j < i → bytes.getD j 0 ≠ 0) ∧
        validUtf8 (bytes.take i) = false) := by
  unfold parseStr
  cases hf : bytes.findIdx? (· == 0) with
  | none =>
    have hn := List.findIdx?_eq_none_iff.mp hf
    refine ⟨fun i h => by simp at h, ⟨fun _ j hj => ?_, fun _ => rfl⟩, fun h => by simp at h⟩
    have := hn (bytes[j]) (List.getElem_mem hj)
    simp only [List.getD_eq_getElem?_getD, List.getElem?_eq_getElem hj, Option.getD_some]
    simpa using this
  | some i =>
    have hs := List.findIdx?_eq_some_iff_getElem.mp hf
    obtain ⟨hi, hz, hbefore⟩ := hs
    have hz' : bytes.getD i 1 = 0 := by
      simp only [List.getD_eq_getElem?_getD, List.getElem?_eq_getElem hi, Option.getD_some]; simpa using hz
    have hb' : ∀ j, j < i → bytes.getD j 0 ≠ 0 := by
      intro j hj
      have hjl : j < bytes.length := by omega
      have := hbefore j hj
      simp only [List.getD_eq_getElem?_getD, List.getElem?_eq_getElem hjl, Option.getD_some]
      simpa using this
    simp only
    by_cases hv : validUtf8 (bytes.take i) = true
    · rw [if_pos hv]
      refine ⟨fun k hk => ?_, ⟨fun h => by simp at h, fun h => ?_⟩, fun h => by simp at h⟩
      · injection hk with hk; subst hk; exact ⟨hi, hz', hb', hv⟩
      · exfalso
        have := h i hi
        simp only [List.getD_eq_getElem?_getD, List.getElem?_eq_getElem hi, Option.getD_some] at this
        exact this (by simpa using hz)
    · rw [if_neg hv]
      refine ⟨fun k hk => by simp at hk, ⟨fun h => by simp at h, fun h => ?_⟩, fun _ => ⟨i, hi, hz', hb', by simpa using hv⟩⟩
      exfalso
      have := h i hi
      simp only [List.getD_eq_getElem?_getD, List.getElem?_eq_getElem hi, Option.getD_some] at this
      exact this (by simpa using hz)

/-- first NUL of `s ++ 0 :: rest` when `s` has none -/
theorem findIdx_append_nul (s rest : Bytes) (hs : ∀ b ∈ s, b ≠ 0) :
    (s ++ (0 : UInt8) :: rest).findIdx? (· == 0) = some s.length := by
  induction s with
  | nil => simp [List.findIdx?_cons]
  | cons a t ih =>
    have ha : a ≠ 0 := hs a (by simp)
    have := ih (fun b hb => hs b (by simp [hb]))
    simp only [List.cons_append, List.findIdx?_cons, List.length_cons]
    have hne : (a == 0) = false := by simpa using ha
    rw [hne]
    simp only [Bool.false_eq_true, if_false]
    rw [this]
    rfl

/-- Round trip: for EVERY string `s` (Lean `String` = valid UTF-8 by construction, like Rust's `&str`) without a NUL byte,
    the content the three constructors store (`s` followed by exactly one NUL, followed by arbitrary padding / next-tag
    bytes `rest`) parses back to exactly the bytes of `s`. -/
theorem roundtrip (s : String) (rest : Bytes) (hs : ∀ b ∈ s.toUTF8.data.toList, b ≠ 0) :
    parseStr (strContent s.toUTF8.data.toList ++ rest) = .ok s.toUTF8.data.toList.length ∧
    (strContent s.toUTF8.data.toList ++ rest).take s.toUTF8.data.toList.length = s.toUTF8.data.toList ∧
    strContent s.toUTF8.data.toList = s.toUTF8.data.toList ++ [0] := by
  have hc : strContent s.toUTF8.data.toList = s.toUTF8.data.toList ++ [0] := by
    unfold strContent
    by_cases hl : s.toUTF8.data.toList.getLast? = some 0
    · exfalso
      have := List.mem_of_getLast? hl
      exact hs 0 this rfl
    · rw [if_neg hl]
  refine ⟨?_, ?_, hc⟩
  · unfold parseStr
    rw [hc, List.append_assoc]
    simp only [List.singleton_append]
    rw [findIdx_append_nul _ _ hs]
    simp only
    have hv : validUtf8 ((s.toUTF8.data.toList ++ 0 :: rest).take s.toUTF8.data.toList.length) = true := by
      rw [List.take_left']
      · unfold validUtf8
        have e : ByteArray.mk s.toUTF8.data.toList.toArray = s.toUTF8 := by
          cases s.toUTF8 with | mk d => simp
        rw [e]
        exact ByteArray.validateUTF8_eq_true_iff.mpr s.isValidUTF8
      · rfl
    rw [if_pos hv]
  · rw [hc, List.append_assoc, List.take_left']; rfl

/-! Non-vacuity -/
example : parseStr [104, 105, 0, 122] = .ok 2 := by decide
example : parseStr [104, 105] = .error .missingNul := by decide

end Mb2.C17
