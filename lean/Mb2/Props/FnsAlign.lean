/-
  Mb2.Props.FnsAlign — SOURCE = MODEL (part of the function-body tie, see `Mb2/Props/FnsBase.lean` and `Mb2/Rir.lean`).
  Theorems about terms GENERATED from /repo's working tree by tools/gen_fns.py (`Mb2/Gen/Fns.lean`).
-/

import Mb2.Props.FnsBase
open Mb2 Mb2.Rir

namespace Mb2.Fns

/-- `increase_to_alignment` (lib.rs) = `incAlign` -/
theorem increase_to_alignment_eq (p : Profile) (n : Nat) :
    evalO p [.int .usize n] Gen.Fns.increase_to_alignment = some (intRes .usize (incAlign p n)) := by
  have h7 : usub p W64 8 1 = .ok 7 := by simp [usub]
  simp [evalO, Gen.Fns.increase_to_alignment, eval, binop, arith, unop, incAlign, set_other, h7]
  cases h : uadd p W64 n 7 with
  | ok s => simp [and_not7_nat s (uadd_lt p W64 n 7 s (by decide) h)]
  | panic => simp
  | oob => rfl
  | ub => rfl

end Mb2.Fns
