/-
  Mb2.Props.FnsFb — SOURCE = MODEL for the framebuffer colour-info reader (framebuffer.rs): `FramebufferTag::buffer_type`,
  `Reader::read_next_u8`, `Reader::read_next_u16`.
-/
import Mb2.Props.FnsBase
open Mb2 Mb2.Rir
set_option linter.unusedSimpArgs false

namespace Mb2.Fns

/-- `buffer_type`, unknown type byte: the error of `FramebufferTypeId::try_from` is passed on, nothing else is looked at -/
theorem fb_buffer_type_unknown_eq (p : Profile) (e n off len sl r0 r1 r2 r3 r4 r5 : V) :
    evalO p [.c1 "Err" e, n, off, len, sl, r0, r1, r2, r3, r4, r5] Gen.Fns.fb_buffer_type = some (.ok (.c1 "Err" e)) := by
  simp [evalO, Gen.Fns.fb_buffer_type, eval, tryV]

/-- `buffer_type`, indexed: the palette of `n` colours (3 bytes each) must lie inside the colour-info buffer behind the two
    bytes of the count, `reader.off + 3 n <= buffer.len()`, else a controlled panic (`fbBufferType`: `2 + num * 3 ≤ v.n`) -/
theorem fb_buffer_type_indexed_eq (p : Profile) (n off len : Nat) (sl r0 r1 r2 r3 r4 r5 : V)
    (hn : n < 65536) (hoff : off < W32) :
    evalO p [.c1 "Ok" (.c0 "FramebufferTypeId::Indexed"), .int .u16 n, .int .usize off, .int .usize len, sl, r0, r1, r2, r3, r4, r5]
        Gen.Fns.fb_buffer_type =
      some (if off + n * 3 ≤ len then .ok (.c1 "Ok" sl) else .panic) := by
  have e1 : n % W64 = n := Nat.mod_eq_of_lt (by simp only [W64]; omega)
  have m : umul p W64 n 3 = .ok (n * 3) := by unfold umul; rw [if_pos]; simp only [W64]; omega
  have a : uadd p W64 off (n * 3) = .ok (off + n * 3) := by unfold uadd; rw [if_pos]; simp only [W32, W64] at *; omega
  by_cases h : off + n * 3 ≤ len <;>
    simp [evalO, Gen.Fns.fb_buffer_type, eval, tryV, prim2, isC, binop, arith, castV, set_other, e1, m, a, h]

/-- `buffer_type`, RGB: the six bytes in reading order (position / size of red, green, blue) -/
theorem fb_buffer_type_rgb_eq (p : Profile) (n off len sl r0 r1 r2 r3 r4 r5 : V) :
    evalO p [.c1 "Ok" (.c0 "FramebufferTypeId::RGB"), n, off, len, sl, r0, r1, r2, r3, r4, r5] Gen.Fns.fb_buffer_type =
      some (.ok (.c1 "Ok" (.pair (.pair r0 r1) (.pair (.pair r2 r3) (.pair r4 r5))))) := by
  simp [evalO, Gen.Fns.fb_buffer_type, eval, tryV, prim2, isC, set_other]

theorem fb_buffer_type_text_eq (p : Profile) (n off len sl r0 r1 r2 r3 r4 r5 : V) :
    evalO p [.c1 "Ok" (.c0 "FramebufferTypeId::Text"), n, off, len, sl, r0, r1, r2, r3, r4, r5] Gen.Fns.fb_buffer_type =
      some (.ok (.c1 "Ok" (.c0 "FramebufferType::Text"))) := by
  simp [evalO, Gen.Fns.fb_buffer_type, eval, tryV, prim2, isC, set_other]

/-- `Reader::read_next_u8`: the byte at `off` (a panic when `get` finds none: `fbByte`), and `off + 1` -/
theorem reader_read_next_u8_eq (p : Profile) (b : V) (off : Nat) (h : off < W32) :
    evalO p [.c1 "Some" b, .int .usize off] Gen.Fns.reader_read_next_u8 = some (.ok (.pair b (.int .usize (off + 1)))) := by
  have a : uadd p W64 off 1 = .ok (off + 1) := by unfold uadd; rw [if_pos]; simp only [W32, W64] at *; omega
  simp [evalO, Gen.Fns.reader_read_next_u8, eval, prim1, binop, arith, set_other, a]

theorem reader_read_next_u8_end_eq (p : Profile) (off : V) :
    evalO p [.c0 "None", off] Gen.Fns.reader_read_next_u8 = some .panic := by
  simp [evalO, Gen.Fns.reader_read_next_u8, eval, prim1]

/-- `Reader::read_next_u16`: little-endian, low byte first (`fbBufferType`: `hi * 256 + lo`) -/
theorem reader_read_next_u16_eq (p : Profile) (lo hi : Nat) (hlo : lo < 256) (hhi : hi < 256) :
    evalO p [.int .u8 lo, .int .u8 hi] Gen.Fns.reader_read_next_u16 = some (.ok (.int .u16 (hi * 256 + lo))) := by
  have e1 : lo % 65536 = lo := Nat.mod_eq_of_lt (by omega)
  have e2 : hi % 65536 = hi := Nat.mod_eq_of_lt (by omega)
  have e3 : (hi <<< 8) % 65536 = hi * 256 := by
    rw [Nat.shiftLeft_eq]; exact Nat.mod_eq_of_lt (by omega)
  have e4 : hi * 256 ||| lo = hi * 256 + lo := by
    have := Nat.shiftLeft_add_eq_or_of_lt (show lo < 2 ^ 8 by omega) hi
    rw [Nat.shiftLeft_eq] at this
    simpa using this.symm
  simp [evalO, Gen.Fns.reader_read_next_u16, eval, castV, binop, shift, Ty.bits, arith, set_other, e1, e2, e3, e4]

end Mb2.Fns
