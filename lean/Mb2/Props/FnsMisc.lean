/-
  Mb2.Props.FnsMisc — SOURCE = MODEL (part of the function-body tie, see `Mb2/Props/FnsBase.lean` and `Mb2/Rir.lean`).
  Theorems about terms GENERATED from /repo's working tree by tools/gen_fns.py (`Mb2/Gen/Fns.lean`).
-/

import Mb2.Props.FnsBase
open Mb2 Mb2.Rir

namespace Mb2.Fns

/-- `ModuleTag::module_size` = `mod_end.saturating_sub(mod_start)` -/
theorem module_size_eq (p : Profile) (e s : Nat) :
    evalO p [.int .u32 e, .int .u32 s] Gen.Fns.module_size = some (.ok (.int .u32 (e - s))) := by
  simp [evalO, Gen.Fns.module_size, eval, prim2, intPrim]

/-- `MemoryArea::end_address` = `(base + length) mod 2^64` (as `memoryAreas` computes it) -/
theorem memory_area_end_address_eq (p : Profile) (b l : Nat) :
    evalO p [.int .u64 b, .int .u64 l] Gen.Fns.memory_area_end_address = some (.ok (.int .u64 ((b + l) % W64))) := by
  simp [evalO, Gen.Fns.memory_area_end_address, eval, prim2, intPrim]

/-- `MemoryMapTag::memory_areas` asserts `entry_size == 24` (`memoryAreas`) -/
theorem mmap_memory_areas_eq (p : Profile) (es : Nat) (areas : V) (h : es < W32) :
    evalO p [.int .u32 es, areas] Gen.Fns.mmap_memory_areas = some (if es ≠ 24 then .panic else .ok areas) := by
  by_cases h1 : es = 24
  · subst h1
    simp [evalO, Gen.Fns.mmap_memory_areas, eval, binop, arith, castV, (by decide : 24 % W64 = 24)]
  · simp [evalO, Gen.Fns.mmap_memory_areas, eval, binop, arith, castV, mod_W64_of_lt_W32 h, h1]

/-- `RsdpV2Tag::checksum_is_valid`: a stored length beyond the 36 RSDP bytes of the tag is invalid WITHOUT summing
    (`C04.rsdp2_long_invalid`); otherwise validity is `byte sum == 0` -/
theorem rsdp2_checksum_eq (p : Profile) (length sum : Nat) (h : length < W32) :
    evalO p [.int .u32 length, .int .u8 sum] Gen.Fns.rsdp2_checksum =
      some (.ok (.bool (if length > 36 then false else decide (sum = 0)))) := by
  by_cases h1 : length > 36 <;>
    simp [evalO, Gen.Fns.rsdp2_checksum, eval, binop, arith, castV, mod_W64_of_lt_W32 h, h1, set_other]

end Mb2.Fns
