/-
  C07 — Every tag constructor emits the spec-exact binary image.
  The model `ctorImpl` transcribes each constructor (struct field order, the size CONSTANT it writes, new_boxed for the
  heap-built ones). The specification's encoding of the arguments is transcribed independently in vlib/oracle.py
  (`expected_ctor`) and compared with the REAL constructors on every generated case; the theorems below state the
  universally quantified facts about the model.
-/
import Mb2.Build
import Mb2.Lemmas.Build
import Mb2.Lemmas.Tags
namespace Mb2.C07
open Mb2

/-- the fixed-size information tags: constructor name, the kind it must produce, blob bytes consumed -/
def sizedCtors : List (String × Kind × Nat) :=
  [("meminfo", .meminfo, 8), ("bootdev", .bootdev, 12), ("apm", .apm, 20), ("efi32", .efiSdt32, 4), ("efi64", .efiSdt64, 8),
   ("efibs", .efiBs, 0), ("ih32", .efiIh32, 4), ("ih64", .efiIh64, 8), ("loadbase", .loadBase, 4), ("end", .end_, 0),
   ("rsdp1", .rsdp1, 20), ("rsdp2", .rsdp2, 33), ("vbe", .vbe, 776)]

/-- For every fixed-size information-tag constructor and ALL argument values: the type field is the kind's ID (= the
    specification's number), the size field is the kind's exact unpadded size (= `Spec.fixedSize`), exactly that many
    bytes are initialised, the header decodes to (type, size), and the in-memory size is the size rounded up to 8
    (so `as_bytes()` is a valid 8-multiple view). -/
theorem sized_ctor_exact : ∀ c ∈ sizedCtors, ∀ (p : Profile) (blob : Bytes), c.2.2 ≤ blob.length →
    ∃ img, ctorImpl p c.1 blob = .ok img ∧ img.typ = c.2.1.typ ∧ some img.size = Spec.fixedSize c.2.1.typ ∧
      img.bytes.length = img.size ∧ le32 img.bytes 0 = img.typ ∧ le32 img.bytes 4 = img.size ∧
      img.sov = roundUp8 img.size ∧ c.2.1.desc = sizedDesc img.size := by
  intro c hc p blob hlen
  simp only [sizedCtors, List.mem_cons, List.mem_nil_iff, or_false] at hc
  rcases hc with h | h | h | h | h | h | h | h | h | h | h | h | h <;> subst h <;> simp only at hlen
  all_goals
    refine ⟨_, rfl, rfl, rfl, ?_, ?_, ?_, ?_, rfl⟩
  all_goals first
    | (simp only [sizedImg, mbiHdr, List.length_append, enc32_length, List.length_cons, List.length_nil, zeros,
        List.length_replicate]
       repeat rw [slice_length _ _ _ (by omega)])
    | exact (mbiHdr_decode _ _ _).1
    | exact (mbiHdr_decode _ _ _).2
    | rfl
    | skip
  all_goals first
    | rfl
    | (simp only [sizedImg, roundUp8, List.length_append, List.length_cons, List.length_nil, zeros, List.length_replicate]
       repeat rw [slice_length _ _ _ (by omega)])

/-- heap-built (dynamically sized) information tags: for ALL content slices the constructor yields the header with the
    exact size `8 + Σ|slice|` followed by the concatenated content without gaps - it never panics - provided the content
    matches the kind's element size (which every constructor guarantees by construction) -/
theorem boxed_ctor_exact (p : Profile) (typ base e : Nat) (slices : List Bytes) (he : 0 < e)
    (hb : base ≤ 8 + slices.flatten.length) (hr : (8 + slices.flatten.length - base) % e = 0)
    (hlen : slices.flatten.length < 2^62) :
    boxedImg p typ (dstDesc base e) slices =
      .ok ⟨typ, none, 8 + slices.flatten.length, mbiHdr typ (8 + slices.flatten.length) ++ slices.flatten,
           roundUp8 (8 + slices.flatten.length)⟩ := by
  unfold boxedImg
  rw [newBoxed_dst p typ base e slices he hb hr hlen]
  rfl

/-- string constructors: for a text without NUL the size is fixed part + |s| + 1 and exactly one NUL is stored -/
theorem cmdline_ctor (p : Profile) (s : Bytes) (hs : ∀ b ∈ s, b ≠ 0) (hlen : s.length < 2^61) :
    ctorImpl p "cmdline" s = .ok ⟨1, none, 8 + s.length + 1, mbiHdr 1 (8 + s.length + 1) ++ s ++ [0], roundUp8 (8 + s.length + 1)⟩ := by
  have hl : ¬ s.getLast? = some 0 := fun h => hs 0 (List.mem_of_getLast? h) rfl
  have hlen' : s.length < 2305843009213693952 := hlen
  simp only [ctorImpl, Kind.desc]
  rw [if_neg hl, boxed_ctor_exact p 1 8 1 [s, [0]] (by omega) (by simp) (by simp [Nat.mod_one]) (by simp; omega)]
  simp [Nat.add_assoc]

theorem loader_ctor (p : Profile) (s : Bytes) (hs : ∀ b ∈ s, b ≠ 0) (hlen : s.length < 2^61) :
    ctorImpl p "loader" s = .ok ⟨2, none, 8 + s.length + 1, mbiHdr 2 (8 + s.length + 1) ++ s ++ [0], roundUp8 (8 + s.length + 1)⟩ := by
  have hl : ¬ s.getLast? = some 0 := fun h => hs 0 (List.mem_of_getLast? h) rfl
  have hlen' : s.length < 2305843009213693952 := hlen
  simp only [ctorImpl, Kind.desc]
  rw [if_neg hl, boxed_ctor_exact p 2 8 1 [s, [0]] (by omega) (by simp) (by simp [Nat.mod_one]) (by simp; omega)]
  simp [Nat.add_assoc]

/-- a text that already ends in NUL is stored as it is -/
theorem cmdline_ctor_nul_terminated (p : Profile) (s : Bytes) (hl : s.getLast? = some 0) (hlen : s.length < 2^61) :
    ctorImpl p "cmdline" s = .ok ⟨1, none, 8 + s.length, mbiHdr 1 (8 + s.length) ++ s, roundUp8 (8 + s.length)⟩ := by
  have hlen' : s.length < 2305843009213693952 := hlen
  simp only [ctorImpl, Kind.desc]
  rw [if_pos hl, boxed_ctor_exact p 1 8 1 [s] (by omega) (by simp) (by simp [Nat.mod_one]) (by simp; omega)]
  simp

/-- read-back: an accessor at a field's specified offset returns the constructor argument (bytes of the blob) -/
theorem bootdev_readback (p : Profile) (blob : Bytes) (h : 12 ≤ blob.length) :
    ∃ img, ctorImpl p "bootdev" blob = .ok img ∧
      le32 img.bytes 8 = le32 blob 0 ∧ le32 img.bytes 12 = le32 blob 4 ∧ le32 img.bytes 16 = le32 blob 8 := by
  have l4 : ∀ o, o + 4 ≤ blob.length → (slice blob o 4).length = 4 := fun o ho => slice_length blob o 4 ho
  refine ⟨_, rfl, ?_, ?_, ?_⟩
  · show le32 (mbiHdr 5 20 ++ (slice blob 0 4 ++ slice blob 4 4 ++ slice blob 8 4)) 8 = le32 blob 0
    have := le32_append_right (mbiHdr 5 20) (slice blob 0 4 ++ slice blob 4 4 ++ slice blob 8 4) 0
    rw [show (mbiHdr 5 20).length = 8 from rfl] at this
    rw [this, List.append_assoc, le32_slice_append blob 0 _ (by omega)]
  · show le32 (mbiHdr 5 20 ++ (slice blob 0 4 ++ slice blob 4 4 ++ slice blob 8 4)) 12 = le32 blob 4
    have := le32_append_right (mbiHdr 5 20 ++ slice blob 0 4) (slice blob 4 4 ++ slice blob 8 4) 0
    rw [show (mbiHdr 5 20 ++ slice blob 0 4).length = 12 from by simp [mbiHdr, enc32_length, l4 0 (by omega)]] at this
    rw [show mbiHdr 5 20 ++ (slice blob 0 4 ++ slice blob 4 4 ++ slice blob 8 4) =
          (mbiHdr 5 20 ++ slice blob 0 4) ++ (slice blob 4 4 ++ slice blob 8 4) from by simp [List.append_assoc]]
    rw [this, le32_slice_append blob 4 _ (by omega)]
  · show le32 (mbiHdr 5 20 ++ (slice blob 0 4 ++ slice blob 4 4 ++ slice blob 8 4)) 16 = le32 blob 8
    have := le32_append_right (mbiHdr 5 20 ++ slice blob 0 4 ++ slice blob 4 4) (slice blob 8 4 ++ []) 0
    rw [show (mbiHdr 5 20 ++ slice blob 0 4 ++ slice blob 4 4).length = 16 from by
          simp [mbiHdr, enc32_length, l4 0 (by omega), l4 4 (by omega)]] at this
    rw [show mbiHdr 5 20 ++ (slice blob 0 4 ++ slice blob 4 4 ++ slice blob 8 4) =
          (mbiHdr 5 20 ++ slice blob 0 4 ++ slice blob 4 4) ++ (slice blob 8 4 ++ []) from by simp [List.append_assoc]]
    rw [this, le32_slice_append blob 8 _ (by omega)]

/-! Non-vacuity -/
example : ctorImpl .dev "bootdev" [1,0,0,0, 2,0,0,0, 3,0,0,0] =
    .ok ⟨5, none, 20, [5,0,0,0, 20,0,0,0, 1,0,0,0, 2,0,0,0, 3,0,0,0], 24⟩ := by decide

end Mb2.C07
