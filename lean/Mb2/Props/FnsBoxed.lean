/-
  Mb2.Props.FnsBoxed — SOURCE = MODEL for `new_boxed` (multiboot2-common/src/boxed.rs).

  * the size computation and the final layout assertion (`new_boxed_eq`): `tag_size = size_of::<Header>() + Σ |slice|`,
    allocation `increase_to_alignment(tag_size)` with alignment `ALIGNMENT`, panic unless `size_of_val(box) == alloc_size`
    (the model's `newBoxed`: `alloc ← incAlign tagSize; if sov ≠ alloc then panic`);
  * ONE iteration of the copy loop as a step function (`new_boxed_copy_step_eq`): the write offset advances by exactly the
    length of the slice; the EFFECTS of the function are pinned: `header.set_size(tag_size)`, the header copied to offset 0,
    each slice copied from `bytes.as_ptr()` to `heap_ptr.add(write_offset)` for `bytes.len()` bytes, the loop runs over
    `additional_bytes_slices` in order, `write_offset` starts at the header size;
  * `copy_chain_is_concat` (pure list lemma): writing the slices one after the other at offsets that start at `|hdr|` and
    advance by each slice's length produces exactly `hdr ++ slices.flatten` - "the concatenated content without gaps".
-/
import Mb2.Props.FnsBase
import Mb2.Props.FnsGetters
open Mb2 Mb2.Rir
set_option linter.unusedSimpArgs false
set_option maxRecDepth 8000

namespace Mb2.Fns

theorem new_boxed_eq (p : Profile) (hs add sov : Nat) (layout box wo len : V) :
    evalO p [.int .usize hs, .int .usize add, .bool false, .int .usize sov, .c1 "Ok" layout, box, wo, len] Gen.Fns.new_boxed =
      some ((uadd p W64 hs add) >>= fun tagSize => (incAlign p tagSize) >>= fun alloc =>
              if sov = alloc then .ok box else .panic) := by
  have h7 : usub p W64 8 1 = .ok 7 := by simp [usub]
  simp only [evalO, Gen.Fns.new_boxed, Option.map]
  congr 1
  simp [eval, binop, arith, unop, prim1, set_other, h7, incAlign]
  cases ha : uadd p W64 hs add with
  | ok t =>
    simp
    cases hb : uadd p W64 t 7 with
    | ok s =>
      simp [and_not7_nat s (uadd_lt p W64 t 7 s (by decide) hb)]
    | panic => simp
    | oob => rfl
    | ub => rfl
  | panic => simp
  | oob => rfl
  | ub => rfl

/-- a null allocation is a controlled panic (`assert!(!heap_ptr.is_null())`) -/
theorem new_boxed_null_eq (p : Profile) (hs add : Nat) (sov layout box wo len : V) (h : hs + add + 7 < W64) :
    evalO p [.int .usize hs, .int .usize add, .bool true, sov, .c1 "Ok" layout, box, wo, len] Gen.Fns.new_boxed = some .panic := by
  have h7 : usub p W64 8 1 = .ok 7 := by simp [usub]
  have ha : uadd p W64 hs add = .ok (hs + add) := by unfold uadd; rw [if_pos (by omega)]
  have hb : uadd p W64 (hs + add) 7 = .ok (hs + add + 7) := by unfold uadd; rw [if_pos (by omega)]
  simp [evalO, Gen.Fns.new_boxed, eval, binop, arith, unop, prim1, set_other, h7, ha, hb]

/-- one iteration of the copy loop: `write_offset += bytes.len()` -/
theorem new_boxed_copy_step_eq (p : Profile) (a0 a1 a2 a3 a4 a5 : V) (wo len : Nat) (h : wo + len < W64) :
    evalO p [a0, a1, a2, a3, a4, a5, .int .usize wo, .int .usize len] Gen.Fns.new_boxed_loop0 =
      some (.ok (.int .usize (wo + len))) := by
  have ha : uadd p W64 wo len = .ok (wo + len) := by unfold uadd; rw [if_pos h]
  simp [evalO, Gen.Fns.new_boxed_loop0, eval, binop, arith, set_other, ha]

def pinnedList (g : Option E) (l e : List String) : Bool := match g with | none => true | some _ => l == e

/-- the effects, in order: size patched into the header, header copied to the start, every slice copied to the write offset -/
theorem new_boxed_effects_pinned :
    pinnedList Gen.Fns.new_boxed Gen.Fns.new_boxed_effects
      ["header.set_size(tag_size)",
       "ptr::copy_nonoverlapping(addr_of!(..).cast::<u8>(),alloc::alloc::alloc(layout),size_of::<T::Header>())",
       "ptr::copy_nonoverlapping(bytes.as_ptr(),heap_ptr.add(write_offset),bytes.len())"] = true := by decide

theorem new_boxed_loop_pinned :
    (match Gen.Fns.new_boxed with
     | none => true
     | some _ => Gen.Fns.new_boxed_loop0_over == ("&bytes", "additional_bytes_slices") &&
                 Gen.Fns.new_boxed_loop0_state == ["write_offset"] &&
                 Gen.Fns.new_boxed_aliases.contains ("write_offset", "size_of::<T::Header>()")) = true := by decide

/-- memory after copying `s` to offset `off` of a buffer that is exactly `off` bytes long so far (sequential writes) -/
def copyChain (written : Bytes) : List Bytes → Bytes × List Nat
  | [] => (written, [])
  | s :: rest =>
    let r := copyChain (written ++ s) rest       -- `s` goes to offset `written.length`, the offset advances by `s.length`
    (r.1, written.length :: r.2)

/-- the step function iterated over the slices, starting at the header size: what has been written is `hdr ++ flatten`,
    and the i-th slice went to offset `|hdr| + Σ_{j<i} |slice j|` -/
theorem copy_chain_is_concat (hdr : Bytes) (slices : List Bytes) :
    (copyChain hdr slices).1 = hdr ++ slices.flatten ∧
    (copyChain hdr slices).2 = (List.range slices.length).map (fun i => hdr.length + ((slices.take i).flatten).length) := by
  induction slices generalizing hdr with
  | nil => simp [copyChain]
  | cons s rest ih =>
    obtain ⟨h1, h2⟩ := ih (hdr ++ s)
    refine ⟨by simp [copyChain, h1, List.append_assoc], ?_⟩
    simp only [copyChain, h2, List.length_cons, List.range_succ_eq_map, List.map_cons, List.map_map, List.take_zero,
      List.flatten_nil, List.length_nil, Nat.add_zero]
    congr 1
    apply List.map_congr_left
    intro i _
    simp [List.length_append, List.take_succ_cons, Nat.add_assoc]

end Mb2.Fns
