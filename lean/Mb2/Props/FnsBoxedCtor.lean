/-
  Mb2.Props.FnsBoxedCtor — SOURCE = MODEL for the heap-built constructors (strings, module, SMBIOS, network, information
  request): the header handed to `new_boxed` (type through `Tag::ID`, size 0 - `new_boxed` patches it) and the content slices
  IN ORDER; for the three string constructors the rule "append a NUL unless the text already ends in one"
  (`strContent` / `ctorImpl "cmdline" | "loader" | "module"`); `ModuleTag::new` panics unless `end > start`.
-/
import Mb2.Props.FnsBase
import Mb2.Props.FnsCtor
open Mb2 Mb2.Rir
set_option linter.unusedSimpArgs false

namespace Mb2.Fns

/-- content slices as the translator encodes them -/
def slicesV : List V → V
  | [] => .unit
  | [a] => .pair a .unit
  | a :: rest => .pair a (tuple rest)

def boxedV (hdr : V) (slices : List V) : V := .c1 "new_boxed" (.pair hdr (slicesV slices))

theorem cmdline_new_eq (p : Profile) (endsWithNul : Bool) (text nul : V) :
    evalO p [.bool endsWithNul, text, nul] Gen.Fns.cmdline_new =
      some (.ok (boxedV (mbiHdrV (Kind.typ .cmdline) 0) (if endsWithNul then [text] else [text, nul]))) := by
  cases endsWithNul <;>
    simp [evalO, Gen.Fns.cmdline_new, eval, castV, set_other, boxedV, slicesV, tuple, mbiHdrV, Kind.typ, w32_small]

theorem loader_new_eq (p : Profile) (endsWithNul : Bool) (text nul : V) :
    evalO p [.bool endsWithNul, text, nul] Gen.Fns.loader_new =
      some (.ok (boxedV (mbiHdrV (Kind.typ .loader) 0) (if endsWithNul then [text] else [text, nul]))) := by
  cases endsWithNul <;>
    simp [evalO, Gen.Fns.loader_new, eval, castV, set_other, boxedV, slicesV, tuple, mbiHdrV, Kind.typ, w32_small]

theorem module_new_eq (p : Profile) (e s : Nat) (endsWithNul : Bool) (sb eb text nul : V) :
    evalO p [.int .u32 e, .int .u32 s, .bool endsWithNul, sb, eb, text, nul] Gen.Fns.module_new =
      some (if e > s then
              .ok (boxedV (mbiHdrV (Kind.typ .module) 0) (if endsWithNul then [sb, eb, text] else [sb, eb, text, nul]))
            else .panic) := by
  by_cases h : e > s <;> cases endsWithNul <;>
    simp [evalO, Gen.Fns.module_new, eval, castV, binop, arith, set_other, boxedV, slicesV, tuple, mbiHdrV, Kind.typ, w32_small, h]

theorem smbios_new_eq (p : Profile) (ver reserved tables : V) :
    evalO p [ver, reserved, tables] Gen.Fns.smbios_new =
      some (.ok (boxedV (mbiHdrV (Kind.typ .smbios) 0) [ver, reserved, tables])) := by
  simp [evalO, Gen.Fns.smbios_new, eval, castV, set_other, boxedV, slicesV, tuple, mbiHdrV, Kind.typ, w32_small]

theorem network_new_eq (p : Profile) (pack : V) :
    evalO p [pack] Gen.Fns.network_new = some (.ok (boxedV (mbiHdrV (Kind.typ .network) 0) [pack])) := by
  simp [evalO, Gen.Fns.network_new, eval, castV, set_other, boxedV, slicesV, tuple, mbiHdrV, Kind.typ, w32_small]

theorem inforeq_new_eq (p : Profile) (flags reqs : V) :
    evalO p [flags, reqs] Gen.Fns.inforeq_new =
      some (.ok (boxedV (hHdrV "HeaderTagType::InformationRequest" flags 0) [reqs])) := by
  simp [evalO, Gen.Fns.inforeq_new, eval, castV, set_other, boxedV, slicesV, tuple, hHdrV, w32_small]

end Mb2.Fns
