/-
  C12 — Building then loading a header preserves its tags and is spec-well-formed.
-/
import Mb2.Build
import Mb2.Props.C06
import Mb2.Props.C10
namespace Mb2.C12
open Mb2

/-- the header-tag end image: type 0, flags 0, size 8 -/
def endHImg : Bytes := hdrHdr 0 0 8

/-- the tag area `tag₁ ++ … ++ tagₙ ++ end tag` of a built header walks (with the header-tag iterator) to exactly the
    supplied tags followed by the terminating end tag -/
theorem built_header_area_walk (imgs : List Bytes) (hwf : ∀ b ∈ imgs, C06.WFImg b) :
    Spec.tagsOf .ht (imgs.flatten ++ endHImg) =
      (C06.itemsOf .ht imgs 0 ++ [⟨imgs.flatten.length, 0, 8, 0⟩], .done) := by
  have h := C06.built_area_walk .ht endHImg rfl (by decide) imgs hwf
  have ht : tagTyp .ht endHImg 0 = 0 := by decide
  rw [ht] at h
  exact h

/-- `new_boxed` patches the basic header through `set_size`: the length becomes the byte count and the checksum is
    recomputed, so that magic + architecture + length + checksum ≡ 0 (mod 2^32) for ANY length and architecture -/
theorem set_size_keeps_checksum_valid (hdr : Bytes) (total : Nat) (ht : total < 4294967296) (hl : 8 ≤ hdr.length) :
    le32 (setSize .hb hdr total) 8 = total ∧
    (le32 hdr 0 + le32 hdr 4 + le32 (setSize .hb hdr total) 8 + le32 (setSize .hb hdr total) 12) % 4294967296 = 0 ∧
    (setSize .hb hdr total).take 8 = hdr.take 8 := by
  have hm := le32_lt hdr 0
  have ha := le32_lt hdr 4
  have hlen8 : (hdr.take 8).length = 8 := by simp [List.length_take]; omega
  have hmod : total % 4294967296 = total := Nat.mod_eq_of_lt ht
  have law := C10.checksum_law (le32 hdr 0) (le32 hdr 4) total hm ha ht
  have h8 : le32 (setSize .hb hdr total) 8 = total := by
    simp only [setSize]
    rw [List.append_assoc]
    have := le32_append_right (hdr.take 8) (enc32 total ++ enc32 (calcChecksum (le32 hdr 0) (le32 hdr 4) (total % 4294967296))) 0
    rw [hlen8] at this
    rw [this, le32_enc32, hmod]
  have h12 : le32 (setSize .hb hdr total) 12 = calcChecksum (le32 hdr 0) (le32 hdr 4) total := by
    simp only [setSize]
    have := le32_append_right (hdr.take 8 ++ enc32 total) (enc32 (calcChecksum (le32 hdr 0) (le32 hdr 4) (total % 4294967296)) ++ []) 0
    rw [show (hdr.take 8 ++ enc32 total).length = 12 from by simp [hlen8, enc32_length]] at this
    rw [List.append_nil] at this
    rw [this]
    have e := le32_enc32 (calcChecksum (le32 hdr 0) (le32 hdr 4) (total % 4294967296)) []
    rw [List.append_nil] at e
    rw [e, hmod, Nat.mod_eq_of_lt law.2]
  refine ⟨h8, ?_, ?_⟩
  · rw [h8, h12]; have := law.1; omega
  · simp only [setSize]
    rw [List.append_assoc, List.take_append_of_le_length (by omega)]
    simp [List.take_take]

/-! Non-vacuity -/
example : Spec.tagsOf .ht ([3,0,1,0, 12,0,0,0, 0x78,0x56,0x34,0x12, 0,0,0,0] ++ endHImg) =
    ([⟨0, 3, 12, 4⟩, ⟨16, 0, 8, 0⟩], .done) := by decide

end Mb2.C12
