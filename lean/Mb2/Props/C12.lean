/-
  C12 — Building then loading a header preserves its tags and is spec-well-formed.
-/
import Mb2.Props.FnsTblHdr
import Mb2.Props.FnsBoxedCtor
import Mb2.Props.FnsBoxed
import Mb2.Props.FnsCast
import Mb2.Props.Builders
import Mb2.Build
import Mb2.Props.C06
import Mb2.Props.C10
import Mb2.Props.C07Parts
import Mb2.HTags
namespace Mb2.C12
open Mb2

/-- the header-tag end image: type 0, flags 0, size 8 -/
def endHImg : Bytes := hdrHdr 0 0 8

/-- the tag area `tag₁ ++ … ++ tagₙ ++ end tag` of a built header walks (with the header-tag iterator) to exactly the
    supplied tags followed by the terminating end tag -/
theorem built_header_area_walk (imgs : List Bytes) (hwf : ∀ b ∈ imgs, C06.WFImg b) :
    Spec.tagsOf .ht (imgs.flatten ++ endHImg) =
      (C06.itemsOf .ht imgs 0 ++ [⟨imgs.flatten.length, 0, 8, 0⟩], .done) := by
  have h := C06.built_area_walk .ht endHImg rfl (by decide) imgs hwf
  have ht : tagTyp .ht endHImg 0 = 0 := by decide
  rw [ht] at h
  exact h

/-- `new_boxed` patches the basic header through `set_size`: the length becomes the byte count and the checksum is
    recomputed, so that magic + architecture + length + checksum ≡ 0 (mod 2^32) for ANY length and architecture -/
theorem set_size_keeps_checksum_valid (hdr : Bytes) (total : Nat) (ht : total < 4294967296) (hl : 8 ≤ hdr.length) :
    le32 (setSize .hb hdr total) 8 = total ∧
    (le32 hdr 0 + le32 hdr 4 + le32 (setSize .hb hdr total) 8 + le32 (setSize .hb hdr total) 12) % 4294967296 = 0 ∧
    (setSize .hb hdr total).take 8 = hdr.take 8 := by
  have hm := le32_lt hdr 0
  have ha := le32_lt hdr 4
  have hlen8 : (hdr.take 8).length = 8 := by simp [List.length_take]; omega
  have hmod : total % 4294967296 = total := Nat.mod_eq_of_lt ht
  have law := C10.checksum_law (le32 hdr 0) (le32 hdr 4) total hm ha ht
  have h8 : le32 (setSize .hb hdr total) 8 = total := by
    simp only [setSize]
    rw [List.append_assoc]
    have := le32_append_right (hdr.take 8) (enc32 total ++ enc32 (calcChecksum (le32 hdr 0) (le32 hdr 4) (total % 4294967296))) 0
    rw [hlen8] at this
    rw [this, le32_enc32, hmod]
  have h12 : le32 (setSize .hb hdr total) 12 = calcChecksum (le32 hdr 0) (le32 hdr 4) total := by
    simp only [setSize]
    have := le32_append_right (hdr.take 8 ++ enc32 total) (enc32 (calcChecksum (le32 hdr 0) (le32 hdr 4) (total % 4294967296)) ++ []) 0
    rw [show (hdr.take 8 ++ enc32 total).length = 12 from by simp [hlen8, enc32_length]] at this
    rw [List.append_nil] at this
    rw [this]
    have e := le32_enc32 (calcChecksum (le32 hdr 0) (le32 hdr 4) (total % 4294967296)) []
    rw [List.append_nil] at e
    rw [e, hmod, Nat.mod_eq_of_lt law.2]
  refine ⟨h8, ?_, ?_⟩
  · rw [h8, h12]; have := law.1; omega
  · simp only [setSize]
    rw [List.append_assoc, List.take_append_of_le_length (by omega)]
    simp [List.take_take]

/-! Non-vacuity -/
example : Spec.tagsOf .ht ([3,0,1,0, 12,0,0,0, 0x78,0x56,0x34,0x12, 0,0,0,0] ++ endHImg) =
    ([⟨0, 3, 12, 4⟩, ⟨16, 0, 8, 0⟩], .done) := by decide

theorem HMAGIC_lt : HMAGIC < 4294967296 := by decide

/-- a four-word header reads back word by word -/
theorem words4 (a b c d : Nat) (rest : Bytes) :
    le32 (enc32 a ++ enc32 b ++ enc32 c ++ enc32 d ++ rest) 0 = a % 4294967296 ∧
    le32 (enc32 a ++ enc32 b ++ enc32 c ++ enc32 d ++ rest) 4 = b % 4294967296 ∧
    le32 (enc32 a ++ enc32 b ++ enc32 c ++ enc32 d ++ rest) 8 = c % 4294967296 ∧
    le32 (enc32 a ++ enc32 b ++ enc32 c ++ enc32 d ++ rest) 12 = d % 4294967296 := by
  simp only [List.append_assoc]
  refine ⟨le32_enc32 a _, ?_, ?_, ?_⟩
  · have := le32_append_right (enc32 a) (enc32 b ++ (enc32 c ++ (enc32 d ++ rest))) 0
    rw [enc32_length] at this; rw [this]; exact le32_enc32 b _
  · have := le32_append_right (enc32 a ++ enc32 b) (enc32 c ++ (enc32 d ++ rest)) 0
    rw [show (enc32 a ++ enc32 b).length = 8 from rfl] at this
    rw [List.append_assoc] at this; rw [this]; exact le32_enc32 c _
  · have := le32_append_right (enc32 a ++ enc32 b ++ enc32 c) (enc32 d ++ rest) 0
    rw [show (enc32 a ++ enc32 b ++ enc32 c).length = 12 from rfl] at this
    simp only [List.append_assoc] at this; rw [this]; exact le32_enc32 d _

/-- C12, end to end on the model: handing ANY list of well-formed header-tag images (plus the end tag) to the final
    `new_boxed` of the header builder yields - without panic, for either architecture - a structure whose length word is
    its exact byte length, which is a multiple of 8 long, allocated 8-aligned with exactly that size, whose four header
    words sum to 0 (mod 2^32), which LOADS successfully (`Multiboot2Header::load` model) and whose tag area is the images
    back to back followed by the end tag (so that, by `built_header_area_walk`, the walk is exactly the supplied tags
    followed by one end tag). -/
theorem build_wellformed (p : Profile) (arch : Nat) (harch : arch = 0 ∨ arch = 4) (imgs : List Bytes)
    (hwf : ∀ b ∈ imgs, C06.WFImg b) (hlen : imgs.flatten.length + 24 < 2^32) :
    let total := 16 + imgs.flatten.length + 8
    let ck := calcChecksum HMAGIC arch total
    let bytes := enc32 HMAGIC ++ enc32 arch ++ enc32 total ++ enc32 ck ++ (imgs.flatten ++ endHImg)
    newBoxed p .hb (genericDesc .hb) (enc32 HMAGIC ++ enc32 arch ++ enc32 0 ++ enc32 (calcChecksum HMAGIC arch 0))
        (imgs ++ [endHImg]) = .ok ⟨bytes, total, 8, total⟩ ∧
    bytes.length = total ∧ total % 8 = 0 ∧
    (HMAGIC + arch + total + ck) % 4294967296 = 0 ∧
    hload p false bytes = .ok (.ok ⟨HMAGIC, arch, total, ck⟩) ∧
    (bytes.take total).drop 16 = imgs.flatten ++ endHImg := by
  intro total ck bytes
  have hL : imgs.flatten.length + 24 < 4294967296 := hlen
  have hW := W64_eq
  have hM := HMAGIC_lt
  have ha : arch < 4294967296 := by omega
  have hm := C06.wf_len_mod imgs hwf
  have hend : endHImg.length = 8 := rfl
  have hflat : (imgs ++ [endHImg]).flatten = imgs.flatten ++ endHImg := by simp
  have hcl : (imgs.flatten ++ endHImg).length = imgs.flatten.length + 8 := by simp [hend]
  have htot : total = 16 + (imgs.flatten ++ endHImg).length := by simp only [total, hcl]; omega
  have htl : total < 4294967296 := by simp only [total]; omega
  have hbl : bytes.length = total := by
    simp only [bytes, List.length_append, enc32_length, hend, total]; omega
  have htm : total % 8 = 0 := by simp only [total]; omega
  have hr8 : roundUp8 total = total := roundUp8_of_mod total htm
  have law := C10.checksum_law HMAGIC arch total hM ha htl
  have hck : ck < 4294967296 := law.2
  obtain ⟨w0, w4, w8, w12⟩ := words4 HMAGIC arch total ck (imgs.flatten ++ endHImg)
  rw [Nat.mod_eq_of_lt hM] at w0
  rw [Nat.mod_eq_of_lt ha] at w4
  rw [Nat.mod_eq_of_lt htl] at w8
  rw [Nat.mod_eq_of_lt hck] at w12
  refine ⟨?_, hbl, htm, (by have := law.1; simp only [ck]; omega), ?_, ?_⟩
  · unfold newBoxed
    simp only [hflat]
    have hh : HK.hb.hsize = 16 := rfl
    rw [hh, ← htot, incAlign_eq p _ (by omega), hr8]
    simp only [Res.bind_ok]
    have hd : (genericDesc .hb).dstLen p total = .ok (total - 16) := by
      simp only [genericDesc, payloadLen, HK.hsize]
    rw [hd]
    simp only [Res.bind_ok]
    have hs : (genericDesc .hb).sizeOfVal (total - 16) = total := by
      simp only [genericDesc, TyDesc.sizeOfVal, HK.hsize, roundUp]
      have e : 16 + (total - 16) * 1 + 8 - 1 = total + 7 := by simp only [total]; omega
      rw [e]
      exact hr8
    rw [hs, if_neg (by simp)]
    obtain ⟨v0, v4, _, _⟩ := words4 HMAGIC arch 0 (calcChecksum HMAGIC arch 0) []
    rw [List.append_nil, Nat.mod_eq_of_lt hM] at v0
    rw [List.append_nil, Nat.mod_eq_of_lt ha] at v4
    have hset : setSize .hb (enc32 HMAGIC ++ enc32 arch ++ enc32 0 ++ enc32 (calcChecksum HMAGIC arch 0)) total =
        enc32 HMAGIC ++ enc32 arch ++ enc32 total ++ enc32 ck := by
      simp only [setSize]
      rw [v0, v4, Nat.mod_eq_of_lt htl]
      have : (enc32 HMAGIC ++ enc32 arch ++ enc32 0 ++ enc32 (calcChecksum HMAGIC arch 0)).take 8 = enc32 HMAGIC ++ enc32 arch := by
        simp only [List.append_assoc]
        rw [← List.append_assoc, List.take_append_of_le_length (by simp [enc32_length])]
        exact List.take_of_length_le (by simp [enc32_length])
      rw [this]
    rw [hset]
    rfl
  · rw [C10.hload_eq p bytes ⟨by omega, by rw [show le32 bytes 8 = total from w8]; omega⟩]
    have w0' : le32 bytes 0 = HMAGIC := w0
    have w4' : le32 bytes 4 = arch := w4
    have w8' : le32 bytes 8 = total := w8
    have w12' : le32 bytes 12 = ck := w12
    simp only [w0', w4', w8', w12']
    rw [if_neg (by simp only [total]; omega), if_neg (by omega), if_neg (by simp), if_neg (by omega), if_neg (by simp [ck])]
  · rw [List.take_of_length_le (by omega)]
    simp only [bytes, List.append_assoc]
    simp [enc32]

theorem hdrHdr_size (typ flags size : Nat) (rest : Bytes) : le32 (hdrHdr typ flags size ++ rest) 4 = size % 4294967296 := by
  unfold hdrHdr
  have := le32_append_right (enc16 typ ++ enc16 flags) (enc32 size ++ rest) 0
  rw [show (enc16 typ ++ enc16 flags).length = 4 from rfl] at this
  simp only [List.append_assoc] at this ⊢
  rw [this]; exact le32_enc32 size _

/-- every fixed-size header-tag image is well-formed for the builder -/
theorem sizedHImg_wf (typ flags : Nat) (payload : Bytes) (hs : 8 + payload.length < 4294967296) :
    C06.WFImg ((sizedHImg typ flags (8 + payload.length) payload).asBytes) := by
  have g := roundUp8_ge (8 + payload.length)
  have hlen : ((sizedHImg typ flags (8 + payload.length) payload).asBytes).length = roundUp8 (8 + payload.length) := by
    unfold Img.asBytes sizedHImg
    simp only [List.length_append, zeros, List.length_replicate, hdrHdr, enc32_length, enc16_length]
    omega
  have hd : le32 ((sizedHImg typ flags (8 + payload.length) payload).asBytes) 4 = 8 + payload.length := by
    unfold Img.asBytes sizedHImg
    simp only
    rw [List.append_assoc, hdrHdr_size, Nat.mod_eq_of_lt hs]
  unfold C06.WFImg
  rw [hlen, hd]
  exact ⟨by omega, by omega, rfl⟩

theorem sizedHImg_wf' (typ flags c : Nat) (payload : Bytes) (hc : c = 8 + payload.length) (hs : c < 4294967296) :
    C06.WFImg ((sizedHImg typ flags c payload).asBytes) := by
  subst hc; exact sizedHImg_wf typ flags payload hs

/-- the nine fixed-size header-tag constructors: name, the kind it must produce, blob bytes consumed -/
def sizedHCtors : List (String × HKind × Nat) :=
  [("h_address", .address, 18), ("h_entry", .entry, 6), ("h_console", .console, 6), ("h_fb", .fb, 14), ("h_modalign", .modalign, 2),
   ("h_efibs", .efibs, 2), ("h_efi32", .efi32, 6), ("h_efi64", .efi64, 6), ("h_reloc", .reloc, 18), ("h_end", .end_, 0)]

/-- For every fixed-size header-tag constructor and ALL argument values: type = the kind's (= the specification's) number,
    flags ∈ {0,1}, size = the kind's exact unpadded size, exactly that many bytes initialised, and `as_bytes()` is a
    well-formed builder image (8-multiple long, size field rounds up to its length). -/
theorem sized_hctor_exact : ∀ c ∈ sizedHCtors, ∀ (p : Profile) (blob : Bytes), c.2.2 ≤ blob.length →
    ∃ img, ctorImpl p c.1 blob = .ok img ∧ img.typ = c.2.1.typ ∧ img.size = c.2.1.desc.fixed ∧
      (img.flags = some 0 ∨ img.flags = some 1) ∧ img.bytes.length = img.size ∧ C06.WFImg img.asBytes := by
  intro c hc p blob hlen
  simp only [sizedHCtors, List.mem_cons, List.mem_nil_iff, or_false] at hc
  rcases hc with h | h | h | h | h | h | h | h | h | h <;> subst h <;> simp only at hlen
  all_goals
    refine ⟨_, rfl, rfl, rfl, ?_, ?_, ?_⟩
  all_goals first
    | (have := Nat.mod_lt (le16 blob 0) (show 0 < 2 by omega)
       simp only [sizedHImg, Option.some.injEq]; omega)
    | (left; rfl)
    | (refine sizedHImg_wf' _ _ _ _ ?_ (by decide)
       simp only [List.length_append, enc32_length, List.length_nil]
       repeat rw [slice_length _ _ _ (by omega)])
    | (simp only [sizedHImg, hdrHdr, List.length_append, enc32_length, enc16_length, List.length_nil]
       repeat rw [slice_length _ _ _ (by omega)]
       done)

theorem setSize_hdrHdr (typ flags total : Nat) : setSize .ht (hdrHdr typ flags 0) total = hdrHdr typ flags total := by
  unfold setSize hdrHdr HK.sizeOff
  simp [enc32, enc16]

theorem newBoxed_inforeq (p : Profile) (flags : Nat) (ids : Bytes) (h4 : ids.length % 4 = 0) (hlen : ids.length < 2^32) :
    newBoxed p .ht infoReqDesc (hdrHdr 1 flags 0) [ids] =
      .ok ⟨hdrHdr 1 flags (8 + ids.length) ++ ids, roundUp8 (8 + ids.length), 8, roundUp8 (8 + ids.length)⟩ := by
  have hL : ids.length < 4294967296 := hlen
  have hW := W64_eq
  unfold newBoxed
  have hf : [ids].flatten = ids := by simp
  simp only [hf, HK.hsize]
  rw [incAlign_eq p _ (by omega)]
  simp only [Res.bind_ok]
  have hd : infoReqDesc.dstLen p (8 + ids.length) = .ok (ids.length / 4) := by
    simp only [infoReqDesc]
    rw [usub_ok p _ _ _ (by omega)]
    simp only [Res.bind_ok]
    rw [if_neg (by omega)]
    congr 2; omega
  rw [hd]
  simp only [Res.bind_ok]
  have e : ids.length / 4 * 4 = ids.length := Nat.div_mul_cancel (Nat.dvd_of_mod_eq_zero h4)
  have hs : infoReqDesc.sizeOfVal (ids.length / 4) = roundUp8 (8 + ids.length) := by
    simp only [infoReqDesc, TyDesc.sizeOfVal, roundUp, roundUp8, e]
    have e2 : 8 + ids.length + 8 - 1 = 8 + ids.length + 7 := by omega
    rw [e2]
  rw [hs, if_neg (by simp), setSize_hdrHdr]
  rfl

/-- `InformationRequestHeaderTag::new` for ALL flag values and request lists: never panics; type 1, flags ∈ {0,1},
    size 8 + 4·n, the header followed by exactly the n request words, a well-formed builder image. -/
theorem inforeq_ctor (p : Profile) (blob : Bytes) (h2 : 2 ≤ blob.length) (hlen : blob.length + 8 < 2^32) :
    ∃ img, ctorImpl p "h_inforeq" blob = .ok img ∧ img.typ = 1 ∧ img.flags = some (le16 blob 0 % 2) ∧
      img.size = 8 + (blob.length - 2) / 4 * 4 ∧
      img.bytes = hdrHdr 1 (le16 blob 0 % 2) (8 + (blob.length - 2) / 4 * 4) ++ slice blob 2 ((blob.length - 2) / 4 * 4) ∧
      C06.WFImg img.asBytes := by
  have hL : blob.length + 8 < 4294967296 := hlen
  have hil : (slice blob 2 ((blob.length - 2) / 4 * 4)).length = (blob.length - 2) / 4 * 4 :=
    slice_length _ _ _ (by omega)
  have hnb := newBoxed_inforeq p (le16 blob 0 % 2) (slice blob 2 ((blob.length - 2) / 4 * 4))
    (by rw [hil]; omega) (by rw [hil]; omega)
  rw [hil] at hnb
  refine ⟨⟨1, some (le16 blob 0 % 2), 8 + (blob.length - 2) / 4 * 4,
    hdrHdr 1 (le16 blob 0 % 2) (8 + (blob.length - 2) / 4 * 4) ++ slice blob 2 ((blob.length - 2) / 4 * 4),
    roundUp8 (8 + (blob.length - 2) / 4 * 4)⟩, ?_, rfl, rfl, rfl, rfl, ?_⟩
  · show (do
      let b ← newBoxed p .ht infoReqDesc (hdrHdr 1 (le16 blob 0 % 2) 0) [slice blob 2 ((blob.length - 2) / 4 * 4)]
      pure (⟨1, some (le16 blob 0 % 2), 8 + (slice blob 2 ((blob.length - 2) / 4 * 4)).length, b.bytes, b.deallocSize⟩ : Img)) = _
    rw [hnb, hil]
    rfl
  · have hb : (blob.length - 2) / 4 * 4 ≤ blob.length - 2 := Nat.div_mul_le_self _ _
    generalize hn : (blob.length - 2) / 4 * 4 = n at *
    have g := roundUp8_ge (8 + n)
    unfold C06.WFImg Img.asBytes
    simp only
    have hm : (8 + n) % 4294967296 = 8 + n := Nat.mod_eq_of_lt (by omega)
    rw [List.append_assoc, hdrHdr_size, hm]
    simp only [List.length_append, hil, zeros, List.length_replicate, hdrHdr, enc32_length, enc16_length]
    omega

/-- an operation the header builder accepts: one of its ten slots with its argument bytes present -/
def HOpOk (op : String × Bytes) : Prop :=
  (∃ c ∈ sizedHCtors, c.1 = op.1 ∧ c.2.2 ≤ op.2.length) ∨ (op.1 = "h_inforeq" ∧ 2 ≤ op.2.length ∧ op.2.length + 8 < 2^32)

theorem opImg_wf (p : Profile) (op : String × Bytes) (h : HOpOk op) :
    ∃ img, opImg p op.1 op.2 = .ok img ∧ C06.WFImg img.asBytes := by
  rcases h with ⟨c, hc, hn, hl⟩ | ⟨hn, h2, hl⟩
  · obtain ⟨img, hi, _, _, _, _, hw⟩ := sized_hctor_exact c hc p op.2 hl
    refine ⟨img, ?_, hw⟩
    unfold opImg
    rw [← hn]
    simp only [sizedHCtors, List.mem_cons, List.mem_nil_iff, or_false] at hc
    rcases hc with h | h | h | h | h | h | h | h | h | h <;> subst h <;> rw [if_neg (by decide)] <;> exact hi
  · obtain ⟨img, hi, _, _, _, _, hw⟩ := inforeq_ctor p op.2 h2 hl
    refine ⟨img, ?_, hw⟩
    unfold opImg
    rw [hn, if_neg (by decide)]
    exact hi

/-- the header builder never panics on accepted operations, and every stored image stays well-formed -/
theorem runOps_wf (p : Profile) (slots : List (String × Bool)) (ops : List (String × Bytes)) (hops : ∀ op ∈ ops, HOpOk op) :
    ∀ st, C06.StWF st → ∃ st', runOps p slots st ops = .ok st' ∧ C06.StWF st' :=
  C06.runOps_wf_of p slots HOpOk (fun op h => opImg_wf p op h) ops hops

/-- C12 END TO END (model): for EVERY sequence of accepted builder operations (any of the ten slots, any argument values,
    any order, any repetitions) and either architecture, `Builder::build` stores per slot the image of the last call, every
    stored image is well-formed, and - unless the result would exceed the 32-bit length field - the built structure
    (a) is produced without panic with allocation size = length = deallocation size, 8-aligned;
    (b) has a length word equal to its byte count, a multiple of 8, and four header words summing to 0 mod 2^32;
    (c) loads successfully; and
    (d) its tag walk yields exactly the stored tags, in slot order, followed by exactly one end tag. -/
theorem buildHdr_wellformed (p : Profile) (arch : Nat) (harch : arch = 0 ∨ arch = 4) (ops : List (String × Bytes))
    (hops : ∀ op ∈ ops, HOpOk op) :
    ∃ st, runOps p hdrSlots [] ops = .ok st ∧
      let imgs := (hdrSlots.flatMap fun s => st.get s.1).map Img.asBytes
      (∀ b ∈ imgs, C06.WFImg b) ∧
      (imgs.flatten.length + 24 < 2^32 →
        let total := 16 + imgs.flatten.length + 8
        let ck := calcChecksum HMAGIC arch total
        let bytes := enc32 HMAGIC ++ enc32 arch ++ enc32 total ++ enc32 ck ++ (imgs.flatten ++ endHImg)
        buildHdr p arch ops = .ok ⟨bytes, total, 8, total⟩ ∧
        bytes.length = total ∧ total % 8 = 0 ∧ (HMAGIC + arch + total + ck) % 4294967296 = 0 ∧
        hload p false bytes = .ok (.ok ⟨HMAGIC, arch, total, ck⟩) ∧
        Spec.tagsOf .ht ((bytes.take total).drop 16) =
          (C06.itemsOf .ht imgs 0 ++ [⟨imgs.flatten.length, 0, 8, 0⟩], .done)) := by
  obtain ⟨st, hrun, hst⟩ := runOps_wf p hdrSlots ops hops [] C06.stwf_empty
  refine ⟨st, hrun, ?_⟩
  intro imgs
  have hwf : ∀ b ∈ imgs, C06.WFImg b := by
    intro b hb
    simp only [imgs, List.mem_map, List.mem_flatMap] at hb
    obtain ⟨img, ⟨s, _, hi⟩, rfl⟩ := hb
    exact hst s.1 img hi
  refine ⟨hwf, ?_⟩
  intro hlen total ck bytes
  obtain ⟨h1, h2, h3, h4, h5, h6⟩ := build_wellformed p arch harch imgs hwf hlen
  refine ⟨?_, h2, h3, h4, h5, ?_⟩
  · unfold buildHdr
    rw [hrun]
    exact h1
  · rw [h6]
    exact built_header_area_walk imgs hwf

/-! Non-vacuity: a concrete accepted operation sequence -/
example : HOpOk ("h_entry", [1,0, 0x78,0x56,0x34,0x12]) := Or.inl ⟨("h_entry", .entry, 6), by simp [sizedHCtors], rfl, by simp⟩
example : (buildHdr .dev 0 [("h_entry", [1,0, 0x78,0x56,0x34,0x12])]).isOk = true := by decide

end Mb2.C12
