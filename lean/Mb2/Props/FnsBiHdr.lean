/-
  Mb2.Props.FnsBiHdr — SOURCE = MODEL (part of the function-body tie, see `Mb2/Props/FnsBase.lean` and `Mb2/Rir.lean`).
  Theorems about terms GENERATED from /repo's working tree by tools/gen_fns.py (`Mb2/Gen/Fns.lean`).
-/

import Mb2.Props.FnsBase
open Mb2 Mb2.Rir

namespace Mb2.Fns

theorem bi_header_payload_len_eq (p : Profile) (d : Nat) (hd : d < W32) :
    evalO p [.int .u32 d] Gen.Fns.bi_header_payload_len = some (intRes .usize (payloadLen p .bi d)) := by
  simp [evalO, Gen.Fns.bi_header_payload_len, eval, prim2, intPrim, payloadLen, castV, mod_W64_of_lt_W32 hd]

theorem bi_header_total_size_eq (p : Profile) (d : Nat) (hd : d < W32) :
    evalO p [.int .u32 d] Gen.Fns.bi_header_total_size = some (intRes .usize (totalSize p .bi d)) := by
  simp [evalO, Gen.Fns.bi_header_total_size, eval, totalSize, castV, mod_W64_of_lt_W32 hd]

end Mb2.Fns
