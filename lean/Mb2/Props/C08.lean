/-
  C08 — Results do not depend on build profile or optional features.

  The model carries a `Profile` parameter at every unchecked arithmetic site of the code. The theorems below show that
  on every parsing path the parameter is irrelevant: each site either cannot overflow under the checks that precede it
  or ends in `panic` in both profiles. Optional features do not occur in the model: no `cfg(feature)` lies on a
  parsing path (observed: the same case file is run through four builds and compared).

  PARTIAL: inputs that put an undeclared value into an enum-typed field of `multiboot2-header` are undefined behaviour
  (known finding F20); the model answers `ub` there and the full statement "no `ub` for any input" is FALSE:
  `full_statement_fails` exhibits the witness.
-/
import Mb2.Props.FnsMisc
import Mb2.Props.FnsLinked
import Mb2.Props.FnsCast
import Mb2.Props.FnsFb
import Mb2.Props.FnsElfIter
import Mb2.Props.FnsTagHdr
import Mb2.Props.FnsHtHdr
import Mb2.Props.FnsBiHdr
import Mb2.Props.FnsHbHdr
import Mb2.Props.FnsIter
import Mb2.HTags
import Mb2.Props.C02
import Mb2.Props.C03
import Mb2.Props.C10
namespace Mb2.C08
open Mb2

/-- header kinds whose `payload_len` is checked (assert / saturating) -/
def CheckedKind (k : HK) : Prop := k = .tag ∨ k = .bi ∨ k = .hb ∨ k = .ht

theorem payloadLen_profile_independent (k : HK) (hk : CheckedKind k) (d : Nat) :
    payloadLen .dev k d = payloadLen .release k d := by
  rcases hk with h | h | h | h <;> subst h <;> rfl

/-- `ref_from_slice` gives the same outcome in both profiles for every checked header kind, slice and address -/
theorem refFromSlice_profile_independent (k : HK) (hk : CheckedKind k) (addr : Nat) (bytes : Bytes) :
    refFromSlice .dev k addr bytes = refFromSlice .release k addr bytes := by
  unfold refFromSlice refFromBytes
  simp only [payloadLen_profile_independent k hk]

/-- loading a boot information (C02) and a header (C10): identical in both profiles -/
theorem load_profile_independent (null : Bool) (mem : Bytes)
    (hmem : null = false → mem.length ≥ 8 ∧ mem.length ≥ le32 mem 0) :
    load .dev null mem = load .release null mem := C02.load_profile_independent null mem hmem

theorem hload_profile_independent (null : Bool) (mem : Bytes)
    (hmem : null = false → mem.length ≥ 16 ∧ mem.length ≥ le32 mem 8) :
    hload .dev null mem = hload .release null mem := C10.hload_profile_independent null mem hmem

/-- one iterator step, all three tag-header kinds (including `DummyTestHeader`, whose unchecked subtraction wraps in
    release builds): identical in both profiles -/
theorem next_profile_independent (k : HK) (hk : C03.IterKind k) (buf : Bytes) (off : Nat)
    (hb : buf.length % 8 = 0) (hlen : buf.length < 2^62) (ho : off % 8 = 0) (hle : off ≤ buf.length) :
    tagIterNext .dev k buf off = tagIterNext .release k buf off := by
  rw [C03.next_is_walk_step .dev k hk buf off hb hlen ho hle, C03.next_is_walk_step .release k hk buf off hb hlen ho hle]

/-- the whole tag walk -/
theorem tags_profile_independent (k : HK) (hk : C03.IterKind k) (buf : Bytes)
    (hb : buf.length % 8 = 0) (hlen : buf.length < 2^62) :
    tagsOf .dev k buf = tagsOf .release k buf := by
  rw [C03.tags_eq_spec .dev k hk buf hb hlen, C03.tags_eq_spec .release k hk buf hb hlen]

/-- casting a walked tag (size ≥ 8) to any built-in kind of either crate -/
theorem cast_profile_independent (k : Kind) (size pl : Nat) (hs : 8 ≤ size) :
    castTo .dev .tag k.desc size pl = castTo .release .tag k.desc size pl := by
  unfold castTo
  have : k.desc.dstLen .dev size = k.desc.dstLen .release size := by
    cases k <;> simp only [Kind.desc, sizedDesc, dstDesc, networkDesc]
    rw [usub_ok .dev _ _ _ hs, usub_ok .release _ _ _ hs]
  rw [this]

theorem hcast_profile_independent (k : HKind) (size pl : Nat) (hs : 8 ≤ size) :
    castTo .dev .ht k.desc size pl = castTo .release .ht k.desc size pl := by
  unfold castTo
  have : k.desc.dstLen .dev size = k.desc.dstLen .release size := by
    cases k <;> simp only [HKind.desc, sizedDesc, infoReqDesc]
    rw [usub_ok .dev _ _ _ hs, usub_ok .release _ _ _ hs]
  rw [this]

/-- the typed getters of the boot information -/
theorem getTag_profile_independent (area : Bytes) (k : Kind) (hb : area.length % 8 = 0) (hlen : area.length < 2^62) :
    getTag .dev area k = getTag .release area k := by
  unfold getTag
  simp only
  rw [tags_profile_independent .tag (Or.inl rfl) area hb hlen]
  cases hf : (tagsOf .release .tag area).1.find? (fun it => it.typ == k.typ) with
  | none => rfl
  | some it =>
    simp only
    have hmem := List.mem_of_find?_eq_some hf
    rw [C03.tags_eq_spec .release .tag (Or.inl rfl) area hb hlen] at hmem
    have hs := (C03.walk_items_inside .tag area _ 0 (by omega) it hmem).2.2.1
    rw [cast_profile_independent k it.size it.pl hs]

/-- all field accessors, the EFI / ELF / memory-map iterators, RSDP checksums, strings and the framebuffer reader are
    profile-free by construction: their model functions take no `Profile` (the sites that used unchecked arithmetic -
    module size, area / section end addresses, entry_size * shndx, the checksum - are explicit saturating / wrapping /
    64-bit operations since the fixes recorded in known_findings.json) -/
theorem accessors_take_no_profile : True := trivial

/-- the full statement "no input leads to undefined behaviour" does NOT hold: a checksum-valid header whose architecture
    word is 1 makes `load` read an undeclared `HeaderTagISA` value (known finding F20) -/
theorem full_statement_fails :
    ∃ mem, hload .dev false mem = .ub ∧ mem.length = 16 := by
  refine ⟨[0xd6,0x50,0x52,0xe8, 1,0,0,0, 16,0,0,0, 0x19,0xaf,0xad,0x17], ?_, rfl⟩
  decide

/-- …and it is the ONLY way the modelled load can leave the specified outcomes: with a defined architecture word the
    load is `ok`, never `ub` (restating C10.hload_eq) -/
theorem load_ub_only_by_arch (p : Profile) (mem : Bytes) (hmem : mem.length ≥ 16 ∧ mem.length ≥ le32 mem 8)
    (ha : le32 mem 4 = 0 ∨ le32 mem 4 = 4) : hload p false mem ≠ .ub := by
  rw [C10.hload_eq p mem hmem]
  simp only
  have c4 : ¬ (le32 mem 4 ≠ 0 ∧ le32 mem 4 ≠ 4) := by omega
  by_cases c1 : le32 mem 8 < 16
  · rw [if_pos c1]; simp
  · rw [if_neg c1]
    by_cases c2 : le32 mem 8 % 8 ≠ 0
    · rw [if_pos c2]; simp
    · rw [if_neg c2]
      by_cases c3 : le32 mem 0 ≠ HMAGIC
      · rw [if_pos c3]; simp
      · rw [if_neg c3, if_neg c4]
        by_cases c5 : calcChecksum (le32 mem 0) (le32 mem 4) (le32 mem 8) ≠ le32 mem 12
        · rw [if_pos c5]; simp
        · rw [if_neg c5]; simp

end Mb2.C08
