/-
  Mb2.Props.FnsCtor — SOURCE = MODEL for the constructors of the fixed-size tags of both crates.

  The translated body of `new()` / `default()` (a struct literal, reordered into the struct's declaration order by the
  translator) evaluates to  ((type, size), field values in struct order).  The theorems state: the type is the kind's number
  (through `Tag::ID`, resolved by the translator) resp. the kind's `HeaderTagType` variant, the size is the model's UNPADDED
  fixed size (`(Kind.desc k).fixed`, the value `sized_ctor_exact` / `sized_hctor_exact` are about), and the i-th field in
  struct order is the i-th argument - for all argument values. A swapped pair of same-width arguments, a padded size
  constant or a wrong ID breaks the obligation of that constructor.
-/
import Mb2.Props.FnsBase
open Mb2 Mb2.Rir
set_option linter.unusedSimpArgs false

namespace Mb2.Fns

/-- right-nested pairs -/
def tuple : List V → V
  | [] => .unit
  | [a] => a
  | a :: rest => .pair a (tuple rest)

def mbiHdrV (typ size : Nat) : V := .pair (.lit typ) (.int .u32 size)
def hHdrV (typ : String) (flags : V) (size : Nat) : V := .pair (.c0 typ) (.pair flags (.int .u32 size))

theorem w32_small (n : Nat) (h : n < 1000) : n % W32 = n := Nat.mod_eq_of_lt (by simp only [W32]; omega)

theorem ctor_apm_eq (p : Profile) (a0 a1 a2 a3 a4 a5 a6 a7 a8 : V) :
    evalO p [a0, a1, a2, a3, a4, a5, a6, a7, a8] Gen.Fns.ctor_apm = some (.ok (.pair (mbiHdrV (Kind.typ .apm) (Kind.desc .apm).fixed) (tuple [a0, a1, a2, a3, a4, a5, a6, a7, a8]))) := by
  simp [evalO, Gen.Fns.ctor_apm, eval, castV, prim1, set_other, tuple, mbiHdrV, Kind.typ, Kind.desc, sizedDesc, w32_small]

theorem ctor_meminfo_eq (p : Profile) (a0 a1 : V) :
    evalO p [a0, a1] Gen.Fns.ctor_meminfo = some (.ok (.pair (mbiHdrV (Kind.typ .meminfo) (Kind.desc .meminfo).fixed) (tuple [a0, a1]))) := by
  simp [evalO, Gen.Fns.ctor_meminfo, eval, castV, prim1, set_other, tuple, mbiHdrV, Kind.typ, Kind.desc, sizedDesc, w32_small]

theorem ctor_bootdev_eq (p : Profile) (a0 a1 a2 : V) :
    evalO p [a0, a1, a2] Gen.Fns.ctor_bootdev = some (.ok (.pair (mbiHdrV (Kind.typ .bootdev) (Kind.desc .bootdev).fixed) (tuple [a0, a1, a2]))) := by
  simp [evalO, Gen.Fns.ctor_bootdev, eval, castV, prim1, set_other, tuple, mbiHdrV, Kind.typ, Kind.desc, sizedDesc, w32_small]

theorem ctor_efi32_eq (p : Profile) (a0 : V) :
    evalO p [a0] Gen.Fns.ctor_efi32 = some (.ok (.pair (mbiHdrV (Kind.typ .efiSdt32) (Kind.desc .efiSdt32).fixed) (tuple [a0]))) := by
  simp [evalO, Gen.Fns.ctor_efi32, eval, castV, prim1, set_other, tuple, mbiHdrV, Kind.typ, Kind.desc, sizedDesc, w32_small]

theorem ctor_efi64_eq (p : Profile) (a0 : V) :
    evalO p [a0] Gen.Fns.ctor_efi64 = some (.ok (.pair (mbiHdrV (Kind.typ .efiSdt64) (Kind.desc .efiSdt64).fixed) (tuple [a0]))) := by
  simp [evalO, Gen.Fns.ctor_efi64, eval, castV, prim1, set_other, tuple, mbiHdrV, Kind.typ, Kind.desc, sizedDesc, w32_small]

theorem ctor_ih32_eq (p : Profile) (a0 : V) :
    evalO p [a0] Gen.Fns.ctor_ih32 = some (.ok (.pair (mbiHdrV (Kind.typ .efiIh32) (Kind.desc .efiIh32).fixed) (tuple [a0]))) := by
  simp [evalO, Gen.Fns.ctor_ih32, eval, castV, prim1, set_other, tuple, mbiHdrV, Kind.typ, Kind.desc, sizedDesc, w32_small]

theorem ctor_ih64_eq (p : Profile) (a0 : V) :
    evalO p [a0] Gen.Fns.ctor_ih64 = some (.ok (.pair (mbiHdrV (Kind.typ .efiIh64) (Kind.desc .efiIh64).fixed) (tuple [a0]))) := by
  simp [evalO, Gen.Fns.ctor_ih64, eval, castV, prim1, set_other, tuple, mbiHdrV, Kind.typ, Kind.desc, sizedDesc, w32_small]

theorem ctor_efibs_eq (p : Profile) :
    evalO p [] Gen.Fns.ctor_efibs = some (.ok (mbiHdrV (Kind.typ .efiBs) (Kind.desc .efiBs).fixed)) := by
  simp [evalO, Gen.Fns.ctor_efibs, eval, castV, prim1, set_other, tuple, mbiHdrV, Kind.typ, Kind.desc, sizedDesc, w32_small]

theorem ctor_loadbase_eq (p : Profile) (a0 : V) :
    evalO p [a0] Gen.Fns.ctor_loadbase = some (.ok (.pair (mbiHdrV (Kind.typ .loadBase) (Kind.desc .loadBase).fixed) (tuple [a0]))) := by
  simp [evalO, Gen.Fns.ctor_loadbase, eval, castV, prim1, set_other, tuple, mbiHdrV, Kind.typ, Kind.desc, sizedDesc, w32_small]

theorem ctor_end_eq (p : Profile) :
    evalO p [] Gen.Fns.ctor_end = some (.ok (mbiHdrV (Kind.typ .end_) (Kind.desc .end_).fixed)) := by
  simp [evalO, Gen.Fns.ctor_end, eval, castV, prim1, set_other, tuple, mbiHdrV, Kind.typ, Kind.desc, sizedDesc, w32_small]

theorem ctor_rsdp1_eq (p : Profile) (a0 a1 a2 a3 a4 : V) :
    evalO p [a0, a1, a2, a3, a4] Gen.Fns.ctor_rsdp1 = some (.ok (.pair (mbiHdrV (Kind.typ .rsdp1) (Kind.desc .rsdp1).fixed) (tuple [a0, a1, a2, a3, a4]))) := by
  simp [evalO, Gen.Fns.ctor_rsdp1, eval, castV, prim1, set_other, tuple, mbiHdrV, Kind.typ, Kind.desc, sizedDesc, w32_small]

theorem ctor_rsdp2_eq (p : Profile) (a0 a1 a2 a3 a4 a5 a6 a7 a8 : V) :
    evalO p [a0, a1, a2, a3, a4, a5, a6, a7, a8] Gen.Fns.ctor_rsdp2 = some (.ok (.pair (mbiHdrV (Kind.typ .rsdp2) (Kind.desc .rsdp2).fixed) (tuple [a0, a1, a2, a3, a4, a5, a6, a7, a8]))) := by
  simp [evalO, Gen.Fns.ctor_rsdp2, eval, castV, prim1, set_other, tuple, mbiHdrV, Kind.typ, Kind.desc, sizedDesc, w32_small]

theorem ctor_vbe_eq (p : Profile) (a0 a1 a2 a3 a4 a5 : V) :
    evalO p [a0, a1, a2, a3, a4, a5] Gen.Fns.ctor_vbe = some (.ok (.pair (mbiHdrV (Kind.typ .vbe) (Kind.desc .vbe).fixed) (tuple [a0, a1, a2, a3, a4, a5]))) := by
  simp [evalO, Gen.Fns.ctor_vbe, eval, castV, prim1, set_other, tuple, mbiHdrV, Kind.typ, Kind.desc, sizedDesc, w32_small]

theorem ctor_h_address_eq (p : Profile) (a0 a1 a2 a3 a4 : V) :
    evalO p [a0, a1, a2, a3, a4] Gen.Fns.ctor_h_address = some (.ok (.pair (hHdrV "HeaderTagType::Address" a0 (HKind.desc .address).fixed) (tuple [a1, a2, a3, a4]))) := by
  simp [evalO, Gen.Fns.ctor_h_address, eval, castV, prim1, set_other, tuple, hHdrV, HKind.desc, sizedDesc, w32_small]

theorem ctor_h_console_eq (p : Profile) (a0 a1 : V) :
    evalO p [a0, a1] Gen.Fns.ctor_h_console = some (.ok (.pair (hHdrV "HeaderTagType::ConsoleFlags" a0 (HKind.desc .console).fixed) (tuple [a1]))) := by
  simp [evalO, Gen.Fns.ctor_h_console, eval, castV, prim1, set_other, tuple, hHdrV, HKind.desc, sizedDesc, w32_small]

theorem ctor_h_end_eq (p : Profile) :
    evalO p [] Gen.Fns.ctor_h_end = some (.ok (hHdrV "HeaderTagType::End" (.c0 "HeaderTagFlag::Required") (HKind.desc .end_).fixed)) := by
  simp [evalO, Gen.Fns.ctor_h_end, eval, castV, prim1, set_other, tuple, hHdrV, HKind.desc, sizedDesc, w32_small]

theorem ctor_h_entry_eq (p : Profile) (a0 a1 : V) :
    evalO p [a0, a1] Gen.Fns.ctor_h_entry = some (.ok (.pair (hHdrV "HeaderTagType::EntryAddress" a0 (HKind.desc .entry).fixed) (tuple [a1]))) := by
  simp [evalO, Gen.Fns.ctor_h_entry, eval, castV, prim1, set_other, tuple, hHdrV, HKind.desc, sizedDesc, w32_small]

theorem ctor_h_efi32_eq (p : Profile) (a0 a1 : V) :
    evalO p [a0, a1] Gen.Fns.ctor_h_efi32 = some (.ok (.pair (hHdrV "HeaderTagType::EntryAddressEFI32" a0 (HKind.desc .efi32).fixed) (tuple [a1]))) := by
  simp [evalO, Gen.Fns.ctor_h_efi32, eval, castV, prim1, set_other, tuple, hHdrV, HKind.desc, sizedDesc, w32_small]

theorem ctor_h_efi64_eq (p : Profile) (a0 a1 : V) :
    evalO p [a0, a1] Gen.Fns.ctor_h_efi64 = some (.ok (.pair (hHdrV "HeaderTagType::EntryAddressEFI64" a0 (HKind.desc .efi64).fixed) (tuple [a1]))) := by
  simp [evalO, Gen.Fns.ctor_h_efi64, eval, castV, prim1, set_other, tuple, hHdrV, HKind.desc, sizedDesc, w32_small]

theorem ctor_h_fb_eq (p : Profile) (a0 a1 a2 a3 : V) :
    evalO p [a0, a1, a2, a3] Gen.Fns.ctor_h_fb = some (.ok (.pair (hHdrV "HeaderTagType::Framebuffer" a0 (HKind.desc .fb).fixed) (tuple [a1, a2, a3]))) := by
  simp [evalO, Gen.Fns.ctor_h_fb, eval, castV, prim1, set_other, tuple, hHdrV, HKind.desc, sizedDesc, w32_small]

theorem ctor_h_modalign_eq (p : Profile) (a0 : V) :
    evalO p [a0] Gen.Fns.ctor_h_modalign = some (.ok (hHdrV "HeaderTagType::ModuleAlign" a0 (HKind.desc .modalign).fixed)) := by
  simp [evalO, Gen.Fns.ctor_h_modalign, eval, castV, prim1, set_other, tuple, hHdrV, HKind.desc, sizedDesc, w32_small]

theorem ctor_h_efibs_eq (p : Profile) (a0 : V) :
    evalO p [a0] Gen.Fns.ctor_h_efibs = some (.ok (hHdrV "HeaderTagType::EfiBS" a0 (HKind.desc .efibs).fixed)) := by
  simp [evalO, Gen.Fns.ctor_h_efibs, eval, castV, prim1, set_other, tuple, hHdrV, HKind.desc, sizedDesc, w32_small]

theorem ctor_h_reloc_eq (p : Profile) (a0 a1 a2 a3 a4 : V) :
    evalO p [a0, a1, a2, a3, a4] Gen.Fns.ctor_h_reloc = some (.ok (.pair (hHdrV "HeaderTagType::Relocatable" a0 (HKind.desc .reloc).fixed) (tuple [a1, a2, a3, a4]))) := by
  simp [evalO, Gen.Fns.ctor_h_reloc, eval, castV, prim1, set_other, tuple, hHdrV, HKind.desc, sizedDesc, w32_small]

end Mb2.Fns
