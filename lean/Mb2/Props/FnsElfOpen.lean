/-
  Mb2.Props.FnsElfOpen — SOURCE = MODEL (part of the function-body tie, see `Mb2/Props/FnsBase.lean` and `Mb2/Rir.lean`).
  Theorems about terms GENERATED from /repo's working tree by tools/gen_fns.py (`Mb2/Gen/Fns.lean`).
-/

import Mb2.Props.FnsBase
open Mb2 Mb2.Rir

namespace Mb2.Fns

/-- `ElfSectionsTag::sections` opens the iterator exactly when `elfOpen` does: `num * es <= len` and, if there are
    sections, `(shndx + 1) * es <= len` - computed in u64, which cannot overflow for u32 operands -/
theorem elf_sections_open_eq (p : Profile) (len es num shndx : Nat) (hl : len < W64) (he : es < W32) (hn : num < W32)
    (hx : shndx < W32) :
    (evalO p [.int .usize len, .int .u32 es, .int .u32 num, .int .u32 shndx] Gen.Fns.elf_sections_open).map
        (fun r => r >>= fun _ => .ok V.unit) =
      some (if num * es > len then .panic else if num ≠ 0 ∧ (shndx + 1) * es > len then .panic else .ok .unit) := by
  have e1 : es % W64 = es := mod_W64_of_lt_W32 he
  have e2 : num % W64 = num := mod_W64_of_lt_W32 hn
  have e3 : shndx % W64 = shndx := mod_W64_of_lt_W32 hx
  have e0 : len % W64 = len := Nat.mod_eq_of_lt hl
  have m1 : umul p W64 num es = .ok (num * es) := by
    unfold umul; rw [if_pos]
    have : num * es < W32 * W32 := Nat.mul_lt_mul'' hn he
    simp only [W32, W64] at *; omega
  have a1 : uadd p W64 shndx 1 = .ok (shndx + 1) := by
    unfold uadd; rw [if_pos]; simp only [W32, W64] at *; omega
  have m2 : umul p W64 (shndx + 1) es = .ok ((shndx + 1) * es) := by
    unfold umul; rw [if_pos]
    have : (shndx + 1) * es < W32 * W32 := Nat.mul_lt_mul'' (by omega) he |> fun h => by
      have : (shndx + 1) * es ≤ W32 * es := Nat.mul_le_mul_right _ (by omega)
      have : W32 * es < W32 * W32 := Nat.mul_lt_mul_of_pos_left he (by decide)
      omega
    simp only [W32, W64] at *; omega
  have m3 : umul p W64 shndx es = .ok (shndx * es) := by
    unfold umul; rw [if_pos]
    have : shndx * es < W32 * W32 := Nat.mul_lt_mul'' hx he
    simp only [W32, W64] at *; omega
  simp only [evalO, Gen.Fns.elf_sections_open, Option.map]
  by_cases h1 : num * es ≤ len
  · have h1' : ¬ num * es > len := by omega
    by_cases h2 : num = 0
    · subst h2
      have m0 : umul p W64 0 es = .ok 0 := by simp [umul, W64]
      simp [eval, binop, arith, castV, e0, e1, m0, set_other, (by decide : 0 % W64 = 0)]
    · by_cases h3 : (shndx + 1) * es ≤ len
      · have h3' : ¬ (shndx + 1) * es > len := by omega
        simp [eval, binop, arith, castV, e0, e1, e2, e3, m1, a1, m2, m3, set_other, h1, h1', h2, h3, h3']
      · have h3' : (shndx + 1) * es > len := by omega
        simp [eval, binop, arith, castV, e0, e1, e2, e3, m1, a1, m2, m3, set_other, h1, h1', h2, h3, h3']
  · have h1' : num * es > len := by omega
    simp [eval, binop, arith, castV, e0, e1, e2, e3, m1, a1, m2, m3, set_other, h1, h1']

end Mb2.Fns
