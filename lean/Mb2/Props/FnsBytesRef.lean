/-
  Mb2.Props.FnsBytesRef — SOURCE = MODEL (part of the function-body tie, see `Mb2/Props/FnsBase.lean` and `Mb2/Rir.lean`).
  Theorems about terms GENERATED from /repo's working tree by tools/gen_fns.py (`Mb2/Gen/Fns.lean`).
-/

import Mb2.Props.FnsBase
open Mb2 Mb2.Rir

namespace Mb2.Fns

/-- `BytesRef::try_from` (bytes_ref.rs) = `bytesRefTryFrom`: the three checks, in the code's order. `ao` is the value of
    `align_offset(ALIGNMENT)`, which is zero exactly for 8-aligned addresses. -/
theorem bytes_ref_try_from_eq (p : Profile) (k : HK) (addr len ao : Nat) (bytes : V) (hao : ao = 0 ↔ addr % 8 = 0) :
    evalO p [.int .usize len, .int .usize k.hsize, .int .usize ao, bytes] Gen.Fns.bytes_ref_try_from =
      some (.ok (match bytesRefTryFrom k addr len with
                 | .error e => .c1 "Err" (encMemErr e)
                 | .ok () => .c1 "Ok" bytes)) := by
  unfold bytesRefTryFrom
  simp [evalO, Gen.Fns.bytes_ref_try_from, eval, binop, arith, hao]
  by_cases h1 : len < k.hsize
  · simp [h1, encMemErr]
  · by_cases h2 : addr % 8 = 0
    · by_cases h3 : len % 8 = 0 <;> simp [h1, h2, h3, encMemErr, set_other]
    · simp [h1, h2, encMemErr]

/-- the size guard of `DynSizedStructure::ref_from_bytes` (lib.rs): `payload_len() > bytes.len() - size_of::<H>()`;
    `hs ≤ len` holds because `BytesRef::try_from` has accepted the slice -/
theorem ref_from_bytes_eq (p : Profile) (pl len hs : Nat) (r : V) (h : hs ≤ len) :
    evalO p [.int .usize pl, .int .usize len, .int .usize hs, r] Gen.Fns.ref_from_bytes =
      some (.ok (if pl > len - hs then .c1 "Err" (encMemErr .invalidReportedTotalSize) else .c1 "Ok" r)) := by
  have hu : usub p W64 len hs = .ok (len - hs) := by simp [usub, h]
  simp [evalO, Gen.Fns.ref_from_bytes, eval, binop, arith, hu, encMemErr]
  split <;> rfl

/-- default `Header::total_size` (lib.rs) = `size_of::<Self>() + payload_len()` -/
theorem header_total_size_default_eq (p : Profile) (hs pl : Nat) :
    evalO p [.int .usize hs, .int .usize pl] Gen.Fns.header_total_size_default = some (intRes .usize (uadd p W64 hs pl)) := by
  simp [evalO, Gen.Fns.header_total_size_default, eval, binop, arith, intRes, mkInt]

/-- `ref_from_ptr`: nothing but `ref_from_slice` on the slice it forms - no additional acceptance or rejection ... -/
theorem ref_from_ptr_eq (p : Profile) (r : V) :
    evalO p [r] Gen.Fns.ref_from_ptr = some (.ok r) := by
  simp [evalO, Gen.Fns.ref_from_ptr, eval]

/-- ... and that slice starts at the pointer and spans exactly `hdr.total_size()` bytes (pinned on the source text) -/
theorem ref_from_ptr_slice_is_total_size :
    Gen.Fns.ref_from_ptr = none ∨
      ("slice", "slice::from_raw_parts(ptr.as_ptr().cast_const().cast::<u8>(),ptr.as_ptr().cast_const().total_size())")
        ∈ Gen.Fns.ref_from_ptr_aliases := by
  decide

/-- `ref_from_slice`: the error of `BytesRef::try_from` wins, otherwise the result of `ref_from_bytes` (`refFromSlice`) -/
theorem ref_from_slice_eq (p : Profile) (b r : V) (e : MemErr) :
    evalO p [.c1 "Ok" b, r] Gen.Fns.ref_from_slice = some (.ok r) ∧
    evalO p [.c1 "Err" (encMemErr e), r] Gen.Fns.ref_from_slice = some (.ok (.c1 "Err" (encMemErr e))) := by
  constructor <;> simp [evalO, Gen.Fns.ref_from_slice, eval, tryV, set_other]

end Mb2.Fns
