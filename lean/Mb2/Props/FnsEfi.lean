/-
  Mb2.Props.FnsEfi — SOURCE = MODEL (part of the function-body tie, see `Mb2/Props/FnsBase.lean` and `Mb2/Rir.lean`).
  Theorems about terms GENERATED from /repo's working tree by tools/gen_fns.py (`Mb2/Gen/Fns.lean`).
-/

import Mb2.Props.FnsBase
open Mb2 Mb2.Rir

namespace Mb2.Fns

/-- `EFIMemoryMapTag::memory_areas` + `EFIMemoryAreaIter::new` accept exactly what `efiEntries` accepts: version, then
    descriptor size >= 40, multiple of 8, map length divisible; the entry count is `len / desc_size` -/
theorem efi_memory_areas_eq (p : Profile) (ver ao : Nat) (it : V) :
    evalO p [.int .u32 ver, .int .u32 1, .int .usize ao, it] Gen.Fns.efi_memory_areas =
      some (if ver ≠ 1 then .panic else if ao ≠ 0 then .panic else .ok it) := by
  simp only [evalO, Gen.Fns.efi_memory_areas, Option.map]
  by_cases h1 : ver = 1 <;> by_cases h2 : ao = 0 <;> simp [eval, binop, arith, h1, h2]

theorem efi_iter_new_eq (p : Profile) (ds len : Nat) (tag : V) (hds : ds < W32) :
    evalO p [.int .u32 ds, .int .usize len, .int .usize 40, .int .usize 8, tag] Gen.Fns.efi_iter_new =
      some (if ds < 40 then .panic else if ds % 8 ≠ 0 then .panic else if len % ds ≠ 0 then .panic
            else .ok (.pair tag (.pair (.lit 0) (.int .usize (len / ds))))) := by
  simp only [evalO, Gen.Fns.efi_iter_new, Option.map]
  by_cases h1 : ds < 40
  · have : ¬ 40 ≤ ds := by omega
    simp [eval, binop, arith, castV, mod_W64_of_lt_W32 hds, h1, this, set_other]
  · have h1' : 40 ≤ ds := by omega
    have hz : ds ≠ 0 := by omega
    by_cases h2 : ds % 8 = 0
    · by_cases h3 : len % ds = 0 <;>
        simp [eval, binop, arith, castV, mod_W64_of_lt_W32 hds, h1, h1', h2, h3, hz, set_other]
    · simp [eval, binop, arith, castV, mod_W64_of_lt_W32 hds, h1, h1', h2, set_other]

/-- `EFIMemoryAreaIter::next`: `None` once `i >= entries`, else the descriptor and `i + 1` (= `EfiIter.next`) -/
theorem efi_iter_next_eq (p : Profile) (i n : Nat) (d : V) (hi : i < n) (hn : n < W64) :
    evalO p [.int .usize i, .int .usize n, .c1 "Some" d] Gen.Fns.efi_iter_next =
      some (.ok (.pair (.c1 "Some" d) (.int .usize (i + 1)))) := by
  have h1 : ¬ n ≤ i := by omega
  have h2 : uadd p W64 i 1 = .ok (i + 1) := by unfold uadd; rw [if_pos (by omega)]
  simp [evalO, Gen.Fns.efi_iter_next, eval, binop, arith, h1, prim1, set_other, h2]

theorem efi_iter_next_done_eq (p : Profile) (i n : Nat) (d : V) (hi : n ≤ i) :
    evalO p [.int .usize i, .int .usize n, d] Gen.Fns.efi_iter_next = some (.ok (.pair (.c0 "None") (.int .usize i))) := by
  simp [evalO, Gen.Fns.efi_iter_next, eval, binop, arith, hi]

/-- `ExactSizeIterator::len` = `entries - i` (`EfiIter.len`), never a panic while `i <= entries` -/
theorem efi_iter_len_eq (p : Profile) (it : EfiIter) (h : it.i ≤ it.entries) :
    evalO p [.int .usize it.i, .int .usize it.entries] Gen.Fns.efi_iter_len = some (.ok (.int .usize it.len)) := by
  simp [evalO, Gen.Fns.efi_iter_len, eval, binop, arith, usub, h, EfiIter.len]

end Mb2.Fns
