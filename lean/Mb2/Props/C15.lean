/-
  C15 — Casting to a (user-defined) tag type never yields a view larger than the tag.
-/
import Mb2.Props.FnsCast
import Mb2.Props.FnsGetters
import Mb2.Props.FnsDstMbi
import Mb2.Tags
import Mb2.Lemmas.Arith
namespace Mb2.C15
open Mb2

/-- For ANY target type descriptor (built-in or user-defined, sized or dynamically sized, truthful or not) and any
    header kind: `cast` either panics or returns a view whose in-memory size equals the in-memory size of the generic
    tag it was made from. -/
theorem cast_size (p : Profile) (k : HK) (t : TyDesc) (size pl sov n : Nat)
    (h : castTo p k t size pl = .ok (sov, n)) :
    sov = dynSizeOfVal k pl ∧ t.baseSize ≥ k.hsize ∧ t.dstLen p size = .ok n ∧ sov = t.sizeOfVal n := by
  unfold castTo at h
  by_cases h1 : ¬ t.baseSize ≥ k.hsize
  · rw [if_pos h1] at h; cases h
  · rw [if_neg h1] at h
    cases hd : t.dstLen p size with
    | ok m =>
      rw [hd] at h
      simp only [Res.bind_ok] at h
      by_cases h2 : dynSizeOfVal k pl ≠ t.sizeOfVal m
      · rw [if_pos h2] at h; cases h
      · rw [if_neg h2] at h
        injection h with h
        injection h with ha hb
        subst hb
        exact ⟨by omega, by omega, rfl, ha.symm⟩
    | panic => rw [hd] at h; cases h
    | oob => rw [hd] at h; cases h
    | ub => rw [hd] at h; cases h

/-- …for a tag produced by the iterator (payload length = size − 8, size ≥ 8) that is the tag's own size rounded up to 8 -/
theorem cast_view_is_tag_extent (p : Profile) (k : HK) (hk : k.hsize = 8) (t : TyDesc) (size sov n : Nat) (hs : 8 ≤ size)
    (h : castTo p k t size (size - 8) = .ok (sov, n)) : sov = roundUp8 size := by
  have := (cast_size p k t size (size - 8) sov n h).1
  rw [this]; unfold dynSizeOfVal; rw [hk]; congr 1; omega

/-- the fat pointer has the same address as the tag: the model's `View` is created at the item's offset -/
theorem getTag_same_address (p : Profile) (area : Bytes) (k : Kind) (v : View) (h : getTag p area k = .ok (some v)) :
    ∃ it ∈ (tagsOf p .tag area).1, it.off = v.off ∧ it.size = v.size ∧ it.typ = k.typ ∧
      castTo p .tag k.desc it.size it.pl = .ok (v.sov, v.n) := by
  unfold getTag at h
  simp only at h
  cases hf : (tagsOf p .tag area).1.find? (fun it => it.typ == k.typ) with
  | none =>
    rw [hf] at h
    simp only at h
    split at h <;> simp at h
  | some it =>
    rw [hf] at h
    simp only at h
    have hmem := List.mem_of_find?_eq_some hf
    have hp := List.find?_some hf
    cases hc : castTo p .tag k.desc it.size it.pl with
    | ok r =>
      rw [hc] at h
      obtain ⟨sov, n⟩ := r
      simp only at h
      injection h with h; injection h with h
      subst h
      exact ⟨it, hmem, rfl, rfl, by simpa using hp, hc⟩
    | panic => rw [hc] at h; cases h
    | oob => rw [hc] at h; cases h
    | ub => rw [hc] at h; cases h

/-- size_of_val formula of a truthful dynamically sized type: header-aligned struct with tail elements of size `e` -/
theorem dst_truthful (base e size : Nat) (hb : base ≤ size) (hr : (size - base) % e = 0) (he : 0 < e) (p : Profile) :
    ∃ n, (dstDesc base e).dstLen p size = .ok n ∧ (dstDesc base e).sizeOfVal n = roundUp8 size := by
  refine ⟨(size - base) / e, ?_, ?_⟩
  · unfold dstDesc; simp only; rw [if_neg (by omega), if_neg (by omega)]
  · unfold dstDesc TyDesc.sizeOfVal roundUp roundUp8
    simp only
    have : (size - base) / e * e = size - base := Nat.div_mul_cancel (Nat.dvd_of_mod_eq_zero hr)
    rw [this]
    have e2 : base + (size - base) = size := by omega
    rw [e2]
    have e3 : size + 8 - 1 = size + 7 := by omega
    rw [e3]

/-! Non-vacuity: a sized custom type (16 bytes) over tags of size 12 (inside the 16-byte extent) and 24 (panic) -/
example : castTo .dev .tag (sizedDesc 16) 12 4 = .ok (16, 0) := by decide
example : castTo .dev .tag (sizedDesc 16) 24 16 = .panic := by decide
example : castTo .dev .tag (dstDesc 8 3) 14 6 = .ok (16, 2) := by decide
example : castTo .dev .tag (dstDesc 8 3) 15 7 = .panic := by decide

end Mb2.C15
