/-
  C11 — Header accessors and typed getters decode the specified fields.
-/
import Mb2.HTags
import Mb2.Spec
import Mb2.Lemmas.Tags
import Mb2.Props.C03
import Mb2.Props.C10
import Mb2.Props.C15
namespace Mb2.C11
open Mb2

/-- specification offsets of the header tags (Multiboot2 specification §3.1.x): (name, offset, width) by type number -/
def specFields : Nat → List (String × Nat × Nat)
  | 2 => [("header_addr", 8, 4), ("load_addr", 12, 4), ("load_end_addr", 16, 4), ("bss_end_addr", 20, 4)]
  | 3 => [("entry_addr", 8, 4)]
  | 4 => [("console_flags", 8, 4)]
  | 5 => [("width", 8, 4), ("height", 12, 4), ("depth", 16, 4)]
  | 8 => [("entry_addr", 8, 4)]
  | 9 => [("entry_addr", 8, 4)]
  | 10 => [("min_addr", 8, 4), ("max_addr", 12, 4), ("align", 16, 4), ("preference", 20, 4)]
  | _ => []

theorem layout_eq_spec : ∀ k : HKind, k.fields = specFields k.typ := by
  intro k; cases k <;> rfl

theorem fields_inside : ∀ k : HKind, ∀ f ∈ k.fields, f.2.1 + f.2.2 ≤ k.desc.fixed ∧ (f.2.2 = 1 ∨ f.2.2 = 2 ∨ f.2.2 = 4 ∨ f.2.2 = 8) := by
  intro k; cases k <;> simp [HKind.fields, HKind.desc, sizedDesc, infoReqDesc]

/-- for a valid header the four accessors return the stored magic, architecture, length and checksum -/
theorem header_accessors (p : Profile) (mem : Bytes) (hl : HLoaded)
    (hmem : mem.length ≥ 16 ∧ mem.length ≥ le32 mem 8) (h : hload p false mem = .ok (.ok hl)) :
    hl.magic = le32 mem 0 ∧ hl.arch = le32 mem 4 ∧ hl.length = le32 mem 8 ∧ hl.checksum = le32 mem 12 ∧
    hl.magic = HMAGIC ∧ 16 ≤ hl.length ∧ hl.length % 8 = 0 := by
  rw [C10.hload_eq p mem hmem] at h
  simp only at h
  by_cases c1 : le32 mem 8 < 16
  · rw [if_pos c1] at h; simp at h
  · rw [if_neg c1] at h
    by_cases c2 : le32 mem 8 % 8 ≠ 0
    · rw [if_pos c2] at h; simp at h
    · rw [if_neg c2] at h
      by_cases c3 : le32 mem 0 ≠ HMAGIC
      · rw [if_pos c3] at h; simp at h
      · rw [if_neg c3] at h
        by_cases c4 : le32 mem 4 ≠ 0 ∧ le32 mem 4 ≠ 4
        · rw [if_pos c4] at h; cases h
        · rw [if_neg c4] at h
          by_cases c5 : calcChecksum (le32 mem 0) (le32 mem 4) (le32 mem 8) ≠ le32 mem 12
          · rw [if_pos c5] at h; simp at h
          · rw [if_neg c5] at h
            injection h with h; injection h with h
            subst h
            refine ⟨rfl, rfl, rfl, rfl, ?_, ?_, ?_⟩
            · simpa using c3
            · simp only; omega
            · simp only; omega

/-- the header-tag iterator reproduces the specification walk over the tag area (from offset 16 to the declared length) -/
theorem tag_iter_is_spec_walk (p : Profile) (area : Bytes) (hb : area.length % 8 = 0) (hlen : area.length < 2^62) :
    tagsOf p .ht area = Spec.tagsOf .ht area :=
  C03.tags_eq_spec p .ht (Or.inr (Or.inl rfl)) area hb hlen

/-- each typed getter returns the FIRST tag of its type in walk order and nothing when the walk has none -/
theorem hgetTag_first (p : Profile) (area : Bytes) (k : HKind) :
    (∀ v, hgetTag p area k = .ok (some v) →
        ∃ pre it post, (tagsOf p .ht area).1 = pre ++ it :: post ∧ it.typ = k.typ ∧ it.off = v.off ∧ it.size = v.size ∧
          (∀ x ∈ pre, x.typ ≠ k.typ) ∧ castTo p .ht k.desc it.size it.pl = .ok (v.sov, v.n)) ∧
    (hgetTag p area k = .ok none → (tagsOf p .ht area).2 = .done ∧ ∀ x ∈ (tagsOf p .ht area).1, x.typ ≠ k.typ) := by
  unfold hgetTag
  simp only
  cases hf : (tagsOf p .ht area).1.find? (fun it => it.typ == k.typ) with
  | none =>
    have hn := List.find?_eq_none.mp hf
    refine ⟨fun v h => ?_, fun h => ?_⟩
    · simp only at h; split at h <;> simp at h
    · simp only at h
      refine ⟨?_, fun x hx => by simpa using hn x hx⟩
      split at h <;> first | assumption | simp at h
  | some it =>
    obtain ⟨hp, pre, post, hl, hpre⟩ := List.find?_eq_some_iff_append.mp hf
    refine ⟨fun v h => ?_, fun h => ?_⟩
    · simp only at h
      cases hc : castTo p .ht k.desc it.size it.pl with
      | ok r =>
        rw [hc] at h
        obtain ⟨sov, n⟩ := r
        simp only at h
        injection h with h; injection h with h
        subst h
        exact ⟨pre, it, post, hl, by simpa using hp, rfl, rfl, fun x hx => by simpa using hpre x hx, hc⟩
      | panic => rw [hc] at h; cases h
      | oob => rw [hc] at h; cases h
      | ub => rw [hc] at h; cases h
    · simp only at h
      split at h <;> simp at h

/-- every field accessor of every header-tag kind returns the little-endian value at the specified offset -/
theorem field_decodes (area : Bytes) (k : HKind) (v : View) (hfit : v.off + v.sov ≤ area.length)
    (hsov : k.desc.fixed ≤ v.sov) :
    ∀ f ∈ specFields k.typ, rdW (v.bytes area) f.2.1 f.2.2 = .ok (leW area (v.off + f.2.1) f.2.2) := by
  intro f hf
  rw [← layout_eq_spec k] at hf
  have := fields_inside k f hf
  exact rdW_slice area v.off v.sov f.2.1 f.2.2 this.2 (by omega) hfit

/-- the information-request list has exactly `(size − 8)/4` words; a size that leaves a remainder is a controlled panic -/
theorem info_request_count (p : Profile) (size : Nat) (hs : 8 ≤ size) :
    castTo p .ht infoReqDesc size (size - 8) =
      (if (size - 8) % 4 ≠ 0 then .panic else .ok (roundUp8 size, (size - 8) / 4)) := by
  unfold castTo
  rw [if_neg (by simp [infoReqDesc, HK.hsize])]
  have hd : infoReqDesc.dstLen p size = (if (size - 8) % 4 ≠ 0 then .panic else .ok ((size - 8) / 4)) := by
    simp only [infoReqDesc]
    rw [usub_ok p _ _ _ hs]
    rfl
  rw [hd]
  by_cases c : (size - 8) % 4 ≠ 0
  · rw [if_pos c, if_pos c]; rfl
  · rw [if_neg c, if_neg c]
    simp only [Res.bind_ok]
    have hm : (size - 8) % 4 = 0 := by omega
    have e : (size - 8) / 4 * 4 = size - 8 := Nat.div_mul_cancel (Nat.dvd_of_mod_eq_zero hm)
    have hsov : infoReqDesc.sizeOfVal ((size - 8) / 4) = roundUp8 size := by
      simp only [infoReqDesc, TyDesc.sizeOfVal, roundUp, roundUp8, e]
      have e2 : 8 + (size - 8) + 8 - 1 = size + 7 := by omega
      rw [e2]
    have hdyn : dynSizeOfVal .ht (size - 8) = roundUp8 size := by
      unfold dynSizeOfVal; simp only [HK.hsize]; congr 1; omega
    rw [hsov, hdyn, if_neg (by simp)]

/-! Non-vacuity -/
example : hgetTag .dev ([3,0,1,0, 12,0,0,0, 0x78,0x56,0x34,0x12, 0,0,0,0,  0,0,0,0, 8,0,0,0]) .entry = .ok (some ⟨0, 12, 16, 0⟩) := by decide

end Mb2.C11
