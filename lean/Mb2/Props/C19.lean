/-
  C19 — ELF-section iteration decodes 32/64-bit entries in order, inside the tag.
  `T` = permitted extent of the tag, `v.n = size − 20` = number of section bytes `L`.
-/
import Mb2.Props.FnsTblElf
import Mb2.Props.Layout
import Mb2.Props.FnsGetters
import Mb2.Props.FnsDstMbi
import Mb2.Props.FnsElfIter
import Mb2.Props.FnsElfOpen
import Mb2.Props.FnsElfType
import Mb2.Tags
import Mb2.Lemmas.Arith
namespace Mb2.C19
open Mb2

/-- `sections()` accepts exactly when all `n` entries and the string-table entry lie inside the section bytes;
    everything else is a controlled panic -/
theorem open_iff (T : Bytes) (v : View) (hT : 20 ≤ T.length) :
    elfOpen T v =
      (if le32 T 8 * le32 T 12 ≤ v.n ∧ (le32 T 8 = 0 ∨ (le32 T 16 + 1) * le32 T 12 ≤ v.n)
       then .ok (le32 T 8, le32 T 12) else .panic) := by
  unfold elfOpen rd32
  rw [if_pos (by omega), if_pos (by omega), if_pos (by omega)]
  simp only [Res.bind_ok]
  by_cases h1 : le32 T 8 * le32 T 12 > v.n
  · rw [if_pos h1, if_neg (by omega)]
  · rw [if_neg h1]
    by_cases h2 : le32 T 8 ≠ 0 ∧ (le32 T 16 + 1) * le32 T 12 > v.n
    · rw [if_pos h2, if_neg (by omega)]
    · rw [if_neg h2, if_pos (by omega)]

/-- decoding one entry of size 40 or 64 that lies inside the extent never faults and reads the ELF32 / ELF64 layout -/
theorem sec_at_ok (T : Bytes) (es o rem : Nat) (hes : es = 40 ∨ es = 64) (hin : o + es ≤ T.length) :
    ∃ s, elfSecAt T es o rem = .ok s ∧ s.off = o ∧ s.rem = rem ∧ s.raw = le32 T (o + 4) ∧
      s.typ = ElfSectionType.classify (le32 T (o + 4)) ∧
      (es = 40 → s.flags = le32 T (o + 8) % 8 ∧ s.start = le32 T (o + 12) ∧ s.size = le32 T (o + 20) ∧ s.align = le32 T (o + 32)) ∧
      (es = 64 → s.flags = le64 T (o + 8) % 8 ∧ s.start = le64 T (o + 16) ∧ s.size = le64 T (o + 32) ∧ s.align = le64 T (o + 48)) := by
  rcases hes with h | h <;> subst h
  · unfold elfSecAt rd32
    rw [if_pos rfl, if_pos (by omega)]
    simp only [Res.bind_ok]
    rw [if_pos (by omega)]
    simp only [Res.bind_ok]
    rw [if_pos (by omega)]
    simp only [Res.bind_ok]
    rw [if_pos (by omega)]
    simp only [Res.bind_ok]
    rw [if_pos (by omega)]
    simp only [Res.bind_ok, Res.pure_eq]
    exact ⟨_, rfl, rfl, rfl, rfl, rfl, fun _ => ⟨rfl, rfl, rfl, rfl⟩, fun h => absurd h (by decide)⟩
  · unfold elfSecAt rd32 rd64
    rw [if_neg (by decide), if_pos rfl, if_pos (by omega)]
    simp only [Res.bind_ok]
    rw [if_pos (by omega)]
    simp only [Res.bind_ok]
    rw [if_pos (by omega)]
    simp only [Res.bind_ok]
    rw [if_pos (by omega)]
    simp only [Res.bind_ok]
    rw [if_pos (by omega)]
    simp only [Res.bind_ok, Res.pure_eq]
    exact ⟨_, rfl, rfl, rfl, rfl, rfl, fun h => absurd h (by decide), fun _ => ⟨rfl, rfl, rfl, rfl⟩⟩

/-- an entry size other than 40 / 64 is rejected by a panic before anything is read -/
theorem sec_at_bad_size (T : Bytes) (es o rem : Nat) (h40 : es ≠ 40) (h64 : es ≠ 64) : elfSecAt T es o rem = .panic := by
  unfold elfSecAt; rw [if_neg h40, if_neg h64]

/-- iteration over `rem` entries of size 40/64 that all lie inside the extent ends normally (no panic, no fault),
    every yielded section is one of those entries, in order, and is in use (its raw type is recognised) -/
theorem iter_inside (T : Bytes) (es : Nat) (hes : es = 40 ∨ es = 64) :
    ∀ rem o, o + rem * es ≤ T.length →
      (elfIter T es rem o).2 = .done ∧
      (∀ s ∈ (elfIter T es rem o).1, o ≤ s.off ∧ s.off + es ≤ o + rem * es ∧ (s.off - o) % es = 0 ∧
          s.typ ≠ .unused ∧ s.typ = ElfSectionType.classify (le32 T (s.off + 4))) ∧
      (elfIter T es rem o).1.length ≤ rem := by
  intro rem
  induction rem with
  | zero => intro o _; simp [elfIter]
  | succ n ih =>
    intro o h
    have hsplit : (n + 1) * es = n * es + es := by rw [Nat.add_mul, Nat.one_mul]
    have hpos : 0 < es := by rcases hes with h | h <;> omega
    obtain ⟨s, hs, hoff, _, _, htyp, _, _⟩ := sec_at_ok T es o n hes (by omega)
    have := ih (o + es) (by omega)
    obtain ⟨h1, h2, h3⟩ := this
    unfold elfIter
    rw [hs]
    simp only
    by_cases hu : s.typ = .unused
    · rw [if_pos hu]
      refine ⟨h1, fun x hx => ?_, by omega⟩
      have := h2 x hx
      refine ⟨by omega, by omega, ?_, this.2.2.2⟩
      have e : x.off - o = (x.off - (o + es)) + es := by omega
      rw [e, Nat.add_mod_right]; exact this.2.2.1
    · rw [if_neg hu]
      refine ⟨h1, fun x hx => ?_, by simp; omega⟩
      simp only [List.mem_cons] at hx
      rcases hx with hx | hx
      · subst hx
        exact ⟨by omega, by omega, by rw [hoff]; simp, hu, by rw [htyp, hoff]⟩
      · have := h2 x hx
        refine ⟨by omega, by omega, ?_, this.2.2.2⟩
        have e : x.off - o = (x.off - (o + es)) + es := by omega
        rw [e, Nat.add_mod_right]; exact this.2.2.1

/-- with entries present and an entry size that is neither 40 nor 64, the first `next()` panics -/
theorem iter_bad_size (T : Bytes) (es rem o : Nat) (h40 : es ≠ 40) (h64 : es ≠ 64) :
    elfIter T es (rem + 1) o = ([], .bad) := by
  unfold elfIter; rw [sec_at_bad_size T es o rem h40 h64]

/-- the entries accepted by `sections()` lie inside the tag: composition of `open_iff` and `iter_inside` -/
theorem sections_inside_tag (T : Bytes) (v : View) (hT : 20 + v.n ≤ T.length) (num es : Nat)
    (h : elfOpen T v = .ok (num, es)) (hes : es = 40 ∨ es = 64) :
    (elfIter T es num 20).2 = .done ∧ ∀ s ∈ (elfIter T es num 20).1, 20 ≤ s.off ∧ s.off + es ≤ 20 + v.n := by
  rw [open_iff T v (by omega)] at h
  by_cases c : le32 T 8 * le32 T 12 ≤ v.n ∧ (le32 T 8 = 0 ∨ (le32 T 16 + 1) * le32 T 12 ≤ v.n)
  · rw [if_pos c] at h
    have hn : num = le32 T 8 := by injection h with h; injection h with h1 h2; exact h1.symm
    have he : es = le32 T 12 := by injection h with h; injection h with h1 h2; exact h2.symm
    have hfit : num * es ≤ v.n := by rw [hn, he]; exact c.1
    have := iter_inside T es hes num 20 (by omega)
    exact ⟨this.1, fun s hs => ⟨(this.2.1 s hs).1, by have := (this.2.1 s hs).2.1; omega⟩⟩
  · rw [if_neg c] at h; cases h

/-- names resolve through the string-table entry the tag designates: once `sections()` accepted a non-empty tag, reading
    the `addr` field of the `shndx`-th section header stays inside the tag (never a fault) -/
theorem name_reads_inside_tag (T : Bytes) (v : View) (hT : 20 + v.n ≤ T.length) (num es : Nat)
    (h : elfOpen T v = .ok (num, es)) (hes : es = 40 ∨ es = 64) (hn : num ≠ 0) :
    ∃ a, elfStrTabAddr T es (le32 T 16) = .ok a := by
  rw [open_iff T v (by omega)] at h
  by_cases c : le32 T 8 * le32 T 12 ≤ v.n ∧ (le32 T 8 = 0 ∨ (le32 T 16 + 1) * le32 T 12 ≤ v.n)
  · rw [if_pos c] at h
    injection h with h; injection h with ha hb
    have hsh : (le32 T 16 + 1) * es ≤ v.n := by
      rcases c.2 with c0 | c1
      · exact absurd (ha ▸ c0) hn
      · rw [← hb]; exact c1
    have hsplit : (le32 T 16 + 1) * es = le32 T 16 * es + es := by rw [Nat.add_mul, Nat.one_mul]
    unfold elfStrTabAddr rd32 rd64
    rcases hes with e | e <;> subst e
    · rw [if_pos rfl, if_pos (by omega)]; exact ⟨_, rfl⟩
    · rw [if_neg (by decide), if_pos rfl, if_pos (by omega)]; exact ⟨_, rfl⟩
  · rw [if_neg c] at h; cases h

/-! Non-vacuity -/
example : elfOpen ([9,0,0,0, 60,0,0,0, 1,0,0,0, 40,0,0,0, 0,0,0,0] ++ List.replicate 44 1) ⟨0, 60, 64, 40⟩ = .ok (1, 40) := by decide
example : elfOpen ([9,0,0,0, 60,0,0,0, 5,0,0,0, 40,0,0,0, 0,0,0,0] ++ List.replicate 44 1) ⟨0, 60, 64, 40⟩ = .panic := by decide

/-- the `i`-th entry as the iterator would deliver it, `none` when it is unused (skipped) or cannot be decoded -/
def entryAt (T : Bytes) (es rem o i : Nat) : Option ElfSec :=
  match elfSecAt T es (o + i * es) (rem - 1 - i) with
  | .ok s => if s.typ = .unused then none else some s
  | _ => none

/-- ORDER AND COMPLETENESS: over `rem` entries that lie inside the extent the iterator yields EXACTLY the in-use entries,
    in index order - nothing dropped, duplicated or reordered (`filterMap` over `0 .. rem-1`) -/
theorem iter_eq_filter (T : Bytes) (es : Nat) (hes : es = 40 ∨ es = 64) :
    ∀ rem o, o + rem * es ≤ T.length →
      (elfIter T es rem o).1 = (List.range rem).filterMap (entryAt T es rem o) := by
  intro rem
  induction rem with
  | zero => intro o _; simp [elfIter]
  | succ n ih =>
    intro o h
    have hsplit : (n + 1) * es = n * es + es := by rw [Nat.add_mul, Nat.one_mul]
    obtain ⟨s, hs, _⟩ := sec_at_ok T es o n hes (by omega)
    have hih := ih (o + es) (by omega)
    rw [List.range_succ_eq_map, List.filterMap_cons, List.filterMap_map]
    have h0 : entryAt T es (n + 1) o 0 = if s.typ = .unused then none else some s := by
      simp [entryAt, hs]
    have htail : (entryAt T es (n + 1) o ∘ Nat.succ) = entryAt T es n (o + es) := by
      funext i
      simp only [Function.comp, entryAt]
      have e1 : o + Nat.succ i * es = o + es + i * es := by rw [Nat.succ_mul]; omega
      have e2 : n + 1 - 1 - Nat.succ i = n - 1 - i := by omega
      rw [e1, e2]
    unfold elfIter
    rw [hs, h0, htail]
    simp only
    by_cases hu : s.typ = .unused
    · simp [hu, hih]
    · simp [hu, hih]

end Mb2.C19
