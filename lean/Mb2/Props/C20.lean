/-
  C20 — Type-identifier conversions are lossless and consistent for all 2^32 values.
-/
import Mb2.Props.FnsTblFixed
import Mb2.Props.FnsFb
import Mb2.Props.FnsTblIds
import Mb2.Props.FnsTblTags
import Mb2.Props.FnsTagType
import Mb2.Props.FnsMemType
import Mb2.Props.FnsElfType
import Mb2.Props.FnsFbType
import Mb2.Ids
import Mb2.Tags
namespace Mb2.C20
open Mb2

/-- converting any 32-bit value to the symbolic tag type and back returns the same value -/
theorem tagType_roundtrip (v : UInt32) : (TagType.ofU32 v).toU32 = v := by
  unfold TagType.ofU32; split <;> simp [TagType.toU32]

/-- the specified numbers 0..21 map to their named variants (variant index = the number) … -/
theorem tagType_named (v : UInt32) (h : v ≤ 21) : (TagType.ofU32 v).index = v := by
  unfold TagType.ofU32; split <;> simp_all [TagType.index, TagType.toU32]
  next h0 h1 h2 h3 h4 h5 h6 h7 h8 h9 h10 h11 h12 h13 h14 h15 h16 h17 h18 h19 h20 h21 =>
    exfalso
    have hv : v.toNat ≤ 21 := by simpa using UInt32.le_iff_toNat_le.mp h
    have e : ∀ n : Nat, n < 4294967296 → v ≠ UInt32.ofNat n → v.toNat ≠ n := by
      intro n hn hne heq; apply hne; apply UInt32.toNat_inj.mp; simp [heq, Nat.mod_eq_of_lt hn]
    have := e 0 (by omega) h0; have := e 1 (by omega) h1; have := e 2 (by omega) h2; have := e 3 (by omega) h3
    have := e 4 (by omega) h4; have := e 5 (by omega) h5; have := e 6 (by omega) h6; have := e 7 (by omega) h7
    have := e 8 (by omega) h8; have := e 9 (by omega) h9; have := e 10 (by omega) h10; have := e 11 (by omega) h11
    have := e 12 (by omega) h12; have := e 13 (by omega) h13; have := e 14 (by omega) h14; have := e 15 (by omega) h15
    have := e 16 (by omega) h16; have := e 17 (by omega) h17; have := e 18 (by omega) h18; have := e 19 (by omega) h19
    have := e 20 (by omega) h20; have := e 21 (by omega) h21
    omega

/-- … and every other value maps to the custom variant carrying it -/
theorem tagType_custom (v : UInt32) (h : 21 < v) : TagType.ofU32 v = .custom v := by
  unfold TagType.ofU32
  split <;> first | rfl | (exfalso; revert h; decide)

/-- conversions through the binary-compatible id wrapper commute with the direct ones -/
theorem id_commutes (v : UInt32) :
    (TagTypeId.ofU32 v).toTagType = TagType.ofU32 v ∧
    (TagType.ofU32 v).toId = TagTypeId.ofU32 v ∧
    (TagTypeId.ofU32 v).toU32 = v ∧
    (TagTypeId.ofU32 v).toTagType.toId.toU32 = v := by
  refine ⟨rfl, ?_, rfl, ?_⟩
  · simp [TagType.toId, tagType_roundtrip]
  · simp [TagType.toId, TagTypeId.toTagType, TagTypeId.toU32, TagTypeId.ofU32, tagType_roundtrip]

/-- all six equality impls agree with numeric equality -/
theorem equalities_numeric (t : TagType) (i : TagTypeId) (v : UInt32) :
    (eqTypeId t i = true ↔ t.toU32 = i.val) ∧ (eqIdType i t = true ↔ t.toU32 = i.val) ∧
    (eqIdU32 i v = true ↔ i.val = v) ∧ (eqU32Id v i = true ↔ i.val = v) ∧
    (eqTypeU32 t v = true ↔ t.toU32 = v) ∧ (eqU32Type v t = true ↔ t.toU32 = v) := by
  simp [eqTypeId, eqIdType, eqIdU32, eqU32Id, eqTypeU32, eqU32Type, TagTypeId.toU32]

/-- in particular: two raw numbers denote equal symbolic types iff they are equal -/
theorem tagType_injective (a b : UInt32) : TagType.ofU32 a = TagType.ofU32 b ↔ a = b := by
  constructor
  · intro h; have := congrArg TagType.toU32 h; simpa [tagType_roundtrip] using this
  · intro h; rw [h]

theorem memType_roundtrip (v : UInt32) : (MemoryAreaType.ofU32 v).toU32 = v := by
  unfold MemoryAreaType.ofU32; split <;> simp [MemoryAreaType.toU32]

theorem memType_custom (v : UInt32) (h : v = 0 ∨ 5 < v) : MemoryAreaType.ofU32 v = .custom v := by
  unfold MemoryAreaType.ofU32
  split <;> first | rfl | (exfalso; revert h; decide)

theorem memType_equalities (t : MemoryAreaType) (i : UInt32) :
    (eqMatIdType i t = true ↔ i = t.toU32) ∧ (eqMatTypeId t i = true ↔ i = t.toU32) := by
  simp [eqMatIdType, eqMatTypeId]

/-- ELF section type classification is total and matches the documented values and ranges -/
theorem elf_classification (n : Nat) :
    (n ≤ 11 → (ElfSectionType.classify n).discr = n) ∧
    ((0x60000000 ≤ n ∧ n ≤ 0x6FFFFFFF) → ElfSectionType.classify n = .environmentSpecific) ∧
    ((0x70000000 ≤ n ∧ n ≤ 0x7FFFFFFF) → ElfSectionType.classify n = .processorSpecific) ∧
    ((11 < n ∧ n < 0x60000000) ∨ 0x7FFFFFFF < n → ElfSectionType.classify n = .unused) := by
  refine ⟨?_, ?_, ?_, ?_⟩
  · intro h
    have : n = 0 ∨ n = 1 ∨ n = 2 ∨ n = 3 ∨ n = 4 ∨ n = 5 ∨ n = 6 ∨ n = 7 ∨ n = 8 ∨ n = 9 ∨ n = 10 ∨ n = 11 := by omega
    rcases this with h | h | h | h | h | h | h | h | h | h | h | h <;> subst h <;> rfl
  all_goals
    intro h
    unfold ElfSectionType.classify
    repeat (first | rw [if_neg (by omega)] | rw [if_pos (by omega)])

/-- a section is skipped by the iterator (classified `unused`) exactly when its raw type is not one of the in-use types -/
theorem elf_in_use_iff (n : Nat) :
    ElfSectionType.classify n ≠ .unused ↔
      (1 ≤ n ∧ n ≤ 11) ∨ (0x60000000 ≤ n ∧ n ≤ 0x6FFFFFFF) ∨ (0x70000000 ≤ n ∧ n ≤ 0x7FFFFFFF) := by
  have c := elf_classification n
  constructor
  · intro h
    by_cases h1 : (1 ≤ n ∧ n ≤ 11) ∨ (0x60000000 ≤ n ∧ n ≤ 0x6FFFFFFF) ∨ (0x70000000 ≤ n ∧ n ≤ 0x7FFFFFFF)
    · exact h1
    · exfalso
      by_cases h0 : n = 0
      · subst h0; exact h rfl
      · exact h (c.2.2.2 (by omega))
  · intro h
    rcases h with h | h | h
    · intro hu
      have := c.1 h.2
      rw [hu] at this
      simp [ElfSectionType.discr] at this; omega
    · rw [c.2.1 h]; decide
    · rw [c.2.2.1 h]; decide

/-- all 256 framebuffer type bytes: 0, 1, 2 are known, everything else is reported as unknown -/
theorem fbType_total (b : Nat) : fbTypeOfByte b = if b ≤ 2 then some b else none := by
  unfold fbTypeOfByte
  by_cases h0 : b = 0 <;> by_cases h1 : b = 1 <;> by_cases h2 : b = 2 <;> simp_all <;> omega

/-- ... and the whole-tag classification `FramebufferTag::buffer_type` (the model's `fbBufferType`) reports every type byte
    above 2 as unknown, carrying that byte - WHATEVER the tag's size or colour information; type 2 is text -/
theorem buffer_type_unknown (T : Bytes) (v : View) (h : 30 ≤ T.length) (hb : 2 < u8At T 29) :
    fbBufferType T v = .ok (.error (u8At T 29)) := by
  unfold fbBufferType
  have r : rd8 T 29 = .ok (u8At T 29) := by unfold rd8; rw [if_pos (by omega)]
  rw [r]
  simp only [Res.bind_ok]
  rw [fbType_total, if_neg (by omega)]
  rfl

theorem buffer_type_text (T : Bytes) (v : View) (h : 30 ≤ T.length) (hb : u8At T 29 = 2) :
    fbBufferType T v = .ok (.ok .text) := by
  unfold fbBufferType
  have r : rd8 T 29 = .ok (u8At T 29) := by unfold rd8; rw [if_pos (by omega)]
  rw [r]
  simp only [Res.bind_ok]
  rw [hb]
  rfl

example : fbBufferType ((List.replicate 29 0 : Bytes) ++ [7, 0, 0]) ⟨0, 32, 32, 0⟩ = .ok (.error 7) := by decide

theorem magics : MBI_MAGIC = 0x36D76289 ∧ HEADER_MAGIC = 0xE85250D6 := ⟨rfl, rfl⟩

end Mb2.C20
