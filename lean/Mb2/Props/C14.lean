/-
  C14 — Raw bytes become a structure only when aligned, padded and size-consistent.
  Property theorems only; helper lemmas live in Mb2/Lemmas.
-/
import Mb2.Props.FnsTblMbi
import Mb2.Props.FnsLinked
import Mb2.Props.FnsGetters
import Mb2.Props.FnsAlign
import Mb2.Props.FnsBytesRef
import Mb2.Props.FnsTagHdr
import Mb2.Props.FnsHtHdr
import Mb2.Props.FnsBiHdr
import Mb2.Props.FnsHbHdr
import Mb2.Spec
import Mb2.Lemmas.Arith
import Mb2.Lemmas.Bits
import Mb2.Lemmas.Common
namespace Mb2.C14
open Mb2

/-- Main refinement: for every profile, header kind, slice address and slice contents (any length a Rust slice
    can have), the modelled `ref_from_slice` produces an outcome the specification admits: the four errors in the
    stated precedence, success only when the declared size fits, and for a declaration below the header size
    never more than the header (panic, error, or an empty payload). -/
theorem refFromSlice_meets_spec (p : Profile) (k : HK) (addr : Nat) (bytes : Bytes)
    (hlen : bytes.length < 2^63) :
    (Spec.refFromSlice k addr bytes).admits (refFromSlice p k addr bytes) = true := by
  unfold Spec.refFromSlice refFromSlice bytesRefTryFrom
  by_cases h1 : bytes.length < k.hsize
  · simp [h1, Expect.admits]
  · by_cases h2 : addr % 8 ≠ 0
    · simp [h1, h2, Expect.admits]
    · by_cases h3 : bytes.length % 8 ≠ 0
      · simp [h1, h2, h3, Expect.admits]
      · have hs : k.sizeOff + 4 ≤ bytes.length := by
          cases k <;> simp [HK.sizeOff, HK.hsize] at * <;> omega
        simp only [h1, h2, h3, if_false]
        unfold refFromBytes rd32
        simp only [hs, if_true, Res.bind_ok]
        generalize le32 bytes k.sizeOff = d at *
        generalize bytes.length = L at *
        by_cases hB : d > L
        · rw [payloadLen_ge p k d (by omega)]
          simp only [hB, if_true, Res.bind_ok]
          rw [if_pos (by omega)]
          simp [Expect.admits]
        · by_cases hA : d < k.hsize
          · simp only [hB, hA, if_true, if_false]
            rcases payloadLen_lt p k d hA with h | h | ⟨x, h, hx⟩ <;> rw [h]
            · simp [Expect.admits, Out.isRejection]
            · simp [Expect.admits, Out.isRejection]
            · simp only [Res.bind_ok]
              rw [if_pos (by omega)]
              simp [Expect.admits, Out.isRejection]
          · rw [payloadLen_ge p k d (by omega)]
            simp only [hB, hA, if_false, Res.bind_ok]
            rw [if_neg (by omega)]
            simp [Expect.admits]

/-- Success happens only for a slice that is header-sized, aligned, padded and large enough for the declaration. -/
theorem success_only_if (p : Profile) (k : HK) (addr : Nat) (bytes : Bytes) (pl : Nat)
    (hlen : bytes.length < 2^63)
    (h : refFromSlice p k addr bytes = .ok (.ok pl)) :
    bytes.length ≥ k.hsize ∧ addr % 8 = 0 ∧ bytes.length % 8 = 0 ∧
    (le32 bytes k.sizeOff ≤ bytes.length) ∧
    (le32 bytes k.sizeOff ≥ k.hsize → pl = le32 bytes k.sizeOff - k.hsize) ∧
    (le32 bytes k.sizeOff < k.hsize → pl = 0) := by
  have hs := refFromSlice_meets_spec p k addr bytes hlen
  rw [h] at hs
  unfold Spec.refFromSlice at hs
  by_cases h1 : bytes.length < k.hsize
  · simp [h1, Expect.admits] at hs
  · by_cases h2 : addr % 8 ≠ 0
    · simp [h1, h2, Expect.admits] at hs
    · by_cases h3 : bytes.length % 8 ≠ 0
      · simp [h1, h2, h3, Expect.admits] at hs
      · by_cases h4 : le32 bytes k.sizeOff > bytes.length
        · simp [h1, h2, h3, h4, Expect.admits] at hs
        · by_cases h5 : le32 bytes k.sizeOff < k.hsize
          · simp [h1, h2, h3, h4, h5, Expect.admits, Out.isRejection] at hs
            refine ⟨by omega, by omega, by omega, by omega, by omega, fun _ => hs⟩
          · simp [h1, h2, h3, h4, h5, Expect.admits] at hs
            refine ⟨by omega, by omega, by omega, by omega, fun _ => hs, by omega⟩

/-- On success with a declaration of at least the header size, the in-memory size of the structure is the declared
    size rounded up to 8 and never more than the slice. -/
theorem success_size (p : Profile) (k : HK) (addr : Nat) (bytes : Bytes) (pl : Nat)
    (hlen : bytes.length < 2^63)
    (h : refFromSlice p k addr bytes = .ok (.ok pl)) (hd : le32 bytes k.sizeOff ≥ k.hsize) :
    dynSizeOfVal k pl = roundUp8 (le32 bytes k.sizeOff) ∧ dynSizeOfVal k pl ≤ bytes.length := by
  obtain ⟨_, _, h3, h4, h5, _⟩ := success_only_if p k addr bytes pl hlen h
  have := h5 hd
  unfold dynSizeOfVal
  have e : k.hsize + pl = le32 bytes k.sizeOff := by omega
  rw [e]
  exact ⟨rfl, roundUp8_least _ _ h3 h4⟩

/-- Rounding: a multiple of 8, not below the argument, and the least such. -/
theorem roundUp8_spec (n : Nat) :
    roundUp8 n % 8 = 0 ∧ n ≤ roundUp8 n ∧ ∀ m, m % 8 = 0 → n ≤ m → roundUp8 n ≤ m :=
  ⟨roundUp8_mod n, roundUp8_ge n, fun m hm h => roundUp8_least n m hm h⟩

/-- The modelled `increase_to_alignment` never panics below 2^64 − 7 and equals `roundUp8` in both profiles. -/
theorem incAlign_total (p : Profile) (n : Nat) (h : n + 7 < 2^64) : incAlign p n = .ok (roundUp8 n) :=
  incAlign_eq p n (by rw [W64_eq]; exact h)

/-- The code's bit-level formula `(n + 7) & !7` on `u64` is `roundUp8` (all 2^64 − 7 arguments). -/
theorem incAlign_bits (n : UInt64) (h : n.toNat < 2^64 - 7) : (incAlignU64 n).toNat = roundUp8 n.toNat :=
  incAlignU64_toNat n h

/-! Non-vacuity: concrete inputs meeting the hypotheses, one per interesting branch. -/
example : refFromSlice .dev .tag 0 [1,0,0,0, 12,0,0,0, 1,2,3,4, 0,0,0,0] = .ok (.ok 4) := by decide
example : refFromSlice .release .dummy 0 [1,0,0,0, 4,0,0,0] = .ok (.error .invalidReportedTotalSize) := by decide
example : refFromSlice .dev .dummy 0 [1,0,0,0, 4,0,0,0] = .panic := by decide
example : refFromSlice .dev .tag 0 [1,0,0,0, 16,0,0,0] = .ok (.error .invalidReportedTotalSize) := by decide

end Mb2.C14
