/-
  Mb2.Props.FnsTblTags — SOURCE = MODEL, whole impl blocks as tables (tools/gen_fns.py IMPL_TABLES -> `Gen.Fns.tbl_*`).
  Each theorem compares the table GENERATED from /repo's working tree - every function of the impl block in source order,
  its return type, its translated body and the inputs the body depends on - with the expected one: a forwarder that names
  another tag type or field, a changed body, and any function added to or removed from the block breaks it.
-/

import Mb2.Props.FnsTblBase
import Mb2.Props.FnsCtor
open Mb2 Mb2.Rir

namespace Mb2.Fns

set_option maxRecDepth 8000
set_option linter.unusedSimpArgs false

-- BEGIN TABLES (generated once by a script from the unchanged tree, then REVIEWED row by row)
theorem tbl_smbios_eq : Gen.Fns.tbl_smbios = some [
  ("new->Box<Self>", "covered", none, [], []),
  ("major->u8", "ir", some (.var 0), ["self.major"], []),
  ("minor->u8", "ir", some (.var 0), ["self.minor"], []),
  ("tables->&[u8]", "ir", some (.var 0), ["self.tables"], [])] := rfl

theorem tbl_loader_eq : Gen.Fns.tbl_loader = some [
  ("new->Box<Self>", "covered", none, [], []),
  ("typ->TagType", "ir", some (.var 0), ["self.header.typ.into()"], []),
  ("size->usize", "ir", some (.cast (.var 0) .usize), ["self.header.size"], []),
  ("name->Result<&str,StringError>", "covered", none, [], [])] := rfl

theorem tbl_rsdp1_eq : Gen.Fns.tbl_rsdp1 = some [
  ("new->Self", "covered", none, [], []),
  ("signature->Result<&str,Utf8Error>", "ir", some (.var 0), ["str::from_utf8(&self.signature)"], []),
  ("checksum_is_valid->bool", "covered", none, [], []),
  ("oem_id->Result<&str,Utf8Error>", "ir", some (.var 0), ["str::from_utf8(&self.oem_id)"], []),
  ("revision->u8", "ir", some (.var 0), ["self.revision"], []),
  ("rsdt_address->usize", "ir", some (.cast (.var 0) .usize), ["self.rsdt_address"], [])] := rfl

theorem tbl_rsdp2_eq : Gen.Fns.tbl_rsdp2 = some [
  ("new->Self", "covered", none, [], []),
  ("signature->Result<&str,Utf8Error>", "ir", some (.var 0), ["str::from_utf8(&self.signature)"], []),
  ("checksum_is_valid->bool", "covered", none, [], []),
  ("oem_id->Result<&str,Utf8Error>", "ir", some (.var 0), ["str::from_utf8(&self.oem_id)"], []),
  ("revision->u8", "ir", some (.var 0), ["self.revision"], []),
  ("xsdt_address->usize", "ir", some (.cast (.var 0) .usize), ["self.xsdt_address"], []),
  ("ext_checksum->u8", "ir", some (.var 0), ["self.ext_checksum"], [])] := rfl

theorem tbl_fb_tag_eq : Gen.Fns.tbl_fb_tag = some [
  ("new->Box<Self>", "ir", some (.letIn 101 (.pair (.lit 8) (.cast (.lit 0) .u32)) (.c1 "new_boxed" (.pair (.var 101) (.pair (.var 0) (.pair (.var 1) (.pair (.var 2) (.pair (.var 3) (.pair (.var 4) (.pair (.var 5) (.pair (.var 6) (.var 7))))))))))), ["address.to_ne_bytes()", "pitch.to_ne_bytes()", "width.to_ne_bytes()", "height.to_ne_bytes()", "[bpp]", "[buffer_type_id as u8]", "[0;2]", "buffer_type.serialize()"], ["let address=address.to_ne_bytes()", "let pitch=pitch.to_ne_bytes()", "let width=width.to_ne_bytes()", "let height=height.to_ne_bytes()", "let buffer_type_id=buffer_type.id()", "let padding=[0;2]", "let optional_buffer=buffer_type.serialize()"]),
  ("address->u64", "ir", some (.var 0), ["self.address"], []),
  ("pitch->u32", "ir", some (.var 0), ["self.pitch"], []),
  ("width->u32", "ir", some (.var 0), ["self.width"], []),
  ("height->u32", "ir", some (.var 0), ["self.height"], []),
  ("bpp->u8", "ir", some (.var 0), ["self.bpp"], []),
  ("buffer_type->Result<FramebufferType,UnknownFramebufferType>", "covered", none, [], [])] := rfl

theorem tbl_fb_type_eq : Gen.Fns.tbl_fb_type = some [
  ("id->FramebufferTypeId", "text", none, ["{match self{FramebufferType::Indexed{..}=>FramebufferTypeId::Indexed,FramebufferType::RGB{..}=>FramebufferTypeId::RGB,FramebufferType::Text=>FramebufferTypeId::Text,}}"], []),
  ("serialize->alloc::vec::Vec<u8>", "text", none, ["{let mut data=alloc::vec::Vec::new();match self{FramebufferType::Indexed{palette}=>{let num_colors=palette.len()as u16;data.extend(&num_colors.to_ne_bytes());for color in*palette{let serialized_color=[color.red,color.green,color.blue];data.extend(&serialized_color);}}FramebufferType::RGB{red,green,blue}=>data.extend(&[red.position,red.size,green.position,green.size,blue.position,blue.size,]),FramebufferType::Text=>{}}data}"], [])] := rfl

theorem tbl_fb_eq_eq : Gen.Fns.tbl_fb_eq = some [
  ("eq->bool", "ir", some (.bin .land (.bin .land (.bin .land (.bin .land (.bin .land (.bin .land (.bin .land (.bin .eq (.var 0) (.var 1)) (.bin .eq (.var 2) (.var 3))) (.bin .eq (.var 4) (.var 5))) (.bin .eq (.var 6) (.var 7))) (.bin .eq (.var 8) (.var 9))) (.bin .eq (.var 10) (.var 11))) (.bin .eq (.var 12) (.var 13))) (.bin .eq (.var 14) (.var 15))), ["self.header", "other.header", "self.address", "other.address", "self.pitch", "other.pitch", "self.width", "other.width", "self.height", "other.height", "self.bpp", "other.bpp", "self.framebuffer_type", "other.framebuffer_type", "self.buffer", "other.buffer"], [])] := rfl

theorem tbl_fbid_from_type_eq : Gen.Fns.tbl_fbid_from_type = some [
  ("from->Self", "text", none, ["{match value{FramebufferType::Indexed{..}=>Self::Indexed,FramebufferType::RGB{..}=>Self::RGB,FramebufferType::Text=>Self::Text,}}"], [])] := rfl

theorem tbl_fb_reader_eq : Gen.Fns.tbl_fb_reader = some [
  ("new->Self", "ir", some (.pair (.var 0) (.lit 0)), ["buffer"], []),
  ("read_next_u8->u8", "covered", none, [], []),
  ("read_next_u16->u16", "covered", none, [], []),
  ("current_ptr->*constu8", "ir", some (.var 0), ["self.buffer.as_ptr().add(self.off)"], [])] := rfl

theorem tbl_module_eq : Gen.Fns.tbl_module = some [
  ("new->Box<Self>", "covered", none, [], []),
  ("cmdline->Result<&str,StringError>", "covered", none, [], []),
  ("start_address->u32", "ir", some (.var 0), ["self.mod_start"], []),
  ("end_address->u32", "ir", some (.var 0), ["self.mod_end"], []),
  ("module_size->u32", "covered", none, [], [])] := rfl

theorem tbl_module_free_eq : Gen.Fns.tbl_module_free = some [
  ("module_iter->ModuleIter", "ir", some (.var 0), ["iter"], [])] := rfl
-- END TABLES

/-! ### what the pinned rows mean -/

/-- `FramebufferTag::new`: header (type 8) and the content slices in the order of the struct: address, pitch, width,
    height, bpp, type byte, two reserved zero bytes, the serialized colour information -/
theorem fb_tag_new_eq (p : Profile) (a pi w h b t r c : V) :
    evalO p [a, pi, w, h, b, t, r, c] (tblRow Gen.Fns.tbl_fb_tag "new->Box<Self>") =
      some (.ok (.c1 "new_boxed" (.pair (mbiHdrV (Kind.typ .fb) 0)
        (.pair a (.pair pi (.pair w (.pair h (.pair b (.pair t (.pair r c)))))))))) ∧
    tblVars Gen.Fns.tbl_fb_tag "new->Box<Self>" =
      ["address.to_ne_bytes()", "pitch.to_ne_bytes()", "width.to_ne_bytes()", "height.to_ne_bytes()", "[bpp]",
       "[buffer_type_id as u8]", "[0;2]", "buffer_type.serialize()"] := by
  rw [tbl_fb_tag_eq]
  simp [tblRow, tblVars, List.find?, evalO, eval, castV, set_other, mbiHdrV, Kind.typ, w32_small]

/-- `==` on two framebuffer tags compares the header, the six fixed fields and the `buffer` slice (whose length is
    `dst_len` = declared size - 31, `dst_len_framebuffer_eq`) - nothing behind the declared size -/
theorem fb_eq_compares_declared_extent :
    tblVars Gen.Fns.tbl_fb_eq "eq->bool" =
      ["self.header", "other.header", "self.address", "other.address", "self.pitch", "other.pitch", "self.width", "other.width",
       "self.height", "other.height", "self.bpp", "other.bpp", "self.framebuffer_type", "other.framebuffer_type",
       "self.buffer", "other.buffer"] := by
  rw [tbl_fb_eq_eq]; decide

/-- the VBE flag sets (representation width and bit values) -/
theorem vbe_flag_bits :
    Gen.Fns.bitflags.map (fun l => l.filter (fun x => x.1 != "ElfSectionFlags")) =
      some [("VBECapabilities", "u32", [("SWITCHABLE_DAC", 1), ("NOT_VGA_COMPATIBLE", 2), ("RAMDAC_FIX", 4)]),
            ("VBEDirectColorAttributes", "u8", [("PROGRAMMABLE", 1), ("RESERVED_USABLE", 2)]),
            ("VBEModeAttributes", "u16", [("SUPPORTED", 1), ("TTY_SUPPORTED", 4), ("COLOR", 8), ("GRAPHICS", 16),
              ("NOT_VGA_COMPATIBLE", 32), ("NO_VGA_WINDOW", 64), ("LINEAR_FRAMEBUFFER", 128)]),
            ("VBEWindowAttributes", "u8", [("RELOCATABLE", 1), ("READABLE", 2), ("WRITEABLE", 4)])] := by decide

end Mb2.Fns
