/-
  C17 — String tags round-trip text and apply the NUL / UTF-8 rules within the tag size.
  `C17Parts`: parsing characterisation and content round trip; `C17Ctor`: constructor -> tag image -> accessor round trip.
-/
import Mb2.Props.FnsTblFixed
import Mb2.Props.FnsBoxedCtor
import Mb2.Props.FnsGetters
import Mb2.Props.C17Parts
import Mb2.Props.C17Ctor
