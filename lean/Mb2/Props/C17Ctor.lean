/-
  C17, constructor → tag → accessor, end to end: for EVERY string without a NUL byte the three string constructors emit a
  tag (C07.cmdline_ctor / loader_ctor / module_ctor) from which the accessor - a checked slice `[fixed, size)` of the tag's
  declared bytes followed by `parse_slice_as_string` (`Sweep.strS`) - reads back exactly that string.
-/
import Mb2.Props.C17Parts
import Mb2.Props.C07More
import Mb2.Lemmas.Obs
namespace Mb2.C17
open Mb2 Sweep

/-- the accessor's slice of a tag image `hdr ++ pre ++ text ++ [0]` whose fixed part is `hdr ++ pre` -/
theorem text_slice (T fixedPart text : Bytes) (v : View) (size : Nat)
    (hsz : size = fixedPart.length + text.length + 1) (hv : v.size = size) (hn : v.n = size - fixedPart.length)
    (hT : T.take size = fixedPart ++ text ++ [0]) :
    rdSlice (declared T v) fixedPart.length v.n = .ok (text ++ [0]) := by
  unfold declared
  rw [hv, hT, hn]
  have hl : (fixedPart ++ text ++ [0]).length = size := by simp; omega
  rw [rdSlice_ok _ _ _ (by rw [hl]; omega)]
  congr 1
  unfold slice
  rw [List.append_assoc, List.drop_left, hsz]
  have : fixedPart.length + text.length + 1 - fixedPart.length = (text ++ [0]).length := by simp; omega
  rw [this, List.take_length]

/-- **Round trip through constructor and accessor.** `s` ranges over Lean `String` (valid UTF-8 by construction, like
    Rust's `&str`); `name` is one of the two plain string tags. The constructed tag has size 8 + |s| + 1, stores exactly
    one NUL behind the text, and wherever its bytes sit (`T` = the tag's bytes in a loaded region, `v` the typed view with
    the tail length the cast computes) the accessor returns the text `s` at offset 8. -/
theorem string_tag_roundtrip (p : Profile) (name : String) (typ : Nat)
    (hname : (name = "cmdline" ∧ typ = 1) ∨ (name = "loader" ∧ typ = 2))
    (s : String) (hs : ∀ b ∈ s.toUTF8.data.toList, b ≠ 0) (hlen : s.toUTF8.data.toList.length < 2^61) :
    ∃ img, ctorImpl p name s.toUTF8.data.toList = .ok img ∧ img.typ = typ ∧ img.size = 8 + s.toUTF8.data.toList.length + 1 ∧
      img.bytes = mbiHdr typ img.size ++ s.toUTF8.data.toList ++ [0] ∧
      ∀ (T : Bytes) (v : View), v.size = img.size → v.n = img.size - 8 → T.take img.size = img.bytes →
        rdSlice (declared T v) 8 v.n = .ok (s.toUTF8.data.toList ++ [0]) ∧
        parseStr (s.toUTF8.data.toList ++ [0]) = .ok s.toUTF8.data.toList.length ∧
        (s.toUTF8.data.toList ++ [0]).take s.toUTF8.data.toList.length = s.toUTF8.data.toList := by
  have hr := roundtrip s [] hs
  rw [hr.2.2, List.append_nil] at hr
  rcases hname with ⟨hn, ht⟩ | ⟨hn, ht⟩ <;> subst hn <;> subst ht
  · refine ⟨_, C07.cmdline_ctor p _ hs hlen, rfl, rfl, rfl, ?_⟩
    intro T v hv hn hT
    refine ⟨?_, hr.1, hr.2.1⟩
    have := text_slice T (mbiHdr 1 (8 + s.toUTF8.data.toList.length + 1)) s.toUTF8.data.toList v
      (8 + s.toUTF8.data.toList.length + 1) (by simp [mbiHdr, enc32_length]) hv (by simpa [mbiHdr, enc32_length] using hn) hT
    simpa [mbiHdr, enc32_length] using this
  · refine ⟨_, C07.loader_ctor p _ hs hlen, rfl, rfl, rfl, ?_⟩
    intro T v hv hn hT
    refine ⟨?_, hr.1, hr.2.1⟩
    have := text_slice T (mbiHdr 2 (8 + s.toUTF8.data.toList.length + 1)) s.toUTF8.data.toList v
      (8 + s.toUTF8.data.toList.length + 1) (by simp [mbiHdr, enc32_length]) hv (by simpa [mbiHdr, enc32_length] using hn) hT
    simpa [mbiHdr, enc32_length] using this

/-- the same for `ModuleTag::new(start, end, s)` with `start < end`: the text sits at offset 16 -/
theorem module_tag_roundtrip (p : Profile) (se : Bytes) (hse : se.length = 8) (hord : le32 se 4 > le32 se 0)
    (s : String) (hs : ∀ b ∈ s.toUTF8.data.toList, b ≠ 0) (hlen : s.toUTF8.data.toList.length < 2^60) :
    ∃ img, ctorImpl p "module" (se ++ s.toUTF8.data.toList) = .ok img ∧ img.typ = 3 ∧
      img.size = 16 + s.toUTF8.data.toList.length + 1 ∧
      img.bytes = mbiHdr 3 img.size ++ se ++ s.toUTF8.data.toList ++ [0] ∧
      ∀ (T : Bytes) (v : View), v.size = img.size → v.n = img.size - 16 → T.take img.size = img.bytes →
        rdSlice (declared T v) 16 v.n = .ok (s.toUTF8.data.toList ++ [0]) ∧
        parseStr (s.toUTF8.data.toList ++ [0]) = .ok s.toUTF8.data.toList.length ∧
        (s.toUTF8.data.toList ++ [0]).take s.toUTF8.data.toList.length = s.toUTF8.data.toList := by
  have hr := roundtrip s [] hs
  rw [hr.2.2, List.append_nil] at hr
  have hd : (se ++ s.toUTF8.data.toList).drop 8 = s.toUTF8.data.toList := by rw [← hse]; exact List.drop_left
  have ht : (se ++ s.toUTF8.data.toList).take 8 = se := by rw [← hse]; exact List.take_left
  have hl : (se ++ s.toUTF8.data.toList).length = 8 + s.toUTF8.data.toList.length := by simp [hse]
  have h4 : le32 (se ++ s.toUTF8.data.toList) 4 = le32 se 4 := by
    unfold le32
    rw [u8At_append_left _ _ 4 (by omega), u8At_append_left _ _ (4+1) (by omega), u8At_append_left _ _ (4+2) (by omega),
        u8At_append_left _ _ (4+3) (by omega)]
  have h0 : le32 (se ++ s.toUTF8.data.toList) 0 = le32 se 0 := by
    unfold le32
    rw [u8At_append_left _ _ 0 (by omega), u8At_append_left _ _ (0+1) (by omega), u8At_append_left _ _ (0+2) (by omega),
        u8At_append_left _ _ (0+3) (by omega)]
  have hm := C07.module_ctor p (se ++ s.toUTF8.data.toList) (by omega) (by rw [hd]; exact hs)
    (by rw [hl]; have : s.toUTF8.data.toList.length < 1152921504606846976 := hlen
        show 8 + s.toUTF8.data.toList.length < 2305843009213693952; omega)
  rw [if_neg (by rw [h4, h0]; omega), hd, ht, hl] at hm
  have e1 : 16 + (8 + s.toUTF8.data.toList.length - 8) + 1 = 16 + s.toUTF8.data.toList.length + 1 := by omega
  rw [e1] at hm
  refine ⟨_, hm, rfl, rfl, rfl, ?_⟩
  intro T v hv hn hT
  refine ⟨?_, hr.1, hr.2.1⟩
  have := text_slice T (mbiHdr 3 (16 + s.toUTF8.data.toList.length + 1) ++ se) s.toUTF8.data.toList v
    (16 + s.toUTF8.data.toList.length + 1) (by simp [mbiHdr, enc32_length, hse]) hv
    (by simpa [mbiHdr, enc32_length, hse] using hn) hT
  simpa [mbiHdr, enc32_length, hse] using this

end Mb2.C17
