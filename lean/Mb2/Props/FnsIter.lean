/-
  Mb2.Props.FnsIter — SOURCE = MODEL (part of the function-body tie, see `Mb2/Props/FnsBase.lean` and `Mb2/Rir.lean`).
  Theorems about terms GENERATED from /repo's working tree by tools/gen_fns.py (`Mb2/Gen/Fns.lean`).
-/

import Mb2.Props.FnsBase
open Mb2 Mb2.Rir

namespace Mb2.Fns

/-- the arithmetic of the model's `tagIterNext`: the new offset, or a panic -/
def nextOffset (p : Profile) (hs pl off len : Nat) : Res Nat := do
  let l ← uadd p W64 hs pl
  let to ← uadd p W64 off l
  let to ← incAlign p to
  let delta ← usub p W64 to off
  let off' ← uadd p W64 off delta
  if off > to then .panic else if to > len then .panic else .ok off'

theorem tag_iter_next_eq (p : Profile) (off len hs pl : Nat) (sl r : V) :
    evalO p [.int .usize off, .int .usize len, .int .usize hs, .int .usize pl, sl, .c1 "Ok" r] Gen.Fns.tag_iter_next =
      some (if off = len then .ok (.pair (.c0 "None") (.int .usize off))
            else if ¬ off < len then .panic
            else (nextOffset p hs pl off len) >>= fun off' => .ok (.pair (.c1 "Some" r) (.int .usize off'))) := by
  have h7 : usub p W64 8 1 = .ok 7 := by simp [usub]
  simp only [evalO, Gen.Fns.tag_iter_next, Option.map]
  by_cases h1 : off = len
  · simp [eval, binop, arith, h1]
  · by_cases h2 : off < len
    · simp [eval, binop, arith, h1, h2, nextOffset, set_other, unop, h7, incAlign, prim1]
      cases ha : uadd p W64 hs pl with
      | ok l =>
        simp
        cases hb : uadd p W64 off l with
        | ok to =>
          simp
          cases hc : uadd p W64 to 7 with
          | ok s =>
            have hs' := uadd_lt p W64 to 7 s (by decide) hc
            simp [and_not7_nat s hs']
            cases hd : usub p W64 (roundDown8 s) off with
            | ok delta =>
              simp
              cases he : uadd p W64 off delta with
              | ok off' =>
                simp
                by_cases h3 : off ≤ roundDown8 s
                · have h3' : ¬ off > roundDown8 s := by omega
                  by_cases h4 : roundDown8 s ≤ len
                  · have h4' : ¬ roundDown8 s > len := by omega
                    simp [h3, h4, h3', h4']
                  · have h4' : roundDown8 s > len := by omega
                    simp [h3, h4, h3', h4']
                · have h3' : off > roundDown8 s := by omega
                  simp [h3, h3']
              | panic => simp
              | oob => rfl
              | ub => rfl
            | panic => simp
            | oob => rfl
            | ub => rfl
          | panic => simp
          | oob => rfl
          | ub => rfl
        | panic => simp
        | oob => rfl
        | ub => rfl
      | panic => simp
      | oob => rfl
      | ub => rfl
    · simp [eval, binop, arith, h1, h2]

/-- `nextOffset` together with the end of the sub-slice -/
def nextToOff (p : Profile) (hs pl off len : Nat) : Res (Nat × Nat) := do
  let l ← uadd p W64 hs pl
  let to ← uadd p W64 off l
  let to ← incAlign p to
  let delta ← usub p W64 to off
  let off' ← uadd p W64 off delta
  if off > to then .panic else if to > len then .panic else .ok (to, off')

theorem nextOffset_eq (p : Profile) (hs pl off len : Nat) :
    nextOffset p hs pl off len = (nextToOff p hs pl off len) >>= fun r => .ok r.2 := by
  unfold nextOffset nextToOff
  cases uadd p W64 hs pl <;> simp
  rename_i l
  cases uadd p W64 off l <;> simp
  rename_i to
  cases incAlign p to <;> simp
  rename_i to'
  cases usub p W64 to' off <;> simp
  rename_i d
  cases uadd p W64 off d <;> simp
  repeat' split
  all_goals rfl

/-- the model's `TagIter::next` IS this arithmetic followed by `ref_from_slice` on the sub-slice -/
theorem tagIterNext_eq (p : Profile) (k : HK) (buf : Bytes) (off : Nat) :
    tagIterNext p k buf off =
      if off = buf.length then .ok none
      else if ¬ off < buf.length then .panic
      else (do
        let _ ← rd32 buf off
        let size ← rd32 buf (off + 4)
        let pl ← payloadLen p k size
        let r ← nextToOff p k.hsize pl off buf.length
        match ← refFromSlice p k off (slice buf off (r.1 - off)) with
        | .error _ => .panic
        | .ok pl' => .ok (some (⟨off, tagTyp k buf off, size, pl'⟩, r.2))) := by
  unfold tagIterNext nextToOff
  split
  · rfl
  · split
    · rfl
    · cases rd32 buf off <;> simp
      cases rd32 buf (off + 4) <;> simp
      rename_i size
      cases payloadLen p k size <;> simp
      rename_i pl
      cases uadd p W64 k.hsize pl <;> simp
      rename_i l
      cases uadd p W64 off l <;> simp
      rename_i to
      cases incAlign p to <;> simp
      rename_i to'
      cases usub p W64 to' off <;> simp
      rename_i d
      cases uadd p W64 off d <;> simp
      split
      · simp
      · split
        · simp
        · rfl
end Mb2.Fns
